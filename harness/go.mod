module github.com/bufbuild/protocompile/experimental/verifharness

go 1.25.6

require (
	github.com/bufbuild/protocompile v0.0.0
	google.golang.org/protobuf v1.36.11
)

require (
	github.com/rivo/uniseg v0.4.7 // indirect
	github.com/tidwall/btree v1.8.1 // indirect
	golang.org/x/exp v0.0.0-20250911091902-df9299821621 // indirect
	golang.org/x/sync v0.20.0 // indirect
)

replace github.com/bufbuild/protocompile => /repo
