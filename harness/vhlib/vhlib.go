// Package vhlib is the shared main loop of the harness binaries: one JSON object per line in,
// one JSON object per line out. A panic inside a case is an observable ({"panic": "..."}).
package vhlib

import (
	"bufio"
	"encoding/hex"
	"encoding/json"
	"fmt"
	"os"
)

type CaseFn func(in map[string]any) (out map[string]any)

func runCase(fn CaseFn, in map[string]any) (out map[string]any) {
	defer func() {
		if r := recover(); r != nil {
			out = map[string]any{"panic": fmt.Sprint(r)}
		}
	}()
	return fn(in)
}

// Main reads cases from stdin and answers on stdout until EOF.
func Main(fn CaseFn) {
	rd := bufio.NewReaderSize(os.Stdin, 1<<20)
	wr := bufio.NewWriterSize(os.Stdout, 1<<20)
	defer wr.Flush()
	dec := json.NewDecoder(rd)
	dec.UseNumber()
	enc := json.NewEncoder(wr)
	for dec.More() {
		var in map[string]any
		if err := dec.Decode(&in); err != nil {
			fmt.Fprintln(os.Stderr, "bad input:", err)
			os.Exit(2)
		}
		out := runCase(fn, in)
		if err := enc.Encode(out); err != nil {
			fmt.Fprintln(os.Stderr, "encode:", err)
			os.Exit(2)
		}
		wr.Flush()
	}
}

func Str(in map[string]any, k string) string {
	v, _ := in[k].(string)
	return v
}

func Bool(in map[string]any, k string) bool {
	v, _ := in[k].(bool)
	return v
}

func Num(in map[string]any, k string) int64 {
	switch v := in[k].(type) {
	case json.Number:
		n, err := v.Int64()
		if err != nil {
			panic(fmt.Sprintf("bad number %s=%v", k, v))
		}
		return n
	case float64:
		return int64(v)
	}
	return 0
}

func Unhex(s string) []byte {
	b, err := hex.DecodeString(s)
	if err != nil {
		panic("bad hex: " + s)
	}
	return b
}

func Hx(b []byte) string { return hex.EncodeToString(b) }

func Strs(in map[string]any, k string) []string {
	arr, _ := in[k].([]any)
	out := make([]string, len(arr))
	for i, a := range arr {
		out[i], _ = a.(string)
	}
	return out
}

func AnyNum(a any) int64 {
	switch v := a.(type) {
	case json.Number:
		n, _ := v.Int64()
		return n
	case float64:
		return int64(v)
	}
	return 0
}

func Nums(in map[string]any, k string) []int64 {
	arr, _ := in[k].([]any)
	out := make([]int64, len(arr))
	for i, a := range arr {
		out[i] = AnyNum(a)
	}
	return out
}

// List returns in[k] as a list of arbitrary JSON values.
func List(in map[string]any, k string) []any {
	arr, _ := in[k].([]any)
	return arr
}
