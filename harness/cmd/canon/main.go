// Harness family canon (C36): runs the real report.Report.Canonicalize on generated diagnostic
// lists, and the real experimental compiler (incremental.Run of queries.Link) on generated
// workspaces with a given parallelism, repeatedly.
//
// modes:
//
//	canon:   files + diags -> ids after Canonicalize with KeepDuplicates (sorted), without (out),
//	         and after canonicalising the result once more (twice)
//	cmp:     two diagnostics a, b -> how the real sort orders them: -1, 0 (kept in input order both
//	         ways), 1
//	compile: files + workspace + par + reps -> rendered report and element-wise dump of every run
package main

import (
	"context"
	"encoding/json"
	"fmt"
	"strconv"
	"time"

	"github.com/bufbuild/protocompile/experimental/incremental"
	"github.com/bufbuild/protocompile/experimental/incremental/queries"
	"github.com/bufbuild/protocompile/experimental/ir"
	"github.com/bufbuild/protocompile/experimental/report"
	"github.com/bufbuild/protocompile/experimental/source"
	"github.com/bufbuild/protocompile/experimental/verifharness/vhlib"
)

func main() { vhlib.Main(canonCase) }

func obj(a any) map[string]any {
	m, _ := a.(map[string]any)
	return m
}

func hs(m map[string]any, k string) string { return string(vhlib.Unhex(vhlib.Str(m, k))) }

func buildDiag(files []*source.File, dm map[string]any) report.Diagnostic {
	v := report.VerifDiagnostic{
		Tag: hs(dm, "tag"), Message: hs(dm, "msg"), Level: int(vhlib.Num(dm, "level")),
		SortOrder: int(vhlib.Num(dm, "sort")),
		// zero-padded: the string order of the notes is the numeric order of the ids
		Notes: []string{fmt.Sprintf("%08d", vhlib.Num(dm, "id"))},
	}
	if vhlib.Bool(dm, "decoy") && len(files) > 0 {
		// a non-primary snippet in front of the primary one: Primary() must skip it
		v.Snippets = append(v.Snippets, report.VerifSnippet{File: files[0], Start: 7, End: 9, Message: "decoy"})
	}
	if p := obj(dm["prim"]); p != nil {
		var f *source.File
		if fi := vhlib.Num(p, "file"); fi >= 0 {
			f = files[fi]
		}
		v.Snippets = append(v.Snippets, report.VerifSnippet{
			File: f, Start: int(vhlib.Num(p, "start")), End: int(vhlib.Num(p, "end")), Primary: true,
		})
	}
	return report.VerifNewDiagnostic(v)
}

func ids(ds []report.Diagnostic) (out []int64, levels []int) {
	out = []int64{}
	levels = []int{}
	for k := range ds {
		v := report.VerifViewDiagnostic(&ds[k])
		n, _ := strconv.ParseInt(v.Notes[0], 10, 64)
		out = append(out, n)
		levels = append(levels, v.Level)
	}
	return out, levels
}

func buildFiles(in map[string]any) []*source.File {
	var files []*source.File
	for _, f := range vhlib.List(in, "files") {
		fm := obj(f)
		files = append(files, source.NewFile(hs(fm, "path"), "0123456789abcdef"))
	}
	return files
}

func canonRun(files []*source.File, diags []any, keep bool) *report.Report {
	r := &report.Report{Options: report.Options{KeepDuplicates: keep}}
	for _, d := range diags {
		r.Diagnostics = append(r.Diagnostics, buildDiag(files, obj(d)))
	}
	r.Canonicalize()
	return r
}

type view struct {
	Path               string
	Sort, Start, End   int
	Tag, Msg           string
	Level              int
	InFile             string
	Snippets           []string
	Notes, Help, Debug []string
}

func viewOf(d *report.Diagnostic) view {
	v := report.VerifViewDiagnostic(d)
	p := d.Primary()
	out := view{
		Path: p.Path(), Sort: v.SortOrder, Start: p.Start, End: p.End, Tag: v.Tag, Msg: v.Message, Level: v.Level,
		InFile: v.InFile, Notes: v.Notes, Help: v.Help, Debug: v.Debug,
	}
	for _, s := range v.Snippets {
		out.Snippets = append(out.Snippets, fmt.Sprintf("%s:%d:%d:%q:%v:%v:%v", s.File.Path(), s.Start, s.End, s.Message, s.Primary, s.PageBreak, s.Edits))
	}
	return out
}

// dump returns one JSON string per diagnostic (debug text left out: an ICE stores a stack trace with
// addresses there) and the six sort keys of each.
func dump(r *report.Report) (full []string, keys []string, ice bool) {
	full, keys = []string{}, []string{}
	for k := range r.Diagnostics {
		v := viewOf(&r.Diagnostics[k])
		if v.Level == int(report.ICE) {
			ice = true
		}
		v.Debug = nil
		b, _ := json.Marshal(v)
		full = append(full, string(b))
		kb, _ := json.Marshal([]any{v.Path, v.Sort, v.Start, v.End, v.Tag, v.Msg})
		keys = append(keys, string(kb))
	}
	return full, keys, ice
}

func compileOnce(exec *incremental.Executor, session *ir.Session, opener source.Opener, ws source.Workspace) (*report.Report, string) {
	ctx, cancel := context.WithTimeout(context.Background(), 60*time.Second)
	defer cancel()
	_, r, err := incremental.Run(ctx, exec, queries.Link{Opener: opener, Session: session, Workspace: ws})
	if err != nil {
		return nil, "run-error: " + err.Error()
	}
	if r == nil {
		return nil, "nil-report"
	}
	return r, ""
}

func canonCase(in map[string]any) map[string]any {
	switch vhlib.Str(in, "mode") {
	case "canon":
		files := buildFiles(in)
		diags := vhlib.List(in, "diags")
		sorted, sl := ids(canonRun(files, diags, true).Diagnostics)
		r := canonRun(files, diags, false)
		out, ol := ids(r.Diagnostics)
		r.Canonicalize()
		twice, tl := ids(r.Diagnostics)
		return map[string]any{"sorted": sorted, "sorted_levels": sl, "out": out, "out_levels": ol, "twice": twice, "twice_levels": tl}
	case "cmp":
		files := buildFiles(in)
		a, b := in["a"], in["b"]
		ab, _ := ids(canonRun(files, []any{a, b}, true).Diagnostics)
		ba, _ := ids(canonRun(files, []any{b, a}, true).Diagnostics)
		ida := vhlib.Num(obj(a), "id")
		switch {
		case ab[0] == ida && ba[0] == ida:
			return map[string]any{"c": -1}
		case ab[0] != ida && ba[0] != ida:
			return map[string]any{"c": 1}
		case ab[0] == ida && ba[0] != ida:
			return map[string]any{"c": 0} // kept in input order both ways
		}
		return map[string]any{"c": 99} // swapped both ways: not a sort of two elements
	case "compile":
		m := map[string]*source.File{}
		for _, f := range vhlib.List(in, "files") {
			fm := obj(f)
			m[vhlib.Str(fm, "path")] = source.NewFile(vhlib.Str(fm, "path"), vhlib.Str(fm, "text"))
		}
		var opener source.Opener = &source.Openers{source.NewMap(m), source.WKTs()}
		ws := source.NewWorkspace(vhlib.Strs(in, "workspace")...)
		par := vhlib.Num(in, "par")
		reps := int(vhlib.Num(in, "reps"))
		res := map[string]any{}
		var render0 string
		var full0, keys0 []string
		diffs := []any{}
		ice := false
		reruns := []any{}
		for k := 0; k < reps; k++ {
			exec := incremental.New(incremental.WithParallelism(par))
			session := new(ir.Session)
			r, e := compileOnce(exec, session, opener, ws)
			if e != "" {
				return map[string]any{"err": e, "rep": k}
			}
			text, _, _ := report.Renderer{ShowRemarks: true}.RenderString(r)
			full, keys, i := dump(r)
			ice = ice || i
			if k == 0 {
				render0, full0, keys0 = text, full, keys
				// The same queries again on the SAME executor and session (every task is a cache hit,
				// nothing is evicted), three more times, with other Runs in between: one that shares
				// tasks with the workspace (the AST of its first file) and one that does not.
				paths := ws.Paths()
				for step := 1; step <= 3; step++ {
					switch step {
					case 2:
						ctx, cancel := context.WithTimeout(context.Background(), 60*time.Second)
						_, _, _ = incremental.Run(ctx, exec, queries.File{Opener: opener, Path: "google/protobuf/any.proto", ReportError: true})
						cancel()
					case 3:
						if len(paths) > 0 {
							ctx, cancel := context.WithTimeout(context.Background(), 60*time.Second)
							_, _, _ = incremental.Run(ctx, exec, queries.AST{Opener: opener, Path: paths[0]})
							cancel()
						}
					}
					r2, e2 := compileOnce(exec, session, opener, ws)
					if e2 != "" {
						return map[string]any{"err": e2, "rep": -step}
					}
					text2, _, _ := report.Renderer{ShowRemarks: true}.RenderString(r2)
					full2, _, _ := dump(r2)
					if text2 != text || fmt.Sprint(full2) != fmt.Sprint(full) {
						reruns = append(reruns, map[string]any{"run": step + 1, "render": text2, "full": full2})
					}
				}
				continue
			}
			if text != render0 || fmt.Sprint(full) != fmt.Sprint(full0) {
				diffs = append(diffs, map[string]any{"rep": k, "render": text, "full": full})
			}
		}
		// adjacent diagnostics that agree on all six sort keys
		tiesSame, tiesDistinct := 0, 0
		var tieExample []string
		for k := 1; k < len(keys0); k++ {
			if keys0[k] == keys0[k-1] {
				if full0[k] == full0[k-1] {
					tiesSame++
				} else {
					tiesDistinct++
					if tieExample == nil {
						tieExample = []string{full0[k-1], full0[k]}
					}
				}
			}
		}
		res["render"] = render0
		res["full"] = full0
		res["diffs"] = diffs
		res["reruns"] = reruns
		res["ties_identical"] = tiesSame
		res["ties_distinct"] = tiesDistinct
		res["tie_example"] = tieExample
		res["ice"] = ice
		res["n"] = len(full0)
		return res
	case "synth":
		return synthCase(in)
	case "synthhist":
		return synthHistCase(in)
	case "compilehist":
		return compileHistCase(in)
	}
	return map[string]any{"crash": "unknown mode"}
}

// ---- synthetic query graphs: every node reports some diagnostics of its own and depends on others ----

type synNode struct {
	n     int
	level int
	deps  []string
}

type synGraph struct{ nodes map[string]synNode }

// synQ is a query for one node of a graph; comparable (pointer + string).
type synQ struct {
	G    *synGraph
	Name string
}

func (q synQ) Key() any { return q }

func (q synQ) Execute(t *incremental.Task) (int, error) {
	nd := q.G.nodes[q.Name]
	half := nd.n / 2
	for i := 0; i < half; i++ { // some before the dependencies are resolved, the rest after
		t.Report().Levelf(report.Level(nd.level), "%s-%d", q.Name, i).Apply(report.InFile(q.Name))
	}
	deps := make([]incremental.Query[int], 0, len(nd.deps))
	for _, d := range nd.deps {
		deps = append(deps, synQ{q.G, d})
	}
	if len(deps) > 0 {
		if _, err := incremental.Resolve(t, deps...); err != nil {
			return 0, err
		}
	}
	for i := half; i < nd.n; i++ {
		t.Report().Levelf(report.Level(nd.level), "%s-%d", q.Name, i).Apply(report.InFile(q.Name))
	}
	return nd.n, nil
}

func synMessages(r *report.Report) []string {
	out := []string{}
	for i := range r.Diagnostics {
		d := &r.Diagnostics[i]
		out = append(out, fmt.Sprintf("%d|%s|%s", int(d.Level()), d.File(), d.Message()))
	}
	return out
}

func synRun(exec *incremental.Executor, g *synGraph, roots []string) ([]string, string) {
	qs := make([]incremental.Query[int], 0, len(roots))
	for _, r := range roots {
		qs = append(qs, synQ{g, r})
	}
	ctx, cancel := context.WithTimeout(context.Background(), 60*time.Second)
	defer cancel()
	_, r, err := incremental.Run(ctx, exec, qs...)
	if err != nil || r == nil {
		return nil, fmt.Sprint("run-error: ", err)
	}
	return synMessages(r), ""
}

// synthCase: nodes [{name, n, level, deps}], roots, other (roots of an unrelated second graph over the
// same node table), par. One fresh-executor reference run, then on ONE executor: run, run, other, run.
func synthCase(in map[string]any) map[string]any {
	g := &synGraph{nodes: map[string]synNode{}}
	for _, n := range vhlib.List(in, "nodes") {
		nm := obj(n)
		g.nodes[vhlib.Str(nm, "name")] = synNode{n: int(vhlib.Num(nm, "n")), level: int(vhlib.Num(nm, "level")), deps: vhlib.Strs(nm, "deps")}
	}
	roots := vhlib.Strs(in, "roots")
	other := vhlib.Strs(in, "other")
	par := vhlib.Num(in, "par")
	ref, e := synRun(incremental.New(incremental.WithParallelism(par)), g, roots)
	if e != "" {
		return map[string]any{"err": e}
	}
	exec := incremental.New(incremental.WithParallelism(par))
	runs := []any{}
	for step := 1; step <= 4; step++ {
		if step == 3 && len(other) > 0 {
			if _, e := synRun(exec, g, other); e != "" {
				return map[string]any{"err": e}
			}
		}
		got, e := synRun(exec, g, roots)
		if e != "" {
			return map[string]any{"err": e}
		}
		runs = append(runs, got)
	}
	return map[string]any{"ref": ref, "runs": runs}
}

// synthHistCase: a HISTORY of Runs on one executor over one node table. history = [{roots, evict}]:
// at every step the listed keys are evicted first (if any), then Run(roots) on the warm executor
// and, for reference, the same Run(roots) on a fresh executor. What a Run reports must not depend
// on what the executor had memoised before (every diagnostic message is distinct, so the
// canonical order is unique).
func synthHistCase(in map[string]any) map[string]any {
	g := &synGraph{nodes: map[string]synNode{}}
	for _, n := range vhlib.List(in, "nodes") {
		nm := obj(n)
		g.nodes[vhlib.Str(nm, "name")] = synNode{n: int(vhlib.Num(nm, "n")), level: int(vhlib.Num(nm, "level")), deps: vhlib.Strs(nm, "deps")}
	}
	par := vhlib.Num(in, "par")
	exec := incremental.New(incremental.WithParallelism(par))
	steps := []any{}
	for _, h := range vhlib.List(in, "history") {
		hm := obj(h)
		roots := vhlib.Strs(hm, "roots")
		if ev := vhlib.Strs(hm, "evict"); len(ev) > 0 {
			keys := make([]any, 0, len(ev))
			for _, nm := range ev {
				keys = append(keys, synQ{g, nm}.Key())
			}
			exec.Evict(keys...)
		}
		warm, e := synRun(exec, g, roots)
		if e != "" {
			return map[string]any{"err": e}
		}
		fresh, e := synRun(incremental.New(incremental.WithParallelism(par)), g, roots)
		if e != "" {
			return map[string]any{"err": e}
		}
		steps = append(steps, map[string]any{"warm": warm, "fresh": fresh})
	}
	return map[string]any{"steps": steps}
}

// histRun runs one step of a compile history: kind "link" = one Link query over the paths,
// kind "ir" = one IR query per path (several roots).
func histRun(exec *incremental.Executor, session *ir.Session, opener source.Opener, kind string, paths []string) (*report.Report, string) {
	if kind == "link" {
		return compileOnce(exec, session, opener, source.NewWorkspace(paths...))
	}
	qs := make([]incremental.Query[*ir.File], 0, len(paths))
	for _, p := range paths {
		qs = append(qs, queries.IR{Opener: opener, Session: session, Path: p})
	}
	ctx, cancel := context.WithTimeout(context.Background(), 60*time.Second)
	defer cancel()
	_, r, err := incremental.Run(ctx, exec, qs...)
	if err != nil {
		return nil, "run-error: " + err.Error()
	}
	if r == nil {
		return nil, "nil-report"
	}
	return r, ""
}

// compileHistCase: files, par, history = [{kind, paths, evict}]. One executor and one session for the
// whole history; every step is also run on a fresh executor with a fresh session. Returns for
// every step the rendered report and the element-wise dump of both.
func compileHistCase(in map[string]any) map[string]any {
	m := map[string]*source.File{}
	for _, f := range vhlib.List(in, "files") {
		fm := obj(f)
		m[vhlib.Str(fm, "path")] = source.NewFile(vhlib.Str(fm, "path"), vhlib.Str(fm, "text"))
	}
	var opener source.Opener = &source.Openers{source.NewMap(m), source.WKTs()}
	par := vhlib.Num(in, "par")
	exec := incremental.New(incremental.WithParallelism(par))
	session := new(ir.Session)
	steps := []any{}
	ndiag := 0
	for k, h := range vhlib.List(in, "history") {
		hm := obj(h)
		kind := vhlib.Str(hm, "kind")
		paths := vhlib.Strs(hm, "paths")
		if ev := vhlib.Strs(hm, "evict"); len(ev) > 0 {
			keys := make([]any, 0, len(ev))
			for _, p := range ev {
				keys = append(keys, queries.File{Opener: opener, Path: p}.Key())
			}
			exec.Evict(keys...)
		}
		rw, e := histRun(exec, session, opener, kind, paths)
		if e != "" {
			return map[string]any{"err": e, "step": k}
		}
		rf, e := histRun(incremental.New(incremental.WithParallelism(par)), new(ir.Session), opener, kind, paths)
		if e != "" {
			return map[string]any{"err": e, "step": k}
		}
		tw, _, _ := report.Renderer{ShowRemarks: true}.RenderString(rw)
		tf, _, _ := report.Renderer{ShowRemarks: true}.RenderString(rf)
		fw, _, _ := dump(rw)
		ff, _, _ := dump(rf)
		ndiag += len(ff)
		st := map[string]any{"same": tw == tf && fmt.Sprint(fw) == fmt.Sprint(ff), "n": len(ff)}
		if !(tw == tf && fmt.Sprint(fw) == fmt.Sprint(ff)) {
			st["warm_render"], st["fresh_render"], st["warm_full"], st["fresh_full"] = tw, tf, fw, ff
		}
		steps = append(steps, st)
	}
	return map[string]any{"steps": steps, "n": ndiag}
}
