// Harness family canon (C36): runs the real report.Report.Canonicalize on generated diagnostic
// lists, and the real experimental compiler (incremental.Run of queries.Link) on generated
// workspaces with a given parallelism, repeatedly.
//
// modes:
//
//	canon:   files + diags -> ids after Canonicalize with KeepDuplicates (sorted), without (out),
//	         and after canonicalising the result once more (twice)
//	cmp:     two diagnostics a, b -> how the real sort orders them: -1, 0 (kept in input order both
//	         ways), 1
//	compile: files + workspace + par + reps -> rendered report and element-wise dump of every run
package main

import (
	"context"
	"encoding/json"
	"fmt"
	"strconv"
	"time"

	"github.com/bufbuild/protocompile/experimental/incremental"
	"github.com/bufbuild/protocompile/experimental/incremental/queries"
	"github.com/bufbuild/protocompile/experimental/ir"
	"github.com/bufbuild/protocompile/experimental/report"
	"github.com/bufbuild/protocompile/experimental/source"
	"github.com/bufbuild/protocompile/experimental/verifharness/vhlib"
)

func main() { vhlib.Main(canonCase) }

func obj(a any) map[string]any {
	m, _ := a.(map[string]any)
	return m
}

func hs(m map[string]any, k string) string { return string(vhlib.Unhex(vhlib.Str(m, k))) }

func buildDiag(files []*source.File, dm map[string]any) report.Diagnostic {
	v := report.VerifDiagnostic{
		Tag: hs(dm, "tag"), Message: hs(dm, "msg"), Level: int(vhlib.Num(dm, "level")),
		SortOrder: int(vhlib.Num(dm, "sort")),
		// zero-padded: the string order of the notes is the numeric order of the ids
		Notes: []string{fmt.Sprintf("%08d", vhlib.Num(dm, "id"))},
	}
	if vhlib.Bool(dm, "decoy") && len(files) > 0 {
		// a non-primary snippet in front of the primary one: Primary() must skip it
		v.Snippets = append(v.Snippets, report.VerifSnippet{File: files[0], Start: 7, End: 9, Message: "decoy"})
	}
	if p := obj(dm["prim"]); p != nil {
		var f *source.File
		if fi := vhlib.Num(p, "file"); fi >= 0 {
			f = files[fi]
		}
		v.Snippets = append(v.Snippets, report.VerifSnippet{
			File: f, Start: int(vhlib.Num(p, "start")), End: int(vhlib.Num(p, "end")), Primary: true,
		})
	}
	return report.VerifNewDiagnostic(v)
}

func ids(ds []report.Diagnostic) (out []int64, levels []int) {
	out = []int64{}
	levels = []int{}
	for k := range ds {
		v := report.VerifViewDiagnostic(&ds[k])
		n, _ := strconv.ParseInt(v.Notes[0], 10, 64)
		out = append(out, n)
		levels = append(levels, v.Level)
	}
	return out, levels
}

func buildFiles(in map[string]any) []*source.File {
	var files []*source.File
	for _, f := range vhlib.List(in, "files") {
		fm := obj(f)
		files = append(files, source.NewFile(hs(fm, "path"), "0123456789abcdef"))
	}
	return files
}

func canonRun(files []*source.File, diags []any, keep bool) *report.Report {
	r := &report.Report{Options: report.Options{KeepDuplicates: keep}}
	for _, d := range diags {
		r.Diagnostics = append(r.Diagnostics, buildDiag(files, obj(d)))
	}
	r.Canonicalize()
	return r
}

type view struct {
	Path               string
	Sort, Start, End   int
	Tag, Msg           string
	Level              int
	InFile             string
	Snippets           []string
	Notes, Help, Debug []string
}

func viewOf(d *report.Diagnostic) view {
	v := report.VerifViewDiagnostic(d)
	p := d.Primary()
	out := view{
		Path: p.Path(), Sort: v.SortOrder, Start: p.Start, End: p.End, Tag: v.Tag, Msg: v.Message, Level: v.Level,
		InFile: v.InFile, Notes: v.Notes, Help: v.Help, Debug: v.Debug,
	}
	for _, s := range v.Snippets {
		out.Snippets = append(out.Snippets, fmt.Sprintf("%s:%d:%d:%q:%v:%v:%v", s.File.Path(), s.Start, s.End, s.Message, s.Primary, s.PageBreak, s.Edits))
	}
	return out
}

// dump returns one JSON string per diagnostic (debug text left out: an ICE stores a stack trace with
// addresses there) and the six sort keys of each.
func dump(r *report.Report) (full []string, keys []string, ice bool) {
	full, keys = []string{}, []string{}
	for k := range r.Diagnostics {
		v := viewOf(&r.Diagnostics[k])
		if v.Level == int(report.ICE) {
			ice = true
		}
		v.Debug = nil
		b, _ := json.Marshal(v)
		full = append(full, string(b))
		kb, _ := json.Marshal([]any{v.Path, v.Sort, v.Start, v.End, v.Tag, v.Msg})
		keys = append(keys, string(kb))
	}
	return full, keys, ice
}

func compileOnce(exec *incremental.Executor, opener source.Opener, ws source.Workspace) (*report.Report, string) {
	ctx, cancel := context.WithTimeout(context.Background(), 60*time.Second)
	defer cancel()
	_, r, err := incremental.Run(ctx, exec, queries.Link{Opener: opener, Session: new(ir.Session), Workspace: ws})
	if err != nil {
		return nil, "run-error: " + err.Error()
	}
	if r == nil {
		return nil, "nil-report"
	}
	return r, ""
}

func canonCase(in map[string]any) map[string]any {
	switch vhlib.Str(in, "mode") {
	case "canon":
		files := buildFiles(in)
		diags := vhlib.List(in, "diags")
		sorted, sl := ids(canonRun(files, diags, true).Diagnostics)
		r := canonRun(files, diags, false)
		out, ol := ids(r.Diagnostics)
		r.Canonicalize()
		twice, tl := ids(r.Diagnostics)
		return map[string]any{"sorted": sorted, "sorted_levels": sl, "out": out, "out_levels": ol, "twice": twice, "twice_levels": tl}
	case "cmp":
		files := buildFiles(in)
		a, b := in["a"], in["b"]
		ab, _ := ids(canonRun(files, []any{a, b}, true).Diagnostics)
		ba, _ := ids(canonRun(files, []any{b, a}, true).Diagnostics)
		ida := vhlib.Num(obj(a), "id")
		switch {
		case ab[0] == ida && ba[0] == ida:
			return map[string]any{"c": -1}
		case ab[0] != ida && ba[0] != ida:
			return map[string]any{"c": 1}
		case ab[0] == ida && ba[0] != ida:
			return map[string]any{"c": 0} // kept in input order both ways
		}
		return map[string]any{"c": 99} // swapped both ways: not a sort of two elements
	case "compile":
		m := map[string]*source.File{}
		for _, f := range vhlib.List(in, "files") {
			fm := obj(f)
			m[vhlib.Str(fm, "path")] = source.NewFile(vhlib.Str(fm, "path"), vhlib.Str(fm, "text"))
		}
		var opener source.Opener = &source.Openers{source.NewMap(m), source.WKTs()}
		ws := source.NewWorkspace(vhlib.Strs(in, "workspace")...)
		par := vhlib.Num(in, "par")
		reps := int(vhlib.Num(in, "reps"))
		res := map[string]any{}
		var render0 string
		var full0, keys0 []string
		diffs := []any{}
		ice := false
		for k := 0; k < reps; k++ {
			exec := incremental.New(incremental.WithParallelism(par))
			r, e := compileOnce(exec, opener, ws)
			if e != "" {
				return map[string]any{"err": e, "rep": k}
			}
			text, _, _ := report.Renderer{ShowRemarks: true}.RenderString(r)
			full, keys, i := dump(r)
			ice = ice || i
			if k == 0 {
				render0, full0, keys0 = text, full, keys
				// a second Run on the same executor (everything cached) must report the same
				r2, e2 := compileOnce(exec, opener, ws)
				if e2 != "" {
					return map[string]any{"err": e2, "rep": -1}
				}
				text2, _, _ := report.Renderer{ShowRemarks: true}.RenderString(r2)
				full2, _, _ := dump(r2)
				if text2 != text || fmt.Sprint(full2) != fmt.Sprint(full) {
					diffs = append(diffs, map[string]any{"rep": "cached-rerun", "render": text2, "full": full2})
				}
				continue
			}
			if text != render0 || fmt.Sprint(full) != fmt.Sprint(full0) {
				diffs = append(diffs, map[string]any{"rep": k, "render": text, "full": full})
			}
		}
		// adjacent diagnostics that agree on all six sort keys
		tiesSame, tiesDistinct := 0, 0
		var tieExample []string
		for k := 1; k < len(keys0); k++ {
			if keys0[k] == keys0[k-1] {
				if full0[k] == full0[k-1] {
					tiesSame++
				} else {
					tiesDistinct++
					if tieExample == nil {
						tieExample = []string{full0[k-1], full0[k]}
					}
				}
			}
		}
		res["render"] = render0
		res["full"] = full0
		res["diffs"] = diffs
		res["ties_identical"] = tiesSame
		res["ties_distinct"] = tiesDistinct
		res["tie_example"] = tieExample
		res["ice"] = ice
		res["n"] = len(full0)
		return res
	}
	return map[string]any{"crash": "unknown mode"}
}
