// Harness family "clone" (property C24): parses a generated .proto file, builds the parse result,
// clones it with the real parser.Clone and reports, for every message of the descriptor proto
// (generic reflective walk, so no element kind can be forgotten here), which AST node the original
// and the clone return for it.
//
// in:  name, text, mode:
//
//	"ast"           parser.ResultFromAST result (the package's own implementation)
//	"wrapped"       the same result behind a foreign Result implementation (Clone re-creates it from the AST)
//	"noast"         parser.ResultWithoutAST of the descriptor
//	"compile_noast" the descriptor is handed to protocompile.Compiler as
//	                SearchResult{ParseResult: parser.ResultWithoutAST(fd)}; out: compile ok|error|panic, message
//
// out: elems [[path, kind, origAddr, cloneAddr, origNode, cloneNode, origExts, cloneExts]...]
//
//	path       field-number path from the file (list index after the number)
//	kind       message type name
//	addr       name of the Go pointer (first-seen order; original walked first)
//	node       name of the AST node returned by Result.Node (-1 = nil; first-seen order)
//	exts       for extension ranges: Result.ExtensionsNode (the enclosing extensions statement)
//
//	node_kinds Go type and first/last token of every node name
//	typed      panics of the typed accessors on the clone ([[path, accessor, message]...])
//	equal, bytes_equal      proto.Equal / deterministic bytes of clone vs original
//	shared_ptrs             message pointers reachable from both descriptors
//	cross_orig, cross_clone number of clone messages known to the original's index / vice versa
//	orig_after_mutation     original's bytes unchanged after every field of the clone was mutated in place
//	clone_after_mutation    a second clone's bytes unchanged after the original was mutated in place
//	same_ast                clone.AST() == orig.AST()
package main

import (
	"context"
	"errors"
	"fmt"
	"strings"

	"github.com/bufbuild/protocompile"
	"github.com/bufbuild/protocompile/ast"
	"github.com/bufbuild/protocompile/experimental/verifharness/vhlib"
	"github.com/bufbuild/protocompile/parser"
	"github.com/bufbuild/protocompile/reporter"
	"google.golang.org/protobuf/proto"
	"google.golang.org/protobuf/reflect/protoreflect"
	"google.golang.org/protobuf/reflect/protoregistry"
	"google.golang.org/protobuf/types/descriptorpb"
)

func main() { vhlib.Main(cloneCase) }

type foreign struct{ parser.Result }

type interner struct {
	ids   map[any]int
	kinds []string
}

func (t *interner) of(p any) int {
	if p == nil {
		return -1
	}
	if id, ok := t.ids[p]; ok {
		return id
	}
	id := len(t.ids)
	t.ids[p] = id
	if n, ok := p.(ast.Node); ok {
		t.kinds = append(t.kinds, nodeSig(n))
	} else {
		t.kinds = append(t.kinds, fmt.Sprintf("%T", p))
	}
	return id
}

func nodeID(t *interner, n ast.Node) int {
	if n == nil {
		return -1
	}
	return t.of(n)
}

func safeNode(f func() ast.Node) (n ast.Node, panicked string) {
	defer func() {
		if r := recover(); r != nil {
			n, panicked = nil, fmt.Sprint(r)
		}
	}()
	return f(), ""
}

type walker struct {
	orig, clone parser.Result
	addrs       *interner
	nodes       *interner
	elems       []any
	typed       []any
	origMsgs    []proto.Message
	cloneMsgs   []proto.Message
}

func (w *walker) typedAccessor(path string, c proto.Message) {
	var name string
	var f func() ast.Node
	switch m := c.(type) {
	case *descriptorpb.FileDescriptorProto:
		name, f = "FileNode", func() ast.Node { return w.clone.FileNode() }
	case *descriptorpb.UninterpretedOption:
		name, f = "OptionNode", func() ast.Node { return w.clone.OptionNode(m) }
	case *descriptorpb.UninterpretedOption_NamePart:
		name, f = "OptionNamePartNode", func() ast.Node { return w.clone.OptionNamePartNode(m) }
	case *descriptorpb.DescriptorProto:
		name, f = "MessageNode", func() ast.Node { return w.clone.MessageNode(m) }
	case *descriptorpb.FieldDescriptorProto:
		name, f = "FieldNode", func() ast.Node { return w.clone.FieldNode(m) }
	case *descriptorpb.OneofDescriptorProto:
		name, f = "OneofNode", func() ast.Node { return w.clone.OneofNode(m) }
	case *descriptorpb.DescriptorProto_ExtensionRange:
		name, f = "ExtensionRangeNode", func() ast.Node { return w.clone.ExtensionRangeNode(m) }
	case *descriptorpb.DescriptorProto_ReservedRange:
		name, f = "MessageReservedRangeNode", func() ast.Node { return w.clone.MessageReservedRangeNode(m) }
	case *descriptorpb.EnumDescriptorProto:
		name, f = "EnumNode", func() ast.Node { return w.clone.EnumNode(m) }
	case *descriptorpb.EnumValueDescriptorProto:
		name, f = "EnumValueNode", func() ast.Node { return w.clone.EnumValueNode(m) }
	case *descriptorpb.EnumDescriptorProto_EnumReservedRange:
		name, f = "EnumReservedRangeNode", func() ast.Node { return w.clone.EnumReservedRangeNode(m) }
	case *descriptorpb.ServiceDescriptorProto:
		name, f = "ServiceNode", func() ast.Node { return w.clone.ServiceNode(m) }
	case *descriptorpb.MethodDescriptorProto:
		name, f = "MethodNode", func() ast.Node { return w.clone.MethodNode(m) }
	default:
		return
	}
	if _, p := safeNode(f); p != "" {
		w.typed = append(w.typed, []any{path, name, p})
	}
}

func (w *walker) walk(path string, o, c protoreflect.Message) {
	om, cm := o.Interface(), c.Interface()
	w.origMsgs = append(w.origMsgs, om)
	w.cloneMsgs = append(w.cloneMsgs, cm)
	on, _ := safeNode(func() ast.Node { return w.orig.Node(om) })
	cn, cp := safeNode(func() ast.Node { return w.clone.Node(cm) })
	if cp != "" {
		w.typed = append(w.typed, []any{path, "Node", cp})
	}
	oe, ce := -1, -1
	if oer, ok := om.(*descriptorpb.DescriptorProto_ExtensionRange); ok {
		cer := cm.(*descriptorpb.DescriptorProto_ExtensionRange)
		n1, _ := safeNode(func() ast.Node { return w.orig.ExtensionsNode(oer) })
		n2, p2 := safeNode(func() ast.Node { return w.clone.ExtensionsNode(cer) })
		if p2 != "" {
			w.typed = append(w.typed, []any{path, "ExtensionsNode", p2})
		}
		oe, ce = nodeID(w.nodes, n1), nodeID(w.nodes, n2)
	}
	w.elems = append(w.elems, []any{path, string(o.Descriptor().Name()), w.addrs.of(om), w.addrs.of(cm),
		nodeID(w.nodes, on), nodeID(w.nodes, cn), oe, ce})
	w.typedAccessor(path, cm)
	fields := o.Descriptor().Fields()
	for i := 0; i < fields.Len(); i++ {
		fd := fields.Get(i)
		if fd.Message() == nil || fd.IsMap() || !o.Has(fd) {
			continue
		}
		if !c.Has(fd) {
			w.elems = append(w.elems, []any{fmt.Sprintf("%s/%d", path, fd.Number()), "MISSING-IN-CLONE", -1, -1, -1, -1, -1, -1})
			continue
		}
		if fd.IsList() {
			ol, cl := o.Get(fd).List(), c.Get(fd).List()
			for j := 0; j < ol.Len(); j++ {
				p := fmt.Sprintf("%s/%d.%d", path, fd.Number(), j)
				if j >= cl.Len() {
					w.elems = append(w.elems, []any{p, "MISSING-IN-CLONE", -1, -1, -1, -1, -1, -1})
					continue
				}
				w.walk(p, ol.Get(j).Message(), cl.Get(j).Message())
			}
		} else {
			w.walk(fmt.Sprintf("%s/%d", path, fd.Number()), o.Get(fd).Message(), c.Get(fd).Message())
		}
	}
}

func detBytes(m proto.Message) string {
	b, err := proto.MarshalOptions{Deterministic: true}.Marshal(m)
	if err != nil {
		panic(err)
	}
	return string(b)
}

// mutateAll changes, in place, every scalar the message tree holds: singular fields are replaced,
// list elements are overwritten, byte slices are modified through the slice the message hands out.
func mutateAll(m protoreflect.Message) int {
	n := 0
	type fv struct {
		fd protoreflect.FieldDescriptor
		v  protoreflect.Value
	}
	var fvs []fv
	m.Range(func(fd protoreflect.FieldDescriptor, v protoreflect.Value) bool {
		fvs = append(fvs, fv{fd, v})
		return true
	})
	change := func(fd protoreflect.FieldDescriptor, v protoreflect.Value) (protoreflect.Value, bool) {
		switch fd.Kind() {
		case protoreflect.StringKind:
			return protoreflect.ValueOfString(v.String() + "~"), true
		case protoreflect.BytesKind:
			b := v.Bytes()
			if len(b) > 0 {
				b[0] ^= 0xff // through the shared slice, if it is shared
			}
			return protoreflect.ValueOfBytes(append(append([]byte{}, b...), '~')), true
		case protoreflect.BoolKind:
			return protoreflect.ValueOfBool(!v.Bool()), true
		case protoreflect.Int32Kind, protoreflect.Sint32Kind, protoreflect.Sfixed32Kind:
			return protoreflect.ValueOfInt32(int32(v.Int()) + 1), true
		case protoreflect.Int64Kind, protoreflect.Sint64Kind, protoreflect.Sfixed64Kind:
			return protoreflect.ValueOfInt64(v.Int() + 1), true
		case protoreflect.Uint32Kind, protoreflect.Fixed32Kind:
			return protoreflect.ValueOfUint32(uint32(v.Uint()) + 1), true
		case protoreflect.Uint64Kind, protoreflect.Fixed64Kind:
			return protoreflect.ValueOfUint64(v.Uint() + 1), true
		case protoreflect.DoubleKind:
			return protoreflect.ValueOfFloat64(v.Float() + 1), true
		case protoreflect.FloatKind:
			return protoreflect.ValueOfFloat32(float32(v.Float()) + 1), true
		case protoreflect.EnumKind:
			vals := fd.Enum().Values()
			cur := vals.ByNumber(v.Enum())
			next := vals.Get(0)
			if cur != nil {
				next = vals.Get((cur.Index() + 1) % vals.Len())
			}
			return protoreflect.ValueOfEnum(next.Number()), true
		}
		return v, false
	}
	for _, x := range fvs {
		switch {
		case x.fd.IsMap():
		case x.fd.IsList():
			l := x.v.List()
			for i := 0; i < l.Len(); i++ {
				if x.fd.Message() != nil {
					n += mutateAll(l.Get(i).Message())
				} else if nv, ok := change(x.fd, l.Get(i)); ok {
					l.Set(i, nv)
					n++
				}
			}
		case x.fd.Message() != nil:
			n += mutateAll(x.v.Message())
		default:
			if nv, ok := change(x.fd, x.v); ok {
				m.Set(x.fd, nv)
				n++
			}
		}
	}
	return n
}

// compileNoAST feeds the descriptor of the parsed file to the compiler as a parse result without
// AST (SearchResult.ParseResult = parser.ResultWithoutAST(fd)); the compiler clones it.
func compileNoAST(name string, fd *descriptorpb.FileDescriptorProto) map[string]any {
	comp := protocompile.Compiler{
		Resolver: protocompile.WithStandardImports(protocompile.ResolverFunc(func(p string) (protocompile.SearchResult, error) {
			if p == name {
				return protocompile.SearchResult{ParseResult: parser.ResultWithoutAST(fd)}, nil
			}
			return protocompile.SearchResult{}, protoregistry.NotFound
		})),
	}
	files, err := comp.Compile(context.Background(), name)
	if err != nil {
		kind := "error"
		var pe protocompile.PanicError
		if errors.As(err, &pe) {
			kind = "panic"
		}
		return map[string]any{"compile": kind, "message": strings.SplitN(err.Error(), "\n", 2)[0]}
	}
	return map[string]any{"compile": "ok", "files": len(files)}
}

func nodeSig(n ast.Node) string {
	s := fmt.Sprintf("%T", n)
	func() {
		defer func() { _ = recover() }()
		s += fmt.Sprintf(":%d:%d", n.Start(), n.End())
	}()
	return s
}

func cloneCase(in map[string]any) map[string]any {
	name := vhlib.Str(in, "name")
	text := vhlib.Str(in, "text")
	mode := vhlib.Str(in, "mode")
	var errs []string
	h := reporter.NewHandler(reporter.NewReporter(func(e reporter.ErrorWithPos) error {
		errs = append(errs, e.Error())
		return nil
	}, nil))
	fileNode, err := parser.Parse(name, strings.NewReader(text), h)
	if err != nil || len(errs) > 0 {
		if err != nil {
			errs = append(errs, err.Error())
		}
		return map[string]any{"parse_errors": errs}
	}
	own, err := parser.ResultFromAST(fileNode, true, h)
	if err != nil || len(errs) > 0 {
		if err != nil {
			errs = append(errs, err.Error())
		}
		return map[string]any{"parse_errors": errs}
	}
	if mode == "compile_noast" {
		return compileNoAST(name, own.FileDescriptorProto())
	}
	var orig parser.Result = own
	switch mode {
	case "wrapped":
		orig = foreign{own}
	case "noast":
		orig = parser.ResultWithoutAST(own.FileDescriptorProto())
	}
	origBytes := detBytes(orig.FileDescriptorProto())
	clone := parser.Clone(orig)
	w := &walker{orig: orig, clone: clone, addrs: &interner{ids: map[any]int{}}, nodes: &interner{ids: map[any]int{}}}
	// name the original's pointers first
	var pre func(m protoreflect.Message)
	pre = func(m protoreflect.Message) {
		w.addrs.of(m.Interface())
		fields := m.Descriptor().Fields()
		for i := 0; i < fields.Len(); i++ {
			fd := fields.Get(i)
			if fd.Message() == nil || fd.IsMap() || !m.Has(fd) {
				continue
			}
			if fd.IsList() {
				l := m.Get(fd).List()
				for j := 0; j < l.Len(); j++ {
					pre(l.Get(j).Message())
				}
			} else {
				pre(m.Get(fd).Message())
			}
		}
	}
	pre(orig.FileDescriptorProto().ProtoReflect())
	nOrig := len(w.addrs.ids)
	w.walk("", orig.FileDescriptorProto().ProtoReflect(), clone.FileDescriptorProto().ProtoReflect())

	origSet := map[proto.Message]bool{}
	for _, m := range w.origMsgs {
		origSet[m] = true
	}
	shared := 0
	crossOrig, crossClone := 0, 0
	for _, m := range w.cloneMsgs {
		if origSet[m] {
			shared++
		}
		if n, _ := safeNode(func() ast.Node { return orig.Node(m) }); n != nil && mode != "noast" && !origSet[m] {
			crossOrig++
		}
	}
	cloneSet := map[proto.Message]bool{}
	for _, m := range w.cloneMsgs {
		cloneSet[m] = true
	}
	for _, m := range w.origMsgs {
		if n, _ := safeNode(func() ast.Node { return clone.Node(m) }); n != nil && mode != "noast" && !cloneSet[m] {
			crossClone++
		}
	}
	out := map[string]any{
		"elems": w.elems, "typed": w.typed, "node_kinds": w.nodes.kinds, "n_orig": nOrig,
		"equal":       proto.Equal(orig.FileDescriptorProto(), clone.FileDescriptorProto()),
		"bytes_equal": detBytes(clone.FileDescriptorProto()) == origBytes,
		"shared_ptrs": shared, "cross_orig": crossOrig, "cross_clone": crossClone,
		"same_ast":    clone.AST() == orig.AST(),
		"same_result": clone == orig,
	}
	if w.typed == nil {
		out["typed"] = []any{}
	}
	// independence: mutate the clone in place, the original must not move; then the other way round
	clone2 := parser.Clone(orig)
	clone2Bytes := detBytes(clone2.FileDescriptorProto())
	out["mutations"] = mutateAll(clone.FileDescriptorProto().ProtoReflect())
	out["orig_after_mutation"] = detBytes(orig.FileDescriptorProto()) == origBytes
	mutateAll(orig.FileDescriptorProto().ProtoReflect())
	out["clone_after_mutation"] = detBytes(clone2.FileDescriptorProto()) == clone2Bytes
	return out
}
