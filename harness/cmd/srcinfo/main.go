// Harness family srcinfo (properties C03 and C23): source code info of the real compiler in the
// four SourceInfoMode combinations, the real lexer's item list (tokens and comments with their
// positions and the lexer's own comment attribution), a reflection check of every location path
// against the compiled descriptor, and the locations of the protoc-produced golden protosets.
package main

import (
	"bytes"
	"context"
	"fmt"
	"io"
	"os"
	"path/filepath"
	"strings"

	"google.golang.org/protobuf/proto"
	"google.golang.org/protobuf/reflect/protoreflect"
	"google.golang.org/protobuf/types/descriptorpb"

	"github.com/bufbuild/protocompile"
	"github.com/bufbuild/protocompile/ast"
	"github.com/bufbuild/protocompile/experimental/verifharness/vhlib"
	"github.com/bufbuild/protocompile/linker"
	"github.com/bufbuild/protocompile/parser"
	"github.com/bufbuild/protocompile/protoutil"
)

func main() { vhlib.Main(srcinfoCase) }

func hexOrNil(s *string) any {
	if s == nil {
		return nil
	}
	return vhlib.Hx([]byte(*s))
}

func dumpLocs(sci *descriptorpb.SourceCodeInfo) []any {
	out := make([]any, 0, len(sci.GetLocation()))
	for _, loc := range sci.GetLocation() {
		p := make([]any, len(loc.Path))
		for i, x := range loc.Path {
			p[i] = int(x)
		}
		s := make([]any, len(loc.Span))
		for i, x := range loc.Span {
			s[i] = int(x)
		}
		d := make([]any, len(loc.LeadingDetachedComments))
		for i, x := range loc.LeadingDetachedComments {
			d[i] = vhlib.Hx([]byte(x))
		}
		out = append(out, map[string]any{"p": p, "s": s, "l": hexOrNil(loc.LeadingComments),
			"t": hexOrNil(loc.TrailingComments), "d": d})
	}
	return out
}

// checkPath walks path through the descriptor message root: every field number must be declared
// in the message type reached so far (or be an extension of it that the file can see), every
// index into a repeated field must be smaller than its length, and a path may only continue
// through message-typed fields. The empty string means the path names an existing element.
func checkPath(root protoreflect.Message, path []int32, res linker.Resolver) string {
	why, _ := walkPath(root, path, res)
	return why
}

// walkPath also reports the index of the path component that enters an options message
// (google.protobuf.*Options), -1 if the path does not lead into one.
func walkPath(root protoreflect.Message, path []int32, res linker.Resolver) (string, int) {
	optAt := -1
	var nv namedVal
	why := walkPath1(root, path, res, &optAt, &nv)
	return why, optAt
}

// namedVal is what a path that ends at a name or a number of the descriptor (outside options) points at:
// field "name", an element of "reserved_name", or field "number".
type namedVal struct {
	kind string // "name", "number" or ""
	str  string
	num  int64
}

func walkPath1(root protoreflect.Message, path []int32, res linker.Resolver, optAt *int, nv *namedVal) string {
	m := root
	md := root.Descriptor()
	i := 0
	for i < len(path) {
		num := protoreflect.FieldNumber(path[i])
		if path[i] <= 0 {
			return fmt.Sprintf("component %d: field number %d", i, path[i])
		}
		fd := md.Fields().ByNumber(num)
		if fd == nil {
			xt, err := res.FindExtensionByNumber(md.FullName(), num)
			if err != nil || xt == nil {
				return fmt.Sprintf("component %d: %s has no field %d", i, md.FullName(), num)
			}
			fd = xt.TypeDescriptor()
		}
		if *optAt < 0 && fd.Message() != nil && fd.Message().ParentFile().Path() == "google/protobuf/descriptor.proto" &&
			strings.HasSuffix(string(fd.Message().Name()), "Options") {
			*optAt = i
		}
		i++
		var val protoreflect.Value
		has := false
		if m != nil {
			has = m.Has(fd)
			if has {
				val = m.Get(fd)
			}
		}
		if fd.IsMap() {
			// a map is a repeated entry message on the wire; the index counts entries in source order,
			// which reflection does not keep, so below the index only the entry type is followed
			if i == len(path) {
				return ""
			}
			idx := int(path[i])
			if m != nil {
				n := 0
				if has {
					n = val.Map().Len()
				}
				if idx < 0 || idx >= n {
					return fmt.Sprintf("component %d: index %d outside map %s (len %d)", i, idx, fd.FullName(), n)
				}
			}
			i++
			md = fd.Message()
			m = nil
			continue
		}
		if fd.IsList() {
			if i == len(path) {
				return ""
			}
			idx := int(path[i])
			if m != nil {
				n := 0
				if has {
					n = val.List().Len()
				}
				if idx < 0 || idx >= n {
					return fmt.Sprintf("component %d: index %d outside %s (len %d)", i, idx, fd.FullName(), n)
				}
			} else if idx < 0 {
				return fmt.Sprintf("component %d: negative index", i)
			}
			i++
			if fd.Message() != nil {
				md = fd.Message()
				if m != nil {
					m = val.List().Get(idx).Message()
				}
			} else if i < len(path) {
				return fmt.Sprintf("component %d: path continues past scalar element of %s", i, fd.FullName())
			} else if m != nil && *optAt < 0 && fd.Name() == "reserved_name" {
				nv.kind, nv.str = "name", val.List().Get(idx).String()
			}
			continue
		}
		if fd.Message() != nil {
			md = fd.Message()
			if m != nil && has {
				m = val.Message()
			} else {
				if m != nil && i < len(path) {
					return fmt.Sprintf("component %d: message field %s is not set", i-1, fd.FullName())
				}
				m = nil
			}
			continue
		}
		if i < len(path) {
			return fmt.Sprintf("component %d: path continues past scalar field %s", i, fd.FullName())
		}
		if m != nil && has && *optAt < 0 {
			if fd.Name() == "name" && fd.Kind() == protoreflect.StringKind {
				nv.kind, nv.str = "name", val.String()
			} else if fd.Name() == "number" && fd.Kind() == protoreflect.Int32Kind {
				nv.kind, nv.num = "number", val.Int()
			}
		}
	}
	return ""
}

func itemsOf(data []byte) (items []any, lines []any, failed bool) {
	_, fi, _, failed := parser.VerifLex(data)
	offs, lens := fi.VerifItems()
	items = make([]any, len(offs))
	for i := range offs {
		c := 0
		if fi.VerifIsComment(i) {
			c = 1
		}
		ii := fi.ItemInfo(ast.Item(i))
		st, en := ii.Start(), ii.End()
		nl, nt := 0, 0
		if c == 0 {
			ti := fi.TokenInfo(ast.Token(i))
			nl, nt = ti.LeadingComments().Len(), ti.TrailingComments().Len()
		}
		items[i] = []int{offs[i], lens[i], c, st.Line, st.Col, en.Line, en.Col, nl, nt}
	}
	for _, l := range fi.VerifLines() {
		lines = append(lines, l)
	}
	return items, lines, failed
}

var modes = []protocompile.SourceInfoMode{
	protocompile.SourceInfoStandard,
	protocompile.SourceInfoExtraComments,
	protocompile.SourceInfoExtraOptionLocations,
	protocompile.SourceInfoExtraComments | protocompile.SourceInfoExtraOptionLocations,
}

// modes:
//
//	compile: text (hex) or file+dir -> data, items [off,len,isComment,startLine,startCol,endLine,endCol,
//	         nLeading,nTrailing] of the real lexer, lines, and for each SourceInfoMode in {1,2,4,6} the
//	         locations {p,s,l,t,d} plus badpaths [[index, reason]] from the reflection check
//	golden:  protoset (path) -> per file with source info: name and locations
func srcinfoCase(in map[string]any) map[string]any {
	switch vhlib.Str(in, "mode") {
	case "golden":
		raw, err := os.ReadFile(vhlib.Str(in, "protoset"))
		if err != nil {
			return map[string]any{"err": err.Error()}
		}
		var set descriptorpb.FileDescriptorSet
		if err := (proto.UnmarshalOptions{DiscardUnknown: false}).Unmarshal(raw, &set); err != nil {
			return map[string]any{"err": err.Error()}
		}
		var files []any
		for _, fd := range set.File {
			if fd.SourceCodeInfo == nil {
				continue
			}
			files = append(files, map[string]any{"name": fd.GetName(), "locs": dumpLocs(fd.SourceCodeInfo)})
		}
		return map[string]any{"files": files}
	case "compile":
		name := "t.proto"
		var data []byte
		var res protocompile.Resolver
		if f := vhlib.Str(in, "file"); f != "" {
			name = f
			dir := vhlib.Str(in, "dir")
			var err error
			data, err = os.ReadFile(filepath.Join(dir, f))
			if err != nil {
				return map[string]any{"err": err.Error()}
			}
			res = protocompile.WithStandardImports(&protocompile.SourceResolver{ImportPaths: []string{dir}})
		} else {
			data = vhlib.Unhex(vhlib.Str(in, "text"))
			dir := vhlib.Str(in, "dir")
			text := string(data)
			res = protocompile.WithStandardImports(&protocompile.SourceResolver{
				Accessor: func(path string) (io.ReadCloser, error) {
					if path == name {
						return io.NopCloser(strings.NewReader(text)), nil
					}
					if dir == "" {
						return nil, os.ErrNotExist
					}
					return os.Open(filepath.Join(dir, path))
				},
			})
		}
		lexed := data
		if bytes.HasPrefix(lexed, []byte{0xEF, 0xBB, 0xBF}) {
			lexed = lexed[3:]
		}
		items, lines, failed := itemsOf(lexed)
		out := map[string]any{"data": vhlib.Hx(lexed), "items": items, "lines": lines, "lexfailed": failed}
		locs := map[string]any{}
		bad := map[string]any{}
		for _, mode := range modes {
			comp := protocompile.Compiler{Resolver: res, SourceInfoMode: mode}
			files, err := comp.Compile(context.Background(), name)
			if err != nil {
				msg := err.Error()
				if pe, ok := err.(protocompile.PanicError); ok {
					msg = "panic: " + fmt.Sprint(pe.Value) + "\n" + firstLines(pe.Stack, 12)
					out["panicked"] = true
				}
				out["err"] = msg
				return out
			}
			f := files[0]
			fdp := protoutil.ProtoFromFileDescriptor(f)
			key := fmt.Sprint(int(mode))
			locs[key] = dumpLocs(fdp.GetSourceCodeInfo())
			// the descriptor re-read with the extensions visible to the file resolved, so that
			// custom option values can be walked like any other field
			resolver := linker.ResolverFromFile(f)
			raw, err := proto.Marshal(fdp)
			if err != nil {
				out["err"] = "marshal: " + err.Error()
				return out
			}
			var re descriptorpb.FileDescriptorProto
			if err := (proto.UnmarshalOptions{Resolver: resolver}).Unmarshal(raw, &re); err != nil {
				out["err"] = "unmarshal: " + err.Error()
				return out
			}
			var bads []any
			ls := locs[key].([]any)
			for i, loc := range fdp.GetSourceCodeInfo().GetLocation() {
				optAt := -1
				var nv namedVal
				why := walkPath1(re.ProtoReflect(), loc.Path, resolver, &optAt, &nv)
				if nv.kind == "name" {
					ls[i].(map[string]any)["vn"] = vhlib.Hx([]byte(nv.str))
				} else if nv.kind == "number" {
					ls[i].(map[string]any)["vi"] = nv.num
				}
				if why != "" {
					bads = append(bads, []any{i, why})
				}
				ls[i].(map[string]any)["o"] = optAt
			}
			if bads == nil {
				bads = []any{}
			}
			bad[key] = bads
		}
		out["locs"] = locs
		out["badpaths"] = bad
		return out
	}
	panic("bad mode")
}

func firstLines(s string, n int) string {
	ls := strings.Split(s, "\n")
	if len(ls) > n {
		ls = ls[:n]
	}
	return strings.Join(ls, "\n")
}
