// Command incremental drives the real incremental.Executor with counting queries over a generated
// dependency graph and a history of Run / overlapping Run / Evict / Edit operations, and reports
// canonical observables (C33, C34): values, fatal classes, Changed flags (as returned by Run and as
// seen by every Resolve inside the queries), execute counts, Keys(), the task map, free permits.
package main

import (
	"context"
	"errors"
	"fmt"
	"regexp"
	"runtime"
	"sort"
	"strconv"
	"sync"
	"sync/atomic"
	"time"

	"github.com/bufbuild/protocompile/experimental/incremental"
	"github.com/bufbuild/protocompile/experimental/verifharness/vhlib"
)

func main() { vhlib.Main(incCase) }

type rng struct {
	mu sync.Mutex
	s  uint64
}

func (r *rng) next() uint64 {
	r.mu.Lock()
	defer r.mu.Unlock()
	r.s += 0x9E3779B97F4A7C15
	z := r.s
	z = (z ^ (z >> 30)) * 0xBF58476D1CE4E5B9
	z = (z ^ (z >> 27)) * 0x94D049BB133111EB
	return z ^ (z >> 31)
}

const modulus = 1000003

// K is the key type of the counting queries.
type K int

type obs struct {
	caller, dep int
	changed     bool
	fatal       string
	run         int // index of the Run (within the op) is not known to the query; filled with the exec epoch
}

type env struct {
	n       int
	deps    [][][]int
	inputs  []atomic.Int64
	panicAt map[int]int
	failAt  map[int][2]int64 // key -> (r, m): Execute returns its own fatal error iff input % m == r
	slowUs  map[int]int64
	counts  []atomic.Int64
	jit     *rng
	obsMu   sync.Mutex
	obs     []obs
	ranMu   sync.Mutex
	ranVal  map[int][]int64 // values computed by each Execute that completed, per key

	// gate: during an "evrun" operation the first Execute of gateKey parks before its Resolve call number gateGroup
	gateArmed atomic.Bool
	gateKey   int
	gateGroup int
	parked    chan struct{}
	release   chan struct{}
}

// gate parks the calling query until the harness has issued the concurrent Evict (at most once per operation)
func (e *env) gate(id, g int) {
	if id != e.gateKey || g != e.gateGroup || !e.gateArmed.CompareAndSwap(true, false) {
		return
	}
	close(e.parked)
	select {
	case <-e.release:
	case <-time.After(3 * time.Second):
	}
}

func (e *env) jitter() {
	if e.jit == nil {
		return
	}
	v := e.jit.next()
	switch v % 5 {
	case 0, 1:
	case 2:
		runtime.Gosched()
	case 3:
		time.Sleep(time.Duration(v>>8%150) * time.Microsecond)
	case 4:
		for k := 0; k < int(v>>8%4); k++ {
			runtime.Gosched()
		}
	}
}

// Q is the counting query for node ID.
type Q struct {
	ID int
	e  *env
}

func (q *Q) Key() any { return K(q.ID) }

// errFail is the fatal error a failing query returns from Execute (an ordinary error: no panic, no cycle).
type errFail struct{ id int }

func (e *errFail) Error() string { return fmt.Sprintf("query %d failed", e.id) }

func fatalKind(err error) (string, []int) {
	if err == nil {
		return "none", nil
	}
	var fe *errFail
	if errors.As(err, &fe) {
		return "fail", nil
	}
	var cyc *incremental.ErrCycle
	if errors.As(err, &cyc) {
		var ids []int
		for _, a := range cyc.Cycle {
			if u, ok := a.Underlying().(*Q); ok {
				ids = append(ids, u.ID)
			} else {
				ids = append(ids, -1)
			}
		}
		return "cycle", ids
	}
	var pe *incremental.ErrPanic
	if errors.As(err, &pe) {
		return "panicerr", nil
	}
	if errors.Is(err, context.Canceled) || errors.Is(err, context.DeadlineExceeded) {
		return "ctxerr", nil
	}
	return "other", nil
}

func (q *Q) Execute(t *incremental.Task) (int64, error) {
	e := q.e
	e.counts[q.ID].Add(1)
	if us := e.slowUs[q.ID]; us > 0 {
		time.Sleep(time.Duration(us) * time.Microsecond)
	}
	e.jitter()
	groups := e.deps[q.ID]
	pa, hasPanic := e.panicAt[q.ID]
	in := e.inputs[q.ID].Load()
	v := in % modulus
	var fatal error
	if fa, ok := e.failAt[q.ID]; ok && fa[1] > 0 && in%fa[1] == fa[0] {
		// the query fails on its own (a function of its own input); it still resolves its dependencies
		// and returns the error together with the value, like a query that reports a parse failure
		fatal = &errFail{q.ID}
	}
	j := int64(0)
	for g, grp := range groups {
		e.gate(q.ID, g)
		if hasPanic && pa == g {
			panic(fmt.Sprintf("boom %d", q.ID))
		}
		qs := make([]incremental.Query[int64], len(grp))
		for i, d := range grp {
			qs[i] = &Q{ID: d, e: e}
		}
		res, err := incremental.Resolve(t, qs...)
		if err != nil {
			return 0, err
		}
		e.jitter()
		e.obsMu.Lock()
		for i, r := range res {
			fk, _ := fatalKind(r.Fatal)
			e.obs = append(e.obs, obs{caller: q.ID, dep: grp[i], changed: r.Changed, fatal: fk})
		}
		e.obsMu.Unlock()
		for _, r := range res {
			dv := r.Value
			if r.Fatal != nil {
				dv = 0
				if fatal == nil {
					fatal = r.Fatal
				}
			}
			v = (v + (2*j+3)*(dv%modulus)) % modulus
			j++
		}
	}
	e.gate(q.ID, len(groups))
	if hasPanic && pa >= len(groups) {
		panic(fmt.Sprintf("boom %d", q.ID))
	}
	e.jitter()
	e.ranMu.Lock()
	e.ranVal[q.ID] = append(e.ranVal[q.ID], v)
	e.ranMu.Unlock()
	return v, fatal
}

var keyRe = regexp.MustCompile(`^(?:main\.K\()?(-?\d+)\)?$`)

func parseKey(s string) int {
	m := keyRe.FindStringSubmatch(s)
	if m == nil {
		return -1
	}
	n, _ := strconv.Atoi(m[1])
	return n
}

func keysOf(ss []string) []int {
	out := make([]int, 0, len(ss))
	for _, s := range ss {
		out = append(out, parseKey(s))
	}
	sort.Ints(out)
	return out
}

func intsAny(a any) []int {
	arr, _ := a.([]any)
	out := make([]int, len(arr))
	for i, x := range arr {
		out[i] = int(vhlib.AnyNum(x))
	}
	return out
}

type runOut struct {
	returned bool
	out      map[string]any
}

// one Run of the given keys; returns the canonical observables of that Run
func doRun(ctx context.Context, ex *incremental.Executor, e *env, keys []int) map[string]any {
	qs := make([]incremental.Query[int64], len(keys))
	for i, k := range keys {
		qs[i] = &Q{ID: k, e: e}
	}
	out := map[string]any{}
	defer func() {
		if p := recover(); p != nil {
			out["escaped_panic"] = fmt.Sprint(p)
		}
	}()
	res, _, err := incremental.Run(ctx, ex, qs...)
	if err != nil {
		fk, _ := fatalKind(err)
		out["err"] = fk
		var pe *incremental.ErrPanic
		if errors.As(err, &pe) {
			if u, ok := pe.Query.Underlying().(*Q); ok {
				out["panic_key"] = u.ID
			}
		}
		return out
	}
	out["err"] = ""
	var rs []any
	for _, r := range res {
		fk, cyc := fatalKind(r.Fatal)
		m := map[string]any{"v": r.Value, "fatal": fk, "changed": r.Changed}
		if cyc != nil {
			m["cycle"] = cyc
		}
		rs = append(rs, m)
	}
	out["results"] = rs
	return out
}

func incCase(in map[string]any) map[string]any {
	n := int(vhlib.Num(in, "n"))
	e := &env{n: n, deps: make([][][]int, n), inputs: make([]atomic.Int64, n), counts: make([]atomic.Int64, n),
		panicAt: map[int]int{}, failAt: map[int][2]int64{}, slowUs: map[int]int64{}, ranVal: map[int][]int64{}}
	for i, a := range vhlib.List(in, "deps") {
		if i >= n {
			break
		}
		for _, g := range a.([]any) {
			e.deps[i] = append(e.deps[i], intsAny(g))
		}
	}
	for i, v := range vhlib.Nums(in, "inputs") {
		if i < n {
			e.inputs[i].Store(v)
		}
	}
	if m, ok := in["panic_at"].(map[string]any); ok {
		for k, v := range m {
			ki, _ := strconv.Atoi(k)
			e.panicAt[ki] = int(vhlib.AnyNum(v))
		}
	}
	if m, ok := in["fail"].(map[string]any); ok {
		for k, v := range m {
			ki, _ := strconv.Atoi(k)
			rm := intsAny(v)
			if len(rm) == 2 {
				e.failAt[ki] = [2]int64{int64(rm[0]), int64(rm[1])}
			}
		}
	}
	if m, ok := in["slow_us"].(map[string]any); ok {
		for k, v := range m {
			ki, _ := strconv.Atoi(k)
			e.slowUs[ki] = vhlib.AnyNum(v)
		}
	}
	if seed := vhlib.Num(in, "jitter"); seed != 0 {
		e.jit = &rng{s: uint64(seed)}
		incremental.VerifSetYieldHook(func(string) { e.jitter() })
		defer incremental.VerifSetYieldHook(nil)
	}
	par := vhlib.Num(in, "par")
	if par < 1 {
		par = 1
	}
	to := vhlib.Num(in, "timeout_ms")
	if to == 0 {
		to = 3000
	}
	ex := incremental.New(incremental.WithParallelism(par))
	baseG := runtime.NumGoroutine()
	var outs []any
	dead := false
	for _, opAny := range vhlib.List(in, "ops") {
		op := opAny.(map[string]any)
		kind := vhlib.Str(op, "op")
		o := map[string]any{"op": kind}
		if dead {
			o["skipped"] = true
			outs = append(outs, o)
			continue
		}
		switch kind {
		case "evict", "edit":
			keys := intsAny(op["keys"])
			if kind == "edit" {
				vals := intsAny(op["vals"])
				for i, k := range keys {
					if i < len(vals) {
						e.inputs[k].Store(int64(vals[i]))
					}
				}
			}
			ks := make([]any, len(keys))
			for i, k := range keys {
				ks[i] = K(k)
			}
			before := keysOf(ex.Keys())
			ex.Evict(ks...)
			o["before"] = before
			o["keys"] = keysOf(ex.Keys())
			o["tasks"] = snapshot(ex)
		case "run", "par", "evrun":
			var sets [][]int
			var delays []int64
			if kind == "run" || kind == "evrun" {
				sets = [][]int{intsAny(op["keys"])}
			} else {
				for _, s := range vhlib.List(op, "runs") {
					sets = append(sets, intsAny(s))
				}
				delays = vhlib.Nums(op, "delays_us")
			}
			for i := range e.counts {
				e.counts[i].Store(0)
			}
			e.obsMu.Lock()
			e.obs = nil
			e.obsMu.Unlock()
			e.ranMu.Lock()
			e.ranVal = map[int][]int64{}
			e.ranMu.Unlock()
			ctx, cancel := context.WithCancel(context.Background())
			runDone := make(chan struct{})
			evDone := make(chan struct{})
			if kind == "evrun" {
				e.gateKey = int(vhlib.Num(op, "gate"))
				e.gateGroup = int(vhlib.Num(op, "gate_group"))
				e.parked = make(chan struct{})
				e.release = make(chan struct{})
				e.gateArmed.Store(true)
			}
			chans := make([]chan map[string]any, len(sets))
			for i, set := range sets {
				ch := make(chan map[string]any, 1)
				chans[i] = ch
				var d int64
				if i < len(delays) {
					d = delays[i]
				}
				go func(set []int, d int64) {
					if d > 0 {
						time.Sleep(time.Duration(d) * time.Microsecond)
					}
					r := doRun(ctx, ex, e, set)
					if kind == "evrun" {
						close(runDone)
					}
					ch <- r
				}(set, d)
			}
			if kind == "evrun" {
				// Evict (with the input change as its cleanup, as EvictWithCleanup prescribes) is issued while the Run is
				// in flight: the gated query is parked inside Execute; Evict blocks on the dirty lock until the Run is over
				select {
				case <-e.parked:
					o["parked"] = true
				case <-runDone:
					o["parked"] = false
				case <-time.After(3 * time.Second):
					o["parked"] = false
				}
				evKeys := intsAny(op["evict"])
				evVals := intsAny(op["vals"])
				ks := make([]any, len(evKeys))
				for i, k := range evKeys {
					ks[i] = K(k)
				}
				evStarted := make(chan struct{})
				go func() {
					close(evStarted)
					ex.EvictWithCleanup(ks, func() {
						for i, k := range evKeys {
							if i < len(evVals) {
								e.inputs[k].Store(int64(evVals[i]))
							}
						}
					})
					close(evDone)
				}()
				<-evStarted
				time.Sleep(time.Duration(2+vhlib.Num(op, "hold_ms")) * time.Millisecond)
				e.gateArmed.Store(false)
				close(e.release)
			}
			// two-phase watchdog: after timeout_ms a Run counts as slow, after 5 x timeout_ms (at least 6 s more) as hung;
			// the long second phase keeps a loaded machine from being mistaken for a deadlock
			deadline := time.After(time.Duration(to) * time.Millisecond)
			runs := make([]any, len(sets))
			hang := false
			slow := false
			for i, ch := range chans {
				select {
				case r := <-ch:
					r["hang"] = false
					runs[i] = r
				case <-deadline:
					slow = true
					extra := 4 * time.Duration(to) * time.Millisecond
					if extra < 6*time.Second {
						extra = 6 * time.Second
					}
					if x := vhlib.Num(in, "hang_extra_ms"); x > 0 {
						extra = time.Duration(x) * time.Millisecond
					}
					if hang {
						extra = 0
					}
					select {
					case r := <-ch:
						r["hang"] = false
						runs[i] = r
					case <-time.After(extra):
						hang = true
						runs[i] = map[string]any{"hang": true}
					}
					dl := make(chan time.Time)
					close(dl)
					deadline = dl
				}
			}
			o["slow"] = slow
			if hang {
				// wake everything up so the process can go on; the executor is not used any more
				cancel()
				time.Sleep(50 * time.Millisecond)
				for i, ch := range chans {
					if m, ok := runs[i].(map[string]any); ok && m["hang"] == true {
						select {
						case <-ch:
							m["returned_after_cancel"] = true
						case <-time.After(500 * time.Millisecond):
							m["returned_after_cancel"] = false
						}
					}
				}
				dead = true
			}
			cancel()
			// quiescence: goroutines spawned by a cancelled Run may still be running
			leaked := 0
			for k := 0; k < 1600; k++ {
				leaked = runtime.NumGoroutine() - baseG
				if leaked <= 0 {
					break
				}
				time.Sleep(5 * time.Millisecond)
			}
			if leaked < 0 {
				leaked = 0
			}
			o["runs"] = runs
			o["leaked"] = leaked
			cs := make([]int64, n)
			for i := range cs {
				cs[i] = e.counts[i].Load()
			}
			o["execs"] = cs
			o["keys"] = keysOf(ex.Keys())
			o["free"] = ex.VerifFreePermits(par + 4)
			e.obsMu.Lock()
			ob := make([][]any, 0, len(e.obs))
			sort.Slice(e.obs, func(a, b int) bool {
				x, y := e.obs[a], e.obs[b]
				if x.caller != y.caller {
					return x.caller < y.caller
				}
				if x.dep != y.dep {
					return x.dep < y.dep
				}
				return !x.changed && y.changed
			})
			for _, x := range e.obs {
				ob = append(ob, []any{x.caller, x.dep, x.changed, x.fatal})
			}
			e.obsMu.Unlock()
			o["obs"] = ob
			e.ranMu.Lock()
			rv := map[string]any{}
			for k, vs := range e.ranVal {
				rv[strconv.Itoa(k)] = vs
			}
			e.ranMu.Unlock()
			o["computed"] = rv
			o["tasks"] = snapshot(ex)
			if kind == "evrun" {
				select {
				case <-evDone:
					o["ev_hang"] = false
				case <-time.After(time.Duration(to)*time.Millisecond + 6*time.Second):
					o["ev_hang"] = true
					dead = true
				}
				o["no_after"] = true // Keys() / tasks between the Run and the concurrent Evict cannot be observed
				o["ev_keys"] = keysOf(ex.Keys())
				o["ev_tasks"] = snapshot(ex)
			}
		default:
			o["bad_op"] = true
		}
		outs = append(outs, o)
	}
	return map[string]any{"ops": outs}
}

func snapshot(ex *incremental.Executor) []any {
	var out []any
	for _, t := range ex.VerifTasks() {
		fk, _ := fatalKind(t.Err)
		var val int64
		if v, ok := t.Value.(int64); ok {
			val = v
		}
		m := map[string]any{"k": parseKey(t.Key), "state": t.State, "run": t.RunID, "fatal": fk, "v": val,
			"deps": keysOfWith(t.Deps, t.DepsInMap), "callers": keysOfWith(t.Callers, t.CallersInMap)}
		out = append(out, m)
	}
	return out
}

// edges whose target object is no longer the one in the map are reported as negative ids (-(k+1))
func keysOfWith(ss []string, in []bool) []int {
	out := make([]int, 0, len(ss))
	for i, s := range ss {
		k := parseKey(s)
		if !in[i] {
			k = -(k + 1)
		}
		out = append(out, k)
	}
	sort.Ints(out)
	return out
}
