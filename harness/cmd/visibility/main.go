// Harness family "visibility" (property C18): compiles a generated import graph and asks the
// resolver of every file (linker.ResolverFromFile) for every element name, extension number and
// file path of the whole graph.
//
// in:  files {path: text}, order [paths], names [full names], exts [[extendee, tag]], paths [paths]
//      also_weak {path: [import paths]} (optional).  When present every file is handed to the
//      compiler as a FileDescriptorProto (parsed from its text first) and the listed imports get
//      an entry in weak_dependency in addition to what the text says, which is the only way to
//      have an import that is public and weak at the same time.
// out: res {path: {n: [...], x: [...], p: [...], m: [...], u: [...], e: [...]}} with one string per query
//      (n FindDescriptorByName, x FindExtensionByNumber, p FindFileByPath, m FindMessageByName,
//      u FindMessageByURL, e FindExtensionByName; m, u, e one per entry of names):
//      ""                   protoregistry.NotFound
//      "<file>|<element>"   found: path of the file that holds the element, full name (or path)
//      "ERR:<text>"         any other error
package main

import (
	"context"
	"errors"
	"strings"

	"github.com/bufbuild/protocompile"
	"github.com/bufbuild/protocompile/experimental/verifharness/vhlib"
	"github.com/bufbuild/protocompile/linker"
	"github.com/bufbuild/protocompile/parser"
	"github.com/bufbuild/protocompile/reporter"
	"google.golang.org/protobuf/reflect/protoreflect"
	"google.golang.org/protobuf/reflect/protoregistry"
)

func main() { vhlib.Main(visCase) }

func answer(file, elem string, err error) string {
	if err == nil {
		return file + "|" + elem
	}
	if errors.Is(err, protoregistry.NotFound) {
		return ""
	}
	return "ERR:" + err.Error()
}

func visCase(in map[string]any) map[string]any {
	files := map[string]string{}
	fm, _ := in["files"].(map[string]any)
	for k, v := range fm {
		files[k], _ = v.(string)
	}
	order := vhlib.Strs(in, "order")
	names := vhlib.Strs(in, "names")
	paths := vhlib.Strs(in, "paths")
	type extq struct {
		msg string
		tag int64
	}
	var exts []extq
	for _, a := range vhlib.List(in, "exts") {
		pair, _ := a.([]any)
		if len(pair) != 2 {
			panic("bad ext query")
		}
		m, _ := pair[0].(string)
		exts = append(exts, extq{m, vhlib.AnyNum(pair[1])})
	}
	var errs []string
	rep := reporter.NewReporter(func(e reporter.ErrorWithPos) error {
		errs = append(errs, e.Error())
		return nil
	}, nil)
	comp := protocompile.Compiler{
		Resolver: &protocompile.SourceResolver{Accessor: protocompile.SourceAccessorFromMap(files)},
		Reporter: rep,
	}
	if aw, ok := in["also_weak"].(map[string]any); ok {
		comp.Resolver = protocompile.ResolverFunc(func(path string) (protocompile.SearchResult, error) {
			text, ok := files[path]
			if !ok {
				return protocompile.SearchResult{}, protoregistry.NotFound
			}
			h := reporter.NewHandler(nil)
			node, err := parser.Parse(path, strings.NewReader(text), h)
			if err != nil {
				return protocompile.SearchResult{}, err
			}
			pr, err := parser.ResultFromAST(node, true, h)
			if err != nil {
				return protocompile.SearchResult{}, err
			}
			fd := pr.FileDescriptorProto()
			fd.SourceCodeInfo = nil
			extra, _ := aw[path].([]any)
			for _, x := range extra {
				dep, _ := x.(string)
				for i, d := range fd.Dependency {
					already := false
					for _, w := range fd.WeakDependency {
						already = already || int(w) == i
					}
					if d == dep && !already {
						fd.WeakDependency = append(fd.WeakDependency, int32(i))
					}
				}
			}
			return protocompile.SearchResult{Proto: fd}, nil
		})
	}
	out, err := comp.Compile(context.Background(), order...)
	if err != nil || len(errs) > 0 || len(out) != len(order) {
		if err != nil {
			errs = append(errs, err.Error())
		}
		return map[string]any{"compile_errors": errs}
	}
	res := map[string]any{}
	for i, p := range order {
		var f linker.File = out[i]
		if f.Path() != p {
			return map[string]any{"compile_errors": []string{"result order differs from request order"}}
		}
		r := linker.ResolverFromFile(f)
		ns := make([]string, len(names))
		for k, n := range names {
			d, err := r.FindDescriptorByName(protoreflect.FullName(n))
			if err == nil {
				ns[k] = answer(d.ParentFile().Path(), string(d.FullName()), nil)
			} else {
				ns[k] = answer("", "", err)
			}
		}
		xs := make([]string, len(exts))
		for k, x := range exts {
			xt, err := r.FindExtensionByNumber(protoreflect.FullName(x.msg), protoreflect.FieldNumber(x.tag))
			if err == nil {
				td := xt.TypeDescriptor()
				xs[k] = answer(td.ParentFile().Path(), string(td.FullName()), nil)
			} else {
				xs[k] = answer("", "", err)
			}
		}
		ps := make([]string, len(paths))
		for k, q := range paths {
			fd, err := r.FindFileByPath(q)
			if err == nil {
				ps[k] = answer(fd.Path(), fd.Path(), nil)
			} else {
				ps[k] = answer("", "", err)
			}
		}
		ms := make([]string, len(names))
		us := make([]string, len(names))
		es := make([]string, len(names))
		for k, n := range names {
			mt, err := r.FindMessageByName(protoreflect.FullName(n))
			if err == nil {
				ms[k] = answer(mt.Descriptor().ParentFile().Path(), string(mt.Descriptor().FullName()), nil)
			} else {
				ms[k] = answer("", "", err)
			}
			mt, err = r.FindMessageByURL("type.googleapis.com/" + n)
			if err == nil {
				us[k] = answer(mt.Descriptor().ParentFile().Path(), string(mt.Descriptor().FullName()), nil)
			} else {
				us[k] = answer("", "", err)
			}
			xt, err := r.FindExtensionByName(protoreflect.FullName(n))
			if err == nil {
				td := xt.TypeDescriptor()
				es[k] = answer(td.ParentFile().Path(), string(td.FullName()), nil)
			} else {
				es[k] = answer("", "", err)
			}
		}
		res[p] = map[string]any{"n": ns, "x": xs, "p": ps, "m": ms, "u": us, "e": es}
	}
	return map[string]any{"res": res}
}
