// Command graphs runs protocompile.Compiler on a generated import graph with a fault plan and a
// schedule perturbation seed, and reports canonical observables (C05, C06, C07).
package main

import (
	"context"
	"errors"
	"fmt"
	"regexp"
	"runtime"
	"sort"
	"strings"
	"sync/atomic"
	"time"

	"github.com/bufbuild/protocompile"
	"github.com/bufbuild/protocompile/experimental/verifharness/vhlib"
	"github.com/bufbuild/protocompile/linker"
	"github.com/bufbuild/protocompile/reporter"
	"google.golang.org/protobuf/proto"
	"google.golang.org/protobuf/reflect/protodesc"
)

// readFault parses the fault kinds "read:K" (the reader returns K bytes, then an error) and "readpanic:K" (then panics).
func readFault(f string) (k int, pan bool, ok bool) {
	for _, pre := range []string{"read:", "readpanic:"} {
		if strings.HasPrefix(f, pre) {
			n := 0
			for _, c := range f[len(pre):] {
				n = n*10 + int(c-'0')
			}
			return n, pre == "readpanic:", true
		}
	}
	return 0, false, false
}

type failingReader struct {
	data []byte
	k    int
	pos  int
	pan  bool
	idx  int64
}

func (r *failingReader) Read(p []byte) (int, error) {
	lim := r.k
	if lim > len(r.data) {
		lim = len(r.data)
	}
	if r.pos >= lim {
		if r.pan {
			panic(fmt.Sprintf("injected panic %d", r.idx))
		}
		return 0, errors.New("injected read error")
	}
	n := copy(p, r.data[r.pos:lim])
	r.pos += n
	return n, nil
}

func main() { vhlib.Main(graphCase) }

func fname(i int64) string { return fmt.Sprintf("f%d.proto", i) }

type rng struct{ s uint64 }

func (r *rng) next() uint64 {
	r.s += 0x9E3779B97F4A7C15
	z := r.s
	z = (z ^ (z >> 30)) * 0xBF58476D1CE4E5B9
	z = (z ^ (z >> 27)) * 0x94D049BB133111EB
	return z ^ (z >> 31)
}

var cycleRe = regexp.MustCompile(`cycle found in imports: (.*)$`)

// in: n, imports [[...]], req [...], par, faults {"i": "missing"|"err"|"panic"|"link"}, yield (seed, 0 = none),
//     timeout_ms, descriptor_override (bool): file 0 plays google/protobuf/descriptor.proto
func graphCase(in map[string]any) map[string]any {
	if vhlib.Str(in, "mode") == "real" {
		return realCase(in)
	}
	n := vhlib.Num(in, "n")
	impAny := vhlib.List(in, "imports")
	imports := make([][]int64, n)
	for i := range imports {
		if i < len(impAny) {
			for _, a := range impAny[i].([]any) {
				imports[i] = append(imports[i], vhlib.AnyNum(a))
			}
		}
	}
	faults := map[int64]string{}
	if fm, ok := in["faults"].(map[string]any); ok {
		for k, v := range fm {
			var idx int64
			fmt.Sscanf(k, "%d", &idx)
			faults[idx], _ = v.(string)
		}
	}
	shared := map[int64]bool{}
	for _, i := range vhlib.Nums(in, "shared_pkg") {
		shared[i] = true
	}
	dup := map[int64]bool{}
	for _, i := range vhlib.Nums(in, "dup") {
		dup[i] = true
		shared[i] = true
	}
	override := vhlib.Bool(in, "descriptor_override")
	name := func(i int64) string {
		if override && i == 0 {
			return "google/protobuf/descriptor.proto"
		}
		return fname(i)
	}
	sources := map[string]string{}
	for i := int64(0); i < n; i++ {
		var sb strings.Builder
		sb.WriteString("syntax = \"proto3\";\n")
		if override && i == 0 {
			sb.WriteString("package google.protobuf;\n")
		} else if shared[i] {
			sb.WriteString("package shared.pkg;\n")
		} else {
			fmt.Fprintf(&sb, "package p%d;\n", i)
		}
		for _, d := range imports[i] {
			fmt.Fprintf(&sb, "import \"%s\";\n", name(d))
		}
		if override && i == 0 {
			// the minimum the linker needs from a descriptor.proto replacement
			sb.WriteString("message FileOptions {}\nmessage MessageOptions {}\nmessage FieldOptions {}\nmessage OneofOptions {}\nmessage EnumOptions {}\nmessage EnumValueOptions {}\nmessage ServiceOptions {}\nmessage MethodOptions {}\nmessage ExtensionRangeOptions {}\n")
		} else if faults[i] == "link" {
			fmt.Fprintf(&sb, "message M%d { UndefinedType%d x = 1; }\n", i, i)
		} else if dup[i] {
			// the same symbol in several files of one package: whichever is linked second must fail
			sb.WriteString("message Dup { int32 x = 1; }\n")
		} else {
			fmt.Fprintf(&sb, "message M%d { int32 x = 1; }\n", i)
		}
		sources[name(i)] = sb.String()
	}
	idx := map[string]int64{}
	for i := int64(0); i < n; i++ {
		idx[name(i)] = i
	}
	var resolveCalls atomic.Int64
	res := protocompile.ResolverFunc(func(path string) (protocompile.SearchResult, error) {
		resolveCalls.Add(1)
		i, ok := idx[path]
		if !ok {
			return protocompile.SearchResult{}, fmt.Errorf("file not found: %s", path)
		}
		if k, pan, ok := readFault(faults[i]); ok {
			// the source is handed over, but reading it fails (or panics) after k bytes
			return protocompile.SearchResult{Source: &failingReader{data: []byte(sources[path]), k: k, pan: pan, idx: i}}, nil
		}
		switch faults[i] {
		case "missing":
			return protocompile.SearchResult{}, fmt.Errorf("file not found: %s", path)
		case "err":
			return protocompile.SearchResult{}, errors.New("injected resolver error")
		case "panic":
			panic(fmt.Sprintf("injected panic %d", i))
		}
		return protocompile.SearchResult{Source: strings.NewReader(sources[path])}, nil
	})
	par := int(vhlib.Num(in, "par"))
	if seed := vhlib.Num(in, "yield"); seed != 0 {
		r := &rng{s: uint64(seed)}
		var mu atomic.Int64
		protocompile.VerifSetYieldHook(func(site string) {
			// one shared splitmix stream; the interleaving of callers is itself schedule dependent,
			// which is fine: the point is perturbation, the replay carries the seed
			for mu.Add(1) != 1 {
				mu.Add(-1)
				runtime.Gosched()
			}
			v := r.next()
			mu.Add(-1)
			switch v % 4 {
			case 0:
			case 1:
				runtime.Gosched()
			case 2:
				time.Sleep(time.Duration(v>>8%200) * time.Microsecond)
			case 3:
				for k := 0; k < int(v>>8%5); k++ {
					runtime.Gosched()
				}
			}
		})
		defer protocompile.VerifSetYieldHook(nil)
	}
	var reported []string
	var nErrCalls atomic.Int64
	rep := reporter.NewReporter(func(err reporter.ErrorWithPos) error {
		nErrCalls.Add(1)
		reported = append(reported, err.Unwrap().Error())
		return err
	}, nil)
	comp := protocompile.Compiler{Resolver: protocompile.WithStandardImports(res), MaxParallelism: par, Reporter: rep}
	if vhlib.Bool(in, "no_std") || override {
		comp.Resolver = res
	}
	reqNames := []string{}
	for _, r := range vhlib.Nums(in, "req") {
		reqNames = append(reqNames, name(r))
	}
	before := runtime.NumGoroutine()
	type outcome struct {
		files linker.Files
		err   error
	}
	done := make(chan outcome, 1)
	ctx, cancel := context.WithCancel(context.Background())
	defer cancel()
	go func() {
		defer func() {
			if p := recover(); p != nil {
				done <- outcome{nil, fmt.Errorf("ESCAPED-PANIC: %v", p)}
			}
		}()
		fs, err := comp.Compile(ctx, reqNames...)
		done <- outcome{fs, err}
	}()
	to := vhlib.Num(in, "timeout_ms")
	if to == 0 {
		to = 5000
	}
	out := map[string]any{}
	if c := vhlib.Num(in, "cancel_after_us"); c > 0 {
		go func() {
			time.Sleep(time.Duration(c) * time.Microsecond)
			cancel()
		}()
		out["cancelled"] = true
	}
	select {
	case o := <-done:
		out["hang"] = false
		out["ok"] = o.err == nil
		if o.err != nil {
			msg := o.err.Error()
			out["err"] = msg
			out["ctx_err"] = errors.Is(o.err, context.Canceled)
			var pe protocompile.PanicError
			if errors.As(o.err, &pe) {
				out["panic_file"] = pe.File
				out["panic_value"] = fmt.Sprint(pe.Value)
			}
			if m := cycleRe.FindStringSubmatch(msg); m != nil {
				var cyc []int64
				for _, part := range strings.Split(m[1], " -> ") {
					part = strings.Trim(part, "\"")
					if i, ok := idx[part]; ok {
						cyc = append(cyc, i)
					} else {
						cyc = append(cyc, -1)
					}
				}
				out["cycle"] = cyc
			}
			if strings.HasPrefix(msg, "ESCAPED-PANIC") {
				out["escaped_panic"] = true
			}
		} else {
			// deterministic bytes of every produced descriptor, in request order
			var hs []string
			for _, f := range o.files {
				b, err := proto.MarshalOptions{Deterministic: true}.Marshal(protodesc.ToFileDescriptorProto(f))
				if err != nil {
					hs = append(hs, "marshal-error")
				} else {
					hs = append(hs, vhlib.Hx(b))
				}
			}
			out["descs"] = hs
		}
	case <-time.After(time.Duration(to) * time.Millisecond):
		out["hang"] = true
		cancel()
		// give the compile a moment to notice the cancellation, then report
		select {
		case <-done:
			out["returned_after_cancel"] = true
		case <-time.After(2 * time.Second):
			out["returned_after_cancel"] = false
		}
	}
	sort.Strings(reported)
	out["reported"] = reported
	// goroutine accounting (C07): back to the baseline within 2 s after return
	leaked := 0
	for k := 0; k < 200; k++ {
		leaked = runtime.NumGoroutine() - before
		if leaked <= 0 {
			break
		}
		time.Sleep(10 * time.Millisecond)
	}
	if leaked < 0 {
		leaked = 0
	}
	out["leaked"] = leaked
	out["resolve_calls"] = resolveCalls.Load()
	return out
}

// realCase compiles real .proto files from import paths: {"mode":"real","paths":[dirs],"files":[names],"par":k,
// "yield":seed}; returns the deterministic-marshal bytes (as sha1 hex) of every produced descriptor.
func realCase(in map[string]any) map[string]any {
	if seed := vhlib.Num(in, "yield"); seed != 0 {
		r := &rng{s: uint64(seed)}
		var mu atomic.Int64
		protocompile.VerifSetYieldHook(func(site string) {
			for mu.Add(1) != 1 {
				mu.Add(-1)
				runtime.Gosched()
			}
			v := r.next()
			mu.Add(-1)
			if v%3 == 0 {
				runtime.Gosched()
			}
		})
		defer protocompile.VerifSetYieldHook(nil)
	}
	comp := protocompile.Compiler{
		Resolver:       protocompile.WithStandardImports(&protocompile.SourceResolver{ImportPaths: vhlib.Strs(in, "paths")}),
		MaxParallelism: int(vhlib.Num(in, "par")),
		SourceInfoMode: protocompile.SourceInfoMode(vhlib.Num(in, "srcinfo")),
	}
	files, err := comp.Compile(context.Background(), vhlib.Strs(in, "files")...)
	if err != nil {
		return map[string]any{"ok": false, "err": err.Error()}
	}
	var hs []string
	for _, f := range files {
		b, err := proto.MarshalOptions{Deterministic: true}.Marshal(protodesc.ToFileDescriptorProto(f))
		if err != nil {
			hs = append(hs, "marshal-error")
		} else {
			hs = append(hs, vhlib.Hx(b))
		}
	}
	return map[string]any{"ok": true, "descs": hs}
}
