// Harness family "topotrie" (property C41): runs the real internal/toposort and internal/trie code.
//
//	mode topo: adj [[children of node 0], [children of node 1], ...], roots [...]
//	   -> out [nodes in the order yielded]; a panic is {"panic": msg} (from vhlib)
//	   with reuse=true the same Sorter is used for a second identical Sort and out2 is returned as well
//	mode trie: keys [hex...] (value of key i is i+1), queries [hex...]
//	   -> res [{get:[prefixhex,value], prefixes:[[prefixhex,value]...]}...]
package main

import (
	"iter"
	"slices"

	"github.com/bufbuild/protocompile/experimental/verifharness/vhlib"
	"github.com/bufbuild/protocompile/internal/toposort"
	"github.com/bufbuild/protocompile/internal/trie"
)

func main() { vhlib.Main(topotrieCase) }

func nums(a any) []int {
	arr, _ := a.([]any)
	out := make([]int, len(arr))
	for i, x := range arr {
		out[i] = int(vhlib.AnyNum(x))
	}
	return out
}

func topotrieCase(in map[string]any) map[string]any {
	switch vhlib.Str(in, "mode") {
	case "topo":
		var adj [][]int
		for _, a := range vhlib.List(in, "adj") {
			adj = append(adj, nums(a))
		}
		roots := nums(in["roots"])
		dag := func(n int) iter.Seq[int] {
			if n < 0 || n >= len(adj) {
				return slices.Values([]int(nil))
			}
			return slices.Values(adj[n])
		}
		out := []any{}
		for n := range toposort.Sort(roots, func(n int) int { return n }, dag) {
			out = append(out, n)
		}
		return map[string]any{"out": out}
	case "trie":
		var t trie.Trie[int]
		for i, k := range vhlib.Strs(in, "keys") {
			t.Insert(string(vhlib.Unhex(k)), i+1)
		}
		res := []any{}
		for _, qh := range vhlib.Strs(in, "queries") {
			q := string(vhlib.Unhex(qh))
			p, v := t.Get(q)
			pre := []any{}
			for p2, v2 := range t.Prefixes(q) {
				pre = append(pre, []any{vhlib.Hx([]byte(p2)), v2})
			}
			res = append(res, map[string]any{"get": []any{vhlib.Hx([]byte(p)), v}, "prefixes": pre})
		}
		return map[string]any{"res": res}
	}
	panic("harness: unknown mode")
}
