// Harness family "topotrie" (property C41): runs the real internal/toposort and internal/trie code.
//
//	mode topo: adj [[children of node 0], [children of node 1], ...], roots [...]
//	   -> out [nodes in the order yielded]; a panic is {"panic": msg} (from vhlib)
//	   with reuse=true the same Sorter is used for a second identical Sort and out2 is returned as well
//	mode topohist: adj, uses [{roots, take, same}]: ONE Sorter; each use iterates s.Sort(roots, dag) (same=true: iterates
//	   the iter.Seq of the previous use again), stops after take elements (0 = takes all)
//	   -> uses [{out, stopped, panic?}] (a panic ends that use only; the Sorter is used on)
//	mode trie: keys [hex...] (value of key i is i+1), queries [hex...]
//	   -> res [{get:[prefixhex,value], prefixes:[[prefixhex,value]...]}...]
package main

import (
	"fmt"
	"iter"
	"slices"

	"github.com/bufbuild/protocompile/experimental/verifharness/vhlib"
	"github.com/bufbuild/protocompile/internal/toposort"
	"github.com/bufbuild/protocompile/internal/trie"
)

func main() { vhlib.Main(topotrieCase) }

func nums(a any) []int {
	arr, _ := a.([]any)
	out := make([]int, len(arr))
	for i, x := range arr {
		out[i] = int(vhlib.AnyNum(x))
	}
	return out
}

// oneUse iterates seq, breaking out of the loop on the take-th element (0: never).
func oneUse(seq iter.Seq[int], take int) (res map[string]any) {
	out := []any{}
	stopped := false
	defer func() {
		if r := recover(); r != nil {
			res = map[string]any{"out": out, "stopped": false, "panic": fmt.Sprint(r)}
		}
	}()
	for n := range seq {
		out = append(out, n)
		if take > 0 && len(out) == take {
			stopped = true
			break
		}
	}
	return map[string]any{"out": out, "stopped": stopped}
}

func topotrieCase(in map[string]any) map[string]any {
	switch vhlib.Str(in, "mode") {
	case "topo":
		var adj [][]int
		for _, a := range vhlib.List(in, "adj") {
			adj = append(adj, nums(a))
		}
		roots := nums(in["roots"])
		dag := func(n int) iter.Seq[int] {
			if n < 0 || n >= len(adj) {
				return slices.Values([]int(nil))
			}
			return slices.Values(adj[n])
		}
		out := []any{}
		for n := range toposort.Sort(roots, func(n int) int { return n }, dag) {
			out = append(out, n)
		}
		return map[string]any{"out": out}
	case "topohist":
		var adj [][]int
		for _, a := range vhlib.List(in, "adj") {
			adj = append(adj, nums(a))
		}
		dag := func(n int) iter.Seq[int] {
			if n < 0 || n >= len(adj) {
				return slices.Values([]int(nil))
			}
			return slices.Values(adj[n])
		}
		sorter := &toposort.Sorter[int, int]{Key: func(n int) int { return n }}
		var seq iter.Seq[int]
		res := []any{}
		for _, u := range vhlib.List(in, "uses") {
			um, _ := u.(map[string]any)
			if !vhlib.Bool(um, "same") || seq == nil {
				seq = sorter.Sort(nums(um["roots"]), dag)
			}
			res = append(res, oneUse(seq, int(vhlib.Num(um, "take"))))
		}
		return map[string]any{"uses": res}
	case "trie":
		var t trie.Trie[int]
		for i, k := range vhlib.Strs(in, "keys") {
			t.Insert(string(vhlib.Unhex(k)), i+1)
		}
		res := []any{}
		for _, qh := range vhlib.Strs(in, "queries") {
			q := string(vhlib.Unhex(qh))
			p, v := t.Get(q)
			pre := []any{}
			for p2, v2 := range t.Prefixes(q) {
				pre = append(pre, []any{vhlib.Hx([]byte(p2)), v2})
			}
			res = append(res, map[string]any{"get": []any{vhlib.Hx([]byte(p)), v}, "prefixes": pre})
		}
		return map[string]any{"res": res}
	}
	panic("harness: unknown mode")
}
