// Harness family "resolve" (property C15): runs the real name resolution of the linker.
//
// modes:
//
//	prefix: pkg (hex)  ->  list = internal.CreatePrefixList(pkg) (hex strings)
//	schema: files {path: text}, root, probes [{id, line, fallback, fqn, site}]
//	        The root file holds one probe reference per line. Pass 1 compiles everything with a
//	        reporter that records every error and goes on; each error is attributed to the probe
//	        on its line and mapped to a small enum. Pass 2 replaces the lines of the failed probes
//	        by their fallback text and compiles again; the resolved type_name / extendee /
//	        input_type of the surviving probes is read from the compiled FileDescriptorProto.
//	rawref: a FileDescriptorProto given field by field (type_name spelled freely), compiled from
//	        the descriptor form; used for spellings that the parser cannot produce.
package main

import (
	"context"
	"regexp"
	"strings"

	"github.com/bufbuild/protocompile"
	"github.com/bufbuild/protocompile/experimental/verifharness/vhlib"
	"github.com/bufbuild/protocompile/internal"
	"github.com/bufbuild/protocompile/linker"
	"github.com/bufbuild/protocompile/reporter"
	"google.golang.org/protobuf/proto"
	"google.golang.org/protobuf/reflect/protodesc"
	"google.golang.org/protobuf/types/descriptorpb"
)

func main() { vhlib.Main(resolveCase) }

type recErr struct {
	file string
	line int
	msg  string
}

func compile(files map[string]string, roots []string) (linker.Files, []recErr, error) {
	var errs []recErr
	rep := reporter.NewReporter(func(e reporter.ErrorWithPos) error {
		p := e.GetPosition()
		errs = append(errs, recErr{file: p.Filename, line: p.Line, msg: e.Unwrap().Error()})
		return nil
	}, nil)
	comp := protocompile.Compiler{
		Resolver: &protocompile.SourceResolver{Accessor: protocompile.SourceAccessorFromMap(files)},
		Reporter: rep,
	}
	res, err := comp.Compile(context.Background(), roots...)
	return res, errs, err
}

var (
	reUndef = regexp.MustCompile(`^(?:\S+ \S+: )?unknown (?:type|extendee type|request type|response type) (\S+); resolved to (\S+) which is not defined; consider using a leading dot$`)
	reUnk   = regexp.MustCompile(`^(?:\S+ \S+: )?unknown (?:type|extendee type|request type|response type) (\S+)$`)
	reWrong = regexp.MustCompile(`^(?:\S+ \S+: )?(?:invalid type|extendee is invalid|invalid request type|invalid response type): (\S+) is (an? [a-z ]+), not a (?:message or enum|message)$`)
)

var articles = map[string]string{
	"a message": "message", "an enum": "enum", "a service": "service", "a field": "field",
	"an extension": "extension", "an enum value": "enumvalue", "a oneof": "oneof", "a method": "method",
}

// classify maps an error text to the observable of result.resolve: nil / sentinel / wrong kind.
func classify(msg string) map[string]any {
	if m := reUndef.FindStringSubmatch(msg); m != nil {
		return map[string]any{"r": "sentinel", "n": m[2]}
	}
	if m := reWrong.FindStringSubmatch(msg); m != nil {
		k, ok := articles[m[2]]
		if !ok {
			return map[string]any{"r": "other", "msg": msg}
		}
		return map[string]any{"r": "desc", "n": m[1], "k": k}
	}
	if m := reUnk.FindStringSubmatch(msg); m != nil {
		return map[string]any{"r": "nil"}
	}
	return map[string]any{"r": "other", "msg": msg}
}

type fdIndex struct {
	fields  map[string]*descriptorpb.FieldDescriptorProto
	methods map[string]*descriptorpb.MethodDescriptorProto
}

func indexFile(fd *descriptorpb.FileDescriptorProto) *fdIndex {
	ix := &fdIndex{fields: map[string]*descriptorpb.FieldDescriptorProto{}, methods: map[string]*descriptorpb.MethodDescriptorProto{}}
	prefix := ""
	if fd.GetPackage() != "" {
		prefix = fd.GetPackage() + "."
	}
	var msgs func(prefix string, ms []*descriptorpb.DescriptorProto)
	msgs = func(prefix string, ms []*descriptorpb.DescriptorProto) {
		for _, m := range ms {
			mp := prefix + m.GetName() + "."
			for _, f := range m.Field {
				ix.fields[mp+f.GetName()] = f
			}
			for _, f := range m.Extension {
				ix.fields[mp+f.GetName()] = f
			}
			msgs(mp, m.NestedType)
		}
	}
	for _, f := range fd.Extension {
		ix.fields[prefix+f.GetName()] = f
	}
	msgs(prefix, fd.MessageType)
	for _, s := range fd.Service {
		for _, m := range s.Method {
			ix.methods[prefix+s.GetName()+"."+m.GetName()] = m
		}
	}
	return ix
}

func schemaCase(in map[string]any) map[string]any {
	files := map[string]string{}
	fm, _ := in["files"].(map[string]any)
	for k, v := range fm {
		files[k], _ = v.(string)
	}
	root := vhlib.Str(in, "root")
	type probe struct {
		line     int
		fallback string
		fqn      string
		site     string
	}
	var probes []probe
	byLine := map[int]int{}
	for i, a := range vhlib.List(in, "probes") {
		pm, _ := a.(map[string]any)
		p := probe{line: int(vhlib.Num(pm, "line")), fallback: vhlib.Str(pm, "fallback"), fqn: vhlib.Str(pm, "fqn"), site: vhlib.Str(pm, "site")}
		probes = append(probes, p)
		byLine[p.line] = i
	}
	res := make([]map[string]any, len(probes))
	var extra []string

	_, errs, _ := compile(files, []string{root})
	for _, e := range errs {
		i, ok := byLine[e.line]
		if !ok || e.file != root {
			extra = append(extra, e.file+":"+itoa(e.line)+": "+e.msg)
			continue
		}
		if res[i] != nil {
			extra = append(extra, "second error on probe line "+itoa(e.line)+": "+e.msg)
			continue
		}
		res[i] = classify(e.msg)
	}
	// pass 2: failed probes replaced by their fallback, everything else unchanged
	lines := strings.Split(files[root], "\n")
	for i, p := range probes {
		if res[i] != nil {
			lines[p.line-1] = p.fallback
		}
	}
	files2 := map[string]string{}
	for k, v := range files {
		files2[k] = v
	}
	files2[root] = strings.Join(lines, "\n")
	out2, errs2, err2 := compile(files2, []string{root})
	if err2 != nil || len(errs2) > 0 || len(out2) != 1 {
		for _, e := range errs2 {
			extra = append(extra, "pass2 "+e.file+":"+itoa(e.line)+": "+e.msg)
		}
		if err2 != nil {
			extra = append(extra, "pass2: "+err2.Error())
		}
	} else {
		fdp := protodesc.ToFileDescriptorProto(out2[0])
		ix := indexFile(fdp)
		for i, p := range probes {
			if res[i] != nil {
				continue
			}
			switch p.site {
			case "type":
				f := ix.fields[p.fqn]
				if f == nil {
					res[i] = map[string]any{"r": "other", "msg": "probe field not found in descriptor"}
					continue
				}
				k := "other"
				switch f.GetType() {
				case descriptorpb.FieldDescriptorProto_TYPE_MESSAGE:
					k = "message"
				case descriptorpb.FieldDescriptorProto_TYPE_ENUM:
					k = "enum"
				}
				res[i] = map[string]any{"r": "desc", "n": strings.TrimPrefix(f.GetTypeName(), "."), "k": k, "dot": strings.HasPrefix(f.GetTypeName(), ".")}
			case "extendee":
				f := ix.fields[p.fqn]
				if f == nil {
					res[i] = map[string]any{"r": "other", "msg": "probe extension not found in descriptor"}
					continue
				}
				res[i] = map[string]any{"r": "desc", "n": strings.TrimPrefix(f.GetExtendee(), "."), "k": "message", "dot": strings.HasPrefix(f.GetExtendee(), ".")}
			case "rpc":
				m := ix.methods[p.fqn]
				if m == nil {
					res[i] = map[string]any{"r": "other", "msg": "probe method not found in descriptor"}
					continue
				}
				res[i] = map[string]any{"r": "desc", "n": strings.TrimPrefix(m.GetInputType(), "."), "k": "message", "dot": strings.HasPrefix(m.GetInputType(), ".")}
			}
		}
	}
	for i := range res {
		if res[i] == nil {
			res[i] = map[string]any{"r": "other", "msg": "no observation"}
		}
	}
	if extra == nil {
		extra = []string{}
	}
	return map[string]any{"res": res, "extra": extra}
}

func itoa(n int) string {
	if n == 0 {
		return "0"
	}
	neg := n < 0
	if neg {
		n = -n
	}
	var b []byte
	for n > 0 {
		b = append([]byte{byte('0' + n%10)}, b...)
		n /= 10
	}
	if neg {
		b = append([]byte{'-'}, b...)
	}
	return string(b)
}

// rawrefCase: package pkg; message Outer (nesting path) with one field whose type_name is the
// given raw spelling; targets = list of message fqns to define (same file). Compiled from the
// descriptor form (no source), so spellings that the grammar forbids can be probed.
func rawrefCase(in map[string]any) map[string]any {
	pkg := vhlib.Str(in, "pkg")
	ref := vhlib.Str(in, "ref")
	fd := &descriptorpb.FileDescriptorProto{
		Name:   proto.String("raw.proto"),
		Syntax: proto.String("proto2"),
		MessageType: []*descriptorpb.DescriptorProto{
			{Name: proto.String("T")},
			{Name: proto.String("Holder"), Field: []*descriptorpb.FieldDescriptorProto{{
				Name:     proto.String("f"),
				Number:   proto.Int32(1),
				Label:    descriptorpb.FieldDescriptorProto_LABEL_OPTIONAL.Enum(),
				Type:     descriptorpb.FieldDescriptorProto_TYPE_MESSAGE.Enum(),
				TypeName: proto.String(ref),
				JsonName: proto.String("f"),
			}}},
		},
	}
	if pkg != "" {
		fd.Package = proto.String(pkg)
	}
	var errs []string
	rep := reporter.NewReporter(func(e reporter.ErrorWithPos) error {
		errs = append(errs, e.Unwrap().Error())
		return nil
	}, nil)
	comp := protocompile.Compiler{
		Resolver: protocompile.ResolverFunc(func(path string) (protocompile.SearchResult, error) {
			if path == "raw.proto" {
				return protocompile.SearchResult{Proto: fd}, nil
			}
			return protocompile.SearchResult{}, protocompileNotFound(path)
		}),
		Reporter: rep,
	}
	out, err := comp.Compile(context.Background(), "raw.proto")
	if err != nil || len(errs) > 0 {
		if len(errs) == 0 {
			errs = []string{err.Error()}
		}
		o := classify(errs[0])
		o["errs"] = errs
		return o
	}
	fdp := protodesc.ToFileDescriptorProto(out[0])
	return map[string]any{"r": "desc", "n": strings.TrimPrefix(fdp.MessageType[1].Field[0].GetTypeName(), "."), "k": "message"}
}

type notFoundErr string

func (e notFoundErr) Error() string { return "file not found: " + string(e) }

func protocompileNotFound(p string) error { return notFoundErr(p) }

func resolveCase(in map[string]any) map[string]any {
	switch vhlib.Str(in, "mode") {
	case "prefix":
		l := internal.CreatePrefixList(string(vhlib.Unhex(vhlib.Str(in, "pkg"))))
		out := make([]string, len(l))
		for i, s := range l {
			out[i] = vhlib.Hx([]byte(s))
		}
		return map[string]any{"list": out}
	case "schema":
		return schemaCase(in)
	case "rawref":
		return rawrefCase(in)
	}
	panic("bad mode")
}
