// Lookup methods of every list / range view (C04): Len and Get are compared through the attribute
// vectors in main.go; this file adds every other method of the protoreflect list interfaces
// (FieldRanges.Has, EnumRanges.Has, Names.Has, FieldNumbers.Has, FieldDescriptors.ByName / ByJSONName /
// ByTextName / ByNumber, OneofDescriptors.ByName, EnumValueDescriptors.ByName / ByNumber and ByName of the
// message, enum, extension, service and method lists) plus Parent / ParentFile / Syntax / IsPlaceholder /
// Options of every element. The queries are computed from the descriptor PROTO (never from one of the
// two descriptor implementations), so that the linker's descriptor and the runtime's are asked exactly the
// same questions; every function here is evaluated identically on both.
package main

import (
	"crypto/sha256"
	"sort"
	"strings"

	"github.com/bufbuild/protocompile/experimental/verifharness/vhlib"
	"google.golang.org/protobuf/proto"
	"google.golang.org/protobuf/reflect/protoreflect"
	"google.golang.org/protobuf/types/descriptorpb"
)

type probes struct {
	nums  []int64  // field numbers (message scope) or enum numbers (enum scope) to ask about
	names []string // names to ask about (every name in scope, also in lower and upper case)
	// Queries for ByJSONName / ByTextName. The Go runtime gives the field list of a MESSAGE lower-case aliases
	// for group-like fields (JSON name and text name) and the field list of a ONEOF none. With aliases = true
	// (VERIF_C04_GROUPLIKE_ALIASES=1) every name is asked in every spelling on both lists; otherwise only the
	// exact names in scope; the field name of a group-typed member is not asked by JSON name, nor by text name on a oneof list.
	jtNames    []string
	groupNames map[string]bool // field names of members whose type name, lower-cased, is the field name
}

// aliases: see probes.jtNames
var aliases bool

func dedupNums(in []int64, lo, hi int64) []int64 {
	seen := map[int64]bool{}
	out := []int64{}
	for _, n := range in {
		if n < lo || n > hi || seen[n] {
			continue
		}
		seen[n] = true
		out = append(out, n)
	}
	sort.Slice(out, func(i, j int) bool { return out[i] < out[j] })
	return out
}

func dedupNames(in []string) []string {
	seen := map[string]bool{}
	out := []string{}
	for _, s := range in {
		for _, v := range []string{s, strings.ToLower(s), strings.ToUpper(s)} {
			if !seen[v] {
				seen[v] = true
				out = append(out, v)
			}
		}
	}
	sort.Strings(out)
	return out
}

func around(n int64) []int64 { return []int64{n - 2, n - 1, n, n + 1, n + 2} }

// jsonNameOf mirrors protoc's default (only used to build queries, not as an expected value).
func jsonNameOf(name string) string {
	var b strings.Builder
	up := false
	for _, c := range name {
		if c == '_' {
			up = true
			continue
		}
		if up && c >= 'a' && c <= 'z' {
			c -= 'a' - 'A'
		}
		up = false
		b.WriteRune(c)
	}
	return b.String()
}

func lastComponent(s string) string {
	if i := strings.LastIndex(s, "."); i >= 0 {
		return s[i+1:]
	}
	return s
}

func msgProbes(m *descriptorpb.DescriptorProto) probes {
	nums := []int64{-1, 0, 1, 2, 18999, 19000, 19999, 20000, 536870910, 536870911, 536870912, 2147483646, 2147483647}
	names := []string{"", "zz_absent", m.GetName()}
	for _, r := range m.GetExtensionRange() {
		s, e := int64(r.GetStart()), int64(r.GetEnd())
		nums = append(nums, around(s)...)
		nums = append(nums, around(e)...)
		nums = append(nums, (s+e)/2)
	}
	for _, r := range m.GetReservedRange() {
		s, e := int64(r.GetStart()), int64(r.GetEnd())
		nums = append(nums, around(s)...)
		nums = append(nums, around(e)...)
		nums = append(nums, (s+e)/2)
	}
	for _, f := range append(append([]*descriptorpb.FieldDescriptorProto{}, m.GetField()...), m.GetExtension()...) {
		nums = append(nums, around(int64(f.GetNumber()))...)
		names = append(names, f.GetName(), f.GetJsonName(), jsonNameOf(f.GetName()), lastComponent(f.GetTypeName()),
			"["+f.GetName()+"]", "["+strings.TrimPrefix(f.GetExtendee(), ".")+"."+f.GetName()+"]")
	}
	for _, o := range m.GetOneofDecl() {
		names = append(names, o.GetName())
	}
	for _, n := range m.GetNestedType() {
		names = append(names, n.GetName())
	}
	for _, e := range m.GetEnumType() {
		names = append(names, e.GetName())
		for _, v := range e.GetValue() {
			names = append(names, v.GetName())
		}
	}
	names = append(names, m.GetReservedName()...)
	p := probes{nums: dedupNums(nums, -2147483648, 2147483647), names: dedupNames(names), groupNames: map[string]bool{}}
	p.jtNames = p.names
	if !aliases {
		p.jtNames = exactNames(names)
		for _, f := range m.GetField() {
			if tn := lastComponent(f.GetTypeName()); tn != "" && strings.ToLower(tn) == f.GetName() {
				p.groupNames[f.GetName()] = true
			}
		}
	}
	return p
}

func exactNames(in []string) []string {
	seen := map[string]bool{}
	out := []string{}
	for _, s := range in {
		if !seen[s] {
			seen[s] = true
			out = append(out, s)
		}
	}
	sort.Strings(out)
	return out
}

func enumProbes(e *descriptorpb.EnumDescriptorProto) probes {
	nums := []int64{-2147483648, -2147483647, -1, 0, 1, 2147483646, 2147483647}
	names := []string{"", "zz_absent", e.GetName()}
	for _, r := range e.GetReservedRange() {
		s, en := int64(r.GetStart()), int64(r.GetEnd())
		nums = append(nums, around(s)...)
		nums = append(nums, around(en)...)
		nums = append(nums, (s+en)/2)
	}
	for _, v := range e.GetValue() {
		nums = append(nums, around(int64(v.GetNumber()))...)
		names = append(names, v.GetName())
	}
	names = append(names, e.GetReservedName()...)
	return probes{nums: dedupNums(nums, -2147483648, 2147483647), names: dedupNames(names)}
}

func fileProbes(f *descriptorpb.FileDescriptorProto) probes {
	names := []string{"", "zz_absent", f.GetPackage(), lastComponent(f.GetPackage())}
	for _, m := range f.GetMessageType() {
		names = append(names, m.GetName())
		for _, n := range m.GetNestedType() {
			names = append(names, n.GetName())
		}
	}
	for _, e := range f.GetEnumType() {
		names = append(names, e.GetName())
		for _, v := range e.GetValue() {
			names = append(names, v.GetName())
		}
	}
	for _, x := range f.GetExtension() {
		names = append(names, x.GetName())
	}
	for _, s := range f.GetService() {
		names = append(names, s.GetName())
		for _, m := range s.GetMethod() {
			names = append(names, m.GetName())
		}
	}
	return probes{names: dedupNames(names)}
}

// optsHash: the options message an element reports (a wrong element's options would differ).
func optsHash(m protoreflect.ProtoMessage) string {
	if m == nil {
		return "nil"
	}
	b, err := proto.MarshalOptions{Deterministic: true}.Marshal(m)
	if err != nil {
		return "error:" + err.Error()
	}
	if len(b) == 0 {
		return ""
	}
	h := sha256.Sum256(b)
	return vhlib.Hx(h[:6])
}

// common: what every descriptor reports about its place in the file.
func common(d protoreflect.Descriptor, out map[string]any) {
	par := ""
	if p := d.Parent(); p != nil {
		if _, isFile := p.(protoreflect.FileDescriptor); isFile {
			par = "file:" + p.(protoreflect.FileDescriptor).Path()
		} else {
			par = string(p.FullName())
		}
	}
	pf := ""
	if f := d.ParentFile(); f != nil {
		pf = f.Path()
	}
	out["parent"] = par
	out["pfile"] = pf
	out["dsyntax"] = int64(d.Syntax())
	out["placeholder"] = d.IsPlaceholder()
	out["opts"] = optsHash(d.Options())
	out["dname"] = string(d.Name())
}

func hit(q any, d protoreflect.Descriptor) []any { return []any{q, string(d.FullName()), int64(d.Index())} }

// fieldLookups is used for MessageDescriptor.Fields() and OneofDescriptor.Fields().
func fieldLookups(fs protoreflect.FieldDescriptors, p probes, isOneof bool, out map[string]any) {
	byNum, byName, byJSON, byText := []any{}, []any{}, []any{}, []any{}
	for _, n := range p.nums {
		if d := fs.ByNumber(protoreflect.FieldNumber(n)); d != nil {
			byNum = append(byNum, hit(n, d))
		}
	}
	for _, s := range p.names {
		if d := fs.ByName(protoreflect.Name(s)); d != nil {
			byName = append(byName, hit(s, d))
		}
	}
	for _, s := range p.jtNames {
		// aliases off: the field name of a group-typed field is not asked as a JSON name (it is the lower-cased
		// JSON name when json_name is the same word in another case)
		if d := fs.ByJSONName(s); d != nil && !p.groupNames[s] {
			byJSON = append(byJSON, hit(s, d))
		}
		if isOneof && p.groupNames[s] {
			continue
		}
		if d := fs.ByTextName(s); d != nil {
			byText = append(byText, hit(s, d))
		}
	}
	out["fbynum"], out["fbyname"], out["fbyjson"], out["fbytext"] = byNum, byName, byJSON, byText
}

func msgLookups(md protoreflect.MessageDescriptor, p probes, out map[string]any) {
	common(md, out)
	rsvdHas, extHas, reqHas := []int64{}, []int64{}, []int64{}
	for _, n := range p.nums {
		fn := protoreflect.FieldNumber(n)
		if md.ReservedRanges().Has(fn) {
			rsvdHas = append(rsvdHas, n)
		}
		if md.ExtensionRanges().Has(fn) {
			extHas = append(extHas, n)
		}
		if md.RequiredNumbers().Has(fn) {
			reqHas = append(reqHas, n)
		}
	}
	out["rsvdhas"], out["exthas"], out["reqhas"] = rsvdHas, extHas, reqHas
	fieldLookups(md.Fields(), p, false, out)
	nameHas, oneofBy, msgBy, enumBy, extBy := []string{}, []any{}, []any{}, []any{}, []any{}
	for _, s := range p.names {
		nm := protoreflect.Name(s)
		if md.ReservedNames().Has(nm) {
			nameHas = append(nameHas, s)
		}
		if d := md.Oneofs().ByName(nm); d != nil {
			oneofBy = append(oneofBy, hit(s, d))
		}
		if d := md.Messages().ByName(nm); d != nil {
			msgBy = append(msgBy, hit(s, d))
		}
		if d := md.Enums().ByName(nm); d != nil {
			enumBy = append(enumBy, hit(s, d))
		}
		if d := md.Extensions().ByName(nm); d != nil {
			extBy = append(extBy, hit(s, d))
		}
	}
	out["rsvdnamehas"], out["oneofbyname"], out["msgbyname"], out["enumbyname"], out["extbyname"] = nameHas, oneofBy, msgBy, enumBy, extBy
	ero := []string{}
	for i := 0; i < md.ExtensionRanges().Len(); i++ {
		ero = append(ero, optsHash(md.ExtensionRangeOptions(i)))
	}
	out["extrangeopts"] = ero
	// the order of the nested lists (Get(i).Index() == i is part of the vector through hit())
	msgs, enums, exts := []string{}, []string{}, []string{}
	for i := 0; i < md.Messages().Len(); i++ {
		msgs = append(msgs, string(md.Messages().Get(i).FullName()))
	}
	for i := 0; i < md.Enums().Len(); i++ {
		enums = append(enums, string(md.Enums().Get(i).FullName()))
	}
	for i := 0; i < md.Extensions().Len(); i++ {
		exts = append(exts, string(md.Extensions().Get(i).FullName()))
	}
	out["msgs"], out["enums"], out["exts"] = msgs, enums, exts
}

func enumLookups(ed protoreflect.EnumDescriptor, p probes, out map[string]any) {
	common(ed, out)
	rsvdHas, byNum, byName, nameHas, vcommon := []int64{}, []any{}, []any{}, []string{}, []any{}
	for _, n := range p.nums {
		en := protoreflect.EnumNumber(n)
		if ed.ReservedRanges().Has(en) {
			rsvdHas = append(rsvdHas, n)
		}
		if d := ed.Values().ByNumber(en); d != nil {
			byNum = append(byNum, hit(n, d))
		}
	}
	for _, s := range p.names {
		nm := protoreflect.Name(s)
		if ed.ReservedNames().Has(nm) {
			nameHas = append(nameHas, s)
		}
		if d := ed.Values().ByName(nm); d != nil {
			byName = append(byName, hit(s, d))
		}
	}
	for i := 0; i < ed.Values().Len(); i++ {
		v := ed.Values().Get(i)
		m := map[string]any{}
		common(v, m)
		vcommon = append(vcommon, []any{m["parent"], m["pfile"], m["dsyntax"], m["placeholder"], m["opts"], m["dname"]})
	}
	out["rsvdhas"], out["vbynum"], out["vbyname"], out["rsvdnamehas"], out["vcommon"] = rsvdHas, byNum, byName, nameHas, vcommon
}

func oneofLookups(od protoreflect.OneofDescriptor, p probes, out map[string]any) {
	common(od, out)
	fieldLookups(od.Fields(), p, true, out)
}

func svcLookups(sd protoreflect.ServiceDescriptor, p probes, out map[string]any) {
	common(sd, out)
	by, mc := []any{}, []any{}
	for _, s := range p.names {
		if d := sd.Methods().ByName(protoreflect.Name(s)); d != nil {
			by = append(by, hit(s, d))
		}
	}
	for i := 0; i < sd.Methods().Len(); i++ {
		m := map[string]any{}
		common(sd.Methods().Get(i), m)
		mc = append(mc, []any{m["parent"], m["pfile"], m["dsyntax"], m["placeholder"], m["opts"], m["dname"], int64(sd.Methods().Get(i).Index())})
	}
	out["mbyname"], out["mcommon"] = by, mc
}

func fileLookups(fd protoreflect.FileDescriptor, p probes, out map[string]any) {
	msgBy, enumBy, extBy, svcBy := []any{}, []any{}, []any{}, []any{}
	for _, s := range p.names {
		nm := protoreflect.Name(s)
		if d := fd.Messages().ByName(nm); d != nil {
			msgBy = append(msgBy, hit(s, d))
		}
		if d := fd.Enums().ByName(nm); d != nil {
			enumBy = append(enumBy, hit(s, d))
		}
		if d := fd.Extensions().ByName(nm); d != nil {
			extBy = append(extBy, hit(s, d))
		}
		if d := fd.Services().ByName(nm); d != nil {
			svcBy = append(svcBy, hit(s, d))
		}
	}
	out["msgbyname"], out["enumbyname"], out["extbyname"], out["svcbyname"] = msgBy, enumBy, extBy, svcBy
	msgs, enums, exts, svcs := []string{}, []string{}, []string{}, []string{}
	for i := 0; i < fd.Messages().Len(); i++ {
		msgs = append(msgs, string(fd.Messages().Get(i).FullName()))
	}
	for i := 0; i < fd.Enums().Len(); i++ {
		enums = append(enums, string(fd.Enums().Get(i).FullName()))
	}
	for i := 0; i < fd.Extensions().Len(); i++ {
		exts = append(exts, string(fd.Extensions().Get(i).FullName()))
	}
	for i := 0; i < fd.Services().Len(); i++ {
		svcs = append(svcs, string(fd.Services().Get(i).FullName()))
	}
	out["msgs"], out["enums"], out["exts"], out["svcs"] = msgs, enums, exts, svcs
	out["opts"] = optsHash(fd.Options())
	out["fplaceholder"] = fd.IsPlaceholder()
	out["fparent"] = fd.Parent() == nil
	out["fpfile"] = fd.ParentFile() != nil && fd.ParentFile().Path() == fd.Path()
}
