// Command views (C04): compiles a generated program and reports, for every descriptor element,
// the raw facts the linker's descriptor views are computed from (the model input), the attribute
// vector reported by the linker.File, and the attribute vector reported by the Go protobuf runtime
// (protodesc.NewFile on the compiled FileDescriptorProto).
package main

import (
	"bytes"
	"context"
	"fmt"
	"math"
	"sort"
	"strconv"
	"strings"

	"github.com/bufbuild/protocompile"
	"github.com/bufbuild/protocompile/experimental/verifharness/vhlib"
	"github.com/bufbuild/protocompile/internal/editions"
	"github.com/bufbuild/protocompile/linker"
	"github.com/bufbuild/protocompile/protoutil"
	"google.golang.org/protobuf/proto"
	"google.golang.org/protobuf/reflect/protodesc"
	"google.golang.org/protobuf/reflect/protoreflect"
	"google.golang.org/protobuf/reflect/protoregistry"
	"google.golang.org/protobuf/types/descriptorpb"
)

func main() { vhlib.Main(viewsCase) }

var featNames = []string{"field_presence", "enum_type", "repeated_field_encoding", "utf8_validation", "message_encoding", "json_format"}

// fsVec is the six core features of a FeatureSet, -1 for a feature that is not set.
func fsVec(fs *descriptorpb.FeatureSet) []int64 {
	out := []int64{-1, -1, -1, -1, -1, -1}
	if fs == nil {
		return out
	}
	if fs.FieldPresence != nil {
		out[0] = int64(*fs.FieldPresence)
	}
	if fs.EnumType != nil {
		out[1] = int64(*fs.EnumType)
	}
	if fs.RepeatedFieldEncoding != nil {
		out[2] = int64(*fs.RepeatedFieldEncoding)
	}
	if fs.Utf8Validation != nil {
		out[3] = int64(*fs.Utf8Validation)
	}
	if fs.MessageEncoding != nil {
		out[4] = int64(*fs.MessageEncoding)
	}
	if fs.JsonFormat != nil {
		out[5] = int64(*fs.JsonFormat)
	}
	return out
}

func setFeat(fs *descriptorpb.FeatureSet, vec []int64) {
	if vec[0] >= 0 {
		fs.FieldPresence = descriptorpb.FeatureSet_FieldPresence(vec[0]).Enum()
	}
	if vec[1] >= 0 {
		fs.EnumType = descriptorpb.FeatureSet_EnumType(vec[1]).Enum()
	}
	if vec[2] >= 0 {
		fs.RepeatedFieldEncoding = descriptorpb.FeatureSet_RepeatedFieldEncoding(vec[2]).Enum()
	}
	if vec[3] >= 0 {
		fs.Utf8Validation = descriptorpb.FeatureSet_Utf8Validation(vec[3]).Enum()
	}
	if vec[4] >= 0 {
		fs.MessageEncoding = descriptorpb.FeatureSet_MessageEncoding(vec[4]).Enum()
	}
	if vec[5] >= 0 {
		fs.JsonFormat = descriptorpb.FeatureSet_JsonFormat(vec[5]).Enum()
	}
}

func valStr(v protoreflect.Value) string {
	if !v.IsValid() {
		return "<invalid>"
	}
	switch x := v.Interface().(type) {
	case []byte:
		return "bytes:" + vhlib.Hx(x)
	case string:
		return "str:" + vhlib.Hx([]byte(x))
	case float32:
		return "f32:" + strconv.FormatUint(uint64(math.Float32bits(x)), 16)
	case float64:
		return "f64:" + strconv.FormatUint(math.Float64bits(x), 16)
	case protoreflect.EnumNumber:
		return fmt.Sprintf("enum:%d", x)
	case protoreflect.Message, protoreflect.List, protoreflect.Map:
		return "<composite>"
	default:
		return fmt.Sprintf("%T:%v", x, x)
	}
}

func fullNameOf(d protoreflect.Descriptor) string {
	if d == nil {
		return ""
	}
	return string(d.FullName())
}

// fieldAttrs is evaluated identically on the linker's descriptor and on the runtime's.
func fieldAttrs(fd protoreflect.FieldDescriptor) map[string]any {
	out := map[string]any{
		"name":    string(fd.Name()),
		"full":    string(fd.FullName()),
		"number":  int64(fd.Number()),
		"index":   int64(fd.Index()),
		"card":    int64(fd.Cardinality()),
		"kind":    int64(fd.Kind()),
		"pres":    fd.HasPresence(),
		"packed":  fd.IsPacked(),
		"optkw":   fd.HasOptionalKeyword(),
		"map":     fd.IsMap(),
		"list":    fd.IsList(),
		"ext":     fd.IsExtension(),
		"weak":    fd.IsWeak(),
		"hasjson": fd.HasJSONName(),
		"json":    fd.JSONName(),
		"text":    fd.TextName(),
		"hasdef":  fd.HasDefault(),
		"oneof":   "",
		"msg":     "",
		"enum":    "",
		"cmsg":    fullNameOf(fd.ContainingMessage()),
		"mapkey":  "",
		"mapval":  "",
		"defenum": "",
	}
	if fd.Cardinality() != protoreflect.Repeated && fd.Message() == nil {
		out["def"] = valStr(fd.Default())
	} else {
		out["def"] = ""
	}
	if o := fd.ContainingOneof(); o != nil {
		out["oneof"] = string(o.FullName())
	}
	if m := fd.Message(); m != nil {
		out["msg"] = string(m.FullName())
	}
	if e := fd.Enum(); e != nil {
		out["enum"] = string(e.FullName())
	}
	if k := fd.MapKey(); k != nil {
		out["mapkey"] = string(k.FullName())
	}
	if k := fd.MapValue(); k != nil {
		out["mapval"] = string(k.FullName())
	}
	if ev := fd.DefaultEnumValue(); ev != nil {
		out["defenum"] = string(ev.FullName())
	}
	common(fd, out)
	return out
}

func rangesOf(r protoreflect.FieldRanges) []any {
	out := []any{}
	for i := 0; i < r.Len(); i++ {
		x := r.Get(i)
		out = append(out, []int64{int64(x[0]), int64(x[1])})
	}
	return out
}

func namesOf(n protoreflect.Names) []string {
	out := []string{}
	for i := 0; i < n.Len(); i++ {
		out = append(out, string(n.Get(i)))
	}
	return out
}

func msgAttrs(md protoreflect.MessageDescriptor, p probes) map[string]any {
	req := []int64{}
	rn := md.RequiredNumbers()
	for i := 0; i < rn.Len(); i++ {
		req = append(req, int64(rn.Get(i)))
	}
	sort.Slice(req, func(i, j int) bool { return req[i] < req[j] })
	fields := []string{}
	for i := 0; i < md.Fields().Len(); i++ {
		fields = append(fields, string(md.Fields().Get(i).Name()))
	}
	oneofs := []string{}
	for i := 0; i < md.Oneofs().Len(); i++ {
		oneofs = append(oneofs, string(md.Oneofs().Get(i).Name()))
	}
	out := map[string]any{
		"full":      string(md.FullName()),
		"index":     int64(md.Index()),
		"mapentry":  md.IsMapEntry(),
		"req":       req,
		"rsvd":      rangesOf(md.ReservedRanges()),
		"rsvdnames": namesOf(md.ReservedNames()),
		"extranges": rangesOf(md.ExtensionRanges()),
		"fields":    fields,
		"oneofs":    oneofs,
		"nmsgs":     int64(md.Messages().Len()),
		"nenums":    int64(md.Enums().Len()),
		"nexts":     int64(md.Extensions().Len()),
	}
	msgLookups(md, p, out)
	return out
}

func enumAttrs(ed protoreflect.EnumDescriptor, p probes) map[string]any {
	vals := []any{}
	for i := 0; i < ed.Values().Len(); i++ {
		v := ed.Values().Get(i)
		vals = append(vals, []any{string(v.FullName()), int64(v.Number()), int64(v.Index())})
	}
	rr := []any{}
	for i := 0; i < ed.ReservedRanges().Len(); i++ {
		x := ed.ReservedRanges().Get(i)
		rr = append(rr, []int64{int64(x[0]), int64(x[1])})
	}
	out := map[string]any{
		"full":      string(ed.FullName()),
		"index":     int64(ed.Index()),
		"closed":    ed.IsClosed(),
		"values":    vals,
		"rsvd":      rr,
		"rsvdnames": namesOf(ed.ReservedNames()),
	}
	enumLookups(ed, p, out)
	return out
}

func oneofAttrs(od protoreflect.OneofDescriptor, p probes) map[string]any {
	fields := []string{}
	for i := 0; i < od.Fields().Len(); i++ {
		fields = append(fields, string(od.Fields().Get(i).Name()))
	}
	out := map[string]any{
		"full":      string(od.FullName()),
		"index":     int64(od.Index()),
		"synthetic": od.IsSynthetic(),
		"fields":    fields,
	}
	oneofLookups(od, p, out)
	return out
}

func svcAttrs(sd protoreflect.ServiceDescriptor, p probes) map[string]any {
	ms := []any{}
	for i := 0; i < sd.Methods().Len(); i++ {
		m := sd.Methods().Get(i)
		ms = append(ms, []any{string(m.FullName()), fullNameOf(m.Input()), fullNameOf(m.Output()), m.IsStreamingClient(), m.IsStreamingServer()})
	}
	out := map[string]any{"full": string(sd.FullName()), "index": int64(sd.Index()), "methods": ms}
	svcLookups(sd, p, out)
	return out
}

func fileAttrs(fd protoreflect.FileDescriptor, p probes) map[string]any {
	imps := []any{}
	for i := 0; i < fd.Imports().Len(); i++ {
		im := fd.Imports().Get(i)
		imps = append(imps, []any{im.Path(), im.IsPublic})
	}
	out := map[string]any{
		"path":    fd.Path(),
		"package": string(fd.Package()),
		"syntax":  int64(fd.Syntax()),
		"imports": imps,
		"nmsgs":   int64(fd.Messages().Len()),
		"nenums":  int64(fd.Enums().Len()),
		"nexts":   int64(fd.Extensions().Len()),
		"nsvcs":   int64(fd.Services().Len()),
	}
	fileLookups(fd, p, out)
	return out
}

// resolved returns what protoutil.ResolveFeature says for the six core features of an element.
func resolved(d protoreflect.Descriptor) []int64 {
	out := make([]int64, 6)
	for i, n := range featNames {
		fld := editions.FeatureSetDescriptor.Fields().ByName(protoreflect.Name(n))
		v, err := protoutil.ResolveFeature(d, fld)
		if err != nil {
			out[i] = -2
			continue
		}
		out[i] = int64(v.Enum())
	}
	return out
}

type walker struct {
	lk    linker.File
	rt    protoreflect.FileDescriptor
	syn   int64
	ed    int64
	elems []any
	errs  []string
}

func (w *walker) find(rtOnly bool, name string) (protoreflect.Descriptor, protoreflect.Descriptor) {
	l := w.lk.FindDescriptorByName(protoreflect.FullName(name))
	var r protoreflect.Descriptor
	if w.rt != nil {
		r = findIn(w.rt, protoreflect.FullName(name))
	}
	return l, r
}

// findIn looks a full name up in a runtime file descriptor by walking it.
func findIn(fd protoreflect.FileDescriptor, name protoreflect.FullName) protoreflect.Descriptor {
	var res protoreflect.Descriptor
	var inMsgs func(ms protoreflect.MessageDescriptors)
	check := func(d protoreflect.Descriptor) bool {
		if d.FullName() == name {
			res = d
			return true
		}
		return false
	}
	inEnums := func(es protoreflect.EnumDescriptors) {
		for i := 0; i < es.Len() && res == nil; i++ {
			check(es.Get(i))
		}
	}
	inExts := func(xs protoreflect.ExtensionDescriptors) {
		for i := 0; i < xs.Len() && res == nil; i++ {
			check(xs.Get(i))
		}
	}
	inMsgs = func(ms protoreflect.MessageDescriptors) {
		for i := 0; i < ms.Len() && res == nil; i++ {
			m := ms.Get(i)
			if check(m) {
				return
			}
			for j := 0; j < m.Fields().Len() && res == nil; j++ {
				check(m.Fields().Get(j))
			}
			for j := 0; j < m.Oneofs().Len() && res == nil; j++ {
				check(m.Oneofs().Get(j))
			}
			inEnums(m.Enums())
			inExts(m.Extensions())
			inMsgs(m.Messages())
		}
	}
	inMsgs(fd.Messages())
	inEnums(fd.Enums())
	inExts(fd.Extensions())
	for i := 0; i < fd.Services().Len() && res == nil; i++ {
		check(fd.Services().Get(i))
	}
	return res
}

func join(prefix, name string) string {
	if prefix == "" {
		return name
	}
	return prefix + "." + name
}

func chainOf(own []int64, anc [][]int64) []any {
	out := []any{own}
	for i := len(anc) - 1; i >= 0; i-- {
		out = append(out, anc[i])
	}
	return out
}

func packedPtr(f *descriptorpb.FieldDescriptorProto) *bool {
	if f.GetOptions() == nil {
		return nil
	}
	return f.GetOptions().Packed
}

func boolOpt(p *bool) int64 {
	if p == nil {
		return -1
	}
	if *p {
		return 1
	}
	return 0
}

func (w *walker) field(prefix string, fdp *descriptorpb.FieldDescriptorProto, anc [][]int64, parentMapEntry bool, mapEntries map[string]bool) map[string]any {
	name := join(prefix, fdp.GetName())
	own := fsVec(fdp.GetOptions().GetFeatures())
	tn := strings.TrimPrefix(fdp.GetTypeName(), ".")
	in := map[string]any{
		"syn":    w.syn,
		"ed":     w.ed,
		"label":  int64(fdp.GetLabel()),
		"type":   int64(fdp.GetType()),
		"number": int64(fdp.GetNumber()),
		"ext":    fdp.GetExtendee() != "",
		"oneof":  fdp.OneofIndex != nil,
		"p3opt":  fdp.GetProto3Optional(),
		"packed": boolOpt(packedPtr(fdp)),
		"msgmap": fdp.GetType() == descriptorpb.FieldDescriptorProto_TYPE_MESSAGE && mapEntries[tn],
		"parmap": parentMapEntry,
		"chain":  chainOf(own, anc),
		"hasdefval": fdp.DefaultValue != nil,
		"defval":    fdp.GetDefaultValue(),
		// the names TextName() is computed from (Model/FieldView.v fnames)
		"pname":  fdp.GetName(),
		"parent": prefix,
		"tname":  tn,
	}
	return map[string]any{"k": "field", "name": name, "in": in}
}

func (w *walker) emitField(e map[string]any) {
	name := e["name"].(string)
	l, r := w.find(false, name)
	if lf, ok := l.(protoreflect.FieldDescriptor); ok {
		a := fieldAttrs(lf)
		a["feat"] = resolved(lf)
		e["lk"] = a
	} else {
		w.errs = append(w.errs, "linker has no field "+name)
	}
	if w.rt != nil {
		if rf, ok := r.(protoreflect.FieldDescriptor); ok {
			e["rt"] = fieldAttrs(rf)
			if m := rf.Message(); m != nil {
				// the two scope tests of the runtime's isGroupLike, as they are on its own descriptors
				sameScope := rf.ContainingMessage() == m.Parent()
				if rf.IsExtension() {
					sameScope = rf.Parent() == m.Parent()
				}
				e["rtscope"] = []bool{m.ParentFile() == rf.ParentFile(), sameScope}
			}
		} else {
			w.errs = append(w.errs, "runtime has no field "+name)
		}
	}
	w.elems = append(w.elems, e)
}

func (w *walker) enum(prefix string, edp *descriptorpb.EnumDescriptorProto, anc [][]int64) {
	name := join(prefix, edp.GetName())
	e := map[string]any{"k": "enum", "name": name,
		"in": map[string]any{"syn": w.syn, "ed": w.ed, "chain": chainOf(fsVec(edp.GetOptions().GetFeatures()), anc)}}
	l, r := w.find(false, name)
	ep := enumProbes(edp)
	e["probes"] = ep.nums
	if le, ok := l.(protoreflect.EnumDescriptor); ok {
		a := enumAttrs(le, ep)
		a["feat"] = resolved(le)
		e["lk"] = a
	} else {
		w.errs = append(w.errs, "linker has no enum "+name)
	}
	if w.rt != nil {
		if re, ok := r.(protoreflect.EnumDescriptor); ok {
			e["rt"] = enumAttrs(re, ep)
		} else {
			w.errs = append(w.errs, "runtime has no enum "+name)
		}
	}
	w.elems = append(w.elems, e)
}

func (w *walker) message(prefix string, mdp *descriptorpb.DescriptorProto, anc [][]int64, mapEntries map[string]bool) {
	name := join(prefix, mdp.GetName())
	own := fsVec(mdp.GetOptions().GetFeatures())
	sub := append(append([][]int64{}, anc...), own)
	isMapEntry := mdp.GetOptions().GetMapEntry()
	fins := []any{}
	var fes []map[string]any
	for _, f := range mdp.GetField() {
		fe := w.field(name, f, sub, isMapEntry, mapEntries)
		fes = append(fes, fe)
		fins = append(fins, fe["in"])
	}
	e := map[string]any{"k": "msg", "name": name,
		"in": map[string]any{"syn": w.syn, "ed": w.ed, "chain": chainOf(own, anc), "fields": fins, "mapentry": isMapEntry}}
	l, r := w.find(false, name)
	mp := msgProbes(mdp)
	e["probes"] = mp.nums
	if lm, ok := l.(protoreflect.MessageDescriptor); ok {
		a := msgAttrs(lm, mp)
		a["feat"] = resolved(lm)
		e["lk"] = a
	} else {
		w.errs = append(w.errs, "linker has no message "+name)
	}
	if w.rt != nil {
		if rm, ok := r.(protoreflect.MessageDescriptor); ok {
			e["rt"] = msgAttrs(rm, mp)
		} else {
			w.errs = append(w.errs, "runtime has no message "+name)
		}
	}
	w.elems = append(w.elems, e)
	for _, fe := range fes {
		w.emitField(fe)
	}
	for _, o := range mdp.GetOneofDecl() {
		on := join(name, o.GetName())
		oe := map[string]any{"k": "oneof", "name": on,
			"in": map[string]any{"syn": w.syn, "ed": w.ed, "chain": chainOf(fsVec(o.GetOptions().GetFeatures()), sub)}}
		lo, ro := w.find(false, on)
		if x, ok := lo.(protoreflect.OneofDescriptor); ok {
			a := oneofAttrs(x, mp)
			a["feat"] = resolved(x)
			oe["lk"] = a
		} else {
			w.errs = append(w.errs, "linker has no oneof "+on)
		}
		if w.rt != nil {
			if x, ok := ro.(protoreflect.OneofDescriptor); ok {
				oe["rt"] = oneofAttrs(x, mp)
			} else {
				w.errs = append(w.errs, "runtime has no oneof "+on)
			}
		}
		w.elems = append(w.elems, oe)
	}
	for _, x := range mdp.GetExtension() {
		w.emitField(w.field(name, x, sub, false, mapEntries))
	}
	for _, en := range mdp.GetEnumType() {
		w.enum(name, en, sub)
	}
	for _, m := range mdp.GetNestedType() {
		w.message(name, m, sub, mapEntries)
	}
}

func collectMapEntries(prefix string, ms []*descriptorpb.DescriptorProto, out map[string]bool) {
	for _, m := range ms {
		n := join(prefix, m.GetName())
		if m.GetOptions().GetMapEntry() {
			out[n] = true
		}
		collectMapEntries(n, m.GetNestedType(), out)
	}
}

type inj struct {
	name string
	vec  []int64
}

// applyInjections sets feature overrides on the named elements of a descriptor proto
// (messages, fields, oneofs, enums, extensions), whatever the declared option targets say.
func applyInjections(fdp *descriptorpb.FileDescriptorProto, injs []inj) []string {
	var missing []string
	byName := map[string]func(vec []int64){}
	if fdp.Options == nil {
		fdp.Options = &descriptorpb.FileOptions{}
	}
	byName[""] = func(vec []int64) {
		if fdp.Options.Features == nil {
			fdp.Options.Features = &descriptorpb.FeatureSet{}
		}
		setFeat(fdp.Options.Features, vec)
	}
	var doEnum func(prefix string, e *descriptorpb.EnumDescriptorProto)
	var doField func(prefix string, f *descriptorpb.FieldDescriptorProto)
	var doMsg func(prefix string, m *descriptorpb.DescriptorProto)
	doEnum = func(prefix string, e *descriptorpb.EnumDescriptorProto) {
		byName[join(prefix, e.GetName())] = func(vec []int64) {
			if e.Options == nil {
				e.Options = &descriptorpb.EnumOptions{}
			}
			if e.Options.Features == nil {
				e.Options.Features = &descriptorpb.FeatureSet{}
			}
			setFeat(e.Options.Features, vec)
		}
	}
	doField = func(prefix string, f *descriptorpb.FieldDescriptorProto) {
		byName[join(prefix, f.GetName())] = func(vec []int64) {
			if f.Options == nil {
				f.Options = &descriptorpb.FieldOptions{}
			}
			if f.Options.Features == nil {
				f.Options.Features = &descriptorpb.FeatureSet{}
			}
			setFeat(f.Options.Features, vec)
		}
	}
	doMsg = func(prefix string, m *descriptorpb.DescriptorProto) {
		n := join(prefix, m.GetName())
		byName[n] = func(vec []int64) {
			if m.Options == nil {
				m.Options = &descriptorpb.MessageOptions{}
			}
			if m.Options.Features == nil {
				m.Options.Features = &descriptorpb.FeatureSet{}
			}
			setFeat(m.Options.Features, vec)
		}
		for _, f := range m.Field {
			doField(n, f)
		}
		for _, f := range m.Extension {
			doField(n, f)
		}
		for _, o := range m.OneofDecl {
			o := o
			byName[join(n, o.GetName())] = func(vec []int64) {
				if o.Options == nil {
					o.Options = &descriptorpb.OneofOptions{}
				}
				if o.Options.Features == nil {
					o.Options.Features = &descriptorpb.FeatureSet{}
				}
				setFeat(o.Options.Features, vec)
			}
		}
		for _, e := range m.EnumType {
			doEnum(n, e)
		}
		for _, s := range m.NestedType {
			doMsg(n, s)
		}
	}
	pkg := fdp.GetPackage()
	for _, m := range fdp.MessageType {
		doMsg(pkg, m)
	}
	for _, e := range fdp.EnumType {
		doEnum(pkg, e)
	}
	for _, f := range fdp.Extension {
		doField(pkg, f)
	}
	for _, in := range injs {
		if fn, ok := byName[in.name]; ok {
			fn(in.vec)
		} else {
			missing = append(missing, in.name)
		}
	}
	return missing
}

// in:  files {path: text}, main path, inject [[fullname, [six ints]] ...] (optional)
// out: err | {elems: [...], file: {...}, rterr: string}
func viewsCase(in map[string]any) map[string]any {
	if vhlib.Str(in, "mode") == "defaults" {
		return defaultsCase()
	}
	files := map[string]string{}
	if m, ok := in["files"].(map[string]any); ok {
		for k, v := range m {
			files[k], _ = v.(string)
		}
	}
	mainPath := vhlib.Str(in, "main")
	aliases = vhlib.Bool(in, "aliases")
	var injs []inj
	for _, it := range vhlib.List(in, "inject") {
		pair, _ := it.([]any)
		if len(pair) != 2 {
			continue
		}
		n, _ := pair[0].(string)
		raw, _ := pair[1].([]any)
		vec := make([]int64, 6)
		for i := range vec {
			vec[i] = -1
			if i < len(raw) {
				vec[i] = vhlib.AnyNum(raw[i])
			}
		}
		injs = append(injs, inj{n, vec})
	}
	srcRes := protocompile.WithStandardImports(&protocompile.SourceResolver{Accessor: protocompile.SourceAccessorFromMap(files)})
	comp := protocompile.Compiler{Resolver: srcRes}
	res, err := comp.Compile(context.Background(), mainPath)
	if err != nil {
		return map[string]any{"err": err.Error(), "stage": "source"}
	}
	lf := res[0]
	if len(injs) > 0 {
		// feed the compiled proto back with the extra overrides (descriptor-proto input form)
		fdp := proto.Clone(protoutil.ProtoFromFileDescriptor(lf)).(*descriptorpb.FileDescriptorProto)
		fdp.SourceCodeInfo = nil
		if missing := applyInjections(fdp, injs); len(missing) > 0 {
			return map[string]any{"err": "injection target not found: " + strings.Join(missing, ","), "stage": "inject"}
		}
		comp2 := protocompile.Compiler{Resolver: protocompile.CompositeResolver{
			protocompile.ResolverFunc(func(p string) (protocompile.SearchResult, error) {
				if p == mainPath {
					return protocompile.SearchResult{Proto: fdp}, nil
				}
				return protocompile.SearchResult{}, protoregistry.NotFound
			}), srcRes}}
		res2, err := comp2.Compile(context.Background(), mainPath)
		if err != nil {
			return map[string]any{"err": err.Error(), "stage": "proto"}
		}
		lf = res2[0]
	}
	// the compiled proto itself (NOT protodesc.ToFileDescriptorProto(lf), which would rebuild it from the
	// linker's descriptor views and so hide a wrong view, e.g. of a default value)
	fdp := protoutil.ProtoFromFileDescriptor(lf)
	out := map[string]any{}
	// the runtime's view of the compiled proto; dependencies are resolved against the linker's files
	deps := &protoregistry.Files{}
	var regErr error
	var addDeps func(f protoreflect.FileDescriptor)
	seen := map[string]bool{}
	addDeps = func(f protoreflect.FileDescriptor) {
		for i := 0; i < f.Imports().Len() && regErr == nil; i++ {
			d := f.Imports().Get(i).FileDescriptor
			if seen[d.Path()] {
				continue
			}
			seen[d.Path()] = true
			addDeps(d)
			if regErr != nil {
				return
			}
			rd, err := protodesc.NewFile(protoutil.ProtoFromFileDescriptor(d), deps)
			if err != nil {
				regErr = fmt.Errorf("dependency %s: %w", d.Path(), err)
				return
			}
			if err := deps.RegisterFile(rd); err != nil {
				regErr = err
			}
		}
	}
	addDeps(lf)
	var rt protoreflect.FileDescriptor
	if regErr == nil {
		rt, err = protodesc.NewFile(fdp, deps)
		if err != nil {
			out["rterr"] = err.Error()
			rt = nil
		}
	} else {
		out["rterr"] = regErr.Error()
	}
	syn := int64(1)
	ed := int64(descriptorpb.Edition_EDITION_PROTO2)
	switch fdp.GetSyntax() {
	case "proto3":
		syn, ed = 2, int64(descriptorpb.Edition_EDITION_PROTO3)
	case "editions":
		syn, ed = 3, int64(fdp.GetEdition())
	}
	w := &walker{lk: lf, rt: rt, syn: syn, ed: ed}
	mapEntries := map[string]bool{}
	collectMapEntries(fdp.GetPackage(), fdp.MessageType, mapEntries)
	// map entries of imported files (a field may refer to one only in its own file, but be complete)
	fileFs := fsVec(fdp.GetOptions().GetFeatures())
	anc := [][]int64{fileFs}
	pkg := fdp.GetPackage()
	for _, m := range fdp.MessageType {
		w.message(pkg, m, anc, mapEntries)
	}
	for _, e := range fdp.EnumType {
		w.enum(pkg, e, anc)
	}
	for _, x := range fdp.Extension {
		w.emitField(w.field(pkg, x, anc, false, mapEntries))
	}
	svcs := []any{}
	for i := 0; i < lf.Services().Len(); i++ {
		sp := fileProbes(fdp)
		e := map[string]any{"lk": svcAttrs(lf.Services().Get(i), sp)}
		if rt != nil && i < rt.Services().Len() {
			e["rt"] = svcAttrs(rt.Services().Get(i), sp)
		}
		svcs = append(svcs, e)
	}
	fe := map[string]any{"lk": fileAttrs(lf, fileProbes(fdp)), "chain": []any{fileFs}, "feat": resolved(lf), "ed": ed}
	if rt != nil {
		fe["rt"] = fileAttrs(rt, fileProbes(fdp))
	}
	out["file"] = fe
	out["svcs"] = svcs
	out["elems"] = w.elems
	out["errs"] = w.errs
	var buf bytes.Buffer
	buf.WriteString(fdp.GetSyntax())
	out["syntax"] = buf.String()
	return out
}

// defaultsCase reports the tables the code and the runtime actually use at run time, so that the
// transcription in Model/FeaturesTables.v can be cross-checked against the compiled-in data.
func defaultsCase() map[string]any {
	out := map[string]any{}
	code := map[string]any{}
	for _, ed := range []descriptorpb.Edition{descriptorpb.Edition_EDITION_PROTO2, descriptorpb.Edition_EDITION_PROTO3, descriptorpb.Edition_EDITION_2023} {
		code[strconv.Itoa(int(ed))] = fsVec(editions.GetEditionDefaults(ed))
	}
	out["code"] = code
	// the runtime: observable only through its effect; build a one-field-per-attribute file per edition
	rt := map[string]any{}
	for _, c := range []struct {
		syn string
		ed  descriptorpb.Edition
	}{{"proto2", descriptorpb.Edition_EDITION_PROTO2}, {"proto3", descriptorpb.Edition_EDITION_PROTO3}, {"editions", descriptorpb.Edition_EDITION_2023}} {
		fdp := &descriptorpb.FileDescriptorProto{
			Name:   proto.String("d.proto"),
			Syntax: proto.String(c.syn),
			MessageType: []*descriptorpb.DescriptorProto{{
				Name: proto.String("M"),
				Field: []*descriptorpb.FieldDescriptorProto{
					{Name: proto.String("a"), Number: proto.Int32(1), Label: descriptorpb.FieldDescriptorProto_LABEL_OPTIONAL.Enum(), Type: descriptorpb.FieldDescriptorProto_TYPE_INT32.Enum(), JsonName: proto.String("a")},
					{Name: proto.String("b"), Number: proto.Int32(2), Label: descriptorpb.FieldDescriptorProto_LABEL_REPEATED.Enum(), Type: descriptorpb.FieldDescriptorProto_TYPE_INT32.Enum(), JsonName: proto.String("b")},
					{Name: proto.String("c"), Number: proto.Int32(3), Label: descriptorpb.FieldDescriptorProto_LABEL_OPTIONAL.Enum(), Type: descriptorpb.FieldDescriptorProto_TYPE_MESSAGE.Enum(), TypeName: proto.String(".M"), JsonName: proto.String("c")},
				},
			}},
			EnumType: []*descriptorpb.EnumDescriptorProto{{Name: proto.String("E"), Value: []*descriptorpb.EnumValueDescriptorProto{{Name: proto.String("Z"), Number: proto.Int32(0)}}}},
		}
		if c.syn == "editions" {
			fdp.Edition = c.ed.Enum()
		}
		f, err := protodesc.NewFile(fdp, nil)
		if err != nil {
			rt[strconv.Itoa(int(c.ed))] = "error: " + err.Error()
			continue
		}
		m := f.Messages().Get(0)
		rt[strconv.Itoa(int(c.ed))] = map[string]any{
			"presence":  m.Fields().Get(0).HasPresence(),
			"required":  m.Fields().Get(0).Cardinality() == protoreflect.Required,
			"packed":    m.Fields().Get(1).IsPacked(),
			"delimited": m.Fields().Get(2).Kind() == protoreflect.GroupKind,
			"closed":    f.Enums().Get(0).IsClosed(),
		}
	}
	out["rt"] = rt
	return out
}
