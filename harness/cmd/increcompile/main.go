// Command increcompile applies an edit history to a small .proto workspace.  After every edit it
// evicts the File queries of the changed paths on a long-lived incremental.Executor, runs
// queries.Link, and compares descriptors and diagnostics with a brand-new executor (new session,
// new opener) on the same files (C35).
package main

import (
	"context"
	"crypto/sha1"
	"fmt"
	"sort"
	"strings"
	"time"

	"github.com/bufbuild/protocompile/experimental/fdp"
	"github.com/bufbuild/protocompile/experimental/incremental"
	"github.com/bufbuild/protocompile/experimental/incremental/queries"
	"github.com/bufbuild/protocompile/experimental/ir"
	"github.com/bufbuild/protocompile/experimental/report"
	"github.com/bufbuild/protocompile/experimental/source"
	"github.com/bufbuild/protocompile/experimental/verifharness/vhlib"
)

func main() { vhlib.Main(recompileCase) }

type outcome struct {
	err   string
	fatal string
	descs map[string]string // path -> sha1 of the descriptor bytes ("nil" for a nil file, "error:..." on failure)
	diags []string          // each diagnostic rendered on its own, sorted
	hang  bool
}

func renderEach(r *report.Report) []string {
	var out []string
	if r == nil {
		return out
	}
	for i := range r.Diagnostics {
		one := &report.Report{Options: r.Options, Diagnostics: []report.Diagnostic{r.Diagnostics[i]}}
		text, _, _ := report.Renderer{}.RenderString(one)
		// the summary line counts are per report; keep the body only
		out = append(out, strings.TrimSpace(text))
	}
	sort.Strings(out)
	return out
}

func link(ex *incremental.Executor, op source.Opener, sess *ir.Session, ws source.Workspace, timeout time.Duration) outcome {
	type res struct {
		o outcome
	}
	ch := make(chan res, 1)
	ctx, cancel := context.WithCancel(context.Background())
	defer cancel()
	go func() {
		var o outcome
		defer func() {
			if p := recover(); p != nil {
				o.err = fmt.Sprintf("ESCAPED-PANIC: %v", p)
			}
			ch <- res{o}
		}()
		results, rep, err := incremental.Run(ctx, ex, queries.Link{Opener: op, Session: sess, Workspace: ws})
		if err != nil {
			o.err = strings.SplitN(err.Error(), "\n", 2)[0]
			return
		}
		o.descs = map[string]string{}
		if results[0].Fatal != nil {
			o.fatal = results[0].Fatal.Error()
		}
		for i, f := range results[0].Value {
			path := ws.Paths()[i]
			if f == nil {
				o.descs[path] = "nil"
				continue
			}
			b, derr := fdp.DescriptorProtoBytes(f)
			if derr != nil {
				o.descs[path] = "error:" + derr.Error()
				continue
			}
			o.descs[path] = fmt.Sprintf("%x", sha1.Sum(b))
		}
		o.diags = renderEach(rep)
	}()
	select {
	case r := <-ch:
		return r.o
	case <-time.After(timeout):
		cancel()
		return outcome{hang: true}
	}
}

func (o outcome) json() map[string]any {
	ds := map[string]any{}
	for k, v := range o.descs {
		ds[k] = v
	}
	return map[string]any{"err": o.err, "fatal": o.fatal, "descs": ds, "diags": o.diags, "hang": o.hang}
}

func same(a, b outcome) (bool, string) {
	if a.hang || b.hang {
		return false, "hang"
	}
	if a.err != b.err {
		return false, "run error differs"
	}
	if (a.fatal == "") != (b.fatal == "") {
		return false, "fatal differs"
	}
	if len(a.descs) != len(b.descs) {
		return false, "descriptor set differs"
	}
	for k, v := range a.descs {
		if b.descs[k] != v {
			return false, "descriptor of " + k + " differs"
		}
	}
	if len(a.diags) != len(b.diags) {
		return false, "number of diagnostics differs"
	}
	for i := range a.diags {
		if a.diags[i] != b.diags[i] {
			return false, "diagnostic differs"
		}
	}
	return true, ""
}

// in: files {path: text}, edits [{set: {path: text}, del: [path], ws: [path], relink: bool}], par, timeout_ms,
// evict ("file" | "none" | "all"), workspace [path].
// Without "workspace" the workspace is the sorted set of all files and follows additions / deletions.  With
// "workspace" the members (and their order) are chosen by the input: the opener may hold files that are not
// members (compiled only as imports, or not at all), an edit's "ws" replaces the member list, and "relink"
// asks for a new Workspace value (= a new Link key) even when the member list is unchanged.
func recompileCase(in map[string]any) map[string]any {
	files := map[string]string{}
	if m, ok := in["files"].(map[string]any); ok {
		for k, v := range m {
			files[k], _ = v.(string)
		}
	}
	par := vhlib.Num(in, "par")
	if par < 1 {
		par = 1
	}
	to := time.Duration(vhlib.Num(in, "timeout_ms")) * time.Millisecond
	if to == 0 {
		to = 20 * time.Second
	}
	mode := vhlib.Str(in, "evict")
	if mode == "" {
		mode = "file"
	}
	// the long-lived side
	m := source.NewMap(nil)
	for p, t := range files {
		m.Add(p, t)
	}
	var op source.Opener = &source.Openers{m, source.WKTs()}
	sess := new(ir.Session)
	ex := incremental.New(incremental.WithParallelism(par))
	paths := func() []string {
		var ps []string
		for p := range files {
			ps = append(ps, p)
		}
		sort.Strings(ps)
		return ps
	}
	explicit := false
	var members []string
	if _, ok := in["workspace"]; ok {
		explicit = true
		members = vhlib.Strs(in, "workspace")
	}
	wsPaths := func() []string {
		if explicit {
			return append([]string(nil), members...)
		}
		return paths()
	}
	ws := source.NewWorkspace(wsPaths()...)
	var steps []any
	step := func(label string) bool {
		inc := link(ex, op, sess, ws, to)
		// brand new executor, session and opener on the same files
		fm := source.NewMap(nil)
		for p, t := range files {
			fm.Add(p, t)
		}
		var fop source.Opener = &source.Openers{fm, source.WKTs()}
		fresh := link(incremental.New(incremental.WithParallelism(par)), fop, new(ir.Session), source.NewWorkspace(wsPaths()...), to)
		ok, why := same(inc, fresh)
		// determinism of the reference itself (a second fresh compilation)
		fm2 := source.NewMap(nil)
		for p, t := range files {
			fm2.Add(p, t)
		}
		var fop2 source.Opener = &source.Openers{fm2, source.WKTs()}
		fresh2 := link(incremental.New(incremental.WithParallelism(par)), fop2, new(ir.Session), source.NewWorkspace(wsPaths()...), to)
		det, _ := same(fresh, fresh2)
		o := map[string]any{"label": label, "equal": ok, "why": why, "fresh_deterministic": det, "keys": len(ex.Keys()),
			"ndiags": len(fresh.diags), "nfiles": len(files), "members": wsPaths()}
		if !ok {
			o["incremental"] = inc.json()
			o["fresh"] = fresh.json()
		}
		steps = append(steps, o)
		return !inc.hang && !fresh.hang
	}
	if !step("initial") {
		return map[string]any{"steps": steps}
	}
	for ei, ea := range vhlib.List(in, "edits") {
		e, _ := ea.(map[string]any)
		var changed []string
		if s, ok := e["set"].(map[string]any); ok {
			for p, v := range s {
				t, _ := v.(string)
				if old, had := files[p]; !had || old != t {
					changed = append(changed, p)
				}
				files[p] = t
				m.Add(p, t)
			}
		}
		for _, p := range vhlib.Strs(e, "del") {
			if _, had := files[p]; had {
				changed = append(changed, p)
				delete(files, p)
				delete(m.Get(), p)
			}
		}
		sort.Strings(changed)
		switch mode {
		case "file":
			var keys []any
			for _, p := range changed {
				keys = append(keys, queries.File{Opener: op, Path: p, ReportError: false})
			}
			ex.Evict(keys...)
		case "all":
			ex = incremental.New(incremental.WithParallelism(par))
		}
		// the workspace value is part of the Link key: keep it while the set of paths is unchanged
		if _, ok := e["ws"]; ok && explicit {
			members = vhlib.Strs(e, "ws")
		}
		np := wsPaths()
		relinked := false
		if strings.Join(np, "\x00") != strings.Join(ws.Paths(), "\x00") || vhlib.Bool(e, "relink") {
			ws = source.NewWorkspace(np...)
			relinked = true
		}
		label := fmt.Sprintf("edit %d (%s)", ei, strings.Join(changed, ","))
		if explicit && relinked {
			label += " workspace [" + strings.Join(np, ",") + "]"
		}
		if !step(label) {
			break
		}
	}
	return map[string]any{"steps": steps}
}
