package main

import (
	"github.com/bufbuild/protocompile/experimental/source"
	"github.com/bufbuild/protocompile/experimental/source/length"
	"github.com/bufbuild/protocompile/experimental/verifharness/vhlib"
)

func main() { vhlib.Main(srcfileCase) }

var units = []length.Unit{length.Bytes, length.UTF16, length.Runes}

// guard runs fn and reports whether it panicked.
func guard(fn func()) (panicked bool) {
	defer func() {
		if recover() != nil {
			panicked = true
		}
	}()
	fn()
	return false
}

// one observation: [line, column, inverse offset]; nil where the call panicked
func observe(loc func() source.Location, inv func(line, col int) int) any {
	var l source.Location
	if guard(func() { l = loc() }) {
		return nil
	}
	var back int
	if guard(func() { back = inv(l.Line, l.Column) }) {
		return []any{l.Line, l.Column, nil}
	}
	return []any{l.Line, l.Column, back}
}

// modes:
//
//	text: text -> lines = File.lines();
//	      pub[u][off] = File.Location(off, u) and File.InverseLocation of that line/column, off = 0..len
//	      raw[u][off] = the same through the unexported location / inverseLocation, off = 0..len+1
//	inv:  text, q = [[line, column, unit]...] -> r = inverseLocation(line, column, unit) (null = panic),
//	      p = File.InverseLocation(...).Offset
func srcfileCase(in map[string]any) map[string]any {
	text := string(vhlib.Unhex(vhlib.Str(in, "text")))
	switch vhlib.Str(in, "mode") {
	case "text":
		f := source.NewFile("t.proto", text)
		ls := source.VerifLines(f)
		lines := make([]any, len(ls))
		for i, x := range ls {
			lines[i] = x
		}
		pub := make([]any, len(units))
		raw := make([]any, len(units))
		for ui, u := range units {
			po := make([]any, 0, len(text)+1)
			ro := make([]any, 0, len(text)+2)
			for off := 0; off <= len(text)+1; off++ {
				if off <= len(text) {
					po = append(po, observe(
						func() source.Location { return f.Location(off, u) },
						func(l, c int) int { return f.InverseLocation(l, c, u).Offset }))
				}
				ro = append(ro, observe(
					func() source.Location { return source.VerifLocation(f, off, u) },
					func(l, c int) int { return source.VerifInverseLocation(f, l, c, u) }))
			}
			pub[ui] = po
			raw[ui] = ro
		}
		return map[string]any{"lines": lines, "pub": pub, "raw": raw}
	case "inv":
		f := source.NewFile("t.proto", text)
		qs := vhlib.List(in, "q")
		r := make([]any, len(qs))
		p := make([]any, len(qs))
		for i, q := range qs {
			qa := q.([]any)
			line, col, u := int(vhlib.AnyNum(qa[0])), int(vhlib.AnyNum(qa[1])), units[vhlib.AnyNum(qa[2])]
			var v int
			if guard(func() { v = source.VerifInverseLocation(f, line, col, u) }) {
				r[i] = nil
			} else {
				r[i] = v
			}
			if guard(func() { v = f.InverseLocation(line, col, u).Offset }) {
				p[i] = nil
			} else {
				p[i] = v
			}
		}
		return map[string]any{"r": r, "p": p}
	}
	panic("bad mode")
}
