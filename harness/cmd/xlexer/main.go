// Harness for the experimental lexer / parser (properties C29, C28).
//
// modes:
//
//	lex:    s (hex) -> run the lexer configuration of parser.Parse on s; tokens and diagnostics
//	parse:  s (hex), path -> parser.Parse; verdict, diagnostics, token stream summary
//	table:  -> keyword table under the parser's lexer configuration, bracket table, level and
//	           kind constants, and the Unicode classes the lexer consults as range lists
package main

import (
	"fmt"
	"strings"
	"unicode"

	"github.com/bufbuild/protocompile/experimental/internal/lexer"
	"github.com/bufbuild/protocompile/experimental/parser"
	"github.com/bufbuild/protocompile/experimental/report"
	"github.com/bufbuild/protocompile/experimental/source"
	"github.com/bufbuild/protocompile/experimental/token"
	"github.com/bufbuild/protocompile/experimental/token/keyword"
	"github.com/bufbuild/protocompile/experimental/verifharness/vhlib"
	"github.com/bufbuild/protocompile/internal/ext/unicodex"
	compilerpb "github.com/bufbuild/protocompile/internal/gen/buf/compiler/v1alpha1"
)

func main() { vhlib.Main(xlexCase) }

// msgClass maps a diagnostic message to a small enum. It is a total function of the message.
func msgClass(m string) string {
	switch {
	case m == "unrecognized token":
		return "unrecognized"
	case m == "unterminated string literal":
		return "unterminated-string"
	case m == "unescaped NUL bytes are not permitted in string literals":
		return "nul-in-string"
	case m == "unescaped newlines are not permitted in string literals":
		return "newline-in-string"
	case m == "non-printable character in string literal":
		return "nonprint-in-string"
	case m == "invalid escape sequence":
		return "invalid-escape"
	case strings.HasPrefix(m, "encountered unmatched `"):
		return "unmatched"
	case m == "non-ASCII identifiers are not allowed":
		return "non-ascii-ident"
	case m == "implicitly-concatenated string has incompatible prefix":
		return "incompatible-prefix"
	case strings.HasPrefix(m, "files larger than 2GB"):
		return "too-large"
	case m == "input appears to be encoded with UTF-16":
		return "utf16"
	case m == "input appears to be encoded with UTF-8, but found invalid byte":
		return "bad-utf8"
	case m == "input appears to be a binary file":
		return "binary"
	case strings.HasPrefix(m, "extra decimal point in "),
		strings.HasPrefix(m, "non-integer exponent in "),
		strings.HasPrefix(m, "unexpected characters in "),
		strings.HasPrefix(m, "invalid digit in "):
		return "invalid-number"
	case m == "unexpected panic; this is a bug":
		return "ice-panic"
	}
	return "other"
}

func dumpDiags(r *report.Report, from int, path string, textLen int) []any {
	// ToProto is the exported view of every snippet of every diagnostic.
	sub := report.Report{Diagnostics: r.Diagnostics[from:]}
	p := sub.ToProto().(*compilerpb.Report)
	out := make([]any, 0, len(p.Diagnostics))
	for i, d := range p.Diagnostics {
		spans := make([]any, 0, len(d.Annotations))
		for _, a := range d.Annotations {
			fp := ""
			flen := -1
			if int(a.File) < len(p.Files) {
				fp = p.Files[a.File].Path
				flen = len(p.Files[a.File].Text)
			}
			_ = flen
			spans = append(spans, []any{int64(a.Start), int64(a.End), a.Primary, fp == path})
		}
		note := ""
		if len(d.Notes) > 0 {
			note = d.Notes[0]
			if len(note) > 300 {
				note = note[:300]
			}
		}
		where := ""
		if sub.Diagnostics[i].Level() == report.ICE {
			where = iceSite(d.Debug)
		}
		out = append(out, map[string]any{
			"where":  where,
			"level":  int(sub.Diagnostics[i].Level()),
			"class":  msgClass(d.Message),
			"msg":    d.Message,
			"spans":  spans,
			"infile": d.InFile,
			"note":   note,
		})
	}
	return out
}

// iceSite names where a recovered panic came from: the first two frames of the stack trace that are
// functions of this repository (the receiver and closure suffixes are kept, addresses are not).
func iceSite(debug []string) string {
	const prefix = "github.com/bufbuild/protocompile/"
	var frames []string
	for _, line := range debug {
		if !strings.HasPrefix(line, prefix) {
			continue
		}
		f := strings.TrimPrefix(line, prefix)
		if k := strings.LastIndex(f, "("); k > 0 {
			f = f[:k]
		}
		if k := strings.LastIndex(f, "/"); k >= 0 {
			f = f[k+1:]
		}
		frames = append(frames, f)
		if len(frames) == 2 {
			break
		}
	}
	return strings.Join(frames, "<")
}

func dumpTokens(s *token.Stream) []any {
	var out []any
	for t := range s.All() {
		if t.IsSynthetic() {
			out = append(out, []any{-1, -1, -1, -1, 0})
			continue
		}
		sp := t.LeafSpan()
		off := 0
		if !t.IsLeaf() {
			a, b := t.StartEnd()
			if a.ID() == t.ID() {
				off = int(b.ID()) - int(t.ID())
			} else {
				off = int(a.ID()) - int(t.ID())
			}
		}
		out = append(out, []any{int(t.Kind()), sp.Start, sp.End, int(t.Keyword()), off})
	}
	return out
}

func ranges(pred func(rune) bool) []any {
	var out []any
	lo := rune(-1)
	for r := rune(0); r <= unicode.MaxRune+1; r++ {
		in := r <= unicode.MaxRune && pred(r)
		if in && lo < 0 {
			lo = r
		}
		if !in && lo >= 0 {
			out = append(out, []any{int(lo), int(r - 1)})
			lo = -1
		}
	}
	return out
}

func xlexCase(in map[string]any) map[string]any {
	switch vhlib.Str(in, "mode") {
	case "lex":
		text := string(vhlib.Unhex(vhlib.Str(in, "s")))
		file := source.NewFile("t.proto", text)
		r := &report.Report{}
		var lx *lexer.Lexer = parser.VerifLexer()
		stream := lx.Lex(file, r)
		return map[string]any{
			"tokens": dumpTokens(stream),
			"diags":  dumpDiags(r, 0, "t.proto", len(text)),
		}
	case "parse":
		text := string(vhlib.Unhex(vhlib.Str(in, "s")))
		path := vhlib.Str(in, "path")
		if path == "" {
			path = "t.proto"
		}
		file := source.NewFile(path, text)
		r := &report.Report{}
		// a diagnostic that was there before must not influence the verdict
		prior := int(vhlib.Num(in, "prior"))
		for i := 0; i < prior; i++ {
			r.Errorf("prior diagnostic %d", i)
		}
		var (
			okv      bool
			panicked any
			ntok     int
			lastEnd  int
		)
		func() {
			defer func() { panicked = recover() }()
			f, ok := parser.Parse(path, file, r)
			okv = ok
			if f != nil && f.Stream() != nil {
				for t := range f.Stream().All() {
					if !t.IsSynthetic() {
						ntok++
						lastEnd = t.LeafSpan().End
					}
				}
			}
		}()
		out := map[string]any{
			"ok":      okv,
			"diags":   dumpDiags(r, prior, path, len(text)),
			"ntok":    ntok,
			"lastend": lastEnd,
		}
		if panicked != nil {
			out["escaped_panic"] = fmt.Sprint(panicked)
		}
		return out
	case "table":
		lx := parser.VerifLexer()
		var kws []any
		for k := range keyword.All() {
			l, r, f := k.Brackets()
			kws = append(kws, map[string]any{
				"id": int(k), "s": vhlib.Hx([]byte(k.String())), "action": int(lx.OnKeyword(k)),
				"word": k.IsReservedWord(), "brackets": k.IsBrackets(),
				"left": int(l), "right": int(r), "fused": int(f),
			})
		}
		ul, ur, uf := keyword.Unknown.Brackets()
		var affix []any
		for _, a := range []string{"r", "b", "rb", "R", "B", "br", "x", "", "u", "rbb"} {
			affix = append(affix, []any{vhlib.Hx([]byte(a)), lx.IsAffix != nil && lx.IsAffix(a, token.String, false)})
		}
		return map[string]any{
			"affix":      affix,
			"keywords":   kws,
			"unknown_br": []any{int(ul), int(ur), int(uf)},
			"kw_newline": int(keyword.Newline),
			"kw_dot":     int(keyword.Dot),
			"kw_parens":  int(keyword.Parens),
			"actions":    []any{int(lexer.DiscardKeyword), int(lexer.HardKeyword), int(lexer.SoftKeyword), int(lexer.BracketKeyword), int(lexer.LineComment), int(lexer.BlockComment)},
			"kinds":      []any{int(token.Unrecognized), int(token.Space), int(token.Comment), int(token.Ident), int(token.String), int(token.Number), int(token.Keyword)},
			"levels":     []any{int(report.ICE), int(report.Error), int(report.Warning), int(report.Remark)},
			"cfg": map[string]any{
				"dotnum": lx.NumberCanStartWithDot, "oldoctal": lx.OldStyleOctal, "asciiident": lx.RequireASCIIIdent,
				"ext": lx.EscapeExtended, "ask": lx.EscapeAsk, "octal": lx.EscapeOctal, "partialx": lx.EscapePartialX,
				"upperx": lx.EscapeUppercaseX, "olduni": lx.EscapeOldStyleUnicode,
				"emitnewline": lx.EmitNewline != nil, "isaffix": lx.IsAffix != nil,
				"affix_r": lx.IsAffix != nil && lx.IsAffix("r", token.String, false),
			},
			"maxfilesize": lexer.MaxFileSize,
			"white":       ranges(func(r rune) bool { return unicode.In(r, unicode.Pattern_White_Space) }),
			"digit":       ranges(unicode.IsDigit),
			"letter":      ranges(unicode.IsLetter),
			"print":       ranges(unicode.IsPrint),
			"xids":        ranges(unicodex.IsXIDStart),
			"xidc":        ranges(unicodex.IsXIDContinue),
		}
	}
	panic("bad mode")
}
