// Harness family "unusedimports" (property C19): compiles a generated file set with one
// explicitly requested root file, collects the unused-import warnings the reporter receives, and
// evaluates the property directly: for every import statement of the root the plugin supplies the
// root text with that statement removed; the variant is compiled and its descriptor is compared
// with the original descriptor minus the dependency entry.
//
// in:  files {path: text}, root path, variants {dep: root text without the import of dep}
// out: ok, errs [..], deps [..], public [indices], warned [dep paths, in the order reported],
//      other_warnings [..], facts {path: {pkg, imports [[path, public]], syms [[full name, kind]]}}
//      for every file reachable from the root, variants {dep: {ok, same, errs, warned}}
package main

import (
	"bytes"
	"context"
	"errors"
	"sort"

	"github.com/bufbuild/protocompile"
	"github.com/bufbuild/protocompile/experimental/verifharness/vhlib"
	"github.com/bufbuild/protocompile/linker"
	"github.com/bufbuild/protocompile/reporter"
	"github.com/bufbuild/protocompile/walk"
	"google.golang.org/protobuf/proto"
	"google.golang.org/protobuf/reflect/protoreflect"
	"google.golang.org/protobuf/types/descriptorpb"
)

func main() { vhlib.Main(unusedCase) }

type compiled struct {
	ok     bool
	errs   []string
	warned []string
	otherW []string
	file   linker.File
	fd     *descriptorpb.FileDescriptorProto
}

func compileRoot(files map[string]string, root string) compiled {
	var c compiled
	rep := reporter.NewReporter(func(e reporter.ErrorWithPos) error {
		c.errs = append(c.errs, e.Error())
		return nil
	}, func(e reporter.ErrorWithPos) {
		var u linker.ErrorUnusedImport
		if errors.As(e, &u) {
			c.warned = append(c.warned, u.UnusedImport())
		} else {
			c.otherW = append(c.otherW, e.Error())
		}
	})
	comp := protocompile.Compiler{
		Resolver: protocompile.WithStandardImports(&protocompile.SourceResolver{Accessor: protocompile.SourceAccessorFromMap(files)}),
		Reporter: rep,
	}
	out, err := comp.Compile(context.Background(), root)
	if err != nil || len(c.errs) > 0 || len(out) != 1 {
		if err != nil {
			c.errs = append(c.errs, err.Error())
		}
		return c
	}
	c.ok = true
	c.file = out[0]
	res, _ := out[0].(linker.Result)
	if res != nil {
		c.fd = proto.Clone(res.FileDescriptorProto()).(*descriptorpb.FileDescriptorProto)
	}
	return c
}

// the descriptor with source info stripped and, if dep >= 0, without dependency entry dep
func minusDep(fd *descriptorpb.FileDescriptorProto, dep int) *descriptorpb.FileDescriptorProto {
	out := proto.Clone(fd).(*descriptorpb.FileDescriptorProto)
	out.SourceCodeInfo = nil
	if dep < 0 {
		return out
	}
	out.Dependency = append(append([]string{}, out.Dependency[:dep]...), out.Dependency[dep+1:]...)
	fix := func(idx []int32) []int32 {
		var r []int32
		for _, j := range idx {
			switch {
			case int(j) < dep:
				r = append(r, j)
			case int(j) > dep:
				r = append(r, j-1)
			}
		}
		return r
	}
	out.PublicDependency = fix(out.PublicDependency)
	out.WeakDependency = fix(out.WeakDependency)
	return out
}

func kindOf(d protoreflect.Descriptor) string {
	switch d := d.(type) {
	case protoreflect.MessageDescriptor:
		return "message"
	case protoreflect.EnumDescriptor:
		return "enum"
	case protoreflect.ServiceDescriptor:
		return "service"
	case protoreflect.FieldDescriptor:
		if d.IsExtension() {
			return "extension"
		}
		return "field"
	case protoreflect.EnumValueDescriptor:
		return "enumvalue"
	case protoreflect.OneofDescriptor:
		return "oneof"
	case protoreflect.MethodDescriptor:
		return "method"
	}
	return "other"
}

func facts(root protoreflect.FileDescriptor) map[string]any {
	out := map[string]any{}
	var visit func(f protoreflect.FileDescriptor)
	visit = func(f protoreflect.FileDescriptor) {
		if _, ok := out[f.Path()]; ok {
			return
		}
		var imps []any
		for i := 0; i < f.Imports().Len(); i++ {
			imp := f.Imports().Get(i)
			imps = append(imps, []any{imp.Path(), imp.IsPublic})
		}
		var syms []any
		_ = walk.Descriptors(f, func(d protoreflect.Descriptor) error {
			syms = append(syms, []any{string(d.FullName()), kindOf(d)})
			return nil
		})
		sort.Slice(syms, func(i, j int) bool { return syms[i].([]any)[0].(string) < syms[j].([]any)[0].(string) })
		if imps == nil {
			imps = []any{}
		}
		if syms == nil {
			syms = []any{}
		}
		out[f.Path()] = map[string]any{"pkg": string(f.Package()), "imports": imps, "syms": syms}
		for i := 0; i < f.Imports().Len(); i++ {
			visit(f.Imports().Get(i).FileDescriptor)
		}
	}
	visit(root)
	return out
}

func strs(s []string) []string {
	if s == nil {
		return []string{}
	}
	return s
}

func unusedCase(in map[string]any) map[string]any {
	files := map[string]string{}
	fm, _ := in["files"].(map[string]any)
	for k, v := range fm {
		files[k], _ = v.(string)
	}
	root := vhlib.Str(in, "root")
	base := compileRoot(files, root)
	out := map[string]any{"ok": base.ok, "errs": strs(base.errs), "warned": strs(base.warned), "other_warnings": strs(base.otherW)}
	if !base.ok || base.fd == nil {
		return out
	}
	out["deps"] = strs(base.fd.Dependency)
	pub := []int64{}
	for _, j := range base.fd.PublicDependency {
		pub = append(pub, int64(j))
	}
	out["public"] = pub
	out["facts"] = facts(base.file)
	vs := map[string]any{}
	vm, _ := in["variants"].(map[string]any)
	for dep, tv := range vm {
		text, _ := tv.(string)
		idx := -1
		for i, d := range base.fd.Dependency {
			if d == dep {
				idx = i
			}
		}
		if idx < 0 {
			vs[dep] = map[string]any{"ok": false, "same": false, "errs": []string{"harness: " + dep + " is not a dependency of the root"}, "warned": []string{}}
			continue
		}
		f2 := map[string]string{}
		for k, v := range files {
			f2[k] = v
		}
		f2[root] = text
		v := compileRoot(f2, root)
		same := false
		if v.ok && v.fd != nil {
			// bytes, not proto.Equal: extension values of two compilations have different
			// (dynamic) descriptors and would never compare equal
			b1, e1 := proto.MarshalOptions{Deterministic: true}.Marshal(minusDep(base.fd, idx))
			b2, e2 := proto.MarshalOptions{Deterministic: true}.Marshal(minusDep(v.fd, -1))
			same = e1 == nil && e2 == nil && bytes.Equal(b1, b2)
		}
		vs[dep] = map[string]any{"ok": v.ok, "same": same, "errs": strs(v.errs), "warned": strs(v.warned)}
	}
	out["variants"] = vs
	return out
}
