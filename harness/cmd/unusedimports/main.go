// Harness family "unusedimports" (property C19): compiles a generated file set with one
// explicitly requested root file, collects the unused-import warnings the reporter receives, and
// evaluates the property directly: for every import statement of the root the plugin supplies the
// root text with that statement removed; the variant is compiled and its descriptor is compared
// with the original descriptor minus the dependency entry.
//
// in:  files {path: text}, root path, variants {dep: root text without the import of dep}
// out: ok, errs [..], deps [..], public [indices], warned [dep paths, in the order reported],
//      other_warnings [..], facts {path: {pkg, imports [[path, public]], syms [[full name, kind]]}}
//      for every file reachable from the root, variants {dep: {ok, same, errs, warned}}
//
// mode "multi" (which files are checked at all): one Compile call that requests several files of
// an import graph at once.
// in:  mode "multi", files {path: text}, req [paths; the entry "@fill" stands for the filler files],
//      fillers n (generated files fillNNNN.proto, each with one unused import of unused.proto, all
//      explicitly requested at the position of "@fill"), par (MaxParallelism), yield (seed of the
//      schedule perturbation through the compiler's verif yield hook, 0 = none), rounds
// out: ref {path: [warned imports, sorted]} for every distinct requested file compiled as the only
//      requested file (MaxParallelism 1, no perturbation), ref_errs,
//      runs [{ok, errs, warned {path: [warned imports, sorted]} (every file that got a warning,
//      fillers excluded), fill_bad [fillers whose warnings are not exactly unused.proto, first 5],
//      fill_bad_n}]
package main

import (
	"fmt"
	"runtime"
	"strings"
	"sync"
	"time"

	"bytes"
	"context"
	"errors"
	"sort"

	"github.com/bufbuild/protocompile"
	"github.com/bufbuild/protocompile/experimental/verifharness/vhlib"
	"github.com/bufbuild/protocompile/linker"
	"github.com/bufbuild/protocompile/reporter"
	"github.com/bufbuild/protocompile/walk"
	"google.golang.org/protobuf/proto"
	"google.golang.org/protobuf/reflect/protoreflect"
	"google.golang.org/protobuf/types/descriptorpb"
)

func main() { vhlib.Main(unusedCase) }

type compiled struct {
	ok     bool
	errs   []string
	warned []string
	otherW []string
	file   linker.File
	fd     *descriptorpb.FileDescriptorProto
}

func compileRoot(files map[string]string, root string) compiled {
	var c compiled
	rep := reporter.NewReporter(func(e reporter.ErrorWithPos) error {
		c.errs = append(c.errs, e.Error())
		return nil
	}, func(e reporter.ErrorWithPos) {
		var u linker.ErrorUnusedImport
		if errors.As(e, &u) {
			c.warned = append(c.warned, u.UnusedImport())
		} else {
			c.otherW = append(c.otherW, e.Error())
		}
	})
	comp := protocompile.Compiler{
		Resolver: protocompile.WithStandardImports(&protocompile.SourceResolver{Accessor: protocompile.SourceAccessorFromMap(files)}),
		Reporter: rep,
	}
	out, err := comp.Compile(context.Background(), root)
	if err != nil || len(c.errs) > 0 || len(out) != 1 {
		if err != nil {
			c.errs = append(c.errs, err.Error())
		}
		return c
	}
	c.ok = true
	c.file = out[0]
	res, _ := out[0].(linker.Result)
	if res != nil {
		c.fd = proto.Clone(res.FileDescriptorProto()).(*descriptorpb.FileDescriptorProto)
	}
	return c
}

// the descriptor with source info stripped and, if dep >= 0, without dependency entry dep
func minusDep(fd *descriptorpb.FileDescriptorProto, dep int) *descriptorpb.FileDescriptorProto {
	out := proto.Clone(fd).(*descriptorpb.FileDescriptorProto)
	out.SourceCodeInfo = nil
	if dep < 0 {
		return out
	}
	out.Dependency = append(append([]string{}, out.Dependency[:dep]...), out.Dependency[dep+1:]...)
	fix := func(idx []int32) []int32 {
		var r []int32
		for _, j := range idx {
			switch {
			case int(j) < dep:
				r = append(r, j)
			case int(j) > dep:
				r = append(r, j-1)
			}
		}
		return r
	}
	out.PublicDependency = fix(out.PublicDependency)
	out.WeakDependency = fix(out.WeakDependency)
	return out
}

func kindOf(d protoreflect.Descriptor) string {
	switch d := d.(type) {
	case protoreflect.MessageDescriptor:
		return "message"
	case protoreflect.EnumDescriptor:
		return "enum"
	case protoreflect.ServiceDescriptor:
		return "service"
	case protoreflect.FieldDescriptor:
		if d.IsExtension() {
			return "extension"
		}
		return "field"
	case protoreflect.EnumValueDescriptor:
		return "enumvalue"
	case protoreflect.OneofDescriptor:
		return "oneof"
	case protoreflect.MethodDescriptor:
		return "method"
	}
	return "other"
}

func facts(root protoreflect.FileDescriptor) map[string]any {
	out := map[string]any{}
	var visit func(f protoreflect.FileDescriptor)
	visit = func(f protoreflect.FileDescriptor) {
		if _, ok := out[f.Path()]; ok {
			return
		}
		var imps []any
		for i := 0; i < f.Imports().Len(); i++ {
			imp := f.Imports().Get(i)
			imps = append(imps, []any{imp.Path(), imp.IsPublic})
		}
		var syms []any
		_ = walk.Descriptors(f, func(d protoreflect.Descriptor) error {
			syms = append(syms, []any{string(d.FullName()), kindOf(d)})
			return nil
		})
		sort.Slice(syms, func(i, j int) bool { return syms[i].([]any)[0].(string) < syms[j].([]any)[0].(string) })
		if imps == nil {
			imps = []any{}
		}
		if syms == nil {
			syms = []any{}
		}
		out[f.Path()] = map[string]any{"pkg": string(f.Package()), "imports": imps, "syms": syms}
		for i := 0; i < f.Imports().Len(); i++ {
			visit(f.Imports().Get(i).FileDescriptor)
		}
	}
	visit(root)
	return out
}

func strs(s []string) []string {
	if s == nil {
		return []string{}
	}
	return s
}

type multiRun struct {
	ok     bool
	errs   []string
	warned map[string][]string
}

// one Compile call for the whole request list; warnings are keyed by the file they are reported in
func compileMany(files map[string]string, req []string, par int, yieldSeed int64) multiRun {
	r := multiRun{warned: map[string][]string{}}
	var mu sync.Mutex
	rep := reporter.NewReporter(func(e reporter.ErrorWithPos) error {
		mu.Lock()
		defer mu.Unlock()
		r.errs = append(r.errs, e.Error())
		return nil
	}, func(e reporter.ErrorWithPos) {
		var u linker.ErrorUnusedImport
		if errors.As(e, &u) {
			mu.Lock()
			defer mu.Unlock()
			fn := e.GetPosition().Filename
			r.warned[fn] = append(r.warned[fn], u.UnusedImport())
		}
	})
	if yieldSeed != 0 {
		st := uint64(yieldSeed)
		var ymu sync.Mutex
		protocompile.VerifSetYieldHook(func(string) {
			ymu.Lock()
			st += 0x9e3779b97f4a7c15
			z := st
			z = (z ^ (z >> 30)) * 0xbf58476d1ce4e5b9
			z = (z ^ (z >> 27)) * 0x94d049bb133111eb
			z ^= z >> 31
			ymu.Unlock()
			switch z % 4 {
			case 1:
				runtime.Gosched()
			case 2:
				time.Sleep(time.Duration(z>>8%150) * time.Microsecond)
			case 3:
				for k := 0; k < int(z>>8%5); k++ {
					runtime.Gosched()
				}
			}
		})
		defer protocompile.VerifSetYieldHook(nil)
	}
	comp := protocompile.Compiler{
		Resolver:       protocompile.WithStandardImports(&protocompile.SourceResolver{Accessor: protocompile.SourceAccessorFromMap(files)}),
		Reporter:       rep,
		MaxParallelism: par,
	}
	out, err := comp.Compile(context.Background(), req...)
	if err != nil {
		r.errs = append(r.errs, err.Error())
	}
	r.ok = err == nil && len(r.errs) == 0 && len(out) == len(req)
	for _, l := range r.warned {
		sort.Strings(l)
	}
	return r
}

func multiCase(in map[string]any, files map[string]string) map[string]any {
	nFill := int(vhlib.Num(in, "fillers"))
	rounds := int(vhlib.Num(in, "rounds"))
	if rounds < 1 {
		rounds = 1
	}
	fillers := map[string]bool{}
	var req, real []string
	seen := map[string]bool{}
	for _, p := range vhlib.Strs(in, "req") {
		if p != "@fill" {
			req = append(req, p)
			if !seen[p] {
				seen[p] = true
				real = append(real, p)
			}
			continue
		}
		for k := 0; k < nFill; k++ {
			name := fmt.Sprintf("fill%05d.proto", k)
			files[name] = fmt.Sprintf("syntax = \"proto3\";\nimport \"unused.proto\";\nmessage Fill%05d { string s = 1; }\n", k)
			fillers[name] = true
			req = append(req, name)
		}
	}
	ref := map[string]any{}
	var refErrs []string
	for _, p := range real {
		r := compileMany(files, []string{p}, 1, 0)
		if !r.ok {
			refErrs = append(refErrs, p+": "+strings.Join(r.errs, " | "))
		}
		ref[p] = strs(r.warned[p])
		for q := range r.warned {
			if q != p {
				refErrs = append(refErrs, "compiling "+p+" alone reported an unused import in "+q)
			}
		}
	}
	var runs []any
	for k := 0; k < rounds; k++ {
		seed := vhlib.Num(in, "yield")
		if seed != 0 {
			seed += int64(k)
		}
		r := compileMany(files, req, int(vhlib.Num(in, "par")), seed)
		warned := map[string]any{}
		var bad []string
		nBad := 0
		for p, l := range r.warned {
			if !fillers[p] {
				warned[p] = l
			}
		}
		for k := 0; k < nFill; k++ {
			name := fmt.Sprintf("fill%05d.proto", k)
			l := r.warned[name]
			if len(l) != 1 || l[0] != "unused.proto" {
				nBad++
				if len(bad) < 5 {
					bad = append(bad, name)
				}
			}
		}
		runs = append(runs, map[string]any{"ok": r.ok, "errs": strs(r.errs), "warned": warned, "fill_bad": strs(bad), "fill_bad_n": nBad})
	}
	return map[string]any{"ref": ref, "ref_errs": strs(refErrs), "runs": runs}
}

func unusedCase(in map[string]any) map[string]any {
	files := map[string]string{}
	fm, _ := in["files"].(map[string]any)
	for k, v := range fm {
		files[k], _ = v.(string)
	}
	if vhlib.Str(in, "mode") == "multi" {
		return multiCase(in, files)
	}
	root := vhlib.Str(in, "root")
	base := compileRoot(files, root)
	out := map[string]any{"ok": base.ok, "errs": strs(base.errs), "warned": strs(base.warned), "other_warnings": strs(base.otherW)}
	if !base.ok || base.fd == nil {
		return out
	}
	out["deps"] = strs(base.fd.Dependency)
	pub := []int64{}
	for _, j := range base.fd.PublicDependency {
		pub = append(pub, int64(j))
	}
	out["public"] = pub
	out["facts"] = facts(base.file)
	vs := map[string]any{}
	vm, _ := in["variants"].(map[string]any)
	for dep, tv := range vm {
		text, _ := tv.(string)
		idx := -1
		for i, d := range base.fd.Dependency {
			if d == dep {
				idx = i
			}
		}
		if idx < 0 {
			vs[dep] = map[string]any{"ok": false, "same": false, "errs": []string{"harness: " + dep + " is not a dependency of the root"}, "warned": []string{}}
			continue
		}
		f2 := map[string]string{}
		for k, v := range files {
			f2[k] = v
		}
		f2[root] = text
		v := compileRoot(f2, root)
		same := false
		if v.ok && v.fd != nil {
			// bytes, not proto.Equal: extension values of two compilations have different
			// (dynamic) descriptors and would never compare equal
			b1, e1 := proto.MarshalOptions{Deterministic: true}.Marshal(minusDep(base.fd, idx))
			b2, e2 := proto.MarshalOptions{Deterministic: true}.Marshal(minusDep(v.fd, -1))
			same = e1 == nil && e2 == nil && bytes.Equal(b1, b2)
		}
		vs[dep] = map[string]any{"ok": v.ok, "same": same, "errs": strs(v.errs), "warned": strs(v.warned)}
	}
	out["variants"] = vs
	return out
}
