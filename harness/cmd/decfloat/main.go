// Harness family decfloat (property C39): runs internal/decimal Parse + Float64 of the repository
// working tree on one case and returns canonical observables. Floats are returned as the decimal
// text of their 64 bits (math.Float64bits), never as float text.
package main

import (
	"errors"
	"math"
	"math/big"
	"strconv"
	"strings"

	"github.com/bufbuild/protocompile/experimental/verifharness/vhlib"
	"github.com/bufbuild/protocompile/internal/decimal"
)

func main() { vhlib.Main(decCase) }

func bitsOf(f float64) string { return strconv.FormatUint(math.Float64bits(f), 10) }

func fromBits(s string) float64 {
	u, err := strconv.ParseUint(s, 10, 64)
	if err != nil {
		panic("bad bits: " + s)
	}
	return math.Float64frombits(u)
}

// modes:
//
//	num:    s -> Decimal.Parse(s): error class, representation (mant, exp, flags), Float64 bits + exact,
//	        strconv.ParseFloat on the same text (underscores removed), and an independent big.Rat
//	        reference (own numeral reader + Rat.Float64)
//	fields: mant, exp, neg, bin -> Float64 of the Decimal with exactly this representation
//	pow5:   f (bits), n -> pow5(f, n) bits
//	tables: -> the three constant tables as bits
func decCase(in map[string]any) map[string]any {
	switch vhlib.Str(in, "mode") {
	case "num":
		s := vhlib.Str(in, "s")
		out := map[string]any{}
		z, err := new(decimal.Decimal).Parse(s)
		switch {
		case err == nil:
			out["err"] = ""
		case errors.Is(err, strconv.ErrRange):
			out["err"] = "range"
		case errors.Is(err, strconv.ErrSyntax):
			out["err"] = "syntax"
		default:
			out["err"] = "other"
		}
		if err == nil {
			m, e, fl := z.VerifFields()
			out["mant"] = m.String()
			out["exp"] = int64(e)
			out["flags"] = int64(fl)
			f, exact := z.Float64()
			out["bits"] = bitsOf(f)
			out["exact"] = exact
		}
		clean := strings.ReplaceAll(s, "_", "")
		if pf, perr := strconv.ParseFloat(clean, 64); perr == nil || errors.Is(perr, strconv.ErrRange) {
			out["pf"] = bitsOf(pf)
		} else {
			out["pf"] = ""
		}
		if rb, rexact, ok := ratRef(s); ok {
			out["rat"] = bitsOf(rb)
			out["rat_exact"] = rexact
		} else {
			out["rat"] = ""
		}
		return out
	case "fields":
		m, ok := new(big.Int).SetString(vhlib.Str(in, "mant"), 10)
		if !ok || m.Sign() < 0 {
			panic("bad mant")
		}
		z := decimal.VerifMake(m, int32(vhlib.Num(in, "exp")), vhlib.Bool(in, "neg"), vhlib.Bool(in, "bin"))
		f, exact := z.Float64()
		return map[string]any{"bits": bitsOf(f), "exact": exact}
	case "pow5":
		f := fromBits(vhlib.Str(in, "f"))
		return map[string]any{"bits": bitsOf(decimal.VerifPow5(f, int(vhlib.Num(in, "n"))))}
	case "tables":
		p, p32, p32n := decimal.VerifTables()
		conv := func(xs []float64) []string {
			o := make([]string, len(xs))
			for i, x := range xs {
				o[i] = bitsOf(x)
			}
			return o
		}
		return map[string]any{"pow5s": conv(p), "pow5s32": conv(p32), "pow5s32neg": conv(p32n)}
	}
	panic("bad mode")
}

// ratRef reads the numeral with its own reader (no code shared with the package under test) and
// rounds the exact rational value with big.Rat.Float64 (nearest, ties to even, overflow to Inf).
// Grammar: [+-] (dec-mantissa | 0x hex-mantissa) [ (e|E|p|P) [+-] decdigits ], underscores ignored.
// A p exponent scales by a power of two, an e exponent by a power of ten; hex digits after the dot
// weigh 1/16 each.
func ratRef(s string) (float64, bool, bool) {
	s = strings.ReplaceAll(s, "_", "")
	neg := false
	if strings.HasPrefix(s, "-") {
		neg = true
		s = s[1:]
	} else if strings.HasPrefix(s, "+") {
		s = s[1:]
	}
	base := 10
	if len(s) >= 2 && s[0] == '0' && (s[1] == 'x' || s[1] == 'X') {
		base = 16
		s = s[2:]
	}
	i := 0
	mant := new(big.Int)
	frac := 0
	seenDot := false
	ndig := 0
	for ; i < len(s); i++ {
		c := s[i]
		if c == '.' {
			if seenDot {
				return 0, false, false
			}
			seenDot = true
			continue
		}
		d := -1
		switch {
		case c >= '0' && c <= '9':
			d = int(c - '0')
		case base == 16 && c >= 'a' && c <= 'f':
			d = int(c-'a') + 10
		case base == 16 && c >= 'A' && c <= 'F':
			d = int(c-'A') + 10
		}
		if d < 0 {
			break
		}
		mant.Mul(mant, big.NewInt(int64(base)))
		mant.Add(mant, big.NewInt(int64(d)))
		ndig++
		if seenDot {
			frac++
		}
	}
	if ndig == 0 {
		return 0, false, false
	}
	exp := int64(0)
	binExp := base == 16
	if i < len(s) {
		c := s[i]
		switch {
		case (c == 'e' || c == 'E') && base == 10:
		case c == 'p' || c == 'P':
			binExp = true
		default:
			return 0, false, false
		}
		i++
		esign := int64(1)
		if i < len(s) && (s[i] == '+' || s[i] == '-') {
			if s[i] == '-' {
				esign = -1
			}
			i++
		}
		if i >= len(s) {
			return 0, false, false
		}
		for ; i < len(s); i++ {
			if s[i] < '0' || s[i] > '9' {
				return 0, false, false
			}
			if exp < 1<<40 {
				exp = exp*10 + int64(s[i]-'0')
			}
		}
		exp *= esign
	}
	sgn := func(f float64) float64 {
		if neg {
			return -f
		}
		return f
	}
	if mant.Sign() == 0 {
		return sgn(0), true, true
	}
	// value = mant * base^-frac * (2|10)^exp ; shortcuts for exponents far outside the float64 range
	digits10 := int64(len(mant.String()))
	if !binExp {
		if exp-int64(frac)+digits10 > 400 {
			return sgn(math.Inf(1)), false, true
		}
		if exp-int64(frac)+digits10 < -400 {
			return sgn(0), false, true
		}
	} else {
		// value lies in [2^lo, 2^hi)
		hi := exp + int64(mant.BitLen())
		lo := hi - 1
		if base == 16 {
			hi -= 4 * int64(frac)
			lo = hi - 1
		} else {
			lo -= 4 * int64(frac)
		}
		if lo > 1100 {
			return sgn(math.Inf(1)), false, true
		}
		if hi < -1200 {
			return sgn(0), false, true
		}
	}
	r := new(big.Rat).SetInt(mant)
	pow := func(b, n int64) *big.Rat {
		p := new(big.Int).Exp(big.NewInt(b), big.NewInt(abs64(n)), nil)
		if n >= 0 {
			return new(big.Rat).SetInt(p)
		}
		return new(big.Rat).SetFrac(big.NewInt(1), p)
	}
	r.Mul(r, pow(int64(base), -int64(frac)))
	if binExp {
		r.Mul(r, pow(2, exp))
	} else {
		r.Mul(r, pow(10, exp))
	}
	f, exact := r.Float64()
	return sgn(f), exact, true
}

func abs64(n int64) int64 {
	if n < 0 {
		return -n
	}
	return n
}
