// Command fastscan runs parser/fastscan.Scan, the fast scanner's lexer (hook VerifTokens) and the
// full parser (parser.Parse + parser.ResultFromAST) on the same raw bytes (C25).
package main

import (
	"bytes"
	"errors"
	"fmt"
	"io"
	"testing/iotest"
	"time"

	"github.com/bufbuild/protocompile/ast"
	"github.com/bufbuild/protocompile/experimental/verifharness/vhlib"
	"github.com/bufbuild/protocompile/parser"
	"github.com/bufbuild/protocompile/parser/fastscan"
	"github.com/bufbuild/protocompile/reporter"
)

func main() { vhlib.Main(fastscanCase) }

// input:  data (hex), onebyte (bool: feed Scan through a reader that returns one byte per Read),
//
//	tokens (bool: also dump the fast lexer's tokens)
//
// output: scan   = {pkg, imports:[{path,pub,weak,opt}], errs:[message...], io:bool}   (fastscan.Scan)
//
//	         or {panic:...} / {hang:true}
//	parse  = {ok, result_ok, pkgs:[...], imports:[{path,pub,weak,opt}]}              (full parser, from the AST)
//	toks   = {types:[...], texts:[hex...]}                                          (hook)
func fastscanCase(in map[string]any) map[string]any {
	data := vhlib.Unhex(vhlib.Str(in, "data"))
	out := map[string]any{}
	out["scan"] = guarded(func() map[string]any { return runScan(data, vhlib.Bool(in, "onebyte")) })
	out["parse"] = guarded(func() map[string]any { return runParse(data) })
	if vhlib.Bool(in, "tokens") {
		out["toks"] = guarded(func() map[string]any {
			types, texts, err := fastscan.VerifTokens(bytes.NewReader(data))
			ts := make([]any, len(types))
			xs := make([]any, len(texts))
			for i := range types {
				ts[i] = types[i]
				xs[i] = vhlib.Hx([]byte(texts[i]))
			}
			return map[string]any{"types": ts, "texts": xs, "io": err != nil}
		})
	}
	return out
}

// guarded runs fn in its own goroutine: a panic and a run of more than 20 s are observables.
func guarded(fn func() map[string]any) map[string]any {
	ch := make(chan map[string]any, 1)
	go func() {
		defer func() {
			if r := recover(); r != nil {
				ch <- map[string]any{"panic": fmt.Sprint(r)}
			}
		}()
		ch <- fn()
	}()
	select {
	case o := <-ch:
		return o
	case <-time.After(20 * time.Second):
		return map[string]any{"hang": true}
	}
}

func runScan(data []byte, oneByte bool) map[string]any {
	var r io.Reader = bytes.NewReader(data)
	if oneByte {
		r = iotest.OneByteReader(r)
	}
	res, err := fastscan.Scan("t.proto", r)
	imps := make([]any, len(res.Imports))
	for i, im := range res.Imports {
		imps[i] = map[string]any{"path": vhlib.Hx([]byte(im.Path)), "pub": im.IsPublic, "weak": im.IsWeak, "opt": im.IsOption}
	}
	out := map[string]any{"pkg": vhlib.Hx([]byte(res.PackageName)), "imports": imps, "io": false}
	msgs := []any{}
	if err != nil {
		var se fastscan.SyntaxError
		if errors.As(err, &se) {
			for _, e := range se {
				msgs = append(msgs, e.Unwrap().Error())
			}
		} else {
			out["io"] = true
			out["ioerr"] = err.Error()
		}
	}
	out["errs"] = msgs
	return out
}

func runParse(data []byte) map[string]any {
	first := ""
	quiet := func() *reporter.Handler {
		return reporter.NewHandler(reporter.NewReporter(func(e reporter.ErrorWithPos) error {
			if first == "" {
				first = e.Unwrap().Error()
			}
			return nil
		}, nil))
	}
	file, err := parser.Parse("t.proto", bytes.NewReader(data), quiet())
	out := map[string]any{"ok": err == nil, "result_ok": false}
	if err != nil {
		out["err"] = first
	}
	if file == nil || err != nil {
		return out
	}
	_, rerr := parser.ResultFromAST(file, true, quiet())
	out["result_ok"] = rerr == nil
	if rerr != nil {
		out["result_err"] = first
	}
	pkgs := []any{}
	imps := []any{}
	for _, d := range file.Decls {
		switch d := d.(type) {
		case *ast.PackageNode:
			pkgs = append(pkgs, vhlib.Hx([]byte(d.Name.AsIdentifier())))
		case *ast.ImportNode:
			opt := d.Modifier != nil && d.Modifier.Val == "option"
			imps = append(imps, map[string]any{"path": vhlib.Hx([]byte(d.Name.AsString())), "pub": d.Public != nil, "weak": d.Weak != nil, "opt": opt})
		}
	}
	out["pkgs"] = pkgs
	out["imports"] = imps
	return out
}
