// Harness family "retention" (property C22): compiles generated .proto files that carry custom
// options (fields with runtime / source / unset retention at several nesting levels), runs the real
// options.StripSourceRetentionOptionsFromFile on the compiled descriptor and dumps, in a canonical
// structural form, the input before the call, the input after the call, the result, and the result
// of stripping the result again.
//
// in:  files {path: text}, main path, sci bool (keep source code info),
//
//	inject [[elemIndex, fieldNumber, hexPayload]...]  unknown (unparsed) fields appended to the
//	       options message of the elemIndex-th element (pre-order) before the call; with a fourth
//	       component the field is appended to the descriptor message of the element itself,
//	drop_ext [numbers]  extensions that the re-parse resolver pretends not to know (their values stay
//	       unknown fields, as after a re-parse against an incomplete image)
//
// out: before, after, again : element dumps; input_same bool (deterministic bytes of the input equal
//
//	before/after the call); same_ptr / again_same_ptr; err
//
// element dump: {k kind, a addr, o options-message dump or null, r digest of everything else,
//
//	u hex of the element's own unknown fields, s [[children]...] in the order the code visits them}
//
// message dump: {a addr, f [[number, retention, value]...] sorted by number, u hex unknown bytes}
// value: {"s": text} scalar | {"m": message dump} | {"l": [values]}
// addr: small integer naming a Go pointer: first-seen order, the input is dumped first, so an
// address below n_input names an object of the input.
package main

import (
	"context"
	"crypto/sha1"
	"fmt"
	"sort"

	"github.com/bufbuild/protocompile"
	"github.com/bufbuild/protocompile/experimental/verifharness/vhlib"
	"github.com/bufbuild/protocompile/linker"
	"github.com/bufbuild/protocompile/options"
	"github.com/bufbuild/protocompile/protoutil"
	"github.com/bufbuild/protocompile/reporter"
	golden "google.golang.org/protobuf/cmd/protoc-gen-go/testdata/retention"
	"google.golang.org/protobuf/encoding/protowire"
	"google.golang.org/protobuf/proto"
	"google.golang.org/protobuf/reflect/protodesc"
	"google.golang.org/protobuf/reflect/protoreflect"
	"google.golang.org/protobuf/reflect/protoregistry"
	"google.golang.org/protobuf/types/descriptorpb"
)

func main() { vhlib.Main(retCase) }

type addrs struct {
	ids map[any]int
}

func (a *addrs) of(p any) int {
	if id, ok := a.ids[p]; ok {
		return id
	}
	id := len(a.ids)
	a.ids[p] = id
	return id
}

func retentionOf(fd protoreflect.FieldDescriptor) int {
	fo, ok := fd.Options().(*descriptorpb.FieldOptions)
	if !ok || fo == nil || fo.Retention == nil {
		return 0
	}
	switch fo.GetRetention() {
	case descriptorpb.FieldOptions_RETENTION_RUNTIME:
		return 1
	case descriptorpb.FieldOptions_RETENTION_SOURCE:
		return 2
	}
	return 0
}

func dumpValue(a *addrs, fd protoreflect.FieldDescriptor, v protoreflect.Value, single bool) any {
	switch {
	case fd.IsMap() && !single:
		// not generated; rendered as an opaque scalar
		return map[string]any{"s": fmt.Sprint(v.Interface())}
	case fd.IsList() && !single:
		l := v.List()
		items := make([]any, l.Len())
		for i := range items {
			items[i] = dumpValue(a, fd, l.Get(i), true)
		}
		return map[string]any{"l": items}
	case fd.Kind() == protoreflect.MessageKind || fd.Kind() == protoreflect.GroupKind:
		return map[string]any{"m": dumpMessage(a, v.Message())}
	case fd.Kind() == protoreflect.BytesKind:
		return map[string]any{"s": "b:" + vhlib.Hx(v.Bytes())}
	}
	return map[string]any{"s": fmt.Sprintf("%s:%v", fd.Kind(), v.Interface())}
}

func dumpMessage(a *addrs, m protoreflect.Message) any {
	type ent struct {
		fd protoreflect.FieldDescriptor
		v  protoreflect.Value
	}
	var ents []ent
	m.Range(func(fd protoreflect.FieldDescriptor, v protoreflect.Value) bool {
		ents = append(ents, ent{fd, v})
		return true
	})
	sort.Slice(ents, func(i, j int) bool { return ents[i].fd.Number() < ents[j].fd.Number() })
	id := a.of(m.Interface())
	fs := make([]any, len(ents))
	for i, e := range ents {
		fs[i] = []any{int(e.fd.Number()), retentionOf(e.fd), dumpValue(a, e.fd, e.v, false)}
	}
	return map[string]any{"a": id, "f": fs, "u": vhlib.Hx(m.GetUnknown())}
}

func dumpOpts(a *addrs, m proto.Message) any {
	r := m.ProtoReflect()
	if !r.IsValid() {
		return nil
	}
	return dumpMessage(a, r)
}

// digest of an element without its options and without the child collections the strip visits
func rest(m proto.Message, clear ...string) string {
	c := proto.Clone(m)
	r := c.ProtoReflect()
	fields := r.Descriptor().Fields()
	for _, n := range clear {
		fd := fields.ByName(protoreflect.Name(n))
		if fd == nil {
			panic("no field " + n)
		}
		r.Clear(fd)
	}
	r.SetUnknown(nil)
	b, err := proto.MarshalOptions{Deterministic: true}.Marshal(c)
	if err != nil {
		panic(err)
	}
	h := sha1.Sum(b)
	return vhlib.Hx(h[:8])
}

func el(a *addrs, kind string, m proto.Message, opts proto.Message, r string, slots ...[]any) map[string]any {
	s := make([]any, len(slots))
	for i := range slots {
		if slots[i] == nil {
			slots[i] = []any{}
		}
		s[i] = slots[i]
	}
	return map[string]any{"k": kind, "a": a.of(m), "o": dumpOpts(a, opts), "r": r,
		"u": vhlib.Hx(m.ProtoReflect().GetUnknown()), "s": s}
}

func dumpFields(a *addrs, fs []*descriptorpb.FieldDescriptorProto) []any {
	var out []any
	for _, f := range fs {
		out = append(out, el(a, "field", f, f.Options, rest(f, "options")))
	}
	return out
}

func dumpEnums(a *addrs, es []*descriptorpb.EnumDescriptorProto) []any {
	var out []any
	for _, e := range es {
		var vals []any
		for _, v := range e.Value {
			vals = append(vals, el(a, "enumval", v, v.Options, rest(v, "options")))
		}
		out = append(out, el(a, "enum", e, e.Options, rest(e, "options", "value"), vals))
	}
	return out
}

func dumpMsgs(a *addrs, ms []*descriptorpb.DescriptorProto) []any {
	var out []any
	for _, m := range ms {
		var oneofs, ranges []any
		for _, o := range m.OneofDecl {
			oneofs = append(oneofs, el(a, "oneof", o, o.Options, rest(o, "options")))
		}
		for _, x := range m.ExtensionRange {
			ranges = append(ranges, el(a, "extrange", x, x.Options, rest(x, "options")))
		}
		out = append(out, el(a, "msg", m, m.Options,
			rest(m, "options", "field", "oneof_decl", "extension_range", "nested_type", "enum_type", "extension"),
			dumpFields(a, m.Field), oneofs, ranges, dumpMsgs(a, m.NestedType), dumpEnums(a, m.EnumType), dumpFields(a, m.Extension)))
	}
	return out
}

func dumpFile(a *addrs, fd *descriptorpb.FileDescriptorProto) map[string]any {
	var svcs []any
	for _, s := range fd.Service {
		var ms []any
		for _, m := range s.Method {
			ms = append(ms, el(a, "method", m, m.Options, rest(m, "options")))
		}
		svcs = append(svcs, el(a, "svc", s, s.Options, rest(s, "options", "method"), ms))
	}
	e := el(a, "file", fd, fd.Options,
		rest(fd, "options", "message_type", "enum_type", "extension", "service", "source_code_info"),
		dumpMsgs(a, fd.MessageType), dumpEnums(a, fd.EnumType), dumpFields(a, fd.Extension), svcs)
	if fd.SourceCodeInfo == nil {
		e["sci"] = nil
	} else {
		e["sa"] = a.of(fd.SourceCodeInfo)
		locs := []any{}
		for _, l := range fd.SourceCodeInfo.Location {
			p := make([]any, len(l.Path))
			for i, x := range l.Path {
				p[i] = int(x)
			}
			c := proto.Clone(l).(*descriptorpb.SourceCodeInfo_Location)
			c.Path = nil
			b, _ := proto.MarshalOptions{Deterministic: true}.Marshal(c)
			h := sha1.Sum(b)
			locs = append(locs, []any{p, vhlib.Hx(h[:6])})
		}
		e["sci"] = locs
	}
	return e
}

// pre-order list of the options holders, the order used by "inject"
func holders(fd *descriptorpb.FileDescriptorProto) ([]func() protoreflect.Message, []protoreflect.Message) {
	var out []func() protoreflect.Message
	var elems []protoreflect.Message
	add := func(m proto.Message) {
		elems = append(elems, m.ProtoReflect())
		out = append(out, func() protoreflect.Message {
			r := m.ProtoReflect()
			of := r.Descriptor().Fields().ByName("options")
			return r.Mutable(of).Message()
		})
	}
	var fields func(fs []*descriptorpb.FieldDescriptorProto)
	fields = func(fs []*descriptorpb.FieldDescriptorProto) {
		for _, f := range fs {
			add(f)
		}
	}
	enums := func(es []*descriptorpb.EnumDescriptorProto) {
		for _, e := range es {
			add(e)
			for _, v := range e.Value {
				add(v)
			}
		}
	}
	var msgs func(ms []*descriptorpb.DescriptorProto)
	msgs = func(ms []*descriptorpb.DescriptorProto) {
		for _, m := range ms {
			add(m)
			fields(m.Field)
			for _, o := range m.OneofDecl {
				add(o)
			}
			for _, x := range m.ExtensionRange {
				add(x)
			}
			msgs(m.NestedType)
			enums(m.EnumType)
			fields(m.Extension)
		}
	}
	add(fd)
	msgs(fd.MessageType)
	enums(fd.EnumType)
	fields(fd.Extension)
	for _, s := range fd.Service {
		add(s)
		for _, m := range s.Method {
			add(m)
		}
	}
	return out, elems
}

type filteredResolver struct {
	linker.Resolver
	drop map[int64]bool
}

func (f filteredResolver) FindExtensionByNumber(message protoreflect.FullName, field protoreflect.FieldNumber) (protoreflect.ExtensionType, error) {
	if f.drop[int64(field)] {
		return nil, protoregistry.NotFound
	}
	return f.Resolver.FindExtensionByNumber(message, field)
}

func detBytes(m proto.Message) string {
	b, err := proto.MarshalOptions{Deterministic: true}.Marshal(m)
	if err != nil {
		panic(err)
	}
	return string(b)
}

// goldenCompare strips the compiled retention.proto of protobuf-go's protoc-gen-go test data and
// compares every options message with the descriptor that protoc itself embedded in the
// generated retention.pb.go (protoc strips source-retention options from embedded descriptors).
func goldenCompare(fd *descriptorpb.FileDescriptorProto) map[string]any {
	stripped, err := options.StripSourceRetentionOptionsFromFile(fd)
	if err != nil {
		return map[string]any{"err": err.Error()}
	}
	gold := protodesc.ToFileDescriptorProto(golden.File_cmd_protoc_gen_go_testdata_retention_retention_proto)
	var diffs []any
	var names []string
	var walk func(prefix string, a, b protoreflect.Message)
	walk = func(prefix string, a, b protoreflect.Message) {
		fields := a.Descriptor().Fields()
		for i := 0; i < fields.Len(); i++ {
			f := fields.Get(i)
			if f.Name() == "options" {
				var ab, bb []byte
				if a.Has(f) {
					ab = []byte(detBytes(a.Get(f).Message().Interface()))
				}
				if b.Has(f) {
					bb = []byte(detBytes(b.Get(f).Message().Interface()))
				}
				names = append(names, prefix)
				if string(ab) != string(bb) {
					diffs = append(diffs, map[string]any{"at": prefix, "got": vhlib.Hx(ab), "protoc": vhlib.Hx(bb)})
				}
				continue
			}
			if f.Message() == nil || !f.IsList() || f.Name() == "uninterpreted_option" {
				continue
			}
			la, lb := a.Get(f).List(), b.Get(f).List()
			if la.Len() != lb.Len() {
				diffs = append(diffs, map[string]any{"at": prefix + "/" + string(f.Name()), "got": fmt.Sprint(la.Len()), "protoc": fmt.Sprint(lb.Len())})
				continue
			}
			for j := 0; j < la.Len(); j++ {
				walk(fmt.Sprintf("%s/%s[%d]", prefix, f.Name(), j), la.Get(j).Message(), lb.Get(j).Message())
			}
		}
	}
	walk("", stripped.ProtoReflect(), gold.ProtoReflect())
	if diffs == nil {
		diffs = []any{}
	}
	return map[string]any{"golden_diffs": diffs, "compared": len(names)}
}

func retCase(in map[string]any) map[string]any {
	files := map[string]string{}
	fm, _ := in["files"].(map[string]any)
	for k, v := range fm {
		files[k], _ = v.(string)
	}
	mainName := vhlib.Str(in, "main")
	var errs []string
	rep := reporter.NewReporter(func(e reporter.ErrorWithPos) error {
		errs = append(errs, e.Error())
		return nil
	}, nil)
	mode := protocompile.SourceInfoNone
	if vhlib.Bool(in, "sci") {
		mode = protocompile.SourceInfoExtraOptionLocations
	}
	comp := protocompile.Compiler{
		Resolver:       protocompile.WithStandardImports(&protocompile.SourceResolver{Accessor: protocompile.SourceAccessorFromMap(files)}),
		Reporter:       rep,
		SourceInfoMode: mode,
	}
	out, err := comp.Compile(context.Background(), mainName)
	if err != nil || len(errs) > 0 {
		if err != nil {
			errs = append(errs, err.Error())
		}
		return map[string]any{"compile_errors": errs}
	}
	lf := out[0]
	raw := protoutil.ProtoFromFileDescriptor(lf)
	// the compiled descriptor, re-read with the file's own resolver so that custom options are
	// recognised fields (what a consumer holding the compiled image does before stripping)
	drop := map[int64]bool{}
	for _, n := range vhlib.Nums(in, "drop_ext") {
		drop[n] = true
	}
	b, err := proto.Marshal(raw)
	if err != nil {
		panic(err)
	}
	fd := &descriptorpb.FileDescriptorProto{}
	var res linker.Resolver = linker.ResolverFromFile(lf)
	if vhlib.Bool(in, "asis") {
		fd = proto.Clone(raw).(*descriptorpb.FileDescriptorProto)
	} else if err := (proto.UnmarshalOptions{Resolver: filteredResolver{res, drop}}).Unmarshal(b, fd); err != nil {
		panic(err)
	}
	hs, elems := holders(fd)
	for _, inj := range vhlib.List(in, "inject") {
		t, _ := inj.([]any)
		idx := int(vhlib.AnyNum(t[0]))
		num := vhlib.AnyNum(t[1])
		payload, _ := t[2].(string)
		if idx >= len(hs) {
			continue
		}
		var m protoreflect.Message
		if len(t) > 3 {
			m = elems[idx] // the descriptor message itself
		} else {
			m = hs[idx]()
		}
		u := append([]byte{}, m.GetUnknown()...)
		u = protowire.AppendTag(u, protowire.Number(num), protowire.BytesType)
		u = protowire.AppendBytes(u, vhlib.Unhex(payload))
		m.SetUnknown(u)
	}

	if vhlib.Bool(in, "golden") {
		return goldenCompare(fd)
	}

	a := &addrs{ids: map[any]int{}}
	before := dumpFile(a, fd)
	nIn := len(a.ids)
	beforeBytes := detBytes(fd)
	stripped, err := options.StripSourceRetentionOptionsFromFile(fd)
	if err != nil {
		return map[string]any{"err": err.Error()}
	}
	afterBytes := detBytes(fd)
	// the input is dumped again with a fresh address table that is seeded identically, so that
	// any replaced pointer shows as a different address
	a2 := &addrs{ids: map[any]int{}}
	for k, v := range a.ids {
		if v < nIn {
			a2.ids[k] = v
		}
	}
	inputAfter := dumpFile(a2, fd)
	after := dumpFile(a, stripped)
	nAfter := len(a.ids)
	again, err := options.StripSourceRetentionOptionsFromFile(stripped)
	if err != nil {
		return map[string]any{"err": "second strip: " + err.Error()}
	}
	againDump := dumpFile(a, again)
	return map[string]any{
		"before": before, "n_input": nIn, "input_after": inputAfter, "after": after, "again": againDump,
		"input_same": beforeBytes == afterBytes, "same_ptr": stripped == fd, "again_same_ptr": again == stripped,
		"n_holders": len(hs), "n_after": nAfter,
	}
}
