// Harness family reportcodec (C37): runs the real report.Report.ToProto / AppendFromProto.
//
// modes:
//
//	rt:  files + diags -> build the report through the verif hook, ToProto, dump the proto,
//	     AppendFromProto (via = merge: proto.Merge into the target; via = wire: Marshal/Unmarshal),
//	     dump the decoded diagnostics and the error class
//	dec: an arbitrary proto (files + pdiags) -> AppendFromProto, dump diagnostics and error class
//
// All strings travel as hex.
package main

import (
	"regexp"
	"strconv"

	"google.golang.org/protobuf/proto"

	"github.com/bufbuild/protocompile/experimental/report"
	"github.com/bufbuild/protocompile/experimental/source"
	"github.com/bufbuild/protocompile/experimental/verifharness/vhlib"
	compilerpb "github.com/bufbuild/protocompile/internal/gen/buf/compiler/v1alpha1"
)

func main() { vhlib.Main(codecCase) }

func obj(a any) map[string]any {
	m, _ := a.(map[string]any)
	return m
}

func hs(m map[string]any, k string) string { return string(vhlib.Unhex(vhlib.Str(m, k))) }

func hxs(m map[string]any, k string) []string {
	var out []string
	for _, h := range vhlib.Strs(m, k) {
		out = append(out, string(vhlib.Unhex(h)))
	}
	return out
}

func hexAll(ss []string) []string {
	out := make([]string, 0, len(ss))
	for _, s := range ss {
		out = append(out, vhlib.Hx([]byte(s)))
	}
	return out
}

var (
	reMissing = regexp.MustCompile(`^protocompile/report: missing message for diagnostic\[(\d+)\]$`)
	reLevel   = regexp.MustCompile(`^protocompile/report: invalid value for Diagnostic.level: (-?\d+)$`)
	reFile    = regexp.MustCompile(`^protocompile/report: invalid file index for diagnostic\[(\d+)\].annotation\[(\d+)\]: (\d+)$`)
	reOOB     = regexp.MustCompile(`^protocompile/report: out-of-bounds span for diagnostic\[(\d+)\].annotation\[(\d+)\]: \[(\d+):(\d+)\]$`)
)

func atoi(s string) int64 {
	n, _ := strconv.ParseInt(s, 10, 64)
	return n
}

// errClass maps the error text onto a small enum with its numeric arguments.
func errClass(err error) map[string]any {
	if err == nil {
		return map[string]any{"kind": "ok"}
	}
	t := err.Error()
	if m := reMissing.FindStringSubmatch(t); m != nil {
		return map[string]any{"kind": "missing-message", "i": atoi(m[1])}
	}
	if m := reLevel.FindStringSubmatch(t); m != nil {
		return map[string]any{"kind": "invalid-level", "level": atoi(m[1])}
	}
	if m := reFile.FindStringSubmatch(t); m != nil {
		return map[string]any{"kind": "bad-file", "i": atoi(m[1]), "j": atoi(m[2]), "file": atoi(m[3])}
	}
	if m := reOOB.FindStringSubmatch(t); m != nil {
		return map[string]any{"kind": "oob", "i": atoi(m[1]), "j": atoi(m[2]), "start": atoi(m[3]), "end": atoi(m[4])}
	}
	return map[string]any{"kind": "other", "text": t}
}

func dumpDiags(ds []report.Diagnostic) []any {
	out := make([]any, 0, len(ds))
	for k := range ds {
		v := report.VerifViewDiagnostic(&ds[k])
		snips := make([]any, 0, len(v.Snippets))
		for _, s := range v.Snippets {
			edits := make([]any, 0, len(s.Edits))
			for _, e := range s.Edits {
				edits = append(edits, map[string]any{"start": e.Start, "end": e.End, "replace": vhlib.Hx([]byte(e.Replace))})
			}
			snips = append(snips, map[string]any{
				"nilfile": s.File == nil,
				"path":    vhlib.Hx([]byte(s.File.Path())), "text": vhlib.Hx([]byte(s.File.Text())),
				"start": s.Start, "end": s.End, "msg": vhlib.Hx([]byte(s.Message)),
				"primary": s.Primary, "break": s.PageBreak, "edits": edits,
			})
		}
		out = append(out, map[string]any{
			"tag": vhlib.Hx([]byte(v.Tag)), "msg": vhlib.Hx([]byte(v.Message)), "level": v.Level, "sort": v.SortOrder,
			"infile": vhlib.Hx([]byte(v.InFile)), "snips": snips,
			"notes": hexAll(v.Notes), "help": hexAll(v.Help), "debug": hexAll(v.Debug),
		})
	}
	return out
}

func dumpProto(p *compilerpb.Report) map[string]any {
	files := make([]any, 0, len(p.Files))
	for _, f := range p.Files {
		files = append(files, map[string]any{"path": vhlib.Hx([]byte(f.Path)), "text": vhlib.Hx(f.Text)})
	}
	diags := make([]any, 0, len(p.Diagnostics))
	for _, d := range p.Diagnostics {
		anns := make([]any, 0, len(d.Annotations))
		for _, a := range d.Annotations {
			edits := make([]any, 0, len(a.Edits))
			for _, e := range a.Edits {
				edits = append(edits, map[string]any{"start": e.Start, "end": e.End, "replace": vhlib.Hx([]byte(e.Replace))})
			}
			anns = append(anns, map[string]any{
				"file": a.File, "start": a.Start, "end": a.End, "msg": vhlib.Hx([]byte(a.Message)),
				"primary": a.Primary, "break": a.PageBreak, "edits": edits,
			})
		}
		diags = append(diags, map[string]any{
			"msg": vhlib.Hx([]byte(d.Message)), "tag": vhlib.Hx([]byte(d.Tag)), "level": int32(d.Level),
			"infile": vhlib.Hx([]byte(d.InFile)), "annots": anns,
			"notes": hexAll(d.Notes), "help": hexAll(d.Help), "debug": hexAll(d.Debug),
		})
	}
	return map[string]any{"files": files, "diags": diags}
}

func buildReport(in map[string]any) *report.Report {
	var files []*source.File
	for _, f := range vhlib.List(in, "files") {
		fm := obj(f)
		files = append(files, source.NewFile(hs(fm, "path"), hs(fm, "text")))
	}
	r := new(report.Report)
	for _, d := range vhlib.List(in, "diags") {
		dm := obj(d)
		v := report.VerifDiagnostic{
			Tag: hs(dm, "tag"), Message: hs(dm, "msg"), Level: int(vhlib.Num(dm, "level")),
			SortOrder: int(vhlib.Num(dm, "sort")), InFile: hs(dm, "infile"),
			Notes: hxs(dm, "notes"), Help: hxs(dm, "help"), Debug: hxs(dm, "debug"),
		}
		for _, s := range vhlib.List(dm, "snips") {
			sm := obj(s)
			vs := report.VerifSnippet{
				File:  files[vhlib.Num(sm, "file")],
				Start: int(vhlib.Num(sm, "start")), End: int(vhlib.Num(sm, "end")),
				Message: hs(sm, "msg"), Primary: vhlib.Bool(sm, "primary"), PageBreak: vhlib.Bool(sm, "break"),
			}
			for _, e := range vhlib.List(sm, "edits") {
				em := obj(e)
				vs.Edits = append(vs.Edits, report.Edit{
					Start: int(vhlib.Num(em, "start")), End: int(vhlib.Num(em, "end")), Replace: hs(em, "replace"),
				})
			}
			v.Snippets = append(v.Snippets, vs)
		}
		r.Diagnostics = append(r.Diagnostics, report.VerifNewDiagnostic(v))
	}
	return r
}

func buildProto(in map[string]any) *compilerpb.Report {
	p := new(compilerpb.Report)
	for _, f := range vhlib.List(in, "files") {
		fm := obj(f)
		p.Files = append(p.Files, &compilerpb.Report_File{Path: hs(fm, "path"), Text: vhlib.Unhex(vhlib.Str(fm, "text"))})
	}
	for _, d := range vhlib.List(in, "pdiags") {
		dm := obj(d)
		pd := &compilerpb.Diagnostic{
			Message: hs(dm, "msg"), Tag: hs(dm, "tag"), Level: compilerpb.Diagnostic_Level(int32(vhlib.Num(dm, "level"))),
			InFile: hs(dm, "infile"), Notes: hxs(dm, "notes"), Help: hxs(dm, "help"), Debug: hxs(dm, "debug"),
		}
		for _, a := range vhlib.List(dm, "annots") {
			am := obj(a)
			pa := &compilerpb.Diagnostic_Annotation{
				File: uint32(vhlib.Num(am, "file")), Start: uint32(vhlib.Num(am, "start")), End: uint32(vhlib.Num(am, "end")),
				Message: hs(am, "msg"), Primary: vhlib.Bool(am, "primary"), PageBreak: vhlib.Bool(am, "break"),
			}
			for _, e := range vhlib.List(am, "edits") {
				em := obj(e)
				pa.Edits = append(pa.Edits, &compilerpb.Diagnostic_Edit{
					Start: uint32(vhlib.Num(em, "start")), End: uint32(vhlib.Num(em, "end")), Replace: hs(em, "replace"),
				})
			}
			pd.Annotations = append(pd.Annotations, pa)
		}
		p.Diagnostics = append(p.Diagnostics, pd)
	}
	return p
}

func decode(src *compilerpb.Report, via string) map[string]any {
	out := new(report.Report)
	var transport string
	err := out.AppendFromProto(func(m proto.Message) error {
		if via == "wire" {
			b, err := proto.Marshal(src)
			if err != nil {
				transport = "marshal: " + err.Error()
				return err
			}
			if err := proto.Unmarshal(b, m); err != nil {
				transport = "unmarshal: " + err.Error()
				return err
			}
			return nil
		}
		proto.Merge(m, src)
		return nil
	})
	res := map[string]any{"err": errClass(err), "out": dumpDiags(out.Diagnostics)}
	if transport != "" {
		res["transport"] = transport
	}
	return res
}

func codecCase(in map[string]any) map[string]any {
	switch vhlib.Str(in, "mode") {
	case "rt":
		r := buildReport(in)
		p, _ := r.ToProto().(*compilerpb.Report)
		res := decode(p, vhlib.Str(in, "via"))
		res["proto"] = dumpProto(p)
		// the source report must not have been modified by ToProto
		res["src"] = dumpDiags(r.Diagnostics)
		return res
	case "dec":
		return decode(buildProto(in), vhlib.Str(in, "via"))
	}
	return map[string]any{"crash": "unknown mode"}
}
