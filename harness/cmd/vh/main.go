// Command vh runs the implementation side of the correspondence checks.
// Usage: vh <family>   reads one JSON object per line on stdin, writes one JSON object per line.
// A panic inside a case is an observable ({"panic": "..."}), not a crash of the harness.
package main

import (
	"bufio"
	"encoding/json"
	"fmt"
	"os"
	"sort"
)

type caseFn func(in map[string]any) (out map[string]any)

var families = map[string]caseFn{}

func register(name string, fn caseFn) { families[name] = fn }

func runCase(fn caseFn, in map[string]any) (out map[string]any) {
	defer func() {
		if r := recover(); r != nil {
			out = map[string]any{"panic": fmt.Sprint(r)}
		}
	}()
	return fn(in)
}

func main() {
	if len(os.Args) < 2 {
		names := make([]string, 0, len(families))
		for n := range families {
			names = append(names, n)
		}
		sort.Strings(names)
		fmt.Fprintln(os.Stderr, "usage: vh <family>; families:", names)
		os.Exit(2)
	}
	fn, ok := families[os.Args[1]]
	if !ok {
		fmt.Fprintln(os.Stderr, "unknown family", os.Args[1])
		os.Exit(2)
	}
	rd := bufio.NewReaderSize(os.Stdin, 1<<20)
	wr := bufio.NewWriterSize(os.Stdout, 1<<20)
	defer wr.Flush()
	dec := json.NewDecoder(rd)
	dec.UseNumber()
	enc := json.NewEncoder(wr)
	for dec.More() {
		var in map[string]any
		if err := dec.Decode(&in); err != nil {
			fmt.Fprintln(os.Stderr, "bad input:", err)
			os.Exit(2)
		}
		out := runCase(fn, in)
		if err := enc.Encode(out); err != nil {
			fmt.Fprintln(os.Stderr, "encode:", err)
			os.Exit(2)
		}
	}
}
