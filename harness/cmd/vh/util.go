package main

import (
	"encoding/hex"
	"encoding/json"
	"fmt"
)

func str(in map[string]any, k string) string {
	v, _ := in[k].(string)
	return v
}

func num(in map[string]any, k string) int64 {
	switch v := in[k].(type) {
	case json.Number:
		n, err := v.Int64()
		if err != nil {
			panic(fmt.Sprintf("bad number %s=%v", k, v))
		}
		return n
	case float64:
		return int64(v)
	}
	return 0
}

func unhex(s string) []byte {
	b, err := hex.DecodeString(s)
	if err != nil {
		panic("bad hex: " + s)
	}
	return b
}

func hx(b []byte) string { return hex.EncodeToString(b) }

func strs(in map[string]any, k string) []string {
	arr, _ := in[k].([]any)
	out := make([]string, len(arr))
	for i, a := range arr {
		out[i], _ = a.(string)
	}
	return out
}

func nums(in map[string]any, k string) []int64 {
	arr, _ := in[k].([]any)
	out := make([]int64, len(arr))
	for i, a := range arr {
		switch v := a.(type) {
		case json.Number:
			out[i], _ = v.Int64()
		case float64:
			out[i] = int64(v)
		}
	}
	return out
}
