package main

import (
	"bytes"
	"fmt"

	"github.com/bufbuild/protocompile/ast"
	"github.com/bufbuild/protocompile/experimental/verifharness/vhlib"
	"github.com/bufbuild/protocompile/parser"
	"github.com/bufbuild/protocompile/reporter"
)

func main() { vhlib.Main(fileinfoCase) }

func pos(p ast.SourcePos) []int { return []int{p.Line, p.Col, p.Offset} }

func ints(xs []int) []any {
	out := make([]any, len(xs))
	for i, x := range xs {
		out[i] = x
	}
	return out
}

// modes:
//
//	parse: text -> run the real lexer+parser (errors are collected, the parse goes on), then
//	       lines   = the line table the lexer recorded through FileInfo.AddLine
//	       items   = [offset, length, isComment] of every lexed item
//	       pos     = [line, col] of FileInfo.SourcePos(off) for every off in 0..len(text)
//	       spans   = for every item: ItemInfo Start/End as [line, col, offset]
//	       nodes   = for every AST node: [startItem, endItem, Start line col off, End line col off]
//	       errs    = position [line, col, offset] (start and end) of every reported error / warning
//	       noast   = true when Parse returned the synthetic empty file (then only errs and data)
//	       parse_panic = the panic value when parser.Parse itself panicked (then only errs and data)
//	table: text + lines -> FileInfo built with NewFileInfo/AddLine (no lexer); pos as above
func fileinfoCase(in map[string]any) map[string]any {
	text := vhlib.Unhex(vhlib.Str(in, "text"))
	switch vhlib.Str(in, "mode") {
	case "table":
		fi := ast.NewFileInfo("t.proto", text)
		for _, l := range vhlib.Nums(in, "lines") {
			fi.AddLine(int(l))
		}
		ps := make([]any, 0, len(text)+1)
		for off := 0; off <= len(text); off++ {
			p := fi.SourcePos(off)
			ps = append(ps, []int{p.Line, p.Col})
		}
		return map[string]any{"pos": ps}
	case "parse":
		var errs []any
		rep := reporter.NewReporter(
			func(e reporter.ErrorWithPos) error {
				errs = append(errs, []any{pos(e.Start()), pos(e.End())})
				return nil
			},
			func(e reporter.ErrorWithPos) {
				errs = append(errs, []any{pos(e.Start()), pos(e.End())})
			})
		// the file handed to the lexer (a leading byte order mark is dropped by newLexer)
		data := text
		if bytes.HasPrefix(data, []byte{0xEF, 0xBB, 0xBF}) {
			data = data[3:]
		}
		var fn *ast.FileNode
		parsePanic := ""
		func() {
			defer func() {
				if r := recover(); r != nil {
					parsePanic = fmt.Sprint(r)
				}
			}()
			fn, _ = parser.Parse("t.proto", bytes.NewReader(text), reporter.NewHandler(rep))
		}()
		if errs == nil {
			errs = []any{}
		}
		if parsePanic != "" {
			// the lexer/parser itself panicked (totality of the parser is property C12, not C13);
			// the positions reported before that are still observations
			return map[string]any{"parse_panic": parsePanic, "errs": errs, "data": vhlib.Hx(data)}
		}
		fi := fn.VerifFileInfo()
		if fi.VerifDataLen() != len(data) {
			// no AST at all: Parse returned the synthetic empty file, the lexer's FileInfo is out of reach;
			// only the positions of the reported errors are observable
			return map[string]any{"noast": true, "errs": errs, "data": vhlib.Hx(data)}
		}
		offs, lens := fi.VerifItems()
		items := make([]any, len(offs))
		spans := make([]any, len(offs))
		for i := range offs {
			c := 0
			if fi.VerifIsComment(i) {
				c = 1
			}
			items[i] = []int{offs[i], lens[i], c}
			ii := fi.ItemInfo(ast.Item(i))
			if ii == nil {
				spans[i] = []any{}
				continue
			}
			spans[i] = []any{pos(ii.Start()), pos(ii.End())}
		}
		var nodes []any
		_ = ast.Walk(fn, &ast.SimpleVisitor{DoVisitNode: func(n ast.Node) error {
			ni := fi.NodeInfo(n)
			nodes = append(nodes, []any{int(n.Start()), int(n.End()), pos(ni.Start()), pos(ni.End())})
			return nil
		}})
		ps := make([]any, 0, len(data)+1)
		for off := 0; off <= len(data); off++ {
			p := fi.SourcePos(off)
			ps = append(ps, []int{p.Line, p.Col})
		}
		if nodes == nil {
			nodes = []any{}
		}
		return map[string]any{"lines": ints(fi.VerifLines()), "items": items, "pos": ps, "spans": spans,
			"nodes": nodes, "errs": errs, "data": vhlib.Hx(data)}
	}
	panic("bad mode")
}
