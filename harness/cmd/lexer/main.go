// Command lexer runs the stable parser's lexer and parser on raw bytes (C11, C12, C14).
package main

import (
	"bytes"
	"math"
	"strings"

	"github.com/bufbuild/protocompile/ast"
	"github.com/bufbuild/protocompile/experimental/verifharness/vhlib"
	"github.com/bufbuild/protocompile/parser"
	"github.com/bufbuild/protocompile/reporter"
)

func main() { vhlib.Main(lexCase) }

func lexCase(in map[string]any) map[string]any {
	data := vhlib.Unhex(vhlib.Str(in, "data"))
	switch vhlib.Str(in, "mode") {
	case "lex":
		toks, info, errs, failed := parser.VerifLex(data)
		offs, lens := info.VerifItems()
		items := make([]any, len(offs))
		ti := 0
		for i := range offs {
			it := map[string]any{"off": offs[i], "len": lens[i]}
			if info.VerifIsComment(i) {
				it["k"] = "comment"
			} else if ti < len(toks) {
				t := toks[ti]
				ti++
				it["k"] = t.Kind
				switch t.Kind {
				case "int":
					it["int"] = vhlib.Hx(bigBytes(t.Int))
				case "float":
					it["float"] = vhlib.Hx(bigBytes(math.Float64bits(t.Float)))
				case "string":
					it["str"] = vhlib.Hx(t.Str)
				case "rune":
					it["rune"] = int64(t.Rune)
				}
			} else {
				it["k"] = "extra"
			}
			items[i] = it
		}
		es := make([]any, len(errs))
		for i, e := range errs {
			es[i] = map[string]any{"msg": e.Msg, "off": e.Offset, "line": e.Line, "col": e.Col}
		}
		return map[string]any{"items": items, "errs": es, "failed": failed, "ntoks": len(toks), "lines": info.VerifLines()}
	case "parse":
		var errs []any
		h := reporter.NewHandler(reporter.NewReporter(func(e reporter.ErrorWithPos) error {
			p := e.GetPosition()
			errs = append(errs, map[string]any{"msg": e.Unwrap().Error(), "off": p.Offset, "line": p.Line, "col": p.Col})
			return nil
		}, nil))
		file, err := parser.Parse("t.proto", bytes.NewReader(data), h)
		out := map[string]any{"ast_nil": file == nil, "err": err != nil, "errs": errs}
		if err != nil {
			out["errmsg"] = err.Error()
		}
		if file != nil {
			// converting to a descriptor proto must never panic (a panic is caught by vhlib)
			res, rerr := parser.ResultFromAST(file, true, reporter.NewHandler(reporter.NewReporter(func(reporter.ErrorWithPos) error { return nil }, nil)))
			out["result_err"] = rerr != nil
			out["result_nil"] = res == nil
			if err == nil {
				// C11: the test suite's printAST walk must reproduce the source
				var sb strings.Builder
				_ = ast.Walk(file, &ast.SimpleVisitor{
					DoVisitTerminalNode: func(token ast.TerminalNode) error {
						info := file.NodeInfo(token)
						printComments(&sb, info.LeadingComments())
						sb.WriteString(info.LeadingWhitespace())
						sb.WriteString(info.RawText())
						printComments(&sb, info.TrailingComments())
						return nil
					},
				})
				out["printed"] = vhlib.Hx([]byte(sb.String()))
			}
		}
		return out
	}
	panic("bad mode")
}

func printComments(sb *strings.Builder, comments ast.Comments) {
	for i := range comments.Len() {
		c := comments.Index(i)
		sb.WriteString(c.LeadingWhitespace())
		sb.WriteString(c.RawText())
	}
}

func bigBytes(v uint64) []byte {
	b := make([]byte, 8)
	for i := 7; i >= 0; i-- {
		b[i] = byte(v)
		v >>= 8
	}
	return b
}
