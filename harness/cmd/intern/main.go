package main

import (
	"fmt"
	"runtime"
	"sync"

	"github.com/bufbuild/protocompile/experimental/verifharness/vhlib"
	"github.com/bufbuild/protocompile/internal/intern"
)

func main() { vhlib.Main(internCase) }

// modes:
//
//	char6: s -> ok,id = encodeChar6(s); dec = decodeChar6(id) when ok; plus, on a fresh Table,
//	       Query before (q0id,q0ok), Intern (iid), Value(iid) (val), Query after (q1id,q1ok)
//	dec:   id -> dec = decodeChar6(id); re-encode (rok, rid)
//	seq:   ops on ONE fresh table, in order: ["i",hex] Intern, ["q",hex] Query, ["v",id] Value,
//	       ["w",b,hex,off] the caller overwrites its buffer b in place (no table call),
//	       ["ib",b] InternBytes(buffer b), ["qb",b] QueryBytes(buffer b)
//	conc:  progs = one list of hex strings per goroutine; all goroutines start together, each
//	       interns its strings in order and immediately reads Value(id); afterwards the log is
//	       read back with Value(1..max id); with bytes=true most calls go through InternBytes
//	       on a per-goroutine scratch buffer that is scribbled over right after the call
//	sweep: the whole inline domain below one first symbol: every string first+rest with
//	       len(rest) <= maxrest over the 64-symbol alphabet; counts and the first failures of
//	       round trip / sign / Table agreement
//	tables: the alphabet and the reverse table as the implementation has them
func internCase(in map[string]any) map[string]any {
	switch vhlib.Str(in, "mode") {
	case "char6":
		s := string(vhlib.Unhex(vhlib.Str(in, "s")))
		id, ok := intern.VerifEncodeChar6(s)
		out := map[string]any{"ok": ok, "id": int64(id)}
		if ok {
			out["dec"] = vhlib.Hx([]byte(intern.VerifDecodeChar6(id)))
		}
		var t intern.Table
		q0, q0ok := t.Query(s)
		out["q0id"], out["q0ok"] = int64(q0), q0ok
		iid := t.Intern(s)
		out["iid"] = int64(iid)
		out["val"] = vhlib.Hx([]byte(t.Value(iid)))
		q1, q1ok := t.Query(s)
		out["q1id"], out["q1ok"] = int64(q1), q1ok
		return out
	case "dec":
		id := intern.ID(int32(vhlib.Num(in, "id")))
		d := intern.VerifDecodeChar6(id)
		rid, rok := intern.VerifEncodeChar6(d)
		return map[string]any{"dec": vhlib.Hx([]byte(d)), "rok": rok, "rid": int64(rid)}
	case "seq":
		var t intern.Table
		ops := vhlib.List(in, "ops")
		res := make([]any, 0, len(ops))
		// caller-owned byte buffers for the byte-slice entry points: fixed backing arrays that
		// are reused (overwritten in place) by every "w" op, like a lexer scratch buffer
		var backing [4][80]byte
		var bufs [4][]byte
		for _, o := range ops {
			op, _ := o.([]any)
			kind, _ := op[0].(string)
			switch kind {
			case "w": // ["w", b, hex, off]: the caller overwrites buffer b in place; no table call, no result
				b := int(vhlib.AnyNum(op[1])) % len(bufs)
				h, _ := op[2].(string)
				off := int(vhlib.AnyNum(op[3])) % 16
				c := vhlib.Unhex(h)
				if len(bufs[b]) > 0 { // scribble over all of the old content first
					for k := range bufs[b] {
						bufs[b][k] ^= 0x55
					}
				}
				bufs[b] = backing[b][off : off+len(c)]
				copy(bufs[b], c)
			case "ib":
				b := int(vhlib.AnyNum(op[1])) % len(bufs)
				res = append(res, []any{int64(t.InternBytes(bufs[b]))})
			case "qb":
				b := int(vhlib.AnyNum(op[1])) % len(bufs)
				id, ok := t.QueryBytes(bufs[b])
				res = append(res, []any{int64(id), ok})
			case "i":
				h, _ := op[1].(string)
				res = append(res, []any{int64(t.Intern(string(vhlib.Unhex(h))))})
			case "q":
				h, _ := op[1].(string)
				id, ok := t.Query(string(vhlib.Unhex(h)))
				res = append(res, []any{int64(id), ok})
			case "v":
				res = append(res, []any{safeValue(&t, intern.ID(int32(vhlib.AnyNum(op[1]))))})
			default:
				panic("bad op")
			}
		}
		return map[string]any{"res": res}
	case "conc":
		return concCase(in)
	case "sweep":
		return sweepCase(in)
	case "tables":
		return map[string]any{"alphabet": vhlib.Hx(intern.VerifAlphabet()),
			"reverse": vhlib.Hx(intern.VerifByteToChar6()), "max": intern.VerifMaxInlined}
	}
	panic("bad mode")
}

// safeValue returns the hex of Value(id), or "panic" when Value panics (index out of range).
func safeValue(t *intern.Table, id intern.ID) (out string) {
	defer func() {
		if r := recover(); r != nil {
			out = "panic"
		}
	}()
	return vhlib.Hx([]byte(t.Value(id)))
}

func concCase(in map[string]any) map[string]any {
	raw := vhlib.List(in, "progs")
	progs := make([][]string, len(raw))
	for g, p := range raw {
		arr, _ := p.([]any)
		for _, a := range arr {
			h, _ := a.(string)
			progs[g] = append(progs[g], string(vhlib.Unhex(h)))
		}
	}
	yield := vhlib.Bool(in, "yield")
	useBytes := vhlib.Bool(in, "bytes")
	var t intern.Table
	ids := make([][]int64, len(progs))
	vals := make([][]string, len(progs))
	panics := make([]string, len(progs))
	var wg sync.WaitGroup
	start := make(chan struct{})
	for g := range progs {
		wg.Add(1)
		go func(g int) {
			defer wg.Done()
			defer func() {
				if r := recover(); r != nil {
					panics[g] = fmt.Sprint(r)
				}
			}()
			<-start
			var scratch [80]byte
			for k, s := range progs[g] {
				var id intern.ID
				if useBytes && (k+g)%4 != 3 {
					// through the byte-slice entry point with this goroutine's scratch buffer,
					// which is overwritten as soon as the call has returned
					b := scratch[:copy(scratch[:], s)]
					id = t.InternBytes(b)
					for j := range b {
						b[j] ^= 0x55
					}
				} else {
					id = t.Intern(s)
				}
				ids[g] = append(ids[g], int64(id))
				vals[g] = append(vals[g], vhlib.Hx([]byte(t.Value(id))))
				if yield && (k+g)%3 == 0 {
					runtime.Gosched()
				}
			}
		}(g)
	}
	close(start)
	wg.Wait()
	var maxid int64
	for _, l := range ids {
		for _, id := range l {
			if id > maxid {
				maxid = id
			}
		}
	}
	if maxid > 1<<20 {
		maxid = 1 << 20
	}
	log := make([]string, 0, maxid)
	for i := int64(1); i <= maxid; i++ {
		log = append(log, safeValue(&t, intern.ID(i)))
	}
	// what every string queries to afterwards (same for all goroutines by then)
	final := make([][]any, len(progs))
	for g := range progs {
		for _, s := range progs[g] {
			id, ok := t.Query(s)
			final[g] = append(final[g], []any{int64(id), ok})
		}
	}
	idsAny := make([]any, len(ids))
	valsAny := make([]any, len(vals))
	for g := range ids {
		a := make([]any, len(ids[g]))
		for k, v := range ids[g] {
			a[k] = v
		}
		idsAny[g] = a
		b := make([]any, len(vals[g]))
		for k, v := range vals[g] {
			b[k] = v
		}
		valsAny[g] = b
	}
	pan := false
	for _, p := range panics {
		if p != "" {
			pan = true
		}
	}
	out := map[string]any{"ids": idsAny, "vals": valsAny, "log": log, "final": final,
		"beyond": safeValue(&t, intern.ID(maxid+1))}
	if pan {
		out["gopanics"] = panics
	}
	return out
}

func sweepCase(in map[string]any) map[string]any {
	alpha := intern.VerifAlphabet()
	first := vhlib.Unhex(vhlib.Str(in, "first")) // zero or one byte
	maxrest := int(vhlib.Num(in, "maxrest"))
	var t intern.Table
	var count, enc, bad int64
	var firstBad string
	fail := func(s []byte, why string) {
		bad++
		if firstBad == "" {
			firstBad = vhlib.Hx(s) + ":" + why
		}
	}
	buf := make([]byte, 0, 8)
	var rec func(depth int)
	check := func(s []byte) {
		count++
		str := string(s)
		id, ok := intern.VerifEncodeChar6(str)
		want := len(s) == 0 || (len(s) <= 5 && s[len(s)-1] != '.')
		if ok != want {
			fail(s, "encodable-mismatch")
			return
		}
		if !ok {
			return
		}
		enc++
		if len(s) > 0 && id >= 0 {
			fail(s, "id-not-negative")
		}
		if len(s) == 0 && id != 0 {
			fail(s, "empty-not-zero")
		}
		if intern.VerifDecodeChar6(id) != str {
			fail(s, "roundtrip")
		}
		if qid, qok := t.Query(str); !qok || qid != id {
			fail(s, "query")
		}
		if iid := t.Intern(str); iid != id {
			fail(s, "intern")
		}
		if t.Value(id) != str {
			fail(s, "value")
		}
	}
	rec = func(depth int) {
		check(buf)
		if depth == 0 {
			return
		}
		for _, c := range alpha {
			buf = append(buf, c)
			rec(depth - 1)
			buf = buf[:len(buf)-1]
		}
	}
	buf = append(buf, first...)
	rec(maxrest)
	return map[string]any{"count": count, "encodable": enc, "bad": bad, "first_bad": firstBad}
}
