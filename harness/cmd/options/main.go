// Harness family "options" (C20, C21): runs the REAL option interpreter on generated sources in
// several modes and returns canonical observables.
//
// modes (field "mode" of the input):
//
//	interp : files (name -> text), target. Runs on the target file:
//	           orig     - parse only: per element the uninterpreted options as produced by the parser
//	           strict   - protocompile.Compiler (full pipeline)
//	           strictm  - parse + linker.Link + options.InterpretOptions (same route as lenient)
//	           lenient  - parse + linker.Link + options.InterpretOptionsLenient
//	           unlinked - parse + options.InterpretUnlinkedOptions
//	         every mode yields {ok, errclass, err, elems:[{el, tree, unint}]}
//	golden : dir, protoset, file. Decodes protoc's descriptor set and the real compiler's output for the same
//	         source against the compiled schema and compares the option trees element by element.
//
// canonical tree of an options message (uninterpreted_option excluded):
//
//	message {"m":[[num,V]...]} sorted by field number; list {"l":[V...]}; map {"p":[[K,V]...]} sorted;
//	integers {"i":"dec"}; bool {"b":bool}; enum {"e":"dec"}; string/bytes {"s":"hex"};
//	float/double {"f":"inf|-inf|nan|-0|<m>p<e>"} with value = m*2^e exactly, m odd (or 0p0).
package main

import (
	"context"
	"encoding/hex"
	"fmt"
	"math"
	"math/big"
	"os"
	"path/filepath"
	"sort"
	"strings"

	"github.com/bufbuild/protocompile"
	"github.com/bufbuild/protocompile/experimental/verifharness/vhlib"
	"github.com/bufbuild/protocompile/linker"
	"github.com/bufbuild/protocompile/options"
	"github.com/bufbuild/protocompile/parser"
	"github.com/bufbuild/protocompile/reporter"
	"google.golang.org/protobuf/proto"
	"google.golang.org/protobuf/reflect/protoreflect"
	"google.golang.org/protobuf/reflect/protoregistry"
	"google.golang.org/protobuf/types/descriptorpb"
	"google.golang.org/protobuf/types/dynamicpb"
)

func main() { vhlib.Main(optionsCase) }

func optionsCase(in map[string]any) map[string]any {
	switch vhlib.Str(in, "mode") {
	case "interp":
		return interpCase(in)
	case "golden":
		return goldenCase(in)
	case "describe":
		return describeCase(in)
	}
	panic("bad mode")
}

// ---------------------------------------------------------------- error classes

func errClass(err error) string {
	if err == nil {
		return ""
	}
	s := err.Error()
	type pat struct{ sub, class string }
	pats := []pat{
		{"panic handling", "panic"},
		{"invalid option 'uninterpreted_option'", "uninterpreted-name"},
		{"unrecognized extension", "no-ext"},
		{"should extend", "wrong-extendee"},
		{"does not exist", "no-field"},
		{"is not a message", "path-not-message"},
		{"is repeated (must use an aggregate)", "path-repeated"},
		{"already has field", "oneof-conflict"},
		{"already set", "already-set"},
		{"out of range for an enum", "enum-range"},
		{"is out of range", "range"},
		{"expecting enum name", "enum-number"},
		{"expecting enum", "enum-type"},
		{"has no value named", "enum-name"},
		{"closed enum", "enum-closed"},
		{"expecting message", "type-message"},
		{"expecting", "type"},
		{"is an array but field is not repeated", "array-nonrepeated"},
		{"any type references", "any"},
		{"type references", "any"},
		{"could not resolve type reference", "any"},
		{"not found", "lit-no-field"},
		{"syntax error", "syntax"},
		{"is allowed on", "target-type"},
		{"may not be used in an option", "target-type"},
		{"required fields missing", "required"},
		{"required field", "required"},
	}
	for _, p := range pats {
		if strings.Contains(s, p.sub) {
			return p.class
		}
	}
	return "other"
}

// ---------------------------------------------------------------- canonical trees

func floatCanon(v float64) string {
	switch {
	case math.IsInf(v, 1):
		return "inf"
	case math.IsInf(v, -1):
		return "-inf"
	case math.IsNaN(v):
		return "nan"
	case v == 0:
		if math.Signbit(v) {
			return "-0"
		}
		return "0p0"
	}
	bf := new(big.Float).SetFloat64(v)
	mant := new(big.Float)
	exp := bf.MantExp(mant) // bf = mant * 2^exp, 0.5 <= |mant| < 1
	mant.SetMantExp(mant, 53)
	exp -= 53
	mi, _ := mant.Int(nil)
	for mi.Bit(0) == 0 && mi.Sign() != 0 {
		mi.Rsh(mi, 1)
		exp++
	}
	return fmt.Sprintf("%sp%d", mi.String(), exp)
}

func scalarCanon(fd protoreflect.FieldDescriptor, v protoreflect.Value) any {
	switch fd.Kind() {
	case protoreflect.BoolKind:
		return map[string]any{"b": v.Bool()}
	case protoreflect.EnumKind:
		return map[string]any{"e": fmt.Sprint(int64(v.Enum()))}
	case protoreflect.Int32Kind, protoreflect.Sint32Kind, protoreflect.Sfixed32Kind,
		protoreflect.Int64Kind, protoreflect.Sint64Kind, protoreflect.Sfixed64Kind:
		return map[string]any{"i": fmt.Sprint(v.Int())}
	case protoreflect.Uint32Kind, protoreflect.Fixed32Kind, protoreflect.Uint64Kind, protoreflect.Fixed64Kind:
		return map[string]any{"i": fmt.Sprint(v.Uint())}
	case protoreflect.FloatKind, protoreflect.DoubleKind:
		return map[string]any{"f": floatCanon(v.Float())}
	case protoreflect.StringKind:
		return map[string]any{"s": hex.EncodeToString([]byte(v.String()))}
	case protoreflect.BytesKind:
		return map[string]any{"s": hex.EncodeToString(v.Bytes())}
	case protoreflect.MessageKind, protoreflect.GroupKind:
		return msgCanon(v.Message())
	}
	panic("kind")
}

func msgCanon(m protoreflect.Message) any {
	type ent struct {
		num int64
		v   any
	}
	var ents []ent
	m.Range(func(fd protoreflect.FieldDescriptor, v protoreflect.Value) bool {
		if !fd.IsExtension() && fd.Name() == "uninterpreted_option" && fd.Number() == 999 {
			return true
		}
		var c any
		switch {
		case fd.IsMap():
			type kv struct {
				k string
				e []any
			}
			var kvs []kv
			v.Map().Range(func(k protoreflect.MapKey, mv protoreflect.Value) bool {
				kc := scalarCanon(fd.MapKey(), k.Value())
				kvs = append(kvs, kv{fmt.Sprint(kc), []any{kc, scalarCanon(fd.MapValue(), mv)}})
				return true
			})
			sort.Slice(kvs, func(i, j int) bool { return kvs[i].k < kvs[j].k })
			l := make([]any, len(kvs))
			for i := range kvs {
				l[i] = kvs[i].e
			}
			c = map[string]any{"p": l}
		case fd.IsList():
			lv := v.List()
			l := make([]any, lv.Len())
			for i := range l {
				l[i] = scalarCanon(fd, lv.Get(i))
			}
			c = map[string]any{"l": l}
		default:
			c = scalarCanon(fd, v)
		}
		ents = append(ents, ent{int64(fd.Number()), c})
		return true
	})
	sort.Slice(ents, func(i, j int) bool { return ents[i].num < ents[j].num })
	l := make([]any, len(ents))
	for i, e := range ents {
		l[i] = []any{e.num, e.v}
	}
	out := map[string]any{"m": l}
	if u := m.GetUnknown(); len(u) > 0 {
		out["unknown"] = hex.EncodeToString(u)
	}
	return out
}

type resolver interface {
	protoregistry.ExtensionTypeResolver
	protoregistry.MessageTypeResolver
	FindDescriptorByName(protoreflect.FullName) (protoreflect.Descriptor, error)
}

// optsTree decodes one options message against the schema known to res (nil: generated descriptorpb types only).
func optsTree(opts proto.Message, res resolver) any {
	var msg protoreflect.Message
	if res != nil {
		name := opts.ProtoReflect().Descriptor().FullName()
		if d, err := res.FindDescriptorByName(name); err == nil {
			if md, ok := d.(protoreflect.MessageDescriptor); ok {
				b, err := proto.MarshalOptions{AllowPartial: true, Deterministic: true}.Marshal(opts)
				if err != nil {
					return map[string]any{"decode-error": err.Error()}
				}
				dm := dynamicpb.NewMessage(md)
				if err := (proto.UnmarshalOptions{AllowPartial: true, Resolver: res}).Unmarshal(b, dm); err != nil {
					return map[string]any{"decode-error": err.Error()}
				}
				msg = dm
			}
		}
	}
	if msg == nil {
		msg = opts.ProtoReflect()
	}
	return msgCanon(msg)
}

type optsMsg interface {
	proto.Message
	GetUninterpretedOption() []*descriptorpb.UninterpretedOption
}

func isNil(m optsMsg) bool {
	return m == nil || !m.ProtoReflect().IsValid()
}

type elem struct {
	el   string
	opts optsMsg
}

func walkFile(fd *descriptorpb.FileDescriptorProto) []elem {
	var out []elem
	add := func(el string, o optsMsg) {
		if !isNil(o) {
			out = append(out, elem{el, o})
		}
	}
	add("file", fd.Options)
	var walkField func(pfx string, f *descriptorpb.FieldDescriptorProto)
	walkField = func(pfx string, f *descriptorpb.FieldDescriptorProto) {
		add("field:"+pfx+f.GetName(), f.Options)
	}
	var walkEnum func(pfx string, e *descriptorpb.EnumDescriptorProto)
	walkEnum = func(pfx string, e *descriptorpb.EnumDescriptorProto) {
		add("enum:"+pfx+e.GetName(), e.Options)
		for _, v := range e.Value {
			add("enumval:"+pfx+e.GetName()+"."+v.GetName(), v.Options)
		}
	}
	var walkMsg func(pfx string, m *descriptorpb.DescriptorProto)
	walkMsg = func(pfx string, m *descriptorpb.DescriptorProto) {
		fqn := pfx + m.GetName()
		add("msg:"+fqn, m.Options)
		for _, f := range m.Field {
			walkField(fqn+".", f)
		}
		for _, o := range m.OneofDecl {
			add("oneof:"+fqn+"."+o.GetName(), o.Options)
		}
		for _, f := range m.Extension {
			walkField(fqn+".", f)
		}
		for _, r := range m.ExtensionRange {
			add(fmt.Sprintf("extrange:%s.%d-%d", fqn, r.GetStart(), r.GetEnd()), r.Options)
		}
		for _, n := range m.NestedType {
			walkMsg(fqn+".", n)
		}
		for _, e := range m.EnumType {
			walkEnum(fqn+".", e)
		}
	}
	for _, m := range fd.MessageType {
		walkMsg("", m)
	}
	for _, f := range fd.Extension {
		walkField("", f)
	}
	for _, e := range fd.EnumType {
		walkEnum("", e)
	}
	for _, s := range fd.Service {
		add("service:"+s.GetName(), s.Options)
		for _, m := range s.Method {
			add("method:"+s.GetName()+"."+m.GetName(), m.Options)
		}
	}
	return out
}

func describe(fd *descriptorpb.FileDescriptorProto, res resolver) []any {
	var out []any
	for _, e := range walkFile(fd) {
		un := []string{}
		for _, u := range e.opts.GetUninterpretedOption() {
			b, _ := proto.MarshalOptions{Deterministic: true}.Marshal(u)
			un = append(un, hex.EncodeToString(b))
		}
		out = append(out, map[string]any{"el": e.el, "tree": optsTree(e.opts, res), "unint": un})
	}
	return out
}

func result(fd *descriptorpb.FileDescriptorProto, res resolver, err error) map[string]any {
	if err != nil {
		return map[string]any{"ok": false, "errclass": errClass(err), "err": err.Error()}
	}
	return map[string]any{"ok": true, "elems": describe(fd, res)}
}

// ---------------------------------------------------------------- interp

func accessor(files map[string]string) protocompile.Resolver {
	return protocompile.WithStandardImports(&protocompile.SourceResolver{
		Accessor: protocompile.SourceAccessorFromMap(files),
	})
}

func parse(files map[string]string, target string) (parser.Result, error) {
	h := reporter.NewHandler(nil)
	a, err := parser.Parse(target, strings.NewReader(files[target]), h)
	if err != nil {
		return nil, err
	}
	return parser.ResultFromAST(a, true, h)
}

func link(files map[string]string, target string) (linker.Result, error) {
	pr, err := parse(files, target)
	if err != nil {
		return nil, err
	}
	comp := protocompile.Compiler{Resolver: accessor(files)}
	var deps linker.Files
	for _, d := range pr.FileDescriptorProto().Dependency {
		fs, err := comp.Compile(context.Background(), d)
		if err != nil {
			return nil, fmt.Errorf("dependency %s: %w", d, err)
		}
		deps = append(deps, fs[0])
	}
	return linker.Link(pr, deps, nil, reporter.NewHandler(nil))
}

func interpCase(in map[string]any) map[string]any {
	files := map[string]string{}
	fm, _ := in["files"].(map[string]any)
	for k, v := range fm {
		files[k], _ = v.(string)
	}
	target := vhlib.Str(in, "target")
	out := map[string]any{}

	// orig: what the parser hands to the interpreter
	if pr, err := parse(files, target); err != nil {
		return map[string]any{"parse_error": err.Error()}
	} else {
		out["orig"] = result(pr.FileDescriptorProto(), nil, nil)
	}

	// strict: the whole compiler
	guard(out, "strict", func() {
		comp := protocompile.Compiler{Resolver: accessor(files)}
		fs, err := comp.Compile(context.Background(), target)
		if err != nil {
			out["strict"] = result(nil, nil, err)
		} else {
			lr := fs[0].(linker.Result)
			out["strict"] = result(lr.FileDescriptorProto(), linker.ResolverFromFile(lr), nil)
		}
	})

	// strictm: manual link + InterpretOptions
	guard(out, "strictm", func() {
		lr, err := link(files, target)
		if err != nil {
			out["strictm"] = map[string]any{"ok": false, "errclass": "link", "err": err.Error()}
			return
		}
		_, err = options.InterpretOptions(lr, reporter.NewHandler(nil))
		out["strictm"] = result(lr.FileDescriptorProto(), linker.ResolverFromFile(lr), err)
	})
	guard(out, "lenient", func() {
		lr2, err := link(files, target)
		if err != nil {
			out["lenient"] = map[string]any{"ok": false, "errclass": "link", "err": err.Error()}
			return
		}
		_, err = options.InterpretOptionsLenient(lr2)
		out["lenient"] = result(lr2.FileDescriptorProto(), linker.ResolverFromFile(lr2), err)
	})

	// unlinked
	guard(out, "unlinked", func() {
		pr, err := parse(files, target)
		if err != nil {
			panic(err)
		}
		_, err = options.InterpretUnlinkedOptions(pr)
		out["unlinked"] = result(pr.FileDescriptorProto(), nil, err)
	})
	return out
}

// guard runs one interpretation mode; a panic inside it is an observable of that mode only.
func guard(out map[string]any, mode string, f func()) {
	defer func() {
		if r := recover(); r != nil {
			out[mode] = map[string]any{"ok": false, "errclass": "panic", "err": fmt.Sprint(r)}
		}
	}()
	f()
}

// ---------------------------------------------------------------- golden

func goldenCase(in map[string]any) map[string]any {
	dir := vhlib.Str(in, "dir")
	file := vhlib.Str(in, "file")
	setPath := vhlib.Str(in, "protoset")
	raw, err := os.ReadFile(filepath.Join(dir, setPath))
	if err != nil {
		return map[string]any{"error": err.Error()}
	}
	var set descriptorpb.FileDescriptorSet
	if err := proto.Unmarshal(raw, &set); err != nil {
		return map[string]any{"error": err.Error()}
	}
	var gold *descriptorpb.FileDescriptorProto
	for _, f := range set.File {
		if f.GetName() == file {
			gold = f
		}
	}
	if gold == nil {
		return map[string]any{"error": "file not in protoset"}
	}
	comp := protocompile.Compiler{Resolver: protocompile.WithStandardImports(&protocompile.SourceResolver{ImportPaths: []string{dir}})}
	fs, err := comp.Compile(context.Background(), file)
	if err != nil {
		return map[string]any{"error": "compile: " + err.Error()}
	}
	lr := fs[0].(linker.Result)
	// resolver over the transitive closure: the options messages may come from a descriptor.proto that the
	// file does not import itself
	var closure linker.Files
	visited := map[string]bool{}
	var add func(f protoreflect.FileDescriptor)
	add = func(f protoreflect.FileDescriptor) {
		if visited[f.Path()] {
			return
		}
		visited[f.Path()] = true
		if lf, ok := f.(linker.File); ok {
			closure = append(closure, lf)
		}
		imps := f.Imports()
		for i := 0; i < imps.Len(); i++ {
			add(imps.Get(i).FileDescriptor)
		}
	}
	add(lr)
	res := closure.AsResolver()
	mine := describe(lr.FileDescriptorProto(), res)
	theirs := describe(gold, res)
	idx := map[string]any{}
	for _, e := range theirs {
		m := e.(map[string]any)
		idx[m["el"].(string)] = m
	}
	agree, values := 0, 0
	var diffs []any
	seen := map[string]bool{}
	for _, e := range mine {
		m := e.(map[string]any)
		el := m["el"].(string)
		seen[el] = true
		g, ok := idx[el].(map[string]any)
		if !ok {
			// options message that is empty in one and absent in the other is not a value difference
			if fmt.Sprint(m["tree"]) == fmt.Sprint(map[string]any{"m": []any{}}) {
				continue
			}
			diffs = append(diffs, map[string]any{"el": el, "mine": m["tree"], "protoc": nil})
			continue
		}
		a, b := fmt.Sprint(m["tree"]), fmt.Sprint(g["tree"])
		values += countLeaves(m["tree"])
		if a == b && len(g["unint"].([]string)) == 0 && len(m["unint"].([]string)) == 0 {
			agree++
		} else {
			diffs = append(diffs, map[string]any{"el": el, "mine": m["tree"], "protoc": g["tree"]})
		}
	}
	for _, e := range theirs {
		m := e.(map[string]any)
		if !seen[m["el"].(string)] && fmt.Sprint(m["tree"]) != fmt.Sprint(map[string]any{"m": []any{}}) {
			diffs = append(diffs, map[string]any{"el": m["el"], "mine": nil, "protoc": m["tree"]})
		}
	}
	return map[string]any{"elements_agree": agree, "values": values, "diffs": diffs, "elements": len(mine)}
}

func countLeaves(t any) int {
	m, ok := t.(map[string]any)
	if !ok {
		return 0
	}
	n := 0
	if l, ok := m["m"].([]any); ok {
		for _, e := range l {
			n += countLeaves(e.([]any)[1])
		}
		return n
	}
	if l, ok := m["l"].([]any); ok {
		for _, e := range l {
			n += countLeaves(e)
		}
		return n
	}
	if l, ok := m["p"].([]any); ok {
		return len(l)
	}
	return 1
}

// ---------------------------------------------------------------- describe

// describeCase returns the descriptors of chosen fields of the standard options messages
// (descriptorpb), so that the plugin's schema of the standard options is read from the code under test
// and not transcribed by hand.  in: {"want": {"google.protobuf.FileOptions": ["java_package", ...]}}
func describeCase(in map[string]any) map[string]any {
	want, _ := in["want"].(map[string]any)
	msgs := map[string]any{}
	enums := map[string]any{}
	var addMsg func(md protoreflect.MessageDescriptor, only map[string]bool)
	addEnum := func(ed protoreflect.EnumDescriptor) {
		if _, ok := enums[string(ed.FullName())]; ok {
			return
		}
		var vals []any
		for i := 0; i < ed.Values().Len(); i++ {
			v := ed.Values().Get(i)
			vals = append(vals, []any{string(v.Name()), int64(v.Number())})
		}
		enums[string(ed.FullName())] = map[string]any{"values": vals, "closed": ed.IsClosed()}
	}
	addMsg = func(md protoreflect.MessageDescriptor, only map[string]bool) {
		if _, ok := msgs[string(md.FullName())]; ok {
			return
		}
		var flds []any
		msgs[string(md.FullName())] = nil
		for i := 0; i < md.Fields().Len(); i++ {
			fd := md.Fields().Get(i)
			if only != nil && !only[string(fd.Name())] {
				continue
			}
			f := map[string]any{"name": string(fd.Name()), "number": int64(fd.Number()), "kind": fd.Kind().String(),
				"repeated": fd.Cardinality() == protoreflect.Repeated, "map": fd.IsMap(), "implicit": !fd.HasPresence() && !fd.IsList() && !fd.IsMap(),
				"oneof": -1}
			if oo := fd.ContainingOneof(); oo != nil {
				f["oneof"] = oo.Index()
			}
			var tg []any
			if fo, ok := fd.Options().(*descriptorpb.FieldOptions); ok {
				for _, t := range fo.GetTargets() {
					tg = append(tg, int64(t))
				}
			}
			f["targets"] = tg
			if fd.Enum() != nil {
				f["enum"] = string(fd.Enum().FullName())
				addEnum(fd.Enum())
			}
			if fd.Message() != nil {
				f["msg"] = string(fd.Message().FullName())
				addMsg(fd.Message(), nil)
			}
			flds = append(flds, f)
		}
		msgs[string(md.FullName())] = flds
	}
	for name, l := range want {
		d, err := protoregistry.GlobalFiles.FindDescriptorByName(protoreflect.FullName(name))
		if err != nil {
			return map[string]any{"error": err.Error()}
		}
		only := map[string]bool{}
		for _, n := range l.([]any) {
			only[n.(string)] = true
		}
		addMsg(d.(protoreflect.MessageDescriptor), only)
	}
	return map[string]any{"messages": msgs, "enums": enums}
}
