// Command reporter drives the real reporter.Handler (mode ops) and the real protocompile.Compiler
// with instrumented reporters (mode e2e) and prints canonical observables (C08).
package main

import (
	"context"
	"errors"
	"fmt"
	"runtime"
	"strconv"
	"strings"
	"sync"
	"sync/atomic"
	"time"

	"github.com/bufbuild/protocompile"
	"github.com/bufbuild/protocompile/ast"
	"github.com/bufbuild/protocompile/experimental/verifharness/vhlib"
	"github.com/bufbuild/protocompile/reporter"
)

func main() { vhlib.Main(reporterCase) }

func reporterCase(in map[string]any) map[string]any {
	switch vhlib.Str(in, "mode") {
	case "ops":
		return opsCase(in)
	case "e2e":
		return e2eCase(in)
	}
	panic("bad mode")
}

type rng struct{ s uint64 }

func (r *rng) next() uint64 {
	r.s += 0x9E3779B97F4A7C15
	z := r.s
	z = (z ^ (z >> 30)) * 0xBF58476D1CE4E5B9
	z = (z ^ (z >> 27)) * 0x94D049BB133111EB
	return z ^ (z >> 31)
}

// error identities used by the ops mode
type posTag struct{ tag int64 }

func (e posTag) Error() string { return fmt.Sprintf("tag %d", e.tag) }

type plainTag struct{ tag int64 }

func (e plainTag) Error() string { return fmt.Sprintf("plain %d", e.tag) }

type abortError struct{ k int64 }

func (e *abortError) Error() string { return fmt.Sprintf("abort at %d", e.k) }

func tagOf(e reporter.ErrorWithPos) int64 {
	u := e.Unwrap()
	if p, ok := u.(posTag); ok {
		return p.tag
	}
	// HandleErrorf / HandleWarningf build the underlying error from the message
	if s, ok := strings.CutPrefix(u.Error(), "tag "); ok {
		if n, err := strconv.ParseInt(s, 10, 64); err == nil {
			return n
		}
	}
	return -1
}

// instrumented reporter: detects concurrent entry with an atomic counter, keeps the call log
type instr struct {
	inside     atomic.Int64
	concurrent atomic.Bool
	mu         sync.Mutex // protects the log only; it does not serialize the calls
	calls      [][]any    // [kind 0=error 1=warning, tag, returned code]
	msgs       []string
	errCalls   int64
	warnCalls  int64
	aborted    bool
	afterAbort int64
	abortAt    int64 // 0 = never
	deflt      bool  // behave like the nil reporter: return the error itself
	firstRet   error // the first non-nil error this reporter returned
	abortErr   *abortError
	spin       func()
}

func (r *instr) enter() {
	if r.inside.Add(1) != 1 {
		r.concurrent.Store(true)
	}
	if r.spin != nil {
		r.spin()
	}
	// a second look after the delay: another call may have entered meanwhile
	if r.inside.Load() != 1 {
		r.concurrent.Store(true)
	}
}

func (r *instr) leave() { r.inside.Add(-1) }

func (r *instr) Error(e reporter.ErrorWithPos) error {
	r.enter()
	defer r.leave()
	r.mu.Lock()
	defer r.mu.Unlock()
	r.errCalls++
	if r.aborted {
		r.afterAbort++
	}
	var ret error
	if r.deflt {
		ret = e
	} else if r.abortAt != 0 && r.errCalls == r.abortAt {
		ret = r.abortErr
	}
	if ret != nil {
		if !r.aborted {
			r.firstRet = ret
		}
		r.aborted = true
	}
	r.calls = append(r.calls, []any{0, tagOf(e), r.code(ret)})
	r.msgs = append(r.msgs, e.Error())
	return ret
}

func (r *instr) Warning(e reporter.ErrorWithPos) {
	r.enter()
	defer r.leave()
	r.mu.Lock()
	defer r.mu.Unlock()
	r.warnCalls++
	r.calls = append(r.calls, []any{1, tagOf(e), "w"})
}

// canonical code of an error value (identity, not text)
func (r *instr) code(err error) string {
	switch {
	case err == nil:
		return "nil"
	case err == reporter.ErrInvalidSource:
		return "invalid"
	case err == error(r.abortErr):
		return "abort"
	}
	if p, ok := err.(plainTag); ok {
		return fmt.Sprintf("plain:%d", p.tag)
	}
	if e, ok := err.(reporter.ErrorWithPos); ok {
		return fmt.Sprintf("pos:%d", tagOf(e))
	}
	return "other:" + err.Error()
}

// ops mode.
//
//	parents: handler i+1 is parents[i].SubHandler()   (handler 0 is the root, parents[i] <= i)
//	abort:   0 = the reporter never aborts, k >= 1 = the k-th Error call returns the abort error,
//	         -1 = NewHandler(nil) (the default reporter returns the reported error itself)
//	threads: per thread a list of ops [handler, kind, tag, via]
//	         kind 0 HandleError(positional) 1 HandleError(plain) 2 HandleWarning 3 Error() 4 ReporterError()
//	         via  0 HandleError/HandleWarning  1 ...WithPos  2 ...f
//	order:   if present the ops are run by ONE goroutine in this global order (entry = thread whose next
//	         op runs); otherwise one goroutine per thread, started together
//	yield:   seed for delays inside the reporter and between ops (concurrent mode)
func opsCase(in map[string]any) map[string]any {
	abort := vhlib.Num(in, "abort")
	rep := &instr{abortErr: &abortError{abort}}
	var root *reporter.Handler
	if abort < 0 {
		// the default reporter cannot be instrumented; wrap nothing, observe results only
		root = reporter.NewHandler(nil)
		rep.deflt = true
	} else {
		rep.abortAt = abort
		root = reporter.NewHandler(rep)
	}
	handlers := []*reporter.Handler{root}
	for _, p := range vhlib.Nums(in, "parents") {
		handlers = append(handlers, handlers[p].SubHandler())
	}
	type op struct{ h, kind, tag, via int64 }
	var threads [][]op
	for _, t := range vhlib.List(in, "threads") {
		var ops []op
		for _, o := range t.([]any) {
			a := o.([]any)
			ops = append(ops, op{vhlib.AnyNum(a[0]), vhlib.AnyNum(a[1]), vhlib.AnyNum(a[2]), vhlib.AnyNum(a[3])})
		}
		threads = append(threads, ops)
	}
	span := ast.UnknownSpan("ops.proto")
	do := func(o op) string {
		h := handlers[o.h]
		switch o.kind {
		case 0:
			switch o.via {
			case 1:
				return rep.code(h.HandleErrorWithPos(span, posTag{o.tag}))
			case 2:
				return rep.code(h.HandleErrorf(span, "tag %d", o.tag))
			}
			return rep.code(h.HandleError(reporter.Error(span, posTag{o.tag})))
		case 1:
			return rep.code(h.HandleError(plainTag{o.tag}))
		case 2:
			switch o.via {
			case 1:
				h.HandleWarningWithPos(span, posTag{o.tag})
			case 2:
				h.HandleWarningf(span, "tag %d", o.tag)
			default:
				h.HandleWarning(reporter.Error(span, posTag{o.tag}))
			}
			return "w"
		case 3:
			return rep.code(h.Error())
		case 4:
			return rep.code(h.ReporterError())
		}
		panic("bad op kind")
	}
	res := make([][]string, len(threads))
	for i := range res {
		res[i] = []string{}
	}
	if _, seq := in["order"]; seq {
		next := make([]int, len(threads))
		for _, t := range vhlib.Nums(in, "order") {
			if next[t] < len(threads[t]) {
				res[t] = append(res[t], do(threads[t][next[t]]))
				next[t]++
			}
		}
	} else {
		seed := uint64(vhlib.Num(in, "yield"))
		if seed != 0 {
			rep.spin = func() {
				for k := 0; k < 3; k++ {
					runtime.Gosched()
				}
				time.Sleep(20 * time.Microsecond)
			}
		}
		var wg sync.WaitGroup
		start := make(chan struct{})
		for i := range threads {
			wg.Add(1)
			go func(i int) {
				defer wg.Done()
				r := &rng{s: seed*1000003 + uint64(i)}
				<-start
				for _, o := range threads[i] {
					if seed != 0 && r.next()%3 == 0 {
						runtime.Gosched()
					}
					res[i] = append(res[i], do(o))
				}
			}(i)
		}
		close(start)
		wg.Wait()
	}
	hfinal := make([][]string, len(handlers))
	for i, h := range handlers {
		hfinal[i] = []string{rep.code(h.Error()), rep.code(h.ReporterError())}
	}
	calls := rep.calls
	if calls == nil {
		calls = [][]any{}
	}
	return map[string]any{
		"res": res, "calls": calls, "concurrent": rep.concurrent.Load(), "after_abort": rep.afterAbort,
		"hfinal": hfinal,
	}
}

// failingResolver makes chosen paths fail without anything being reported: "error" = the resolver returns
// an error of its own, "panic" = the resolver panics.
type failingResolver struct {
	inner protocompile.Resolver
	fail  map[string]string
}

type resolverError struct{ path string }

func (e *resolverError) Error() string { return "resolver refuses " + e.path }

func (r *failingResolver) FindFileByPath(path string) (protocompile.SearchResult, error) {
	switch r.fail[path] {
	case "error":
		return protocompile.SearchResult{}, &resolverError{path}
	case "panic":
		panic("resolver panics on " + path)
	}
	return r.inner.FindFileByPath(path)
}

// sameError: identity of two error values (== on the interface values; values of a type that cannot be
// compared are never identical).
func sameError(a, b error) (same bool) {
	defer func() {
		if recover() != nil {
			same = false
		}
	}()
	return a == b
}

// e2e mode: {"files": {name: text}, "req": [names], "par": n, "abort": k (0 = never, -1 = a reporter that
// behaves like the default one: it returns the reported error itself), "yield": seed,
// "std": bool (wrap the resolver with the standard imports), "rfail": {path: "error" | "panic"}}
func e2eCase(in map[string]any) map[string]any {
	files := map[string]string{}
	if fm, ok := in["files"].(map[string]any); ok {
		for k, v := range fm {
			files[k], _ = v.(string)
		}
	}
	abort := vhlib.Num(in, "abort")
	seed := uint64(vhlib.Num(in, "yield"))
	rep := &instr{abortErr: &abortError{abort}, abortAt: abort}
	if abort < 0 {
		rep.abortAt = 0
		rep.deflt = true
	}
	if seed != 0 {
		r := &rng{s: seed}
		var mu sync.Mutex
		pick := func() uint64 {
			mu.Lock()
			defer mu.Unlock()
			return r.next()
		}
		rep.spin = func() {
			runtime.Gosched()
			time.Sleep(time.Duration(10+pick()%40) * time.Microsecond)
		}
		protocompile.VerifSetYieldHook(func(string) {
			if pick()%3 == 0 {
				runtime.Gosched()
			}
		})
		defer protocompile.VerifSetYieldHook(nil)
	}
	var res protocompile.Resolver = &protocompile.SourceResolver{Accessor: protocompile.SourceAccessorFromMap(files)}
	if fm, ok := in["rfail"].(map[string]any); ok && len(fm) > 0 {
		fr := &failingResolver{inner: res, fail: map[string]string{}}
		for k, v := range fm {
			fr.fail[k], _ = v.(string)
		}
		res = fr
	}
	if vhlib.Bool(in, "std") {
		res = protocompile.WithStandardImports(res)
	}
	comp := protocompile.Compiler{Resolver: res, MaxParallelism: int(vhlib.Num(in, "par")), Reporter: rep}
	type outcome struct {
		n   int
		err error
		// reporter calls completed when Compile returned (a task nobody waits for any more may still report
		// afterwards; such late calls are not part of this compilation's outcome and are counted separately)
		errCalls, warnCalls, afterAbort int64
		aborted                         bool
	}
	done := make(chan outcome, 1)
	ctx, cancel := context.WithCancel(context.Background())
	defer cancel()
	go func() {
		defer func() {
			if p := recover(); p != nil {
				done <- outcome{n: 0, err: fmt.Errorf("ESCAPED-PANIC: %v", p)}
			}
		}()
		fs, err := comp.Compile(ctx, vhlib.Strs(in, "req")...)
		rep.mu.Lock()
		snap := outcome{errCalls: rep.errCalls, warnCalls: rep.warnCalls, afterAbort: rep.afterAbort, aborted: rep.aborted}
		rep.mu.Unlock()
		n := 0
		for _, f := range fs {
			if f != nil {
				n++
			}
		}
		snap.n, snap.err = n, err
		done <- snap
	}()
	out := map[string]any{}
	var atReturn *outcome
	select {
	case o := <-done:
		atReturn = &o
		out["hang"] = false
		out["ok"] = o.err == nil
		out["nfiles"] = o.n
		switch {
		case o.err == nil:
			out["err"] = "nil"
		case o.err == error(rep.abortErr):
			out["err"] = "abort"
		case o.err == reporter.ErrInvalidSource:
			out["err"] = "invalid"
		default:
			out["err"] = "other"
			out["err_text"] = o.err.Error()
		}
		out["is_abort"] = o.err != nil && errors.Is(o.err, error(rep.abortErr))
		if rep.deflt {
			// the reporter returned the reported error itself: Compile must fail with that very value
			rep.mu.Lock()
			fr := rep.firstRet
			rep.mu.Unlock()
			same := o.err != nil && fr != nil && sameError(o.err, fr)
			out["is_abort"] = same
			if same {
				out["err"] = "abort"
			}
		}
		out["is_invalid"] = o.err != nil && errors.Is(o.err, reporter.ErrInvalidSource)
		if o.err != nil && strings.HasPrefix(o.err.Error(), "ESCAPED-PANIC") {
			out["escaped_panic"] = true
		}
	case <-time.After(30 * time.Second):
		out["hang"] = true
		cancel()
	}
	rep.mu.Lock()
	defer rep.mu.Unlock()
	out["err_calls"] = rep.errCalls
	out["warn_calls"] = rep.warnCalls
	out["after_abort"] = rep.afterAbort
	out["aborted"] = rep.aborted
	out["late_err_calls"] = 0
	if atReturn != nil && !strings.HasPrefix(fmt.Sprint(atReturn.err), "ESCAPED-PANIC") {
		out["late_err_calls"] = rep.errCalls - atReturn.errCalls
		out["err_calls"] = atReturn.errCalls
		out["warn_calls"] = atReturn.warnCalls
		out["after_abort"] = rep.afterAbort // a call after the abort is a violation whenever it happens
		out["aborted"] = atReturn.aborted
	}
	out["concurrent"] = rep.concurrent.Load()
	msgs := rep.msgs
	if msgs == nil {
		msgs = []string{}
	}
	out["msgs"] = msgs
	return out
}
