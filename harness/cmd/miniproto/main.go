// Harness family "miniproto" (properties C01, C02): runs the real compiler on generated file sets.
//
// modes:
//
//	compile:  files {path: text}, roots [path]  ->  ok, errs [{file,line,col,msg,cls}], warns [...],
//	          fds [projection of each compiled FileDescriptorProto (source info stripped)]
//	          Every error is collected by an accept-all reporter; first is what a fail-fast
//	          reporter sees (checked by a second compile with the default reporter).
//	parse:    path, text  ->  ast (the MiniProto AST of the file read through the repository's own
//	          parser, no validation), unfit [reasons why the file lies outside the fragment]
//	protoset: path  ->  fds [projection of every file of a serialized FileDescriptorSet]
//	tables:   ->  cases [{table,name,files,order,err,diff}] read with go/parser from the literals of
//	          TestLinkerValidation (linker/linker_test.go) and TestBasicValidation (parser/validate_test.go)
//	names:    s (hex)  ->  json = internal.JSONName(s), entry = internal.MapEntry(s)  (hex)
package main

import (
	"context"
	"fmt"
	goast "go/ast"
	goparser "go/parser"
	gotoken "go/token"
	"os"
	"path/filepath"
	"regexp"
	"sort"
	"strconv"
	"strings"

	"github.com/bufbuild/protocompile"
	"github.com/bufbuild/protocompile/ast"
	"github.com/bufbuild/protocompile/experimental/verifharness/vhlib"
	"github.com/bufbuild/protocompile/internal"
	"github.com/bufbuild/protocompile/parser"
	"github.com/bufbuild/protocompile/reporter"
	"google.golang.org/protobuf/proto"
	"google.golang.org/protobuf/types/descriptorpb"
)

func main() { vhlib.Main(run) }

func run(in map[string]any) map[string]any {
	switch vhlib.Str(in, "mode") {
	case "compile":
		return compileCase(in)
	case "parse":
		return parseCase(in)
	case "protoset":
		return protosetCase(in)
	case "tables":
		return tablesCase(in)
	case "names":
		s := string(vhlib.Unhex(vhlib.Str(in, "s")))
		return map[string]any{"json": vhlib.Hx([]byte(internal.JSONName(s))), "entry": vhlib.Hx([]byte(internal.MapEntry(s)))}
	}
	panic("bad mode")
}

// ---------------------------------------------------------------- error classes

type rule struct {
	re  *regexp.Regexp
	cls string
}

func r(p, c string) rule { return rule{regexp.MustCompile(p), c} }

// order matters: first match wins
var rules = []rule{
	r(`^syntax error`, "syntax"),
	r(`option \S+ cannot be defined more than once`, "option-repeated"),
	r(`expecting bool value for message_set_wire_format`, "msgset-not-bool"),
	r(`syntax value must be`, "syntax-value"),
	r(`^edition `, "edition-value"),
	r(`file not found`, "import-missing"),
	r(`cycle found in imports`, "import-cycle"),
	r(`was already imported`, "import-dup"),
	r(`tag number \d+ must be greater than zero`, "tag-zero"),
	r(`tag number \d+ is higher than max allowed tag number`, "tag-too-high"),
	r(`tag number \d+ is in disallowed reserved range`, "tag-19000"),
	r(`range start -?\d+ is out of range`, "range-start-oor"),
	r(`range end -?\d+ is out of range`, "range-end-oor"),
	r(`is invalid: start must be <= end`, "range-order"),
	r(`value -?\d+ is out of range: should be between`, "enum-value-oor"),
	r(`should have a name that starts with a capital letter`, "group-lower"),
	r(`oneof must contain at least one field`, "oneof-empty"),
	r(`extend sections must define at least one extension`, "extend-empty"),
	r(`must use identifiers, not string literals`, "reserved-name-form"),
	r(`must use string literals, not identifiers`, "reserved-name-form"),
	r(`is already reserved at`, "reserved-name-dup"),
	r(`message nesting depth`, "depth"),
	r(`message-set wire format are not allowed with proto3`, "msgset-proto3"),
	r(`message-set wire format cannot contain non-extension fields`, "msgset-fields"),
	r(`message-set wire format must contain at least one extension range`, "msgset-no-range"),
	r(`message-set wire format cannot contain scalar extensions`, "msgset-scalar-ext"),
	r(`message-set wire format cannot contain repeated extensions`, "msgset-repeated-ext"),
	r(`message sets are no longer supported|message set wire format`, "msgset-gate"),
	r(`extension ranges are not allowed in proto3`, "proto3-ext-range"),
	r(`map_entry option should not be set explicitly`, "map-entry-explicit"),
	r(`^message \S+: reserved ranges overlap`, "msg-reserved-overlap"),
	r(`^enum \S+: reserved ranges overlap`, "enum-reserved-overlap"),
	r(`extension ranges overlap`, "ext-overlap"),
	r(`overlaps reserved range`, "ext-reserved-overlap"),
	r(`is not a valid identifier`, "reserved-name-invalid"),
	r(`field \S+ is using a reserved name`, "field-reserved-name"),
	r(`value \S+ is using a reserved name`, "value-reserved-name"),
	r(`both have the same tag`, "dup-tag"),
	r(`which is in reserved range`, "in-reserved-range"),
	r(`which is in extension range`, "tag-in-ext-range"),
	r(`enums must define at least one value`, "enum-empty"),
	r(`expecting bool value for allow_alias`, "alias-not-bool"),
	r(`proto3 requires that first value of enum have numeric value zero`, "enum-first-zero"),
	r(`first value of open enum`, "enum-first-zero"),
	r(`both have the same numeric value`, "enum-dup-number"),
	r(`allow_alias is true but no values are aliases`, "alias-unused"),
	r(`missing field tag number`, "tag-missing"),
	r(`groups are not allowed in proto3 or editions`, "group-not-proto2"),
	r(`label 'required' is not allowed in proto3 or editions`, "required-not-proto2"),
	r(`label 'optional' is not allowed in editions`, "optional-in-editions"),
	r(`packed option is not allowed in editions`, "packed-in-editions"),
	r(`default values are not allowed in proto3`, "default-in-proto3"),
	r(`field has no label; proto2 requires explicit`, "label-missing"),
	r(`extension fields cannot be 'required'`, "ext-required"),
	r(`option 'features' may only be used with editions`, "features-not-editions"),
	r(`files should have only one package declaration`, "package-dup"),
	r(`package name`, "package-name"),
	r(`symbol "[^"]*" already defined`, "symbol-dup"),
	r(`already defined`, "symbol-dup"),
	r(`unknown extendee type`, "extendee-unknown"),
	r(`extendee is invalid`, "extendee-not-message"),
	r(`unknown (request|response) type`, "method-type-unknown"),
	r(`invalid (request|response) type`, "method-type-not-message"),
	r(`unknown type`, "type-unknown"),
	r(`invalid type: .* not a message or enum`, "type-not-type"),
	r(`is not in valid range for extended type`, "ext-tag-not-in-range"),
	r(`extension with tag \d+ for message`, "ext-tag-dup"),
	r(`extend blocks in proto3 can only be used to define custom options`, "proto3-extend"),
	r(`is a synthetic map entry and may not be referenced explicitly`, "map-entry-ref"),
	r(`JSON name "[^"]*" conflicts with`, "json-conflict"),
	r(`camel-case name .* conflicts with camel-case name`, "enum-json-conflict"),
	r(`option json_name is not allowed on extensions`, "json-name-ext"),
	r(`json_name value cannot start with`, "json-name-brackets"),
	r(`expecting string value for json_name`, "json-name-not-string"),
	r(`default value cannot be set because field is repeated`, "default-repeated"),
	r(`default value cannot be set because field is a message`, "default-message"),
	r(`default value is not allowed on fields with implicit presence`, "default-implicit"),
	r(`cannot use closed enum`, "closed-enum-implicit"),
	r(`enum value in map must define 0 as the first value`, "map-enum-first-zero"),
	r(`cannot use field number \d+ for an extension because it is reserved in declaration`, "extdecl-reserved"),
	r(`expected extension with number \d+ to be named`, "extdecl-name"),
	r(`expected extension with number \d+ to have type`, "extdecl-type"),
	r(`expected extension with number \d+ to be (repeated|optional)`, "extdecl-repeated"),
	r(`expected extension with number \d+ to be declared in type`, "extdecl-missing"),
	r(`extension declaration|extension range cannot have declarations|extension for tag number \d+ already declared|extension \S+ already declared as extending`, "extdecl-bad"),
	r(`default value cannot be a message`, "default-message"),
	r(`enum \S+ has no value named|is not a member of enum|expecting enum|expecting identifier|expecting (string|int|uint|bool|float|double|bytes)|out of range for|is out of range|value is not a valid`, "default-bad-value"),
	r(`cannot be defined more than once`, "option-repeated"),
	r(`expecting bool value for message_set_wire_format`, "msgset-not-bool"),
}

func classify(msg string) string {
	for _, ru := range rules {
		if ru.re.MatchString(msg) {
			return ru.cls
		}
	}
	return "other"
}

// ---------------------------------------------------------------- compile

type recErr struct {
	file      string
	line, col int
	msg       string
}

func (e recErr) json() map[string]any {
	return map[string]any{"file": e.file, "line": e.line, "col": e.col, "msg": e.msg, "cls": classify(e.msg)}
}

func compileWith(files map[string]string, roots []string, collect bool) ([]*descriptorpb.FileDescriptorProto, []recErr, []recErr, error) {
	var errs, warns []recErr
	var rep reporter.Reporter
	if collect {
		rep = reporter.NewReporter(func(e reporter.ErrorWithPos) error {
			p := e.GetPosition()
			errs = append(errs, recErr{p.Filename, p.Line, p.Col, e.Unwrap().Error()})
			return nil
		}, func(e reporter.ErrorWithPos) {
			p := e.GetPosition()
			warns = append(warns, recErr{p.Filename, p.Line, p.Col, e.Unwrap().Error()})
		})
	}
	comp := protocompile.Compiler{
		Resolver: protocompile.WithStandardImports(&protocompile.SourceResolver{Accessor: protocompile.SourceAccessorFromMap(files)}),
		Reporter: rep, MaxParallelism: 1,
	}
	res, err := comp.Compile(context.Background(), roots...)
	var fds []*descriptorpb.FileDescriptorProto
	if err == nil {
		seen := map[string]bool{}
		for _, f := range res {
			if !seen[f.Path()] {
				seen[f.Path()] = true
				fd := proto.Clone(f.(interface {
					FileDescriptorProto() *descriptorpb.FileDescriptorProto
				}).FileDescriptorProto()).(*descriptorpb.FileDescriptorProto)
				fd.SourceCodeInfo = nil
				fds = append(fds, fd)
			}
		}
	}
	return fds, errs, warns, err
}

func compileCase(in map[string]any) map[string]any {
	files := map[string]string{}
	fm, _ := in["files"].(map[string]any)
	for k, v := range fm {
		files[k], _ = v.(string)
	}
	roots := vhlib.Strs(in, "roots")
	fds, errs, warns, err := compileWith(files, roots, true)
	out := map[string]any{"ok": err == nil}
	if err != nil {
		out["err"] = err.Error()
	}
	el := []any{}
	for _, e := range errs {
		el = append(el, e.json())
	}
	wl := []any{}
	for _, e := range warns {
		wl = append(wl, e.json())
	}
	out["errs"], out["warns"] = el, wl
	// what a fail-fast (default) reporter sees
	_, _, _, err2 := compileWith(files, roots, false)
	out["ok_default"] = err2 == nil
	if err2 != nil {
		m := err2.Error()
		if ep, ok := err2.(reporter.ErrorWithPos); ok {
			m = ep.Unwrap().Error()
		}
		out["first_default"] = map[string]any{"msg": m, "cls": classify(m)}
	}
	if err == nil {
		pl := []any{}
		for _, fd := range fds {
			pl = append(pl, projFile(fd))
		}
		out["fds"] = pl
	}
	return out
}

// ---------------------------------------------------------------- projection of descriptors

func i32s(xs []int32) []any {
	out := make([]any, len(xs))
	for i, x := range xs {
		out[i] = int64(x)
	}
	return out
}

func strsAny(xs []string) []any {
	out := make([]any, len(xs))
	for i, x := range xs {
		out[i] = x
	}
	return out
}

func projField(f *descriptorpb.FieldDescriptorProto) map[string]any {
	m := map[string]any{
		"name": f.GetName(), "number": int64(f.GetNumber()), "has_number": f.Number != nil,
		"label": int64(f.GetLabel()), "has_label": f.Label != nil,
		"type": int64(f.GetType()), "has_type": f.Type != nil,
		"type_name": f.GetTypeName(), "has_type_name": f.TypeName != nil,
		"extendee": f.GetExtendee(), "has_extendee": f.Extendee != nil,
		"json_name": f.GetJsonName(), "has_json_name": f.JsonName != nil,
		"oneof_index": int64(-1), "proto3_optional": f.GetProto3Optional(),
		"has_default": f.DefaultValue != nil, "default": vhlib.Hx([]byte(f.GetDefaultValue())),
	}
	if f.OneofIndex != nil {
		m["oneof_index"] = int64(f.GetOneofIndex())
	}
	return m
}

func projEnum(e *descriptorpb.EnumDescriptorProto) map[string]any {
	vals := []any{}
	for _, v := range e.Value {
		vals = append(vals, []any{v.GetName(), int64(v.GetNumber())})
	}
	rr := []any{}
	for _, x := range e.ReservedRange {
		rr = append(rr, []any{int64(x.GetStart()), int64(x.GetEnd())})
	}
	return map[string]any{"name": e.GetName(), "values": vals, "reserved_ranges": rr,
		"reserved_names": strsAny(e.ReservedName), "allow_alias": e.GetOptions().GetAllowAlias()}
}

func projMsg(m *descriptorpb.DescriptorProto) map[string]any {
	fields, nested, enums, exts, oneofs := []any{}, []any{}, []any{}, []any{}, []any{}
	for _, f := range m.Field {
		fields = append(fields, projField(f))
	}
	for _, n := range m.NestedType {
		nested = append(nested, projMsg(n))
	}
	for _, e := range m.EnumType {
		enums = append(enums, projEnum(e))
	}
	for _, f := range m.Extension {
		exts = append(exts, projField(f))
	}
	for _, o := range m.OneofDecl {
		oneofs = append(oneofs, o.GetName())
	}
	er, rr := []any{}, []any{}
	for _, x := range m.ExtensionRange {
		er = append(er, []any{int64(x.GetStart()), int64(x.GetEnd())})
	}
	for _, x := range m.ReservedRange {
		rr = append(rr, []any{int64(x.GetStart()), int64(x.GetEnd())})
	}
	return map[string]any{"name": m.GetName(), "fields": fields, "nested": nested, "enums": enums,
		"extensions": exts, "oneofs": oneofs, "ext_ranges": er, "reserved_ranges": rr,
		"reserved_names": strsAny(m.ReservedName), "map_entry": m.GetOptions().GetMapEntry(),
		"msgset": m.GetOptions().GetMessageSetWireFormat()}
}

func projFile(fd *descriptorpb.FileDescriptorProto) map[string]any {
	msgs, enums, exts, svcs := []any{}, []any{}, []any{}, []any{}
	for _, m := range fd.MessageType {
		msgs = append(msgs, projMsg(m))
	}
	for _, e := range fd.EnumType {
		enums = append(enums, projEnum(e))
	}
	for _, f := range fd.Extension {
		exts = append(exts, projField(f))
	}
	for _, s := range fd.Service {
		ms := []any{}
		for _, m := range s.Method {
			ms = append(ms, map[string]any{"name": m.GetName(), "in": m.GetInputType(), "out": m.GetOutputType(),
				"cs": m.GetClientStreaming(), "ss": m.GetServerStreaming()})
		}
		svcs = append(svcs, map[string]any{"name": s.GetName(), "methods": ms})
	}
	ed := ""
	if fd.Edition != nil {
		ed = fd.GetEdition().String()
	}
	return map[string]any{"name": fd.GetName(), "package": fd.GetPackage(), "has_package": fd.Package != nil,
		"syntax": fd.GetSyntax(), "edition": ed, "deps": strsAny(fd.Dependency),
		"public": i32s(fd.PublicDependency), "weak": i32s(fd.WeakDependency),
		"messages": msgs, "enums": enums, "extensions": exts, "services": svcs}
}

func protosetCase(in map[string]any) map[string]any {
	b, err := os.ReadFile(vhlib.Str(in, "path"))
	if err != nil {
		return map[string]any{"err": err.Error()}
	}
	var fds descriptorpb.FileDescriptorSet
	if err := proto.Unmarshal(b, &fds); err != nil {
		return map[string]any{"err": err.Error()}
	}
	pl := []any{}
	for _, fd := range fds.File {
		pl = append(pl, projFile(fd))
	}
	return map[string]any{"fds": pl}
}

// ---------------------------------------------------------------- source text -> MiniProto AST

type conv struct {
	unfit map[string]bool
}

func (c *conv) bad(s string) { c.unfit[s] = true }

func valJSON(v ast.ValueNode) map[string]any {
	switch x := v.Value().(type) {
	case ast.Identifier:
		return map[string]any{"t": "ident", "v": string(x)}
	case bool:
		if x {
			return map[string]any{"t": "ident", "v": "true"}
		}
		return map[string]any{"t": "ident", "v": "false"}
	case uint64:
		return map[string]any{"t": "uint", "v": strconv.FormatUint(x, 10)}
	case int64:
		return map[string]any{"t": "nint", "v": strconv.FormatInt(x, 10)}
	case float64:
		return map[string]any{"t": "float", "v": fmt.Sprintf("%v", x)}
	case string:
		return map[string]any{"t": "str", "v": vhlib.Hx([]byte(x))}
	}
	return map[string]any{"t": "other"}
}

// optName returns the option name as written (extension parts in parentheses) and whether it is
// a single plain identifier.
func optName(o *ast.OptionNode) (string, bool) {
	parts := make([]string, len(o.Name.Parts))
	for i, p := range o.Name.Parts {
		parts[i] = string(p.Name.AsIdentifier())
		if p.IsExtension() {
			parts[i] = "(" + parts[i] + ")"
		}
	}
	return strings.Join(parts, "."), len(o.Name.Parts) == 1 && !o.Name.Parts[0].IsExtension()
}

// options of a field: only json_name and default are in the fragment
func (c *conv) fieldOpts(co *ast.CompactOptionsNode) []any {
	out := []any{}
	if co == nil {
		return out
	}
	for _, o := range co.Options {
		n, simple := optName(o)
		if simple && (n == "json_name" || n == "default") {
			out = append(out, map[string]any{"name": n, "val": valJSON(o.Val)})
		} else {
			c.bad("field option " + n)
		}
	}
	return out
}

func label(l ast.FieldLabel) string {
	if !l.IsPresent() {
		return ""
	}
	switch {
	case l.Repeated:
		return "repeated"
	case l.Required:
		return "required"
	}
	return "optional"
}

func intVal(n ast.IntValueNode) string {
	if i, ok := n.AsInt64(); ok {
		return strconv.FormatInt(i, 10)
	}
	if u, ok := n.AsUint64(); ok {
		return strconv.FormatUint(u, 10)
	}
	return "0"
}

func (c *conv) ranges(rs []*ast.RangeNode) []any {
	out := []any{}
	for _, rn := range rs {
		m := map[string]any{"s": intVal(rn.StartVal), "e": nil, "max": rn.Max != nil}
		if rn.EndVal != nil {
			m["e"] = intVal(rn.EndVal)
		}
		out = append(out, m)
	}
	return out
}

// options of an extension range: verification and declaration = { number full_name type reserved repeated }
func (c *conv) xopts(co *ast.CompactOptionsNode) map[string]any {
	var verification any
	decls := []any{}
	for _, o := range co.Options {
		n, simple := optName(o)
		switch {
		case simple && n == "verification":
			id, ok := o.Val.Value().(ast.Identifier)
			if !ok || verification != nil || (id != "DECLARATION" && id != "UNVERIFIED") {
				c.bad("extension range option verification")
				continue
			}
			verification = string(id)
		case simple && n == "declaration":
			lit, ok := o.Val.(*ast.MessageLiteralNode)
			if !ok {
				c.bad("extension range option declaration")
				continue
			}
			d := map[string]any{"number": nil, "full_name": nil, "type": nil, "reserved": false, "repeated": false}
			seen := map[string]bool{}
			for _, el := range lit.Elements {
				fn := string(el.Name.Name.AsIdentifier())
				if el.Name.IsExtension() || el.Name.IsAnyTypeReference() || seen[fn] {
					c.bad("extension declaration field")
					continue
				}
				seen[fn] = true
				switch v := el.Val.Value().(type) {
				case uint64:
					if fn == "number" {
						d["number"] = strconv.FormatUint(v, 10)
						continue
					}
				case string:
					if fn == "full_name" || fn == "type" {
						d[fn] = vhlib.Hx([]byte(v))
						continue
					}
				case ast.Identifier:
					if (fn == "reserved" || fn == "repeated") && (v == "true" || v == "false") {
						d[fn] = v == "true"
						continue
					}
				case bool:
					if fn == "reserved" || fn == "repeated" {
						d[fn] = v
						continue
					}
				}
				c.bad("extension declaration field " + fn)
			}
			decls = append(decls, d)
		default:
			c.bad("extension range option " + n)
		}
	}
	return map[string]any{"verification": verification, "decls": decls}
}

func (c *conv) field(f *ast.FieldNode) map[string]any {
	m := map[string]any{"k": "field", "label": label(f.Label), "type": string(f.FldType.AsIdentifier()),
		"name": f.Name.Val, "num": nil, "opts": c.fieldOpts(f.Options)}
	if f.Tag != nil {
		m["num"] = strconv.FormatUint(f.Tag.Val, 10)
	}
	return m
}

func (c *conv) group(g *ast.GroupNode) map[string]any {
	if g.Options != nil {
		c.bad("group options")
	}
	m := map[string]any{"k": "group", "label": label(g.Label), "name": g.Name.Val, "num": nil, "body": c.body(g.Decls)}
	if g.Tag != nil {
		m["num"] = strconv.FormatUint(g.Tag.Val, 10)
	}
	return m
}

func (c *conv) reserved(rn *ast.ReservedNode) map[string]any {
	if len(rn.Ranges) > 0 {
		return map[string]any{"k": "reserved", "ranges": c.ranges(rn.Ranges)}
	}
	names, idents := []any{}, []any{}
	for _, n := range rn.Names {
		names = append(names, vhlib.Hx([]byte(n.AsString())))
	}
	for _, n := range rn.Identifiers {
		idents = append(idents, vhlib.Hx([]byte(string(n.AsIdentifier()))))
	}
	return map[string]any{"k": "reserved_names", "names": names, "idents": idents}
}

func (c *conv) extend(e *ast.ExtendNode) map[string]any {
	els := []any{}
	for _, d := range e.Decls {
		switch d := d.(type) {
		case *ast.FieldNode:
			els = append(els, c.field(d))
		case *ast.GroupNode:
			els = append(els, c.group(d))
		}
	}
	return map[string]any{"k": "extend", "extendee": string(e.Extendee.AsIdentifier()), "elems": els}
}

func (c *conv) enum(e *ast.EnumNode) map[string]any {
	if e.Visibility != nil {
		c.bad("visibility")
	}
	els := []any{}
	for _, d := range e.Decls {
		switch d := d.(type) {
		case *ast.EnumValueNode:
			if d.Options != nil {
				c.bad("enum value options")
			}
			els = append(els, map[string]any{"k": "value", "name": d.Name.Val, "num": intVal(d.Number)})
		case *ast.OptionNode:
			n, simple := optName(d)
			if simple && n == "allow_alias" {
				els = append(els, map[string]any{"k": "option", "name": n, "val": valJSON(d.Val)})
			} else {
				c.bad("enum option " + n)
			}
		case *ast.ReservedNode:
			els = append(els, c.reserved(d))
		}
	}
	return map[string]any{"k": "enum", "name": e.Name.Val, "elems": els}
}

func (c *conv) body(decls []ast.MessageElement) []any {
	out := []any{}
	for _, d := range decls {
		switch d := d.(type) {
		case *ast.FieldNode:
			out = append(out, c.field(d))
		case *ast.MapFieldNode:
			m := map[string]any{"k": "map", "key": d.MapType.KeyType.Val, "val": string(d.MapType.ValueType.AsIdentifier()),
				"name": d.Name.Val, "num": nil, "opts": c.fieldOpts(d.Options)}
			if d.Tag != nil {
				m["num"] = strconv.FormatUint(d.Tag.Val, 10)
			}
			out = append(out, m)
		case *ast.GroupNode:
			out = append(out, c.group(d))
		case *ast.OneofNode:
			els := []any{}
			for _, od := range d.Decls {
				switch od := od.(type) {
				case *ast.FieldNode:
					els = append(els, c.field(od))
				case *ast.GroupNode:
					els = append(els, c.group(od))
				case *ast.OptionNode:
					c.bad("oneof option")
				}
			}
			out = append(out, map[string]any{"k": "oneof", "name": d.Name.Val, "elems": els})
		case *ast.MessageNode:
			if d.Visibility != nil {
				c.bad("visibility")
			}
			out = append(out, map[string]any{"k": "message", "name": d.Name.Val, "body": c.body(d.Decls)})
		case *ast.EnumNode:
			out = append(out, c.enum(d))
		case *ast.ExtendNode:
			out = append(out, c.extend(d))
		case *ast.ExtensionRangeNode:
			m := map[string]any{"k": "extensions", "ranges": c.ranges(d.Ranges)}
			if d.Options != nil {
				m["xopts"] = c.xopts(d.Options)
			}
			out = append(out, m)
		case *ast.ReservedNode:
			out = append(out, c.reserved(d))
		case *ast.OptionNode:
			n, simple := optName(d)
			if simple && n == "message_set_wire_format" {
				out = append(out, map[string]any{"k": "option", "name": n, "val": valJSON(d.Val)})
			} else {
				c.bad("message option " + n)
			}
		}
	}
	return out
}

func parseCase(in map[string]any) map[string]any {
	path, text := vhlib.Str(in, "path"), vhlib.Str(in, "text")
	var errs []string
	h := reporter.NewHandler(reporter.NewReporter(func(e reporter.ErrorWithPos) error {
		errs = append(errs, e.Unwrap().Error())
		return nil
	}, nil))
	fn, _ := parser.Parse(path, strings.NewReader(text), h)
	if len(errs) > 0 || fn == nil {
		return map[string]any{"syntax_error": strings.Join(errs, "; ")}
	}
	c := &conv{unfit: map[string]bool{}}
	f := map[string]any{"name": path, "syntax": "", "edition": "", "package": nil}
	if fn.Syntax != nil {
		f["syntax"] = fn.Syntax.Syntax.AsString()
	}
	if fn.Edition != nil {
		f["syntax"] = "editions"
		f["edition"] = fn.Edition.Edition.AsString()
	}
	imports, decls := []any{}, []any{}
	npkg := 0
	for _, d := range fn.Decls {
		switch d := d.(type) {
		case *ast.PackageNode:
			npkg++
			f["package"] = string(d.Name.AsIdentifier())
		case *ast.ImportNode:
			kind := ""
			if d.Modifier != nil {
				kind = d.Modifier.Val
			}
			imports = append(imports, map[string]any{"path": d.Name.AsString(), "kind": kind})
		case *ast.MessageNode:
			if d.Visibility != nil {
				c.bad("visibility")
			}
			decls = append(decls, map[string]any{"k": "message", "name": d.Name.Val, "body": c.body(d.Decls)})
		case *ast.EnumNode:
			decls = append(decls, c.enum(d))
		case *ast.ExtendNode:
			decls = append(decls, c.extend(d))
		case *ast.ServiceNode:
			ms := []any{}
			for _, sd := range d.Decls {
				switch sd := sd.(type) {
				case *ast.RPCNode:
					for _, rd := range sd.Decls {
						if _, ok := rd.(*ast.OptionNode); ok {
							c.bad("method option")
						}
					}
					ms = append(ms, map[string]any{"name": sd.Name.Val,
						"in": string(sd.Input.MessageType.AsIdentifier()), "out": string(sd.Output.MessageType.AsIdentifier()),
						"cs": sd.Input.Stream != nil, "ss": sd.Output.Stream != nil})
				case *ast.OptionNode:
					c.bad("service option")
				}
			}
			decls = append(decls, map[string]any{"k": "service", "name": d.Name.Val, "methods": ms})
		case *ast.OptionNode:
			n, _ := optName(d)
			c.bad("file option " + n)
		}
	}
	if npkg > 1 {
		c.bad("two package declarations")
	}
	f["imports"], f["decls"] = imports, decls
	uf := []string{}
	for k := range c.unfit {
		uf = append(uf, k)
	}
	sort.Strings(uf)
	return map[string]any{"ast": f, "unfit": strsAny(uf)}
}

// ---------------------------------------------------------------- the two protoc-confirmed case tables

func strLit(e goast.Expr) (string, bool) {
	switch x := e.(type) {
	case *goast.BasicLit:
		if x.Kind == gotoken.STRING {
			s, err := strconv.Unquote(x.Value)
			return s, err == nil
		}
	case *goast.BinaryExpr:
		if x.Op == gotoken.ADD {
			a, ok1 := strLit(x.X)
			b, ok2 := strLit(x.Y)
			return a + b, ok1 && ok2
		}
	case *goast.ParenExpr:
		return strLit(x.X)
	}
	return "", false
}

func readTable(file, fn, table string) []any {
	fset := gotoken.NewFileSet()
	f, err := goparser.ParseFile(fset, file, nil, 0)
	if err != nil {
		panic(err)
	}
	out := []any{}
	goast.Inspect(f, func(n goast.Node) bool {
		fd, ok := n.(*goast.FuncDecl)
		if !ok || fd.Name.Name != fn {
			return true
		}
		goast.Inspect(fd.Body, func(n goast.Node) bool {
			as, ok := n.(*goast.AssignStmt)
			if !ok || len(as.Lhs) != 1 {
				return true
			}
			id, ok := as.Lhs[0].(*goast.Ident)
			if !ok || id.Name != "testCases" {
				return true
			}
			cl, ok := as.Rhs[0].(*goast.CompositeLit)
			if !ok {
				return true
			}
			for _, el := range cl.Elts {
				kv, ok := el.(*goast.KeyValueExpr)
				if !ok {
					continue
				}
				name, _ := strLit(kv.Key)
				body, ok := kv.Value.(*goast.CompositeLit)
				if !ok {
					continue
				}
				c := map[string]any{"table": table, "name": name, "files": map[string]any{}, "order": []any{}, "err": "", "diff": false, "readable": true}
				for _, fe := range body.Elts {
					fkv, ok := fe.(*goast.KeyValueExpr)
					if !ok {
						continue
					}
					key := fkv.Key.(*goast.Ident).Name
					switch key {
					case "contents":
						s, ok := strLit(fkv.Value)
						if !ok {
							c["readable"] = false
						}
						c["files"] = map[string]any{"test.proto": s}
						c["order"] = []any{"test.proto"}
					case "input":
						ml, ok := fkv.Value.(*goast.CompositeLit)
						if !ok {
							c["readable"] = false
							continue
						}
						files := map[string]any{}
						var order []string
						for _, me := range ml.Elts {
							mkv := me.(*goast.KeyValueExpr)
							k, ok1 := strLit(mkv.Key)
							v, ok2 := strLit(mkv.Value)
							if !ok1 || !ok2 {
								c["readable"] = false
							}
							files[k] = v
							order = append(order, k)
						}
						sort.Strings(order)
						c["files"] = files
						if len(c["order"].([]any)) == 0 {
							c["order"] = strsAny(order)
						}
					case "inputOrder":
						ml, ok := fkv.Value.(*goast.CompositeLit)
						if ok {
							var order []string
							for _, me := range ml.Elts {
								s, _ := strLit(me)
								order = append(order, s)
							}
							c["order"] = strsAny(order)
						}
					case "expectedErr":
						s, ok := strLit(fkv.Value)
						if !ok {
							c["readable"] = false
						}
						c["err"] = s
					case "expectedDiffWithProtoc":
						if id, ok := fkv.Value.(*goast.Ident); ok && id.Name == "true" {
							c["diff"] = true
						}
					}
				}
				out = append(out, c)
			}
			return false
		})
		return false
	})
	return out
}

func tablesCase(in map[string]any) map[string]any {
	repo := vhlib.Str(in, "repo")
	cases := readTable(filepath.Join(repo, "linker", "linker_test.go"), "TestLinkerValidation", "linker")
	cases = append(cases, readTable(filepath.Join(repo, "parser", "validate_test.go"), "TestBasicValidation", "basic")...)
	return map[string]any{"cases": cases}
}
