// Harness family "interval" (property C40): runs the real internal/interval code on one case.
//
//	mode intersect: ops [[start,end],...] (value of op i is i+1), points lo..hi
//	   -> flags (Insert results), entries [[start,end,[values...],cap]...], gets [[start,end,[values...]]...],
//	      with trace=true also steps: the entries after each Insert
//	      A panicking Insert ends the case: {"panic": msg} (from vhlib).
//	mode nesting:   ops [[start,end],...] (value of op i is i+1)
//	   -> sets [[[start,end,value]...]...] (each set in the order Scan yields it); trace=true: steps as above
package main

import (
	"github.com/bufbuild/protocompile/experimental/verifharness/vhlib"
	"github.com/bufbuild/protocompile/internal/interval"
)

func main() { vhlib.Main(intervalCase) }

func pairs(in map[string]any) [][2]int {
	var out [][2]int
	for _, o := range vhlib.List(in, "ops") {
		p, _ := o.([]any)
		if len(p) != 2 {
			panic("harness: bad op")
		}
		out = append(out, [2]int{int(vhlib.AnyNum(p[0])), int(vhlib.AnyNum(p[1]))})
	}
	return out
}

func ints(xs []int) []any {
	out := make([]any, len(xs))
	for i, x := range xs {
		out[i] = x
	}
	return out
}

func intervalCase(in map[string]any) map[string]any {
	ops := pairs(in)
	switch vhlib.Str(in, "mode") {
	case "intersect":
		var m interval.Intersect[int, int]
		flags := []any{}
		dump := func() []any {
			entries := []any{}
			for e := range m.Entries() {
				entries = append(entries, []any{e.Start, e.End, ints(e.Value), cap(e.Value)})
			}
			return entries
		}
		steps := []any{}
		for i, op := range ops {
			flags = append(flags, m.Insert(op[0], op[1], i+1))
			if vhlib.Bool(in, "trace") {
				steps = append(steps, dump())
			}
		}
		entries := dump()
		gets := []any{}
		lo, hi := int(vhlib.Num(in, "lo")), int(vhlib.Num(in, "hi"))
		for p := lo; p <= hi; p++ {
			e := m.Get(p)
			gets = append(gets, []any{e.Start, e.End, ints(e.Value)})
		}
		return map[string]any{"flags": flags, "entries": entries, "gets": gets, "steps": steps}
	case "nesting":
		var n interval.Nesting[int, int]
		dump := func() []any {
			sets := []any{}
			for set := range n.Sets() {
				s := []any{}
				for e := range set {
					s = append(s, []any{e.Start, e.End, e.Value})
				}
				sets = append(sets, s)
			}
			return sets
		}
		steps := []any{}
		for i, op := range ops {
			n.Insert(op[0], op[1], i+1)
			if vhlib.Bool(in, "trace") {
				steps = append(steps, dump())
			}
		}
		return map[string]any{"sets": dump(), "steps": steps}
	}
	panic("harness: unknown mode")
}
