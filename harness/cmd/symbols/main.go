// Harness family "symbols" (properties C16, C17): runs the real linker.Symbols on histories of
// Import / Lookup / LookupExtension / AddExtension over generated descriptor files.
package main

import (
	"context"
	"encoding/json"
	"fmt"
	"regexp"
	"sort"
	"strconv"
	"strings"
	"sync"

	"github.com/bufbuild/protocompile"
	"github.com/bufbuild/protocompile/ast"
	"github.com/bufbuild/protocompile/experimental/verifharness/vhlib"
	"github.com/bufbuild/protocompile/linker"
	"github.com/bufbuild/protocompile/reporter"
	"github.com/bufbuild/protocompile/walk"
	"google.golang.org/protobuf/proto"
	"google.golang.org/protobuf/reflect/protodesc"
	"google.golang.org/protobuf/reflect/protoreflect"
	"google.golang.org/protobuf/reflect/protoregistry"
	"google.golang.org/protobuf/types/descriptorpb"
)

func main() { vhlib.Main(symbolsCase) }

// ---------------------------------------------------------------------------------------------
// generated files
//
//	{"id":3,"pkg":"a.b","deps":[0,1],
//	 "msgs":[{"name":"M","fields":["x"],"nested":["N"]}],
//	 "enums":[{"name":"E","values":["V"]}],
//	 "exts":[{"name":"e","extendee":"a.M","tag":100}]}
//
// every message gets the extension range 100..999; extension fields are optional int32.

type depResolver struct{ deps []protoreflect.FileDescriptor }

func (r depResolver) FindFileByPath(p string) (protoreflect.FileDescriptor, error) {
	for _, d := range r.deps {
		if d.Path() == p {
			return d, nil
		}
	}
	return nil, fmt.Errorf("not found: %s", p)
}

func findIn(c interface {
	Messages() protoreflect.MessageDescriptors
	Enums() protoreflect.EnumDescriptors
}, name protoreflect.FullName) protoreflect.Descriptor {
	ms := c.Messages()
	for i := 0; i < ms.Len(); i++ {
		m := ms.Get(i)
		if m.FullName() == name {
			return m
		}
		if d := findIn(m, name); d != nil {
			return d
		}
	}
	es := c.Enums()
	for i := 0; i < es.Len(); i++ {
		if es.Get(i).FullName() == name {
			return es.Get(i)
		}
	}
	return nil
}

func (r depResolver) FindDescriptorByName(n protoreflect.FullName) (protoreflect.Descriptor, error) {
	for _, d := range r.deps {
		if x := findIn(d, n); x != nil {
			return x, nil
		}
	}
	return nil, fmt.Errorf("not found: %s", n)
}

func fpath(id int64) string { return "f" + strconv.FormatInt(id, 10) + ".proto" }

// owner id of a span's file name; -1 = nil span; -2 = something else
func ownerOf(sp ast.SourceSpan) int64 {
	if sp == nil {
		return -1
	}
	return ownerOfName(sp.Start().Filename)
}

func ownerOfName(fn string) int64 {
	if strings.HasPrefix(fn, "f") && strings.HasSuffix(fn, ".proto") {
		if n, err := strconv.ParseInt(fn[1:len(fn)-6], 10, 64); err == nil {
			return n
		}
	}
	return -2
}

func asMap(a any) map[string]any {
	m, _ := a.(map[string]any)
	return m
}

// buildResults compiles the rendered sources of the files (no shared Symbols) and
// returns the linker.Result of each: the files are then imported through the importResult path.
func buildResults(specs []any, sources map[string]any) (map[int64]protoreflect.FileDescriptor, []int64, error) {
	srcs := map[string]string{}
	for k, v := range sources {
		srcs[k], _ = v.(string)
	}
	var order []int64
	var paths []string
	for _, sa := range specs {
		id := vhlib.Num(asMap(sa), "id")
		order = append(order, id)
		paths = append(paths, fpath(id))
	}
	// one Compile per file, in id order (imports have lower ids); a file that was compiled before is
	// resolved to that very result, so that files importing the same file share its descriptor, while
	// files that collide with each other (and do not import each other) still compile
	compiled := map[string]linker.File{}
	out := map[int64]protoreflect.FileDescriptor{}
	for i, id := range order {
		comp := protocompile.Compiler{Resolver: protocompile.CompositeResolver{
			protocompile.ResolverFunc(func(path string) (protocompile.SearchResult, error) {
				if f, ok := compiled[path]; ok {
					return protocompile.SearchResult{Desc: f}, nil
				}
				return protocompile.SearchResult{}, protoregistry.NotFound
			}),
			&protocompile.SourceResolver{Accessor: protocompile.SourceAccessorFromMap(srcs)},
		}}
		files, err := comp.Compile(context.Background(), paths[i])
		if err != nil {
			return nil, nil, err
		}
		compiled[paths[i]] = files[0]
		out[id] = files[0]
	}
	return out, order, nil
}

// filesOf builds the files of a case as descriptors (protodesc) or as compiled results
func filesOf(in map[string]any) (map[int64]protoreflect.FileDescriptor, []int64, error) {
	collectAll = vhlib.Str(in, "handler") == "collect"
	if vhlib.Str(in, "kind") == "result" {
		return buildResults(vhlib.List(in, "files"), asMap(in["sources"]))
	}
	return buildFiles(vhlib.List(in, "files"))
}

func buildFiles(specs []any) (map[int64]protoreflect.FileDescriptor, []int64, error) {
	out := map[int64]protoreflect.FileDescriptor{}
	var order []int64
	for _, sa := range specs {
		s := asMap(sa)
		id := vhlib.Num(s, "id")
		fdp := &descriptorpb.FileDescriptorProto{
			Name:   proto.String(fpath(id)),
			Syntax: proto.String("proto2"),
		}
		if p := vhlib.Str(s, "pkg"); p != "" {
			fdp.Package = proto.String(p)
		}
		var deps []protoreflect.FileDescriptor
		for _, d := range vhlib.Nums(s, "deps") {
			dd, ok := out[d]
			if !ok {
				return nil, nil, fmt.Errorf("file %d: dep %d not built", id, d)
			}
			deps = append(deps, dd)
			fdp.Dependency = append(fdp.Dependency, fpath(d))
		}
		mkMsg := func(name string) *descriptorpb.DescriptorProto {
			return &descriptorpb.DescriptorProto{
				Name: proto.String(name),
				ExtensionRange: []*descriptorpb.DescriptorProto_ExtensionRange{{
					Start: proto.Int32(100), End: proto.Int32(1000),
				}},
			}
		}
		for _, ma := range vhlib.List(s, "msgs") {
			m := asMap(ma)
			md := mkMsg(vhlib.Str(m, "name"))
			for i, fn := range vhlib.Strs(m, "fields") {
				md.Field = append(md.Field, &descriptorpb.FieldDescriptorProto{
					Name:     proto.String(fn),
					JsonName: proto.String(fn),
					Number:   proto.Int32(int32(i + 1)),
					Label:    descriptorpb.FieldDescriptorProto_LABEL_OPTIONAL.Enum(),
					Type:     descriptorpb.FieldDescriptorProto_TYPE_INT32.Enum(),
				})
			}
			for _, nn := range vhlib.Strs(m, "nested") {
				md.NestedType = append(md.NestedType, mkMsg(nn))
			}
			fdp.MessageType = append(fdp.MessageType, md)
		}
		for _, ea := range vhlib.List(s, "enums") {
			e := asMap(ea)
			ed := &descriptorpb.EnumDescriptorProto{Name: proto.String(vhlib.Str(e, "name"))}
			for i, vn := range vhlib.Strs(e, "values") {
				ed.Value = append(ed.Value, &descriptorpb.EnumValueDescriptorProto{Name: proto.String(vn), Number: proto.Int32(int32(i))})
			}
			fdp.EnumType = append(fdp.EnumType, ed)
		}
		for _, xa := range vhlib.List(s, "exts") {
			x := asMap(xa)
			fdp.Extension = append(fdp.Extension, &descriptorpb.FieldDescriptorProto{
				Name:     proto.String(vhlib.Str(x, "name")),
				JsonName: proto.String(vhlib.Str(x, "name")),
				Number:   proto.Int32(int32(vhlib.Num(x, "tag"))),
				Label:    descriptorpb.FieldDescriptorProto_LABEL_OPTIONAL.Enum(),
				Type:     descriptorpb.FieldDescriptorProto_TYPE_INT32.Enum(),
				Extendee: proto.String("." + vhlib.Str(x, "extendee")),
			})
		}
		fd, err := protodesc.NewFile(fdp, depResolver{deps})
		if err != nil {
			return nil, nil, fmt.Errorf("file %d: %w", id, err)
		}
		out[id] = fd
		order = append(order, id)
	}
	return out, order, nil
}

// what walk.Descriptors yields for the file: the names in walk order and the extensions in walk order
func walkOf(fd protoreflect.FileDescriptor) map[string]any {
	names := []string{}
	exts := []any{}
	_ = walk.Descriptors(fd, func(d protoreflect.Descriptor) error {
		names = append(names, string(d.FullName()))
		if f, ok := d.(protoreflect.FieldDescriptor); ok && f.IsExtension() {
			ext := f.ContainingMessage()
			pkg := ""
			if ext.ParentFile() != nil {
				pkg = string(ext.ParentFile().Package())
			}
			exts = append(exts, map[string]any{"pkg": pkg, "extendee": string(ext.FullName()), "tag": int64(f.Number())})
		}
		return nil
	})
	deps := []int64{}
	for i := 0; i < fd.Imports().Len(); i++ {
		deps = append(deps, ownerOfName(fd.Imports().Get(i).Path()))
	}
	return map[string]any{"pkg": string(fd.Package()), "names": names, "exts": exts, "deps": deps}
}

// ---------------------------------------------------------------------------------------------
// canonical errors

var (
	reSymPkg = regexp.MustCompile(`symbol "([^"]*)" already defined as a package at`)
	reSym    = regexp.MustCompile(`symbol "([^"]*)" already defined at`)
	reExt    = regexp.MustCompile(`extension with tag (-?\d+) for message (\S+) already defined at`)
)

func canonErr(err error) map[string]any {
	if err == nil {
		return map[string]any{"e": "ok"}
	}
	if err == reporter.ErrInvalidSource {
		return map[string]any{"e": "invalid"}
	}
	t := err.Error()
	if m := reSymPkg.FindStringSubmatch(t); m != nil {
		return map[string]any{"e": "sym", "name": m[1], "aspkg": true}
	}
	if m := reSym.FindStringSubmatch(t); m != nil {
		return map[string]any{"e": "sym", "name": m[1], "aspkg": false}
	}
	if m := reExt.FindStringSubmatch(t); m != nil {
		n, _ := strconv.ParseInt(m[1], 10, 64)
		return map[string]any{"e": "ext", "msg": m[2], "tag": n}
	}
	if strings.Contains(t, "does not match package") {
		return map[string]any{"e": "extpkg"}
	}
	if strings.Contains(t, "missing package symbols") {
		return map[string]any{"e": "nopkg"}
	}
	return map[string]any{"e": "other", "text": t}
}

// ---------------------------------------------------------------------------------------------
// observables

func dump(s *linker.Symbols) []any {
	var out []any
	for _, n := range linker.VerifSymbolsDump(s) {
		syms := []any{}
		for _, e := range n.Symbols {
			syms = append(syms, map[string]any{"name": e.Name, "owner": ownerOfName(e.File), "pkg": e.IsPackage})
		}
		exts := []any{}
		for _, e := range n.Exts {
			exts = append(exts, map[string]any{"msg": e.Extendee, "tag": int64(e.Tag), "owner": ownerOfName(e.File)})
		}
		files := []int64{}
		for _, f := range n.Files {
			files = append(files, ownerOfName(f))
		}
		sort.Slice(files, func(i, j int) bool { return files[i] < files[j] })
		kids := n.Children
		if kids == nil {
			kids = []string{}
		}
		out = append(out, map[string]any{"path": n.Path, "children": kids, "symbols": syms, "exts": exts, "files": files})
	}
	return out
}

type universe struct {
	names []string
	exts  [][2]any
}

func readUniverse(in map[string]any) universe {
	u := universe{names: vhlib.Strs(in, "unames")}
	for _, xa := range vhlib.List(in, "uexts") {
		x := asMap(xa)
		u.exts = append(u.exts, [2]any{vhlib.Str(x, "msg"), vhlib.Num(x, "tag")})
	}
	return u
}

func (u universe) look(s *linker.Symbols) map[string]any {
	ln := make([]int64, len(u.names))
	for i, n := range u.names {
		ln[i] = ownerOf(s.Lookup(protoreflect.FullName(n)))
	}
	le := make([]int64, len(u.exts))
	for i, x := range u.exts {
		le[i] = ownerOf(s.LookupExtension(protoreflect.FullName(x[0].(string)), protoreflect.FieldNumber(x[1].(int64))))
	}
	return map[string]any{"names": ln, "exts": le}
}

// collectAll selects the kind of handler of the current case: false = fail-fast (the reporter
// returns the error, like reporter.NewHandler(nil)), true = the reporter records every error and
// returns nil, so the operation goes on and the handler ends with ErrInvalidSource.
var collectAll bool

// a fresh handler of the selected kind; reported receives every error given to the reporter
func newHandler(reported *[]any) *reporter.Handler {
	return reporter.NewHandler(reporter.NewReporter(func(err reporter.ErrorWithPos) error {
		*reported = append(*reported, canonErr(err))
		if collectAll {
			return nil
		}
		return err
	}, nil))
}

// outcome of an operation that takes a handler: the returned error, what was reported, and
// whether Handler.Error() ends as nil / ErrInvalidSource / the reported error
func withHandler(f func(h *reporter.Handler) error) map[string]any {
	reported := []any{}
	h := newHandler(&reported)
	out := canonErr(f(h))
	out["reported"] = reported
	out["herr"] = canonErr(h.Error())["e"]
	return out
}

// an operation failed if it returned an error or reported one
func failed(r map[string]any) bool {
	if r["e"] == "look" {
		return false
	}
	rep, _ := r["reported"].([]any)
	return r["e"] != "ok" || len(rep) > 0
}

func doOp(s *linker.Symbols, files map[int64]protoreflect.FileDescriptor, op map[string]any) map[string]any {
	switch vhlib.Str(op, "op") {
	case "import":
		fd := files[vhlib.Num(op, "f")]
		return withHandler(func(h *reporter.Handler) error { return s.Import(fd, h) })
	case "addext":
		return withHandler(func(h *reporter.Handler) error {
			return s.AddExtension(protoreflect.FullName(vhlib.Str(op, "pkg")), protoreflect.FullName(vhlib.Str(op, "extendee")),
				protoreflect.FieldNumber(vhlib.Num(op, "tag")), ast.UnknownSpan(fpath(vhlib.Num(op, "owner"))), h)
		})
	case "lookup":
		return map[string]any{"e": "look", "owner": ownerOf(s.Lookup(protoreflect.FullName(vhlib.Str(op, "name"))))}
	case "lookupext":
		return map[string]any{"e": "look", "owner": ownerOf(s.LookupExtension(protoreflect.FullName(vhlib.Str(op, "msg")), protoreflect.FieldNumber(vhlib.Num(op, "tag"))))}
	}
	panic("bad op")
}

// ---------------------------------------------------------------------------------------------
// modes
//
//	seq:     files, ops, unames, uexts -> walks, per op: result, dump of the trie, every lookup in the universe;
//	         with probe, around every failed import the outcome of Import(g) for every file g before and after it
//	conc:    files, parts (list of op lists, one goroutine each), spin (extra lookup goroutines), unames, uexts
//	         -> per part the op results, final dump and lookups
//	stress:  files, parts, spin, reps -> the concurrent partitioned import repeated on fresh tables, compared with
//	         the parts imported one after another
//	compile: sources (path -> text), parts (list of lists of paths; one Compiler.Compile each, sharing Symbols),
//	         concurrent bool, reuse bool (sequential: later parts resolve already compiled files to those results),
//	         unames, uexts -> per part the canonical error, final lookups
func symbolsCase(in map[string]any) map[string]any {
	switch vhlib.Str(in, "mode") {
	case "seq":
		files, order, err := filesOf(in)
		if err != nil {
			return map[string]any{"builderr": err.Error()}
		}
		u := readUniverse(in)
		walks := map[string]any{}
		for _, id := range order {
			walks[strconv.FormatInt(id, 10)] = walkOf(files[id])
		}
		s := &linker.Symbols{}
		steps := []any{}
		ops := vhlib.List(in, "ops")
		probe := vhlib.Bool(in, "probe")
		// outcome of Import(g) for every file g after replaying the first n operations on a fresh table
		probeAt := func(n int) []any {
			out := make([]any, len(order))
			for gi, g := range order {
				t := &linker.Symbols{}
				for _, oa := range ops[:n] {
					doOp(t, files, asMap(oa))
				}
				out[gi] = doOp(t, files, map[string]any{"op": "import", "f": json.Number(strconv.FormatInt(g, 10))})
			}
			return out
		}
		for i, oa := range ops {
			op := asMap(oa)
			r := doOp(s, files, op)
			st := map[string]any{"res": r, "dump": dump(s), "look": u.look(s)}
			if probe && vhlib.Str(op, "op") == "import" && failed(r) {
				st["probe_before"] = probeAt(i)
				st["probe_after"] = probeAt(i + 1)
			}
			steps = append(steps, st)
		}
		return map[string]any{"walks": walks, "order": order, "steps": steps}
	case "conc":
		files, order, err := filesOf(in)
		if err != nil {
			return map[string]any{"builderr": err.Error()}
		}
		u := readUniverse(in)
		walks := map[string]any{}
		for _, id := range order {
			walks[strconv.FormatInt(id, 10)] = walkOf(files[id])
		}
		s := &linker.Symbols{}
		parts := vhlib.List(in, "parts")
		results := make([][]any, len(parts))
		start := make(chan struct{})
		var wg sync.WaitGroup
		for pi, pa := range parts {
			ops, _ := pa.([]any)
			wg.Add(1)
			go func() {
				defer wg.Done()
				<-start
				for _, oa := range ops {
					results[pi] = append(results[pi], doOp(s, files, asMap(oa)))
				}
			}()
		}
		spin := int(vhlib.Num(in, "spin"))
		rounds := int(vhlib.Num(in, "rounds"))
		if rounds == 0 {
			rounds = 20
		}
		for k := 0; k < spin; k++ {
			wg.Add(1)
			go func() {
				defer wg.Done()
				<-start
				for r := 0; r < rounds; r++ {
					_ = u.look(s)
				}
			}()
		}
		close(start)
		wg.Wait()
		rs := make([]any, len(results))
		for i, r := range results {
			if r == nil {
				r = []any{}
			}
			rs[i] = r
		}
		return map[string]any{"walks": walks, "results": rs, "dump": dump(s), "look": u.look(s)}
	case "stress":
		// the same concurrent partitioned import repeated on fresh tables: how many repetitions
		// reported a collision, and how many ended with lookups different from the reference
		files, _, err := filesOf(in)
		if err != nil {
			return map[string]any{"builderr": err.Error()}
		}
		u := readUniverse(in)
		parts := vhlib.List(in, "parts")
		reps := int(vhlib.Num(in, "reps"))
		spin := int(vhlib.Num(in, "spin"))
		// reference: the parts one after another
		ref := &linker.Symbols{}
		refErr := false
		for _, pa := range parts {
			ops, _ := pa.([]any)
			for _, oa := range ops {
				if r := doOp(ref, files, asMap(oa)); failed(r) {
					refErr = true
				}
			}
		}
		refLook := fmt.Sprint(u.look(ref))
		nerr, ndiff := 0, 0
		var firstDiff map[string]any
		for rep := 0; rep < reps; rep++ {
			s := &linker.Symbols{}
			start := make(chan struct{})
			var wg sync.WaitGroup
			var mu sync.Mutex
			anyErr := false
			for _, pa := range parts {
				ops, _ := pa.([]any)
				wg.Add(1)
				go func() {
					defer wg.Done()
					<-start
					for _, oa := range ops {
						if r := doOp(s, files, asMap(oa)); failed(r) {
							mu.Lock()
							anyErr = true
							mu.Unlock()
						}
					}
				}()
			}
			for k := 0; k < spin; k++ {
				wg.Add(1)
				go func() {
					defer wg.Done()
					<-start
					for r := 0; r < 3; r++ {
						_ = u.look(s)
					}
				}()
			}
			close(start)
			wg.Wait()
			if anyErr {
				nerr++
			}
			if !anyErr && !refErr {
				if l := u.look(s); fmt.Sprint(l) != refLook {
					ndiff++
					if firstDiff == nil {
						firstDiff = l
					}
				}
			}
		}
		return map[string]any{"ref_err": refErr, "ref_look": u.look(ref), "reps": reps, "reps_with_error": nerr,
			"reps_with_other_lookups": ndiff, "first_other_look": firstDiff}
	case "compile":
		collectAll = false
		srcs := map[string]string{}
		for k, v := range asMap(in["sources"]) {
			srcs[k], _ = v.(string)
		}
		u := readUniverse(in)
		s := &linker.Symbols{}
		parts := vhlib.List(in, "parts")
		results := make([]any, len(parts))
		// with reuse (sequential only), a later compilation resolves the files that an earlier one
		// has compiled to those very results instead of compiling them again from source
		reuse := vhlib.Bool(in, "reuse") && !vhlib.Bool(in, "concurrent")
		compiled := map[string]linker.File{}
		var reg func(f linker.File)
		reg = func(f linker.File) {
			if _, ok := compiled[f.Path()]; ok {
				return
			}
			compiled[f.Path()] = f
			imps := f.Imports()
			for i := 0; i < imps.Len(); i++ {
				if d := f.FindImportByPath(imps.Get(i).Path()); d != nil {
					reg(d)
				}
			}
		}
		run := func(pi int, paths []string) {
			var res protocompile.Resolver = &protocompile.SourceResolver{Accessor: protocompile.SourceAccessorFromMap(srcs)}
			if reuse {
				res = protocompile.CompositeResolver{
					protocompile.ResolverFunc(func(path string) (protocompile.SearchResult, error) {
						if f, ok := compiled[path]; ok {
							return protocompile.SearchResult{Desc: f}, nil
						}
						return protocompile.SearchResult{}, protoregistry.NotFound
					}),
					res,
				}
			}
			comp := protocompile.Compiler{Resolver: res, Symbols: s}
			files, err := comp.Compile(context.Background(), paths...)
			results[pi] = canonErr(err)
			if reuse && err == nil {
				for _, f := range files {
					reg(f)
				}
			}
		}
		if vhlib.Bool(in, "concurrent") {
			start := make(chan struct{})
			var wg sync.WaitGroup
			for pi, pa := range parts {
				paths := toStrs(pa)
				wg.Add(1)
				go func() {
					defer wg.Done()
					<-start
					run(pi, paths)
				}()
			}
			spin := int(vhlib.Num(in, "spin"))
			for k := 0; k < spin; k++ {
				wg.Add(1)
				go func() {
					defer wg.Done()
					<-start
					for r := 0; r < 20; r++ {
						_ = u.look(s)
					}
				}()
			}
			close(start)
			wg.Wait()
		} else {
			for pi, pa := range parts {
				run(pi, toStrs(pa))
			}
		}
		return map[string]any{"results": results, "look": u.look(s)}
	}
	panic("bad mode")
}

func toStrs(a any) []string {
	arr, _ := a.([]any)
	out := make([]string, len(arr))
	for i, x := range arr {
		out[i], _ = x.(string)
	}
	return out
}
