// Command forms (C09): compiles a program whose files are handed to the compiler in a chosen input form
// (source text, AST, parser.Result, FileDescriptorProto), snapshots every resolver-supplied object before,
// compares after, and reports canonical hashes of the compiled descriptors.
package main

import (
	"context"
	"crypto/sha256"
	"encoding/hex"
	"fmt"
	"hash"
	"math"
	"reflect"
	"sort"
	"strings"
	"sync"

	"github.com/bufbuild/protocompile"
	"github.com/bufbuild/protocompile/ast"
	"github.com/bufbuild/protocompile/experimental/verifharness/vhlib"
	"github.com/bufbuild/protocompile/linker"
	"github.com/bufbuild/protocompile/parser"
	"github.com/bufbuild/protocompile/reporter"
	"google.golang.org/protobuf/proto"
	"google.golang.org/protobuf/reflect/protodesc"
	"google.golang.org/protobuf/reflect/protoreflect"
	"google.golang.org/protobuf/reflect/protoregistry"
	"google.golang.org/protobuf/types/descriptorpb"
)

func main() { vhlib.Main(formsCase) }

// ---------------------------------------------------------------- deep structural hash (reflection)

type dumper struct {
	h    hash.Hash
	seen map[uintptr]int
}

func (d *dumper) w(format string, a ...any) { fmt.Fprintf(d.h, format, a...) }

func (d *dumper) val(v reflect.Value, depth int) {
	if depth > 10000 {
		d.w("<deep>")
		return
	}
	switch v.Kind() {
	case reflect.Ptr:
		if v.IsNil() {
			d.w("nil;")
			return
		}
		p := v.Pointer()
		if id, ok := d.seen[p]; ok {
			d.w("ref%d;", id)
			return
		}
		d.seen[p] = len(d.seen)
		d.w("ptr%d{", d.seen[p])
		d.val(v.Elem(), depth+1)
		d.w("}")
	case reflect.Interface:
		if v.IsNil() {
			d.w("nili;")
			return
		}
		d.w("i<%s>", v.Elem().Type().String())
		d.val(v.Elem(), depth+1)
	case reflect.Struct:
		d.w("s<%s>{", v.Type().String())
		for i := 0; i < v.NumField(); i++ {
			d.val(v.Field(i), depth+1)
			d.w(",")
		}
		d.w("}")
	case reflect.Slice:
		if v.IsNil() {
			d.w("nils;")
			return
		}
		d.w("[%d:", v.Len())
		if v.Type().Elem().Kind() == reflect.Uint8 {
			b := make([]byte, v.Len())
			for i := range b {
				b[i] = byte(v.Index(i).Uint())
			}
			d.h.Write(b)
		} else {
			for i := 0; i < v.Len(); i++ {
				d.val(v.Index(i), depth+1)
				d.w(",")
			}
		}
		d.w("]")
	case reflect.Array:
		d.w("a[")
		for i := 0; i < v.Len(); i++ {
			d.val(v.Index(i), depth+1)
			d.w(",")
		}
		d.w("]")
	case reflect.Map:
		// keys of the maps in an AST (if any) are not ordered; hash the multiset of entry hashes
		if v.IsNil() {
			d.w("nilm;")
			return
		}
		var ents []string
		it := v.MapRange()
		for it.Next() {
			sub := &dumper{h: sha256.New(), seen: map[uintptr]int{}}
			sub.val(it.Key(), depth+1)
			sub.w("=>")
			sub.val(it.Value(), depth+1)
			ents = append(ents, hex.EncodeToString(sub.h.Sum(nil)))
		}
		sort.Strings(ents)
		d.w("m{%s}", strings.Join(ents, ","))
	case reflect.String:
		d.w("%q;", v.String())
	case reflect.Bool:
		d.w("%v;", v.Bool())
	case reflect.Int, reflect.Int8, reflect.Int16, reflect.Int32, reflect.Int64:
		d.w("%d;", v.Int())
	case reflect.Uint, reflect.Uint8, reflect.Uint16, reflect.Uint32, reflect.Uint64, reflect.Uintptr:
		d.w("%d;", v.Uint())
	case reflect.Float32, reflect.Float64:
		d.w("f%x;", math.Float64bits(v.Float()))
	case reflect.Complex64, reflect.Complex128:
		d.w("c%v;", v.Complex())
	default:
		d.w("<%s>", v.Kind().String())
	}
}

func deepHash(x any) string {
	d := &dumper{h: sha256.New(), seen: map[uintptr]int{}}
	d.val(reflect.ValueOf(x), 0)
	return hex.EncodeToString(d.h.Sum(nil))[:32]
}

// tokenDump is a readable rendering of an AST: every item (token or comment) with its position and text.
func tokenDump(f *ast.FileNode) string {
	var sb strings.Builder
	seq := f.Items()
	it, ok := seq.First()
	for ok {
		info := f.ItemInfo(it)
		fmt.Fprintf(&sb, "%d:%d:%q|%q\n", info.Start().Offset, info.End().Offset, info.RawText(), info.LeadingWhitespace())
		it, ok = seq.Next(it)
	}
	return sb.String()
}

func sha(b []byte) string {
	s := sha256.Sum256(b)
	return hex.EncodeToString(s[:])[:32]
}

func detMarshal(m proto.Message) []byte {
	b, err := proto.MarshalOptions{Deterministic: true}.Marshal(m)
	if err != nil {
		panic("marshal: " + err.Error())
	}
	return b
}

// nodeIndexDump records, for every message reachable in the descriptor proto of a parser.Result, the AST
// node the result maps it to (start and end offset), in traversal order.
func nodeIndexDump(res parser.Result) string {
	var sb strings.Builder
	root := res.AST()
	var walk func(m protoreflect.Message)
	walk = func(m protoreflect.Message) {
		n := res.Node(m.Interface())
		if n == nil || root == nil {
			sb.WriteString("-;")
		} else {
			info := root.NodeInfo(n)
			fmt.Fprintf(&sb, "%d-%d;", info.Start().Offset, info.End().Offset)
		}
		fields := m.Descriptor().Fields()
		for i := 0; i < fields.Len(); i++ {
			fd := fields.Get(i)
			if fd.Message() == nil || fd.IsMap() || !m.Has(fd) {
				continue
			}
			if fd.IsList() {
				l := m.Get(fd).List()
				for j := 0; j < l.Len(); j++ {
					walk(l.Get(j).Message())
				}
			} else {
				walk(m.Get(fd).Message())
			}
		}
	}
	walk(res.FileDescriptorProto().ProtoReflect())
	return sb.String()
}

// ---------------------------------------------------------------- supplied objects

type supplied struct {
	form  string
	text  string
	astN  *ast.FileNode
	res   parser.Result
	proto *descriptorpb.FileDescriptorProto
}

type snapshot struct {
	astDeep, astTokens, protoBytes, nodeIndex string
}

func (s *supplied) snap() snapshot {
	var out snapshot
	switch s.form {
	case "ast":
		out.astDeep = deepHash(s.astN)
		out.astTokens = sha([]byte(tokenDump(s.astN)))
	case "result":
		out.astDeep = deepHash(s.res.AST())
		out.astTokens = sha([]byte(tokenDump(s.res.AST())))
		out.protoBytes = vhlib.Hx(detMarshal(s.res.FileDescriptorProto()))
		out.nodeIndex = sha([]byte(nodeIndexDump(s.res)))
	case "result_noast", "result_noast_si":
		// a parser.Result that wraps a descriptor proto and has no AST (parser.ResultWithoutAST)
		out.protoBytes = vhlib.Hx(detMarshal(s.res.FileDescriptorProto()))
	case "proto", "proto_si":
		out.protoBytes = vhlib.Hx(detMarshal(s.proto))
	}
	return out
}

func parseOne(name, text string) (*ast.FileNode, error) {
	return parser.Parse(name, strings.NewReader(text), reporter.NewHandler(nil))
}

func compileAll(res protocompile.Resolver, names []string, mode protocompile.SourceInfoMode, par int) (linker.Files, error) {
	comp := protocompile.Compiler{Resolver: res, SourceInfoMode: mode, MaxParallelism: par}
	return comp.Compile(context.Background(), names...)
}

func describe(f linker.File) map[string]any {
	fdp := protodesc.ToFileDescriptorProto(f)
	si := fdp.SourceCodeInfo
	core := proto.Clone(fdp).(*descriptorpb.FileDescriptorProto)
	core.SourceCodeInfo = nil
	out := map[string]any{"core": sha(detMarshal(core)), "has_si": si != nil && len(si.Location) > 0, "si": ""}
	if si != nil {
		out["si"] = sha(detMarshal(si))
		out["nloc"] = int64(len(si.Location))
	}
	// the linked descriptor must agree with its own proto
	out["path"] = f.Path()
	return out
}

func errClass(err error) string {
	s := err.Error()
	if len(s) > 300 {
		s = s[:300]
	}
	return s
}

// in:  files {name: text}, order [names], forms {name: form}, mode, rounds, concurrent, par
// out: {err} | {results: [{name: {core, si, has_si}} per round], changed: [...], prep_err}
func formsCase(in map[string]any) map[string]any {
	files := map[string]string{}
	if m, ok := in["files"].(map[string]any); ok {
		for k, v := range m {
			files[k], _ = v.(string)
		}
	}
	order := vhlib.Strs(in, "order")
	forms := map[string]string{}
	if m, ok := in["forms"].(map[string]any); ok {
		for k, v := range m {
			forms[k], _ = v.(string)
		}
	}
	mode := protocompile.SourceInfoMode(vhlib.Num(in, "mode"))
	rounds := int(vhlib.Num(in, "rounds"))
	if rounds < 1 {
		rounds = 1
	}
	conc := int(vhlib.Num(in, "concurrent"))
	par := int(vhlib.Num(in, "par"))

	srcRes := protocompile.WithStandardImports(&protocompile.SourceResolver{Accessor: protocompile.SourceAccessorFromMap(files)})

	// reference source info for the proto_si form: what a standard all-source compile produces
	var refSI map[string]*descriptorpb.SourceCodeInfo
	needRef := false
	for _, f := range forms {
		if f == "proto_si" || f == "result_noast_si" {
			needRef = true
		}
	}
	if needRef {
		refMode := mode
		if refMode == protocompile.SourceInfoNone {
			refMode = protocompile.SourceInfoStandard
		}
		fs, err := compileAll(srcRes, order, refMode, 1)
		if err != nil {
			return map[string]any{"prep_err": errClass(err)}
		}
		refSI = map[string]*descriptorpb.SourceCodeInfo{}
		for _, f := range fs {
			refSI[f.Path()] = proto.Clone(protodesc.ToFileDescriptorProto(f).SourceCodeInfo).(*descriptorpb.SourceCodeInfo)
		}
	}

	sup := map[string]*supplied{}
	for _, name := range order {
		s := &supplied{form: forms[name], text: files[name]}
		if s.form == "" {
			s.form = "source"
		}
		if s.form != "source" {
			a, err := parseOne(name, s.text)
			if err != nil {
				return map[string]any{"prep_err": "parse: " + errClass(err)}
			}
			s.astN = a
			if s.form != "ast" {
				r, err := parser.ResultFromAST(a, true, reporter.NewHandler(nil))
				if err != nil {
					return map[string]any{"prep_err": "result: " + errClass(err)}
				}
				s.res = r
				if s.form == "result_noast" || s.form == "result_noast_si" {
					// the unlinked descriptor (relative type names, uninterpreted options) without its AST
					p := proto.Clone(r.FileDescriptorProto()).(*descriptorpb.FileDescriptorProto)
					if s.form == "result_noast_si" {
						// ... that already carries source info (what an all-source compilation in this mode produces)
						p.SourceCodeInfo = proto.Clone(refSI[name]).(*descriptorpb.SourceCodeInfo)
					}
					s.res = parser.ResultWithoutAST(p)
					s.astN = nil
				}
				if s.form == "proto" || s.form == "proto_si" {
					s.proto = r.FileDescriptorProto()
					if s.form == "proto_si" {
						s.proto.SourceCodeInfo = refSI[name]
					}
					s.res, s.astN = nil, nil
				}
			}
		}
		sup[name] = s
	}
	before := map[string]snapshot{}
	for n, s := range sup {
		before[n] = s.snap()
	}
	var mu sync.Mutex
	calls := map[string]int{}
	resolver := protocompile.CompositeResolver{protocompile.ResolverFunc(func(p string) (protocompile.SearchResult, error) {
		s, ok := sup[p]
		if !ok {
			return protocompile.SearchResult{}, protoregistry.NotFound
		}
		mu.Lock()
		calls[p]++
		mu.Unlock()
		switch s.form {
		case "source":
			return protocompile.SearchResult{Source: strings.NewReader(s.text)}, nil
		case "ast":
			return protocompile.SearchResult{AST: s.astN}, nil
		case "result", "result_noast", "result_noast_si":
			return protocompile.SearchResult{ParseResult: s.res}, nil
		default:
			return protocompile.SearchResult{Proto: s.proto}, nil
		}
	}), srcRes}

	out := map[string]any{}
	var results []any
	var errs []any
	runOnce := func() (map[string]any, string) {
		fs, err := compileAll(resolver, order, mode, par)
		if err != nil {
			return nil, errClass(err)
		}
		r := map[string]any{}
		for _, f := range fs {
			r[f.Path()] = describe(f)
		}
		return r, ""
	}
	for i := 0; i < rounds; i++ {
		if conc > 1 {
			var wg sync.WaitGroup
			rs := make([]map[string]any, conc)
			es := make([]string, conc)
			for k := 0; k < conc; k++ {
				wg.Add(1)
				go func(k int) {
					defer wg.Done()
					rs[k], es[k] = runOnce()
				}(k)
			}
			wg.Wait()
			for k := 0; k < conc; k++ {
				results = append(results, rs[k])
				errs = append(errs, es[k])
			}
		} else {
			r, e := runOnce()
			results = append(results, r)
			errs = append(errs, e)
		}
	}
	out["results"] = results
	out["errs"] = errs
	changed := []any{}
	for _, n := range order {
		s := sup[n]
		a := s.snap()
		b := before[n]
		if a.astDeep != b.astDeep {
			changed = append(changed, map[string]any{"file": n, "form": s.form, "what": "ast-memory"})
		}
		if a.astTokens != b.astTokens {
			changed = append(changed, map[string]any{"file": n, "form": s.form, "what": "ast-tokens"})
		}
		if a.protoBytes != b.protoBytes {
			changed = append(changed, map[string]any{"file": n, "form": s.form, "what": "proto", "before": b.protoBytes, "after": a.protoBytes})
		}
		if a.nodeIndex != b.nodeIndex {
			changed = append(changed, map[string]any{"file": n, "form": s.form, "what": "result-node-index"})
		}
	}
	out["changed"] = changed
	ncalls := map[string]any{}
	for k, v := range calls {
		ncalls[k] = int64(v)
	}
	out["calls"] = ncalls
	return out
}
