// Harness family "dualcompile" (property C27): drives the stable compiler (protocompile.Compiler)
// and the experimental compiler (incremental.Run of queries.IR + fdp.DescriptorProtoBytes, the way
// internal/testing/dualcompiler/new_adapter.go does) on the same file set and compares the
// FileDescriptorProtos of the requested files.
//
// The comparison: both descriptors are serialised and decoded again with the same extension
// resolver (the stable compiler's view of the file), so that an option value has the same
// known/unknown storage on both sides whatever storage the compiler chose; source_code_info is
// dropped; everything else is compared field by field (unknown fields as raw bytes).
//
// in  (mode "compile"): files {path: text}, request [paths], trees bool
// out: old {ok, errs}, new {ok, errs}, cmp [{path, equal, diffs [field paths]}],
//      trees [{path, old, new}] (only if asked; see tree())
// in  (mode "fdset"): files, request, out path: the experimental compiler only; its descriptors are
//      written to the path as a FileDescriptorSet -> ok, errs
// in  (mode "perturb"): files, request, file index, kind: the stable descriptor against a
//      perturbed copy of itself
// out: applicable, equal, diffs, old (tree), new (tree)
package main

import (
	"context"
	"fmt"
	"math"
	"os"
	"sort"
	"strings"

	"github.com/bufbuild/protocompile"
	"github.com/bufbuild/protocompile/experimental/fdp"
	"github.com/bufbuild/protocompile/experimental/incremental"
	"github.com/bufbuild/protocompile/experimental/incremental/queries"
	"github.com/bufbuild/protocompile/experimental/ir"
	"github.com/bufbuild/protocompile/experimental/report"
	"github.com/bufbuild/protocompile/experimental/source"
	"github.com/bufbuild/protocompile/experimental/verifharness/vhlib"
	"github.com/bufbuild/protocompile/linker"
	"github.com/bufbuild/protocompile/protoutil"
	"github.com/bufbuild/protocompile/reporter"
	"google.golang.org/protobuf/encoding/protowire"
	"google.golang.org/protobuf/proto"
	"google.golang.org/protobuf/reflect/protoreflect"
	"google.golang.org/protobuf/types/descriptorpb"
)

func main() { vhlib.Main(dualCase) }

type side struct {
	ok   bool
	errs []string
	fds  []*descriptorpb.FileDescriptorProto
	old  linker.Files
}

func compileOld(files map[string]string, request []string) side {
	var s side
	rep := reporter.NewReporter(func(e reporter.ErrorWithPos) error {
		s.errs = append(s.errs, e.Error())
		return nil
	}, nil)
	comp := protocompile.Compiler{
		Resolver: protocompile.WithStandardImports(&protocompile.SourceResolver{Accessor: protocompile.SourceAccessorFromMap(files)}),
		Reporter: rep,
	}
	out, err := comp.Compile(context.Background(), request...)
	if err != nil || len(s.errs) > 0 {
		if err != nil && len(s.errs) == 0 {
			s.errs = append(s.errs, err.Error())
		}
		return s
	}
	s.ok = true
	s.old = out
	for _, f := range out {
		s.fds = append(s.fds, protoutil.ProtoFromFileDescriptor(f))
	}
	return s
}

func compileNew(files map[string]string, request []string) side {
	var s side
	m := map[string]*source.File{}
	for p, t := range files {
		m[p] = source.NewFile(p, t)
	}
	// WKTs first, as NewNewCompiler does
	var opener source.Opener = &source.Openers{source.WKTs(), source.NewMap(m)}
	session := &ir.Session{}
	qs := make([]incremental.Query[*ir.File], len(request))
	for i, p := range request {
		qs[i] = queries.IR{Opener: opener, Session: session, Path: p}
	}
	results, rpt, err := incremental.Run(context.Background(), incremental.New(), qs...)
	if err != nil {
		s.errs = append(s.errs, "run: "+err.Error())
		return s
	}
	var irs []*ir.File
	for i, r := range results {
		if r.Fatal != nil {
			s.errs = append(s.errs, fmt.Sprintf("fatal %s: %v", request[i], r.Fatal))
			continue
		}
		irs = append(irs, r.Value)
	}
	if rpt != nil {
		for _, d := range rpt.Diagnostics {
			if d.Level() == report.Error || d.Level() == report.ICE {
				lv := "error"
				if d.Level() == report.ICE {
					lv = "ICE"
				}
				s.errs = append(s.errs, lv+": "+d.Message())
			}
		}
	}
	if len(s.errs) > 0 {
		return s
	}
	for _, f := range irs {
		data, err := fdp.DescriptorProtoBytes(f, fdp.IncludeSourceCodeInfo(false))
		if err != nil {
			s.errs = append(s.errs, "fdp: "+err.Error())
			return s
		}
		fd := &descriptorpb.FileDescriptorProto{}
		if err := proto.Unmarshal(data, fd); err != nil {
			s.errs = append(s.errs, "fdp unmarshal: "+err.Error())
			return s
		}
		s.fds = append(s.fds, fd)
	}
	s.ok = true
	return s
}

type extResolver interface {
	FindExtensionByName(field protoreflect.FullName) (protoreflect.ExtensionType, error)
	FindExtensionByNumber(message protoreflect.FullName, field protoreflect.FieldNumber) (protoreflect.ExtensionType, error)
}

// redecode: serialise, decode again with the resolver (known/unknown storage now depends on the
// schema only)
func redecode(fd *descriptorpb.FileDescriptorProto, res extResolver) (*descriptorpb.FileDescriptorProto, error) {
	b, err := proto.MarshalOptions{Deterministic: true}.Marshal(fd)
	if err != nil {
		return nil, err
	}
	out := &descriptorpb.FileDescriptorProto{}
	if err := (proto.UnmarshalOptions{Resolver: res}).Unmarshal(b, out); err != nil {
		return nil, err
	}
	return out, nil
}

// ---- the comparison ----
const sourceCodeInfoField = 9

// human-readable detail of the scalar differences of the last comparison (for the replay)
var details []string

func show(fd protoreflect.FieldDescriptor, v protoreflect.Value) string {
	switch fd.Kind() {
	case protoreflect.BytesKind:
		return vhlib.Hx(v.Bytes())
	case protoreflect.FloatKind, protoreflect.DoubleKind:
		return fmt.Sprintf("%v(bits %x)", v.Float(), math.Float64bits(v.Float()))
	}
	return fmt.Sprintf("%q", fmt.Sprint(v.Interface()))
}

type fieldVal struct {
	num protoreflect.FieldNumber
	fd  protoreflect.FieldDescriptor
	v   protoreflect.Value
}

func populated(m protoreflect.Message) []fieldVal {
	var out []fieldVal
	m.Range(func(fd protoreflect.FieldDescriptor, v protoreflect.Value) bool {
		out = append(out, fieldVal{fd.Number(), fd, v})
		return true
	})
	sort.Slice(out, func(i, j int) bool { return out[i].num < out[j].num })
	return out
}

func scalarEq(fd protoreflect.FieldDescriptor, a, b protoreflect.Value) bool {
	switch fd.Kind() {
	case protoreflect.FloatKind, protoreflect.DoubleKind:
		// as proto.Equal: a NaN equals another NaN; otherwise the same bits (so -0 differs from 0)
		if math.IsNaN(a.Float()) || math.IsNaN(b.Float()) {
			return math.IsNaN(a.Float()) && math.IsNaN(b.Float())
		}
		return math.Float64bits(a.Float()) == math.Float64bits(b.Float())
	case protoreflect.BytesKind:
		return string(a.Bytes()) == string(b.Bytes())
	default:
		return a.Interface() == b.Interface()
	}
}

// for a FieldDescriptorProto the path says which type of field it is: field<TYPE_ENUM>.default_value
func typed(path string, a protoreflect.Message) string {
	if a.Descriptor().FullName() != "google.protobuf.FieldDescriptorProto" || !strings.HasSuffix(path, ".") {
		return path
	}
	if f, ok := a.Interface().(*descriptorpb.FieldDescriptorProto); ok {
		return path[:len(path)-1] + "<" + f.GetType().String() + ">."
	}
	return path
}

func diffMsg(a, b protoreflect.Message, path string, top bool, diffs *[]string) {
	path = typed(path, a)
	fa, fb := populated(a), populated(b)
	i, j := 0, 0
	for i < len(fa) || j < len(fb) {
		switch {
		case j >= len(fb) || (i < len(fa) && fa[i].num < fb[j].num):
			if !(top && fa[i].num == sourceCodeInfoField) {
				*diffs = append(*diffs, path+fname(fa[i].fd)+":only-in-stable")
			}
			i++
		case i >= len(fa) || fb[j].num < fa[i].num:
			if !(top && fb[j].num == sourceCodeInfoField) {
				*diffs = append(*diffs, path+fname(fb[j].fd)+":only-in-experimental")
			}
			j++
		default:
			if !(top && fa[i].num == sourceCodeInfoField) {
				diffField(fa[i].fd, fa[i].v, fb[j].v, path, diffs)
			}
			i++
			j++
		}
	}
	if string(a.GetUnknown()) != string(b.GetUnknown()) {
		*diffs = append(*diffs, path+"<unknown-fields>")
	}
}

func fname(fd protoreflect.FieldDescriptor) string {
	if fd.IsExtension() {
		return "(" + string(fd.FullName()) + ")"
	}
	return string(fd.Name())
}

func diffField(fd protoreflect.FieldDescriptor, a, b protoreflect.Value, path string, diffs *[]string) {
	p := path + fname(fd)
	isMsg := fd.Kind() == protoreflect.MessageKind || fd.Kind() == protoreflect.GroupKind
	switch {
	case fd.IsList():
		la, lb := a.List(), b.List()
		if la.Len() != lb.Len() {
			*diffs = append(*diffs, p+":count")
			return
		}
		for k := 0; k < la.Len(); k++ {
			if isMsg {
				diffMsg(la.Get(k).Message(), lb.Get(k).Message(), p+".", false, diffs)
			} else if !scalarEq(fd, la.Get(k), lb.Get(k)) {
				*diffs = append(*diffs, p)
				details = append(details, p+": stable="+show(fd, la.Get(k))+" experimental="+show(fd, lb.Get(k)))
			}
		}
	case fd.IsMap():
		// no map fields in descriptor.proto; custom options could have them: compare by key
		ma, mb := a.Map(), b.Map()
		if ma.Len() != mb.Len() {
			*diffs = append(*diffs, p+":count")
			return
		}
		ma.Range(func(k protoreflect.MapKey, va protoreflect.Value) bool {
			vb := mb.Get(k)
			if !vb.IsValid() {
				*diffs = append(*diffs, p+":key")
				return true
			}
			if fd.MapValue().Kind() == protoreflect.MessageKind {
				diffMsg(va.Message(), vb.Message(), p+".", false, diffs)
			} else if !scalarEq(fd.MapValue(), va, vb) {
				*diffs = append(*diffs, p)
			}
			return true
		})
	case isMsg:
		diffMsg(a.Message(), b.Message(), p+".", false, diffs)
	default:
		if !scalarEq(fd, a, b) {
			*diffs = append(*diffs, p)
			details = append(details, p+": stable="+show(fd, a)+" experimental="+show(fd, b))
		}
	}
}

func compareFDs(a, b *descriptorpb.FileDescriptorProto) []string {
	var diffs []string
	details = nil
	diffMsg(a.ProtoReflect(), b.ProtoReflect(), "", true, &diffs)
	// the same kind of difference once
	seen := map[string]bool{}
	out := []string{}
	for _, d := range diffs {
		if !seen[d] {
			seen[d] = true
			out = append(out, d)
		}
	}
	return out
}

// ---- trees for the Coq core ----
// a message is a list of entries [field number, storage, kind, payload], in field-number order
// (repeated elements in their order), then the unknown fields in wire order:
//   storage 1: the field was held as an unknown field before re-decoding (or lies inside one)
//   kind "i": integer / bool / enum as decimal string; "f": float bits as decimal string;
//        "b": bytes or string, hex; "m": sub-message (list); "u": unknown field, wire type + hex
func unknownNumbers(m protoreflect.Message) map[protowire.Number]bool {
	out := map[protowire.Number]bool{}
	b := m.GetUnknown()
	for len(b) > 0 {
		num, typ, n := protowire.ConsumeTag(b)
		if n < 0 {
			break
		}
		b = b[n:]
		n = protowire.ConsumeFieldValue(num, typ, b)
		if n < 0 {
			break
		}
		out[num] = true
		b = b[n:]
	}
	return out
}

func leaf(fd protoreflect.FieldDescriptor, v protoreflect.Value) (string, any) {
	switch fd.Kind() {
	case protoreflect.BoolKind:
		if v.Bool() {
			return "i", "1"
		}
		return "i", "0"
	case protoreflect.EnumKind:
		return "i", fmt.Sprint(int64(v.Enum()))
	case protoreflect.Int32Kind, protoreflect.Int64Kind, protoreflect.Sint32Kind, protoreflect.Sint64Kind,
		protoreflect.Sfixed32Kind, protoreflect.Sfixed64Kind:
		return "i", fmt.Sprint(v.Int())
	case protoreflect.Uint32Kind, protoreflect.Uint64Kind, protoreflect.Fixed32Kind, protoreflect.Fixed64Kind:
		return "i", fmt.Sprint(v.Uint())
	case protoreflect.FloatKind, protoreflect.DoubleKind:
		return "f", fmt.Sprint(math.Float64bits(v.Float()))
	case protoreflect.StringKind:
		return "b", vhlib.Hx([]byte(v.String()))
	case protoreflect.BytesKind:
		return "b", vhlib.Hx(v.Bytes())
	}
	return "b", ""
}

// orig is the message as the compiler produced it (nil below a field it held as unknown)
func tree(m protoreflect.Message, orig protoreflect.Message, inherited int) []any {
	out := []any{}
	var unk map[protowire.Number]bool
	if orig != nil {
		unk = unknownNumbers(orig)
	}
	for _, f := range populated(m) {
		st := inherited
		if unk[protowire.Number(f.num)] {
			st = 1
		}
		isMsg := f.fd.Kind() == protoreflect.MessageKind || f.fd.Kind() == protoreflect.GroupKind
		sub := func(v protoreflect.Value, k int) []any {
			var o protoreflect.Message
			if orig != nil && st == 0 {
				of := orig.Descriptor().Fields().ByNumber(f.num)
				var ov protoreflect.Value
				found := false
				if of != nil && orig.Has(of) {
					ov, found = orig.Get(of), true
				} else {
					orig.Range(func(fd protoreflect.FieldDescriptor, vv protoreflect.Value) bool {
						if fd.Number() == f.num {
							ov, found = vv, true
							return false
						}
						return true
					})
				}
				if found {
					if f.fd.IsList() {
						if l := ov.List(); k < l.Len() {
							o = l.Get(k).Message()
						}
					} else if !f.fd.IsMap() {
						o = ov.Message()
					}
				}
			}
			return tree(v.Message(), o, st)
		}
		switch {
		case f.fd.IsList():
			l := f.v.List()
			for k := 0; k < l.Len(); k++ {
				if isMsg {
					out = append(out, []any{int64(f.num), st, "m", sub(l.Get(k), k)})
				} else {
					kd, p := leaf(f.fd, l.Get(k))
					out = append(out, []any{int64(f.num), st, kd, p})
				}
			}
		case f.fd.IsMap():
			tmp := m.New()
			tmp.Set(f.fd, f.v)
			b, _ := proto.MarshalOptions{Deterministic: true}.Marshal(tmp.Interface())
			out = append(out, []any{int64(f.num), st, "b", vhlib.Hx(b)})
		case isMsg:
			out = append(out, []any{int64(f.num), st, "m", sub(f.v, 0)})
		default:
			kd, p := leaf(f.fd, f.v)
			out = append(out, []any{int64(f.num), st, kd, p})
		}
	}
	b := m.GetUnknown()
	for len(b) > 0 {
		num, typ, n := protowire.ConsumeTag(b)
		if n < 0 {
			break
		}
		vn := protowire.ConsumeFieldValue(num, typ, b[n:])
		if vn < 0 {
			break
		}
		out = append(out, []any{int64(num), 1, "u", fmt.Sprintf("%d:%s", typ, vhlib.Hx(b[n:n+vn]))})
		b = b[n+vn:]
	}
	return out
}

func strs(s []string) []string {
	if s == nil {
		return []string{}
	}
	if len(s) > 6 {
		s = s[:6]
	}
	return s
}

func readFiles(in map[string]any) map[string]string {
	files := map[string]string{}
	fm, _ := in["files"].(map[string]any)
	for k, v := range fm {
		files[k], _ = v.(string)
	}
	return files
}

func dualCase(in map[string]any) map[string]any {
	files := readFiles(in)
	request := vhlib.Strs(in, "request")
	switch vhlib.Str(in, "mode") {
	case "perturb":
		return perturbCase(in, files, request)
	case "fdset":
		// the experimental compiler's descriptors of the requested files as a serialized
		// FileDescriptorSet at the given path (read back by the miniproto family's projection)
		n := compileNew(files, request)
		out := map[string]any{"ok": n.ok, "errs": strs(n.errs)}
		if n.ok {
			b, err := proto.Marshal(&descriptorpb.FileDescriptorSet{File: n.fds})
			if err == nil {
				err = os.WriteFile(vhlib.Str(in, "out"), b, 0o644)
			}
			if err != nil {
				out["ok"] = false
				out["write_error"] = err.Error()
			}
		}
		return out
	}
	o := compileOld(files, request)
	n := compileNew(files, request)
	out := map[string]any{
		"old": map[string]any{"ok": o.ok, "errs": strs(o.errs)},
		"new": map[string]any{"ok": n.ok, "errs": strs(n.errs)},
	}
	if !o.ok || !n.ok {
		return out
	}
	if len(o.fds) != len(n.fds) {
		out["cmp_error"] = fmt.Sprintf("different number of files: %d vs %d", len(o.fds), len(n.fds))
		return out
	}
	var cmp, trees []any
	for i := range o.fds {
		res := linker.ResolverFromFile(o.old[i])
		a, err1 := redecode(o.fds[i], res)
		b, err2 := redecode(n.fds[i], res)
		if err1 != nil || err2 != nil {
			out["cmp_error"] = fmt.Sprintf("re-decoding failed: %v / %v", err1, err2)
			return out
		}
		diffs := compareFDs(a, b)
		cmp = append(cmp, map[string]any{"path": o.fds[i].GetName(), "equal": len(diffs) == 0, "diffs": diffs, "details": strs(details)})
		if vhlib.Bool(in, "trees") {
			trees = append(trees, map[string]any{"path": o.fds[i].GetName(),
				"old": tree(a.ProtoReflect(), o.fds[i].ProtoReflect(), 0),
				"new": tree(b.ProtoReflect(), n.fds[i].ProtoReflect(), 0)})
		}
	}
	out["cmp"] = cmp
	if trees != nil {
		out["trees"] = trees
	}
	return out
}

// ---- perturbations of a stable descriptor: which differences the comparison sees ----
func firstField(fd *descriptorpb.FileDescriptorProto) *descriptorpb.FieldDescriptorProto {
	for _, m := range fd.MessageType {
		if len(m.Field) > 0 {
			return m.Field[0]
		}
	}
	return nil
}

// moves the extension fields of the first options message that has any into its unknown fields
func knownToUnknown(m protoreflect.Message) bool {
	done := false
	var walk func(m protoreflect.Message)
	walk = func(m protoreflect.Message) {
		if done {
			return
		}
		if strings.HasSuffix(string(m.Descriptor().FullName()), "Options") && m.Descriptor().ParentFile().Path() == "google/protobuf/descriptor.proto" {
			var exts []protoreflect.FieldDescriptor
			m.Range(func(fd protoreflect.FieldDescriptor, _ protoreflect.Value) bool {
				if fd.IsExtension() {
					exts = append(exts, fd)
				}
				return true
			})
			if len(exts) > 0 {
				tmp := m.New()
				for _, fd := range exts {
					tmp.Set(fd, m.Get(fd))
					m.Clear(fd)
				}
				b, err := proto.MarshalOptions{Deterministic: true}.Marshal(tmp.Interface())
				if err == nil {
					m.SetUnknown(append(m.GetUnknown(), b...))
					done = true
				}
				return
			}
		}
		m.Range(func(fd protoreflect.FieldDescriptor, v protoreflect.Value) bool {
			if fd.Kind() == protoreflect.MessageKind && !fd.IsMap() {
				if fd.IsList() {
					for k := 0; k < v.List().Len(); k++ {
						walk(v.List().Get(k).Message())
					}
				} else {
					walk(v.Message())
				}
			}
			return !done
		})
	}
	walk(m)
	return done
}

func perturbCase(in map[string]any, files map[string]string, request []string) map[string]any {
	o := compileOld(files, request)
	if !o.ok {
		return map[string]any{"applicable": false}
	}
	idx := int(vhlib.Num(in, "index"))
	if idx >= len(o.fds) {
		return map[string]any{"applicable": false}
	}
	base := o.fds[idx]
	res := linker.ResolverFromFile(o.old[idx])
	// the perturbed copy starts from the re-decoded form so that extension options are known fields
	mut, err := redecode(base, res)
	if err != nil {
		return map[string]any{"applicable": false}
	}
	kind := vhlib.Str(in, "kind")
	ok := true
	ff := firstField(mut)
	switch kind {
	case "identity":
	case "source-info":
		mut.SourceCodeInfo = &descriptorpb.SourceCodeInfo{Location: []*descriptorpb.SourceCodeInfo_Location{{Path: []int32{4, 0}, Span: []int32{1, 2, 3}}}}
	case "known-to-unknown":
		ok = knownToUnknown(mut.ProtoReflect())
	case "json-name":
		if ok = ff != nil; ok {
			ff.JsonName = proto.String(ff.GetJsonName() + "X")
		}
	case "label":
		if ok = ff != nil; ok {
			if ff.GetLabel() == descriptorpb.FieldDescriptorProto_LABEL_REPEATED {
				ff.Label = descriptorpb.FieldDescriptorProto_LABEL_OPTIONAL.Enum()
			} else {
				ff.Label = descriptorpb.FieldDescriptorProto_LABEL_REPEATED.Enum()
			}
		}
	case "default":
		if ok = ff != nil; ok {
			ff.DefaultValue = proto.String(ff.GetDefaultValue() + "1")
		}
	case "number":
		if ok = ff != nil; ok {
			ff.Number = proto.Int32(ff.GetNumber() + 1000)
		}
	case "option-flip":
		if ok = ff != nil; ok {
			if ff.Options == nil {
				ff.Options = &descriptorpb.FieldOptions{}
			}
			ff.Options.Deprecated = proto.Bool(!ff.Options.GetDeprecated())
		}
	case "drop-dependency":
		if ok = len(mut.Dependency) > 0; ok {
			mut.Dependency = mut.Dependency[1:]
		}
	case "rename-message":
		if ok = len(mut.MessageType) > 0; ok {
			mut.MessageType[0].Name = proto.String(mut.MessageType[0].GetName() + "X")
		}
	case "swap-fields":
		ok = false
		for _, m := range mut.MessageType {
			if len(m.Field) >= 2 {
				m.Field[0], m.Field[1] = m.Field[1], m.Field[0]
				ok = true
				break
			}
		}
	case "drop-syntax":
		ok = mut.Syntax != nil
		mut.Syntax = nil
	case "extra-unknown":
		mut.ProtoReflect().SetUnknown(protowire.AppendVarint(protowire.AppendTag(nil, 9999, protowire.VarintType), 7))
	default:
		ok = false
	}
	if !ok {
		return map[string]any{"applicable": false}
	}
	a, err1 := redecode(base, res)
	b, err2 := redecode(mut, res)
	if err1 != nil || err2 != nil {
		return map[string]any{"applicable": false}
	}
	diffs := compareFDs(a, b)
	return map[string]any{"applicable": true, "equal": len(diffs) == 0, "diffs": diffs,
		"old": tree(a.ProtoReflect(), base.ProtoReflect(), 0), "new": tree(b.ProtoReflect(), mut.ProtoReflect(), 0)}
}
