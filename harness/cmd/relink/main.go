// Command relink (C10): compiles a program, feeds every output FileDescriptorProto back into a new
// compilation as SearchResult.Proto (as the object itself, as a serialised-and-decoded copy, and as the
// linked descriptor), and reports whether the second compilation succeeds and reproduces the protos.
// It also dumps, per file, the type references before and after linking with the symbols visible from
// the file, for the correspondence with Model/Relink.v.
package main

import (
	"context"
	"fmt"
	"sort"
	"strings"

	"github.com/bufbuild/protocompile"
	"github.com/bufbuild/protocompile/experimental/verifharness/vhlib"
	"github.com/bufbuild/protocompile/linker"
	"github.com/bufbuild/protocompile/parser"
	"github.com/bufbuild/protocompile/protoutil"
	"github.com/bufbuild/protocompile/reporter"
	"google.golang.org/protobuf/proto"
	"google.golang.org/protobuf/reflect/protoreflect"
	"google.golang.org/protobuf/reflect/protoregistry"
	"google.golang.org/protobuf/types/descriptorpb"
	"google.golang.org/protobuf/types/dynamicpb"
)

func main() { vhlib.Main(relinkCase) }

func detMarshal(m proto.Message) []byte {
	b, err := proto.MarshalOptions{Deterministic: true}.Marshal(m)
	if err != nil {
		panic("marshal: " + err.Error())
	}
	return b
}

func split(s string) []string {
	if s == "" {
		return []string{}
	}
	return strings.Split(s, ".")
}

func join(prefix, name string) string {
	if prefix == "" {
		return name
	}
	return prefix + "." + name
}

// ---------------------------------------------------------------- symbols and references of a descriptor proto

type decl struct {
	name string
	kind string // M E S O
}

func declsOf(fdp *descriptorpb.FileDescriptorProto, typesOnly bool) []decl {
	var out []decl
	add := func(n, k string) {
		if typesOnly && k == "O" {
			return
		}
		out = append(out, decl{n, k})
	}
	var doEnum func(scope string, e *descriptorpb.EnumDescriptorProto)
	var doMsg func(scope string, m *descriptorpb.DescriptorProto)
	doEnum = func(scope string, e *descriptorpb.EnumDescriptorProto) {
		add(join(scope, e.GetName()), "E")
		for _, v := range e.Value {
			add(join(scope, v.GetName()), "O")
		}
	}
	doMsg = func(scope string, m *descriptorpb.DescriptorProto) {
		n := join(scope, m.GetName())
		add(n, "M")
		for _, f := range m.Field {
			add(join(n, f.GetName()), "O")
		}
		for _, o := range m.OneofDecl {
			add(join(n, o.GetName()), "O")
		}
		for _, x := range m.Extension {
			add(join(n, x.GetName()), "O")
		}
		for _, e := range m.EnumType {
			doEnum(n, e)
		}
		for _, s := range m.NestedType {
			doMsg(n, s)
		}
	}
	pkg := fdp.GetPackage()
	for _, m := range fdp.MessageType {
		doMsg(pkg, m)
	}
	for _, e := range fdp.EnumType {
		doEnum(pkg, e)
	}
	for _, x := range fdp.Extension {
		add(join(pkg, x.GetName()), "O")
	}
	for _, s := range fdp.Service {
		n := join(pkg, s.GetName())
		add(n, "S")
		for _, m := range s.Method {
			add(join(n, m.GetName()), "O")
		}
	}
	return out
}

type refRec struct {
	chain []string // enclosing message / service full names, innermost first
	want  string   // T (type_name) or M (extendee, method types)
	text  string
}

func refsOf(fdp *descriptorpb.FileDescriptorProto) []refRec {
	var out []refRec
	field := func(chain []string, f *descriptorpb.FieldDescriptorProto) {
		if f.GetExtendee() != "" {
			out = append(out, refRec{chain, "M", f.GetExtendee()})
		}
		if f.GetTypeName() != "" {
			out = append(out, refRec{chain, "T", f.GetTypeName()})
		}
	}
	var doMsg func(scope string, chain []string, m *descriptorpb.DescriptorProto)
	doMsg = func(scope string, chain []string, m *descriptorpb.DescriptorProto) {
		n := join(scope, m.GetName())
		inner := append([]string{n}, chain...)
		for _, f := range m.Field {
			field(inner, f)
		}
		for _, x := range m.Extension {
			field(inner, x)
		}
		for _, s := range m.NestedType {
			doMsg(n, inner, s)
		}
	}
	pkg := fdp.GetPackage()
	for _, m := range fdp.MessageType {
		doMsg(pkg, nil, m)
	}
	for _, x := range fdp.Extension {
		field(nil, x)
	}
	for _, s := range fdp.Service {
		n := join(pkg, s.GetName())
		for _, m := range s.Method {
			out = append(out, refRec{[]string{n}, "M", m.GetInputType()})
			out = append(out, refRec{[]string{n}, "M", m.GetOutputType()})
		}
	}
	return out
}

// visibleOrder mirrors resolveInFile: the file, then each import in order with its public imports.
func visibleOrder(f protoreflect.FileDescriptor) []protoreflect.FileDescriptor {
	var out []protoreflect.FileDescriptor
	seen := map[string]bool{}
	var visit func(f protoreflect.FileDescriptor, publicOnly bool)
	visit = func(f protoreflect.FileDescriptor, publicOnly bool) {
		if seen[f.Path()] {
			return
		}
		seen[f.Path()] = true
		out = append(out, f)
		imps := f.Imports()
		for i := 0; i < imps.Len(); i++ {
			imp := imps.Get(i)
			if publicOnly && !imp.IsPublic {
				continue
			}
			if imp.FileDescriptor != nil {
				visit(imp.FileDescriptor, true)
			}
		}
	}
	visit(f, false)
	return out
}

func namesList(xs []string) []any {
	out := make([]any, len(xs))
	for i, x := range xs {
		out[i] = split(x)
	}
	return out
}

func corrDump(f linker.File, text string) map[string]any {
	fdp := protoutil.ProtoFromFileDescriptor(f)
	out := map[string]any{"name": f.Path(), "pkg": split(fdp.GetPackage())}
	var vis []any
	for _, v := range visibleOrder(f) {
		vp := protoutil.ProtoFromFileDescriptor(v)
		typesOnly := strings.HasPrefix(v.Path(), "google/protobuf/") && v.Path() != f.Path()
		ds := []any{}
		for _, d := range declsOf(vp, typesOnly) {
			ds = append(ds, []any{split(d.name), d.kind})
		}
		vis = append(vis, map[string]any{"pkg": split(vp.GetPackage()), "decls": ds, "path": v.Path()})
	}
	out["vis"] = vis
	a, err := parser.Parse(f.Path(), strings.NewReader(text), reporter.NewHandler(nil))
	if err != nil {
		out["corr_err"] = err.Error()
		return out
	}
	res, err := parser.ResultFromAST(a, true, reporter.NewHandler(nil))
	if err != nil {
		out["corr_err"] = err.Error()
		return out
	}
	before := refsOf(res.FileDescriptorProto())
	after := refsOf(fdp)
	if len(before) != len(after) {
		out["corr_err"] = fmt.Sprintf("reference count differs: %d before, %d after", len(before), len(after))
		return out
	}
	refs := []any{}
	for i := range before {
		refs = append(refs, map[string]any{"chain": namesList(before[i].chain), "want": before[i].want,
			"before": before[i].text, "after": after[i].text})
	}
	out["refs"] = refs
	return out
}

// ---------------------------------------------------------------- the relink experiment

func allFiles(fs linker.Files) []linker.File {
	var out []linker.File
	seen := map[string]bool{}
	var visit func(f linker.File)
	visit = func(f linker.File) {
		if seen[f.Path()] {
			return
		}
		seen[f.Path()] = true
		imps := f.Imports()
		for i := 0; i < imps.Len(); i++ {
			if d := f.FindImportByPath(imps.Get(i).Path()); d != nil {
				visit(d)
			}
		}
		out = append(out, f)
	}
	for _, f := range fs {
		visit(f)
	}
	return out
}

func errStr(err error) string {
	s := err.Error()
	if len(s) > 400 {
		s = s[:400]
	}
	return s
}

// typesOf builds a resolver of the extension (and message) types the compiled files define, so that custom
// options can be decoded as known fields.
func typesOf(files []linker.File) *protoregistry.Types {
	types := &protoregistry.Types{}
	var regMsgs func(ms protoreflect.MessageDescriptors)
	regExts := func(xs protoreflect.ExtensionDescriptors) {
		for i := 0; i < xs.Len(); i++ {
			_ = types.RegisterExtension(dynamicpb.NewExtensionType(xs.Get(i)))
		}
	}
	regMsgs = func(ms protoreflect.MessageDescriptors) {
		for i := 0; i < ms.Len(); i++ {
			m := ms.Get(i)
			_ = types.RegisterMessage(dynamicpb.NewMessageType(m))
			regExts(m.Extensions())
			regMsgs(m.Messages())
		}
	}
	for _, f := range files {
		regMsgs(f.Messages())
		regExts(f.Extensions())
	}
	return types
}

func redecode(b []byte, types *protoregistry.Types) (*descriptorpb.FileDescriptorProto, error) {
	out := &descriptorpb.FileDescriptorProto{}
	err := proto.UnmarshalOptions{Resolver: types}.Unmarshal(b, out)
	return out, err
}

// in:  files {name: text}, order [names], mode, mode2 (mode of the second compilation; default = mode), corr bool
// out: {err} | {files: [...], object: {...}, bytes: {...}, desc: {...}, corr: [...]}
func relinkCase(in map[string]any) map[string]any {
	files := map[string]string{}
	if m, ok := in["files"].(map[string]any); ok {
		for k, v := range m {
			files[k], _ = v.(string)
		}
	}
	order := vhlib.Strs(in, "order")
	mode := protocompile.SourceInfoMode(vhlib.Num(in, "mode"))
	mode2 := mode
	if _, ok := in["mode2"]; ok {
		mode2 = protocompile.SourceInfoMode(vhlib.Num(in, "mode2"))
	}
	srcRes := protocompile.WithStandardImports(&protocompile.SourceResolver{Accessor: protocompile.SourceAccessorFromMap(files)})
	comp := protocompile.Compiler{Resolver: srcRes, SourceInfoMode: mode}
	first, err := comp.Compile(context.Background(), order...)
	if err != nil {
		return map[string]any{"err": errStr(err)}
	}
	every := allFiles(first)
	orig := map[string]*descriptorpb.FileDescriptorProto{}
	origBytes := map[string][]byte{}
	var names []string
	for _, f := range every {
		p := protoutil.ProtoFromFileDescriptor(f)
		orig[f.Path()] = p
		origBytes[f.Path()] = detMarshal(p)
		names = append(names, f.Path())
	}
	sort.Strings(names)
	out := map[string]any{"files": names}
	nrefs := int64(0)
	for _, f := range first {
		nrefs += int64(len(refsOf(orig[f.Path()])))
	}
	out["nrefs"] = nrefs
	sameMode := mode == mode2
	strip := func(p *descriptorpb.FileDescriptorProto) *descriptorpb.FileDescriptorProto {
		if sameMode {
			return p
		}
		c := proto.Clone(p).(*descriptorpb.FileDescriptorProto)
		c.SourceCodeInfo = nil
		return c
	}

	// ---- variant 1: the proto objects themselves
	{
		res := protocompile.ResolverFunc(func(p string) (protocompile.SearchResult, error) {
			if fd, ok := orig[p]; ok {
				return protocompile.SearchResult{Proto: fd}, nil
			}
			return protocompile.SearchResult{}, protoregistry.NotFound
		})
		c2 := protocompile.Compiler{Resolver: res, SourceInfoMode: mode2}
		second, err := c2.Compile(context.Background(), order...)
		v := map[string]any{}
		if err != nil {
			v["err"] = errStr(err)
		} else {
			diff := []any{}
			for _, f := range allFiles(second) {
				p2 := protoutil.ProtoFromFileDescriptor(f)
				b1 := detMarshal(strip(orig[f.Path()]))
				b2 := detMarshal(strip(p2))
				if string(b1) != string(b2) {
					diff = append(diff, map[string]any{"file": f.Path(), "first": vhlib.Hx(b1), "second": vhlib.Hx(b2)})
				}
			}
			v["diff"] = diff
		}
		// the supplied objects must still be what they were
		mutated := []any{}
		for _, n := range names {
			if string(detMarshal(orig[n])) != string(origBytes[n]) {
				mutated = append(mutated, n)
			}
		}
		v["mutated"] = mutated
		out["object"] = v
	}

	// ---- variant 2: serialised and decoded without any knowledge of the custom options
	{
		decoded := map[string]*descriptorpb.FileDescriptorProto{}
		for n, b := range origBytes {
			fd := &descriptorpb.FileDescriptorProto{}
			if err := proto.Unmarshal(b, fd); err != nil {
				return map[string]any{"err": "cannot decode own output: " + err.Error()}
			}
			decoded[n] = fd
		}
		res := protocompile.ResolverFunc(func(p string) (protocompile.SearchResult, error) {
			if fd, ok := decoded[p]; ok {
				return protocompile.SearchResult{Proto: fd}, nil
			}
			return protocompile.SearchResult{}, protoregistry.NotFound
		})
		c2 := protocompile.Compiler{Resolver: res, SourceInfoMode: mode2}
		second, err := c2.Compile(context.Background(), order...)
		v := map[string]any{}
		if err != nil {
			v["err"] = errStr(err)
		} else {
			types := typesOf(every)
			diff := []any{}
			bytewise := int64(0)
			for _, f := range allFiles(second) {
				p2 := protoutil.ProtoFromFileDescriptor(f)
				b1 := detMarshal(strip(orig[f.Path()]))
				b2 := detMarshal(strip(p2))
				if string(b1) == string(b2) {
					bytewise++
					continue
				}
				// field order of known extensions versus unknown fields legitimately differs:
				// compare after decoding both against the compiled schema
				d1, e1 := redecode(b1, types)
				d2, e2 := redecode(b2, types)
				if e1 != nil || e2 != nil || !proto.Equal(d1, d2) {
					diff = append(diff, map[string]any{"file": f.Path(), "first": vhlib.Hx(b1), "second": vhlib.Hx(b2)})
				}
			}
			v["diff"] = diff
			v["bytewise_equal"] = bytewise
		}
		out["bytes"] = v
	}

	// ---- variant 3: the linked descriptors
	{
		byPath := map[string]linker.File{}
		for _, f := range every {
			byPath[f.Path()] = f
		}
		res := protocompile.ResolverFunc(func(p string) (protocompile.SearchResult, error) {
			if f, ok := byPath[p]; ok {
				return protocompile.SearchResult{Desc: f}, nil
			}
			return protocompile.SearchResult{}, protoregistry.NotFound
		})
		c2 := protocompile.Compiler{Resolver: res, SourceInfoMode: mode2}
		second, err := c2.Compile(context.Background(), order...)
		v := map[string]any{}
		if err != nil {
			v["err"] = errStr(err)
		} else {
			diff := []any{}
			for _, f := range allFiles(second) {
				b1 := origBytes[f.Path()]
				b2 := detMarshal(protoutil.ProtoFromFileDescriptor(f))
				if string(b1) != string(b2) {
					diff = append(diff, map[string]any{"file": f.Path()})
				}
			}
			v["diff"] = diff
		}
		out["desc"] = v
	}

	if vhlib.Bool(in, "corr") {
		var dumps []any
		for _, f := range first {
			if text, ok := files[f.Path()]; ok {
				dumps = append(dumps, corrDump(f, text))
			}
		}
		out["corr"] = dumps
	}
	return out
}
