// Command relink (C10): compiles a program, feeds every output FileDescriptorProto back into a new
// compilation as SearchResult.Proto (as the object itself, as a serialised-and-decoded copy, and as the
// linked descriptor), and reports whether the second compilation succeeds and reproduces the protos.
// It also dumps, per file, the type references before and after linking with the symbols visible from
// the file, for the correspondence with Model/Relink.v.
package main

import (
	"context"
	"fmt"
	"sort"
	"strings"

	"github.com/bufbuild/protocompile"
	"github.com/bufbuild/protocompile/experimental/verifharness/vhlib"
	"github.com/bufbuild/protocompile/internal"
	"github.com/bufbuild/protocompile/internal/editions"
	"github.com/bufbuild/protocompile/linker"
	"github.com/bufbuild/protocompile/parser"
	"github.com/bufbuild/protocompile/protoutil"
	"github.com/bufbuild/protocompile/reporter"
	"google.golang.org/protobuf/proto"
	"google.golang.org/protobuf/reflect/protoreflect"
	"google.golang.org/protobuf/reflect/protoregistry"
	"google.golang.org/protobuf/types/descriptorpb"
	"google.golang.org/protobuf/types/dynamicpb"
)

func main() { vhlib.Main(relinkCase) }

func detMarshal(m proto.Message) []byte {
	b, err := proto.MarshalOptions{Deterministic: true}.Marshal(m)
	if err != nil {
		panic("marshal: " + err.Error())
	}
	return b
}

func split(s string) []string {
	if s == "" {
		return []string{}
	}
	return strings.Split(s, ".")
}

func join(prefix, name string) string {
	if prefix == "" {
		return name
	}
	return prefix + "." + name
}

// ---------------------------------------------------------------- symbols and references of a descriptor proto

type decl struct {
	name string
	kind string // M E S O
}

func declsOf(fdp *descriptorpb.FileDescriptorProto, typesOnly bool) []decl {
	var out []decl
	add := func(n, k string) {
		if typesOnly && k == "O" {
			return
		}
		out = append(out, decl{n, k})
	}
	var doEnum func(scope string, e *descriptorpb.EnumDescriptorProto)
	var doMsg func(scope string, m *descriptorpb.DescriptorProto)
	doEnum = func(scope string, e *descriptorpb.EnumDescriptorProto) {
		add(join(scope, e.GetName()), "E")
		for _, v := range e.Value {
			add(join(scope, v.GetName()), "O")
		}
	}
	doMsg = func(scope string, m *descriptorpb.DescriptorProto) {
		n := join(scope, m.GetName())
		add(n, "M")
		for _, f := range m.Field {
			add(join(n, f.GetName()), "O")
		}
		for _, o := range m.OneofDecl {
			add(join(n, o.GetName()), "O")
		}
		for _, x := range m.Extension {
			add(join(n, x.GetName()), "O")
		}
		for _, e := range m.EnumType {
			doEnum(n, e)
		}
		for _, s := range m.NestedType {
			doMsg(n, s)
		}
	}
	pkg := fdp.GetPackage()
	for _, m := range fdp.MessageType {
		doMsg(pkg, m)
	}
	for _, e := range fdp.EnumType {
		doEnum(pkg, e)
	}
	for _, x := range fdp.Extension {
		add(join(pkg, x.GetName()), "O")
	}
	for _, s := range fdp.Service {
		n := join(pkg, s.GetName())
		add(n, "S")
		for _, m := range s.Method {
			add(join(n, m.GetName()), "O")
		}
	}
	return out
}

type refRec struct {
	chain []string // enclosing message / service full names, innermost first
	want  string   // T (type_name) or M (extendee, method types)
	text  string
}

func refsOf(fdp *descriptorpb.FileDescriptorProto) []refRec {
	var out []refRec
	field := func(chain []string, f *descriptorpb.FieldDescriptorProto) {
		if f.GetExtendee() != "" {
			out = append(out, refRec{chain, "M", f.GetExtendee()})
		}
		if f.GetTypeName() != "" {
			out = append(out, refRec{chain, "T", f.GetTypeName()})
		}
	}
	var doMsg func(scope string, chain []string, m *descriptorpb.DescriptorProto)
	doMsg = func(scope string, chain []string, m *descriptorpb.DescriptorProto) {
		n := join(scope, m.GetName())
		inner := append([]string{n}, chain...)
		for _, f := range m.Field {
			field(inner, f)
		}
		for _, x := range m.Extension {
			field(inner, x)
		}
		for _, s := range m.NestedType {
			doMsg(n, inner, s)
		}
	}
	pkg := fdp.GetPackage()
	for _, m := range fdp.MessageType {
		doMsg(pkg, nil, m)
	}
	for _, x := range fdp.Extension {
		field(nil, x)
	}
	for _, s := range fdp.Service {
		n := join(pkg, s.GetName())
		for _, m := range s.Method {
			out = append(out, refRec{[]string{n}, "M", m.GetInputType()})
			out = append(out, refRec{[]string{n}, "M", m.GetOutputType()})
		}
	}
	return out
}

// visibleOrder mirrors resolveInFile: the file, then each import in order with its public imports.
func visibleOrder(f protoreflect.FileDescriptor) []protoreflect.FileDescriptor {
	var out []protoreflect.FileDescriptor
	seen := map[string]bool{}
	var visit func(f protoreflect.FileDescriptor, publicOnly bool)
	visit = func(f protoreflect.FileDescriptor, publicOnly bool) {
		if seen[f.Path()] {
			return
		}
		seen[f.Path()] = true
		out = append(out, f)
		imps := f.Imports()
		for i := 0; i < imps.Len(); i++ {
			imp := imps.Get(i)
			if publicOnly && !imp.IsPublic {
				continue
			}
			if imp.FileDescriptor != nil {
				visit(imp.FileDescriptor, true)
			}
		}
	}
	visit(f, false)
	return out
}

func namesList(xs []string) []any {
	out := make([]any, len(xs))
	for i, x := range xs {
		out[i] = split(x)
	}
	return out
}

func corrDump(f linker.File, text string) map[string]any {
	fdp := protoutil.ProtoFromFileDescriptor(f)
	out := map[string]any{"name": f.Path(), "pkg": split(fdp.GetPackage())}
	var vis []any
	for _, v := range visibleOrder(f) {
		vp := protoutil.ProtoFromFileDescriptor(v)
		typesOnly := strings.HasPrefix(v.Path(), "google/protobuf/") && v.Path() != f.Path()
		ds := []any{}
		for _, d := range declsOf(vp, typesOnly) {
			ds = append(ds, []any{split(d.name), d.kind})
		}
		vis = append(vis, map[string]any{"pkg": split(vp.GetPackage()), "decls": ds, "path": v.Path()})
	}
	out["vis"] = vis
	a, err := parser.Parse(f.Path(), strings.NewReader(text), reporter.NewHandler(nil))
	if err != nil {
		out["corr_err"] = err.Error()
		return out
	}
	res, err := parser.ResultFromAST(a, true, reporter.NewHandler(nil))
	if err != nil {
		out["corr_err"] = err.Error()
		return out
	}
	before := refsOf(res.FileDescriptorProto())
	after := refsOf(fdp)
	if len(before) != len(after) {
		out["corr_err"] = fmt.Sprintf("reference count differs: %d before, %d after", len(before), len(after))
		return out
	}
	refs := []any{}
	for i := range before {
		refs = append(refs, map[string]any{"chain": namesList(before[i].chain), "want": before[i].want,
			"before": before[i].text, "after": after[i].text})
	}
	out["refs"] = refs
	return out
}

// ---------------------------------------------------------------- the relink experiment

func allFiles(fs linker.Files) []linker.File {
	var out []linker.File
	seen := map[string]bool{}
	var visit func(f linker.File)
	visit = func(f linker.File) {
		if seen[f.Path()] {
			return
		}
		seen[f.Path()] = true
		imps := f.Imports()
		for i := 0; i < imps.Len(); i++ {
			if d := f.FindImportByPath(imps.Get(i).Path()); d != nil {
				visit(d)
			}
		}
		out = append(out, f)
	}
	for _, f := range fs {
		visit(f)
	}
	return out
}

func errStr(err error) string {
	s := err.Error()
	if len(s) > 400 {
		s = s[:400]
	}
	return s
}

// typesOf builds a resolver of the extension (and message) types the compiled files define, so that custom
// options can be decoded as known fields.
func typesOf(files []linker.File) *protoregistry.Types {
	types := &protoregistry.Types{}
	var regMsgs func(ms protoreflect.MessageDescriptors)
	regExts := func(xs protoreflect.ExtensionDescriptors) {
		for i := 0; i < xs.Len(); i++ {
			_ = types.RegisterExtension(dynamicpb.NewExtensionType(xs.Get(i)))
		}
	}
	regMsgs = func(ms protoreflect.MessageDescriptors) {
		for i := 0; i < ms.Len(); i++ {
			m := ms.Get(i)
			_ = types.RegisterMessage(dynamicpb.NewMessageType(m))
			regExts(m.Extensions())
			regMsgs(m.Messages())
		}
	}
	for _, f := range files {
		regMsgs(f.Messages())
		regExts(f.Extensions())
	}
	return types
}

func redecode(b []byte, types *protoregistry.Types) (*descriptorpb.FileDescriptorProto, error) {
	out := &descriptorpb.FileDescriptorProto{}
	err := proto.UnmarshalOptions{Resolver: types}.Unmarshal(b, out)
	return out, err
}

// ---------------------------------------------------------------- diagnostics

// diag collects the warnings (and, when collectErrors is set, the errors) of one compilation, classified.
type diag struct {
	collectErrors bool
	warnings      map[string]int64 // class -> count
	warnByFile    map[string]int64 // "class|file" -> count
	errors        []string
	errByFile     map[string]int64
}

func newDiag(collectErrors bool) *diag {
	return &diag{collectErrors: collectErrors, warnings: map[string]int64{}, warnByFile: map[string]int64{}, errByFile: map[string]int64{}}
}

func classify(msg string) string {
	switch {
	case strings.Contains(msg, "no syntax specified"):
		return "no-syntax"
	case strings.Contains(msg, "not used"):
		return "unused-import"
	case strings.Contains(msg, "JSON name"):
		return "json-field"
	case strings.Contains(msg, "is a synthetic map entry and may not be referenced explicitly"):
		return "map-entry-ref"
	case strings.Contains(msg, "camel-case name"):
		return "json-enum"
	case strings.Contains(msg, "is deprecated as of edition"):
		return "deprecated-feature"
	}
	return "other"
}

func (d *diag) reporter() reporter.Reporter {
	return reporter.NewReporter(
		func(err reporter.ErrorWithPos) error {
			if !d.collectErrors {
				return err
			}
			cl := classify(err.Unwrap().Error())
			d.errors = append(d.errors, errStr(err))
			d.errByFile[cl+"|"+err.GetPosition().Filename]++
			return nil
		},
		func(err reporter.ErrorWithPos) {
			cl := classify(err.Unwrap().Error())
			d.warnings[cl]++
			d.warnByFile[cl+"|"+err.GetPosition().Filename]++
		})
}

func (d *diag) put(v map[string]any) {
	w := map[string]any{}
	for k, n := range d.warnings {
		w[k] = n
	}
	v["warnings"] = w
	if len(d.errors) > 0 {
		es := []any{}
		for i, e := range d.errors {
			if i < 5 {
				es = append(es, e)
			}
		}
		v["errors"] = es
		v["err"] = d.errors[0] // the first reported error rather than the summary error of a collecting reporter
	}
}

// ---------------------------------------------------------------- JSON-name validation facts (Model/JsonNames.v)

// jsonDump reports, per message of a file compiled from source: whether the message is JSON compliant
// (features.json_format resolves to ALLOW), and per field its name, internal.JSONName of the name, the json_name
// of the compiled proto and whether the source has an explicit json_name option.
func jsonDump(f linker.File, text string) []any {
	// the compiler drops the AST after linking; the source is parsed again to read the explicit json_name options
	a, err := parser.Parse(f.Path(), strings.NewReader(text), reporter.NewHandler(nil))
	if err != nil {
		return nil
	}
	res, err := parser.ResultFromAST(a, true, reporter.NewHandler(nil))
	if err != nil {
		return nil
	}
	jf := editions.FeatureSetDescriptor.Fields().ByName("json_format")
	var out []any
	var doMsg func(md protoreflect.MessageDescriptor, mp, parsed *descriptorpb.DescriptorProto)
	doMsg = func(md protoreflect.MessageDescriptor, mp, parsed *descriptorpb.DescriptorProto) {
		if len(parsed.GetField()) != len(mp.GetField()) || len(parsed.GetNestedType()) != len(mp.GetNestedType()) {
			return
		}
		compliant := false
		if v, err := protoutil.ResolveFeature(md, jf); err == nil {
			compliant = descriptorpb.FeatureSet_JsonFormat(v.Enum()) == descriptorpb.FeatureSet_ALLOW
		}
		fields := []any{}
		for i, fd := range mp.GetField() {
			explicit := false
			if opts := res.FieldNode(parsed.GetField()[i]).GetOptions(); opts != nil {
				for _, o := range opts.Options {
					if len(o.Name.Parts) == 1 && !o.Name.Parts[0].IsExtension() && string(o.Name.Parts[0].Name.AsIdentifier()) == "json_name" {
						explicit = true
					}
				}
			}
			fields = append(fields, []any{fd.GetName(), internal.JSONName(fd.GetName()), fd.GetJsonName(), explicit})
		}
		if len(fields) > 1 {
			out = append(out, map[string]any{"msg": string(md.FullName()), "compliant": compliant, "fields": fields})
		}
		for i, n := range mp.GetNestedType() {
			doMsg(md.Messages().Get(i), n, parsed.GetNestedType()[i])
		}
	}
	fdp := protoutil.ProtoFromFileDescriptor(f)
	pfd := res.FileDescriptorProto()
	if len(pfd.GetMessageType()) != len(fdp.GetMessageType()) {
		return nil
	}
	for i, m := range fdp.GetMessageType() {
		doMsg(f.Messages().Get(i), m, pfd.GetMessageType()[i])
	}
	return out
}

// mapDump reports, per message of a compiled file that has a map field: per field its name, internal.MapEntry of the
// name, whether its label is repeated, and the simple name of the map-entry message nested in the same message that
// its type_name refers to ("" for every other field). Facts of Model/MapRelink.v.
func mapDump(fdp *descriptorpb.FileDescriptorProto) []any {
	var out []any
	var doMsg func(scope string, m *descriptorpb.DescriptorProto)
	doMsg = func(scope string, m *descriptorpb.DescriptorProto) {
		n := join(scope, m.GetName())
		entries := map[string]string{}
		for _, nm := range m.NestedType {
			if nm.GetOptions().GetMapEntry() {
				entries["."+join(n, nm.GetName())] = nm.GetName()
			}
		}
		fields := []any{}
		hasMap := false
		for _, fd := range m.Field {
			ref := entries[fd.GetTypeName()]
			if ref != "" {
				hasMap = true
			}
			fields = append(fields, []any{fd.GetName(), internal.MapEntry(fd.GetName()),
				fd.GetLabel() == descriptorpb.FieldDescriptorProto_LABEL_REPEATED, ref})
		}
		if hasMap {
			out = append(out, map[string]any{"msg": n, "fields": fields})
		}
		for _, nm := range m.NestedType {
			doMsg(n, nm)
		}
	}
	for _, m := range fdp.MessageType {
		doMsg(fdp.GetPackage(), m)
	}
	return out
}

// in:  files {name: text}, order [names], mode, mode2 (mode of the second compilation; default = mode), corr bool
// out: {err} | {files: [...], object: {...}, bytes: {...}, desc: {...}, corr: [...]}
func relinkCase(in map[string]any) map[string]any {
	files := map[string]string{}
	if m, ok := in["files"].(map[string]any); ok {
		for k, v := range m {
			files[k], _ = v.(string)
		}
	}
	order := vhlib.Strs(in, "order")
	mode := protocompile.SourceInfoMode(vhlib.Num(in, "mode"))
	mode2 := mode
	if _, ok := in["mode2"]; ok {
		mode2 = protocompile.SourceInfoMode(vhlib.Num(in, "mode2"))
	}
	srcRes := protocompile.WithStandardImports(&protocompile.SourceResolver{Accessor: protocompile.SourceAccessorFromMap(files)})
	d1 := newDiag(false)
	comp := protocompile.Compiler{Resolver: srcRes, SourceInfoMode: mode, Reporter: d1.reporter()}
	first, err := comp.Compile(context.Background(), order...)
	if err != nil {
		return map[string]any{"err": errStr(err)}
	}
	every := allFiles(first)
	orig := map[string]*descriptorpb.FileDescriptorProto{}
	origBytes := map[string][]byte{}
	var names []string
	for _, f := range every {
		p := protoutil.ProtoFromFileDescriptor(f)
		orig[f.Path()] = p
		origBytes[f.Path()] = detMarshal(p)
		names = append(names, f.Path())
	}
	sort.Strings(names)
	out := map[string]any{"files": names}
	d1.put(out)
	nrefs := int64(0)
	for _, f := range first {
		nrefs += int64(len(refsOf(orig[f.Path()])))
	}
	out["nrefs"] = nrefs
	sameMode := mode == mode2
	strip := func(p *descriptorpb.FileDescriptorProto) *descriptorpb.FileDescriptorProto {
		if sameMode {
			return p
		}
		c := proto.Clone(p).(*descriptorpb.FileDescriptorProto)
		c.SourceCodeInfo = nil
		return c
	}

	// ---- variant 1: the proto objects themselves
	{
		res := protocompile.ResolverFunc(func(p string) (protocompile.SearchResult, error) {
			if fd, ok := orig[p]; ok {
				return protocompile.SearchResult{Proto: fd}, nil
			}
			return protocompile.SearchResult{}, protoregistry.NotFound
		})
		d2 := newDiag(true)
		c2 := protocompile.Compiler{Resolver: res, SourceInfoMode: mode2, Reporter: d2.reporter()}
		second, err := c2.Compile(context.Background(), order...)
		v := map[string]any{}
		if err != nil {
			v["err"] = errStr(err)
		} else {
			diff := []any{}
			for _, f := range allFiles(second) {
				p2 := protoutil.ProtoFromFileDescriptor(f)
				b1 := detMarshal(strip(orig[f.Path()]))
				b2 := detMarshal(strip(p2))
				if string(b1) != string(b2) {
					diff = append(diff, map[string]any{"file": f.Path(), "first": vhlib.Hx(b1), "second": vhlib.Hx(b2)})
				}
			}
			v["diff"] = diff
		}
		d2.put(v)
		if vhlib.Bool(in, "jcorr") {
			// JSON-name validation: what the source compilation and the re-link reported per file
			var dumps []any
			for _, f := range first {
				text, ok := files[f.Path()]
				if !ok {
					continue
				}
				ms := jsonDump(f, text)
				if len(ms) == 0 {
					continue
				}
				dumps = append(dumps, map[string]any{"name": f.Path(), "msgs": ms,
					"src_warn": d1.warnByFile["json-field|"+f.Path()],
					"rl_warn":  d2.warnByFile["json-field|"+f.Path()],
					"rl_err":   d2.errByFile["json-field|"+f.Path()]})
			}
			out["jcorr"] = dumps
			// map-entry references: the map fields of every message and the errors of the re-link about them
			var mdumps []any
			for _, f := range first {
				ms := mapDump(orig[f.Path()])
				if len(ms) == 0 {
					continue
				}
				mdumps = append(mdumps, map[string]any{"name": f.Path(), "msgs": ms, "rl_err": d2.errByFile["map-entry-ref|"+f.Path()],
					// errors reported in all files: after an error in one file the files that depend on it are not linked
					"rl_all_err": int64(len(d2.errors))})
			}
			out["mcorr"] = mdumps
		}
		// the supplied objects must still be what they were
		mutated := []any{}
		for _, n := range names {
			if string(detMarshal(orig[n])) != string(origBytes[n]) {
				mutated = append(mutated, n)
			}
		}
		v["mutated"] = mutated
		out["object"] = v
	}

	// ---- variant 2: serialised and decoded without any knowledge of the custom options
	{
		decoded := map[string]*descriptorpb.FileDescriptorProto{}
		for n, b := range origBytes {
			fd := &descriptorpb.FileDescriptorProto{}
			if err := proto.Unmarshal(b, fd); err != nil {
				return map[string]any{"err": "cannot decode own output: " + err.Error()}
			}
			decoded[n] = fd
		}
		res := protocompile.ResolverFunc(func(p string) (protocompile.SearchResult, error) {
			if fd, ok := decoded[p]; ok {
				return protocompile.SearchResult{Proto: fd}, nil
			}
			return protocompile.SearchResult{}, protoregistry.NotFound
		})
		d2 := newDiag(true)
		c2 := protocompile.Compiler{Resolver: res, SourceInfoMode: mode2, Reporter: d2.reporter()}
		second, err := c2.Compile(context.Background(), order...)
		v := map[string]any{}
		if err != nil {
			v["err"] = errStr(err)
		} else {
			types := typesOf(every)
			diff := []any{}
			bytewise := int64(0)
			for _, f := range allFiles(second) {
				p2 := protoutil.ProtoFromFileDescriptor(f)
				b1 := detMarshal(strip(orig[f.Path()]))
				b2 := detMarshal(strip(p2))
				if string(b1) == string(b2) {
					bytewise++
					continue
				}
				// field order of known extensions versus unknown fields legitimately differs:
				// compare after decoding both against the compiled schema
				d1, e1 := redecode(b1, types)
				d2, e2 := redecode(b2, types)
				if e1 != nil || e2 != nil || !proto.Equal(d1, d2) {
					diff = append(diff, map[string]any{"file": f.Path(), "first": vhlib.Hx(b1), "second": vhlib.Hx(b2)})
				}
			}
			v["diff"] = diff
			v["bytewise_equal"] = bytewise
		}
		d2.put(v)
		out["bytes"] = v
	}

	// ---- variant 3: the linked descriptors
	{
		byPath := map[string]linker.File{}
		for _, f := range every {
			byPath[f.Path()] = f
		}
		res := protocompile.ResolverFunc(func(p string) (protocompile.SearchResult, error) {
			if f, ok := byPath[p]; ok {
				return protocompile.SearchResult{Desc: f}, nil
			}
			return protocompile.SearchResult{}, protoregistry.NotFound
		})
		d2 := newDiag(true)
		c2 := protocompile.Compiler{Resolver: res, SourceInfoMode: mode2, Reporter: d2.reporter()}
		second, err := c2.Compile(context.Background(), order...)
		v := map[string]any{}
		if err != nil {
			v["err"] = errStr(err)
		} else {
			diff := []any{}
			for _, f := range allFiles(second) {
				b1 := origBytes[f.Path()]
				b2 := detMarshal(protoutil.ProtoFromFileDescriptor(f))
				if string(b1) != string(b2) {
					diff = append(diff, map[string]any{"file": f.Path()})
				}
			}
			v["diff"] = diff
		}
		d2.put(v)
		out["desc"] = v
	}

	// ---- variant 4: mixed input forms: the files named in "asproto" as output protos (serialised and decoded
	//      copies), every other file from its source
	if ap, ok := in["asproto"]; ok {
		want := map[string]bool{}
		if l, ok := ap.([]any); ok {
			for _, x := range l {
				if sname, ok := x.(string); ok {
					want[sname] = true
				}
			}
		}
		decoded := map[string]*descriptorpb.FileDescriptorProto{}
		for n, b := range origBytes {
			if !want[n] {
				continue
			}
			fd := &descriptorpb.FileDescriptorProto{}
			if err := proto.Unmarshal(b, fd); err != nil {
				return map[string]any{"err": "cannot decode own output: " + err.Error()}
			}
			decoded[n] = fd
		}
		res := protocompile.CompositeResolver{protocompile.ResolverFunc(func(p string) (protocompile.SearchResult, error) {
			if fd, ok := decoded[p]; ok {
				return protocompile.SearchResult{Proto: fd}, nil
			}
			return protocompile.SearchResult{}, protoregistry.NotFound
		}), srcRes}
		d2 := newDiag(true)
		c2 := protocompile.Compiler{Resolver: res, SourceInfoMode: mode2, Reporter: d2.reporter()}
		second, err := c2.Compile(context.Background(), order...)
		v := map[string]any{}
		if err != nil {
			v["err"] = errStr(err)
		} else {
			types := typesOf(every)
			diff := []any{}
			for _, f := range allFiles(second) {
				if orig[f.Path()] == nil {
					diff = append(diff, map[string]any{"file": f.Path(), "first": "", "second": "file absent from the first compilation"})
					continue
				}
				// source info is compared when both compilations use the same mode
				stripSI := func(p *descriptorpb.FileDescriptorProto) *descriptorpb.FileDescriptorProto {
					if sameMode {
						return p
					}
					c := proto.Clone(p).(*descriptorpb.FileDescriptorProto)
					c.SourceCodeInfo = nil
					return c
				}
				b1 := detMarshal(stripSI(orig[f.Path()]))
				b2 := detMarshal(stripSI(protoutil.ProtoFromFileDescriptor(f)))
				if string(b1) == string(b2) {
					continue
				}
				d1x, e1 := redecode(b1, types)
				d2x, e2 := redecode(b2, types)
				if e1 != nil || e2 != nil || !proto.Equal(d1x, d2x) {
					diff = append(diff, map[string]any{"file": f.Path(), "first": vhlib.Hx(b1), "second": vhlib.Hx(b2)})
				}
			}
			v["diff"] = diff
		}
		d2.put(v)
		out["mixed"] = v
	}

	if vhlib.Bool(in, "corr") {
		var dumps []any
		for _, f := range first {
			if text, ok := files[f.Path()]; ok {
				dumps = append(dumps, corrDump(f, text))
			}
		}
		out["corr"] = dumps
	}
	return out
}
