// Harness for the experimental AST printer (properties C30, C31).
//
// One case = one source text. Input fields:
//
//	s      hex of the source text
//	path   file name (default t.proto)
//	want   list of observations to make: "rt" (round trip + per-declaration print), "trivia"
//	       (token tree and trivia index through the verif hook), "fmt" (format with every preset,
//	       once and twice), "compile" (compile the original and every formatted text with the
//	       stable compiler and compare descriptors without source code info), "bc" (with "fmt": the
//	       block comments of every formatted text with the indentation of the line they start on)
//	files  map path -> hex text of further files the source may import
//	dirs   import directories on disk (for the repository's own testdata)
//
// All texts in the answer are hex strings.
package main

import (
	"context"
	"fmt"
	"os"
	"path/filepath"
	"slices"
	"sort"
	"strings"

	"github.com/bufbuild/protocompile"
	"github.com/bufbuild/protocompile/experimental/ast"
	"github.com/bufbuild/protocompile/experimental/ast/printer"
	"github.com/bufbuild/protocompile/experimental/parser"
	"github.com/bufbuild/protocompile/experimental/report"
	"github.com/bufbuild/protocompile/experimental/seq"
	"github.com/bufbuild/protocompile/experimental/source"
	"github.com/bufbuild/protocompile/experimental/verifharness/vhlib"
	"google.golang.org/protobuf/encoding/prototext"
	"google.golang.org/protobuf/encoding/protowire"
	"google.golang.org/protobuf/proto"
	"google.golang.org/protobuf/reflect/protoreflect"
	"google.golang.org/protobuf/reflect/protodesc"
	"google.golang.org/protobuf/types/descriptorpb"
)

func main() { vhlib.Main(printerCase) }

type preset struct {
	name string
	opts printer.Options
}

// every preset the package offers
func presets() []preset {
	return []preset{
		{"default", printer.Options{Format: true, Formatting: printer.Default()}},
		{"legacy", printer.Options{Format: true, Formatting: printer.Legacy()}},
	}
}

// parse runs the experimental parser; nerr counts diagnostics of level error or worse.
func parse(path, text string) (file *ast.File, nerr int, first string) {
	errs := &report.Report{}
	file, _ = parser.Parse(path, source.NewFile(path, text), errs)
	for _, d := range errs.Diagnostics {
		if d.Level() <= report.Error {
			if nerr == 0 {
				first = d.Message()
			}
			nerr++
		}
	}
	return file, nerr, first
}

func treeJSON(ts []printer.VerifTok) []any {
	out := make([]any, 0, len(ts))
	for _, t := range ts {
		m := map[string]any{"id": t.ID, "c": t.Class, "t": vhlib.Hx([]byte(t.Text))}
		if t.Class >= 9 {
			m["close"] = t.Close
			m["ct"] = vhlib.Hx([]byte(t.CloseText))
			m["ch"] = treeJSON(t.Children)
		}
		out = append(out, m)
	}
	return out
}

// flatToks lists the leaves of the token tree of a text in stream order: [class, hex text, depth,
// role] with role 0 leaf, 1 open token of a fused pair, 2 close token.
func flatToks(path, text string) []any {
	file, _, _ := parse(path, text)
	tree, _, _ := printer.VerifTriviaDump(file.Stream())
	var out []any
	var walk func(ts []printer.VerifTok, depth int)
	walk = func(ts []printer.VerifTok, depth int) {
		for _, t := range ts {
			if t.Class >= 9 {
				out = append(out, []any{t.Class, vhlib.Hx([]byte(t.Text)), depth, 1})
				walk(t.Children, depth+1)
				out = append(out, []any{t.Class, vhlib.Hx([]byte(t.CloseText)), depth, 2})
			} else {
				out = append(out, []any{t.Class, vhlib.Hx([]byte(t.Text)), depth, 0})
			}
		}
	}
	walk(tree, 0)
	return out
}

// leafTexts lists, in stream order, the texts of the leaves of the token tree of a text (real
// lexer): non-skippable tokens, line comments, block comments.  A block comment is given relative to
// the line it starts on: the white space that line begins with is removed from the front of every
// further line of the comment that begins with it too (a formatted comment that only moved to
// another indentation depth together with its line has the same relative text).
func leafTexts(path, text string) (solid, lineC, blockC []string) {
	file, _, _ := parse(path, text)
	tree, _, _ := printer.VerifTriviaDump(file.Stream())
	off := 0
	var walk func(ts []printer.VerifTok)
	walk = func(ts []printer.VerifTok) {
		for _, t := range ts {
			start := off
			off += len(t.Text)
			switch {
			case t.Class >= 9:
				solid = append(solid, t.Text)
				walk(t.Children)
				solid = append(solid, t.CloseText)
				off += len(t.CloseText)
			case t.Class == 2:
				lineC = append(lineC, t.Text)
			case t.Class == 3:
				rel := t.Text
				if start <= len(text) && strings.HasPrefix(text[start:], t.Text) {
					line := text[strings.LastIndex(text[:start], "\n")+1 : start]
					lead := line[:len(line)-len(strings.TrimLeft(line, " \t"))]
					if lead != "" {
						ls := strings.Split(t.Text, "\n")
						for i := 1; i < len(ls); i++ {
							ls[i] = strings.TrimPrefix(ls[i], lead)
						}
						rel = strings.Join(ls, "\n")
					}
				}
				blockC = append(blockC, rel)
			case t.Class > 4:
				solid = append(solid, t.Text)
			}
		}
	}
	walk(tree)
	return solid, lineC, blockC
}

// blockComments lists the block comments of a text in stream order: [hex of the token text, hex of
// the white space that the line the comment starts on begins with, number of bracket pairs around
// the comment].
func blockComments(text string, tree []printer.VerifTok) []any {
	out := []any{}
	off := 0
	var walk func(ts []printer.VerifTok, depth int)
	walk = func(ts []printer.VerifTok, depth int) {
		for _, t := range ts {
			start := off
			off += len(t.Text)
			if t.Class >= 9 {
				walk(t.Children, depth+1)
				off += len(t.CloseText)
			}
			if t.Class == 3 && start <= len(text) && strings.HasPrefix(text[start:], t.Text) {
				line := text[strings.LastIndex(text[:start], "\n")+1 : start]
				lead := line[:len(line)-len(strings.TrimLeft(line, " \t"))]
				out = append(out, []any{vhlib.Hx([]byte(t.Text)), vhlib.Hx([]byte(lead)), depth})
			}
		}
	}
	walk(tree, 0)
	return out
}

// idemDiff says WHAT a second formatting pass changed (first match): "tokens" the sequence of
// non-skippable tokens, "line-comment" the sequence of `//` comment texts, "block-comment-text" the
// multiset of block comment texts (byte for byte, interior white space included, relative to the
// indentation of the line the comment starts on: some comment is printed differently by the second
// pass), "comment-order" the same block comments in another order, "layout" only the white space
// between tokens and comments.  With "block-comment-text" the first comment of each pass that the
// other pass does not have is returned as well.
func idemDiff(path, f1, f2 string) map[string]any {
	s1, l1, b1 := leafTexts(path, f1)
	s2, l2, b2 := leafTexts(path, f2)
	kind := "layout"
	out := map[string]any{}
	switch {
	case !slices.Equal(s1, s2):
		kind = "tokens"
	case !slices.Equal(l1, l2):
		kind = "line-comment"
	case !slices.Equal(b1, b2):
		kind = "comment-order"
		c1 := slices.Clone(b1)
		c2 := slices.Clone(b2)
		sort.Strings(c1)
		sort.Strings(c2)
		if !slices.Equal(c1, c2) {
			kind = "block-comment-text"
			only := func(xs, ys []string) string {
				cnt := map[string]int{}
				for _, y := range ys {
					cnt[y]++
				}
				for _, x := range xs {
					if cnt[x] == 0 {
						return x
					}
					cnt[x]--
				}
				return ""
			}
			out["first"] = vhlib.Hx([]byte(only(b1, b2)))
			out["second"] = vhlib.Hx([]byte(only(b2, b1)))
		}
	}
	out["kind"] = kind
	return out
}

func ints(xs []int) []any {
	out := make([]any, len(xs))
	for i, x := range xs {
		out[i] = x
	}
	return out
}

type compiled struct {
	fd  *descriptorpb.FileDescriptorProto
	err string
}

func compileOne(path, text string, files map[string]string, dirs []string) compiled {
	acc := func(p string) (r interface {
		Read([]byte) (int, error)
		Close() error
	}, err error) {
		return nil, os.ErrNotExist
	}
	_ = acc
	m := map[string]string{path: text}
	for k, v := range files {
		if k != path {
			m[k] = v
		}
	}
	mapAcc := protocompile.SourceAccessorFromMap(m)
	res := protocompile.WithStandardImports(protocompile.CompositeResolver{
		&protocompile.SourceResolver{Accessor: mapAcc},
		&protocompile.SourceResolver{ImportPaths: dirs},
	})
	if len(dirs) == 0 {
		res = protocompile.WithStandardImports(&protocompile.SourceResolver{Accessor: mapAcc})
	}
	comp := protocompile.Compiler{Resolver: res, SourceInfoMode: protocompile.SourceInfoNone}
	fs, err := comp.Compile(context.Background(), path)
	if err != nil {
		e := err.Error()
		if len(e) > 300 {
			e = e[:300]
		}
		return compiled{err: e}
	}
	fd0 := protodesc.ToFileDescriptorProto(fs[0])
	fd0.SourceCodeInfo = nil
	// Through bytes into a plain descriptorpb message: option messages of two compilations refer to
	// different descriptor objects (proto.Equal would call them different), and custom options
	// become unknown fields, compared bytewise.
	fd := &descriptorpb.FileDescriptorProto{}
	if err := proto.Unmarshal(detBytes(fd0), fd); err != nil {
		return compiled{err: "re-unmarshal: " + err.Error()}
	}
	return compiled{fd: fd}
}

func detBytes(m proto.Message) []byte {
	b, err := proto.MarshalOptions{Deterministic: true}.Marshal(m)
	if err != nil {
		panic(err)
	}
	return b
}

// onlyDependencyPermutation reports whether b differs from a ONLY by a permutation of `dependency`
// with public_dependency / weak_dependency re-mapped consistently (the same imported files are
// public / weak).
func onlyDependencyPermutation(a, b *descriptorpb.FileDescriptorProto) bool {
	if len(a.Dependency) != len(b.Dependency) {
		return false
	}
	sa := slices.Clone(a.Dependency)
	sb := slices.Clone(b.Dependency)
	sort.Strings(sa)
	sort.Strings(sb)
	if !slices.Equal(sa, sb) {
		return false
	}
	names := func(fd *descriptorpb.FileDescriptorProto, idx []int32) ([]string, bool) {
		out := make([]string, 0, len(idx))
		for _, i := range idx {
			if int(i) < 0 || int(i) >= len(fd.Dependency) {
				return nil, false
			}
			out = append(out, fd.Dependency[i])
		}
		sort.Strings(out)
		return out, true
	}
	pa, ok1 := names(a, a.PublicDependency)
	pb, ok2 := names(b, b.PublicDependency)
	wa, ok3 := names(a, a.WeakDependency)
	wb, ok4 := names(b, b.WeakDependency)
	if !(ok1 && ok2 && ok3 && ok4) || !slices.Equal(pa, pb) || !slices.Equal(wa, wb) {
		return false
	}
	c := proto.Clone(b).(*descriptorpb.FileDescriptorProto)
	c.Dependency = a.Dependency
	c.PublicDependency = a.PublicDependency
	c.WeakDependency = a.WeakDependency
	return proto.Equal(a, c)
}

func clip(s string) string {
	if len(s) > 4000 {
		return s[:4000]
	}
	return s
}

// normalise returns a copy with `dependency` sorted (public/weak re-mapped) and the unknown fields of
// every message (custom options are kept as unknown fields by the stable compiler) stably sorted
// by field number.
func normalise(fd *descriptorpb.FileDescriptorProto) *descriptorpb.FileDescriptorProto {
	c := proto.Clone(fd).(*descriptorpb.FileDescriptorProto)
	old := slices.Clone(c.Dependency)
	sort.Strings(c.Dependency)
	remap := func(idx []int32) []int32 {
		var out []int32
		for _, i := range idx {
			if int(i) >= 0 && int(i) < len(old) {
				out = append(out, int32(slices.Index(c.Dependency, old[i])))
			}
		}
		slices.Sort(out)
		return out
	}
	c.PublicDependency = remap(c.PublicDependency)
	c.WeakDependency = remap(c.WeakDependency)
	sortUnknown(c.ProtoReflect())
	return c
}

func sortUnknown(m protoreflect.Message) {
	if u := m.GetUnknown(); len(u) > 0 {
		type rec struct {
			num protowire.Number
			b   []byte
		}
		var recs []rec
		for len(u) > 0 {
			num, _, n := protowire.ConsumeField(u)
			if n < 0 {
				recs = nil
				break
			}
			recs = append(recs, rec{num, u[:n]})
			u = u[n:]
		}
		if recs != nil {
			sort.SliceStable(recs, func(i, j int) bool { return recs[i].num < recs[j].num })
			var out []byte
			for _, r := range recs {
				out = append(out, r.b...)
			}
			m.SetUnknown(out)
		}
	}
	m.Range(func(fd protoreflect.FieldDescriptor, v protoreflect.Value) bool {
		switch {
		case fd.IsList() && fd.Message() != nil:
			for i := range v.List().Len() {
				sortUnknown(v.List().Get(i).Message())
			}
		case fd.IsMap():
		case fd.Message() != nil:
			sortUnknown(v.Message())
		}
		return true
	})
}

// firstDiff names the first top-level field of FileDescriptorProto in which a and b differ.
func firstDiff(a, b *descriptorpb.FileDescriptorProto) string {
	ra, rb := a.ProtoReflect(), b.ProtoReflect()
	fds := ra.Descriptor().Fields()
	for i := range fds.Len() {
		f := fds.Get(i)
		x := ra.New()
		y := ra.New()
		if ra.Has(f) {
			x.Set(f, ra.Get(f))
		}
		if rb.Has(f) {
			y.Set(f, rb.Get(f))
		}
		if !proto.Equal(x.Interface(), y.Interface()) {
			return string(f.Name())
		}
	}
	return ""
}

func printerCase(in map[string]any) map[string]any {
	text := string(vhlib.Unhex(vhlib.Str(in, "s")))
	path := vhlib.Str(in, "path")
	if path == "" {
		path = "t.proto"
	}
	want := vhlib.Strs(in, "want")
	has := func(w string) bool { return slices.Contains(want, w) }
	out := map[string]any{}

	file, nerr, first := parse(path, text)
	out["nerr"] = nerr
	if nerr > 0 {
		out["err1"] = first
	}
	if vhlib.Bool(in, "diags") {
		errs := &report.Report{}
		parser.Parse(path, source.NewFile(path, text), errs)
		var ds []any
		for _, d := range errs.Diagnostics {
			ds = append(ds, []any{int(d.Level()), d.Message()})
		}
		out["diags"] = ds
	}

	if has("rt") {
		// top-level tokens that no declaration of the AST covers (the parser skipped them)
		uncovered := 0
		cur := file.Stream().Cursor()
		for tok := cur.Next(); !tok.IsZero(); tok = cur.Next() {
			sp := tok.Span()
			covered := false
			for decl := range seq.Values(file.Decls()) {
				ds := decl.Span()
				if !ds.IsZero() && ds.Start <= sp.Start && sp.End <= ds.End {
					covered = true
					break
				}
			}
			if !covered {
				uncovered++
			}
		}
		out["uncovered"] = uncovered
		whole, err := printer.PrintFile(printer.Options{}, file)
		if err != nil {
			out["rt_err"] = err.Error()
		}
		out["rt"] = vhlib.Hx([]byte(whole))
		var parts []any
		for decl := range seq.Values(file.Decls()) {
			parts = append(parts, vhlib.Hx([]byte(printer.Print(printer.Options{}, decl))))
		}
		out["decls"] = parts
		if whole != text {
			out["src_toks"] = flatToks(path, text)
			out["rt_toks"] = flatToks(path, whole)
		}
	}

	if has("trivia") {
		tree, att, det := printer.VerifTriviaDump(file.Stream())
		out["tree"] = treeJSON(tree)
		sort.Slice(att, func(i, j int) bool { return att[i].ID < att[j].ID })
		sort.Slice(det, func(i, j int) bool { return det[i].ID < det[j].ID })
		var ja, jd []any
		for _, a := range att {
			ja = append(ja, map[string]any{"id": a.ID, "l": ints(a.Leading), "t": ints(a.Trailing)})
		}
		for _, d := range det {
			var sl []any
			for _, s := range d.Slots {
				sl = append(sl, ints(s))
			}
			bb := make([]any, len(d.BlankBefore))
			for i, b := range d.BlankBefore {
				bb[i] = b
			}
			jd = append(jd, map[string]any{"id": d.ID, "slots": sl, "bb": bb, "bbc": d.BlankBeforeClose})
		}
		out["att"] = ja
		out["det"] = jd
	}

	if has("fmt") || has("compile") {
		files := map[string]string{}
		if m, ok := in["files"].(map[string]any); ok {
			for k, v := range m {
				s, _ := v.(string)
				files[k] = string(vhlib.Unhex(s))
			}
		}
		dirs := vhlib.Strs(in, "dirs")
		for i, d := range dirs {
			if !filepath.IsAbs(d) {
				dirs[i] = filepath.Join(os.Getenv("VERIF_REPO_DIR"), d)
			}
		}
		var orig compiled
		if has("compile") {
			orig = compileOne(path, text, files, dirs)
			if orig.err != "" {
				out["compile_err"] = orig.err
			}
		}
		// what format mode sorts the top-level declarations by, and where they are
		var dinfo []any
		for decl := range seq.Values(file.Decls()) {
			rank, impOpt, name := printer.VerifDeclSort(decl)
			sp := decl.Span()
			dinfo = append(dinfo, map[string]any{
				"rank": rank, "sub": impOpt, "name": vhlib.Hx([]byte(name)),
				"empty": decl.Kind() == ast.DeclKindEmpty, "start": sp.Start, "end": sp.End,
			})
		}
		out["decl_info"] = dinfo
		if _, ok := out["tree"]; !ok {
			tree, _, _ := printer.VerifTriviaDump(file.Stream())
			out["tree"] = treeJSON(tree)
		}
		res := map[string]any{}
		for _, ps := range presets() {
			r := map[string]any{}
			f1, err := printer.PrintFile(ps.opts, file)
			if err != nil {
				r["err"] = err.Error()
			}
			r["f1"] = vhlib.Hx([]byte(f1))
			file2, nerr2, first2 := parse(path, f1)
			tree1, _, _ := printer.VerifTriviaDump(file2.Stream())
			r["tree1"] = treeJSON(tree1)
			r["nerr2"] = nerr2
			if nerr2 > 0 {
				r["err2"] = first2
			}
			f2, err := printer.PrintFile(ps.opts, file2)
			if err != nil {
				r["err_2"] = err.Error()
			}
			r["f2"] = vhlib.Hx([]byte(f2))
			if has("bc") {
				r["bcs"] = blockComments(f1, tree1)
			}
			if f2 != f1 {
				r["idem"] = idemDiff(path, f1, f2)
			}
			if has("compile") && orig.err == "" {
				c := compileOne(path, f1, files, dirs)
				switch {
				case c.err != "":
					r["cmp"] = "formatted-does-not-compile"
					r["cmp_err"] = c.err
				case proto.Equal(orig.fd, c.fd):
					r["cmp"] = "equal"
				case onlyDependencyPermutation(orig.fd, c.fd):
					r["cmp"] = "dependency-permutation"
				default:
					r["cmp"] = "different"
					r["cmp_field"] = firstDiff(orig.fd, c.fd)
					// what remains once the permutation of `dependency` and the order of the
					// uninterpreted/unknown option fields are normalised
					a2 := normalise(orig.fd)
					b2 := normalise(c.fd)
					switch {
					case proto.Equal(a2, b2):
						r["cmp_norm"] = "equal-modulo-dependency-and-option-field-order"
					default:
						r["cmp_norm"] = "different"
						r["cmp_field"] = firstDiff(a2, b2)
						r["cmp_a"] = clip(prototext.MarshalOptions{Multiline: false}.Format(a2))
						r["cmp_b"] = clip(prototext.MarshalOptions{Multiline: false}.Format(b2))
					}
				}
			}
			res[ps.name] = r
		}
		out["fmt"] = res
	}
	return out
}

var _ = fmt.Sprint
var _ = strings.Contains
