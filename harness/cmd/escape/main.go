package main

import (
	"context"
	"fmt"
	"strings"

	"github.com/bufbuild/protocompile"
	"github.com/bufbuild/protocompile/experimental/verifharness/vhlib"
	"github.com/bufbuild/protocompile/internal"
	"github.com/bufbuild/protocompile/linker"
	"google.golang.org/protobuf/proto"
	"google.golang.org/protobuf/reflect/protodesc"
	"google.golang.org/protobuf/reflect/protoreflect"
	"google.golang.org/protobuf/types/descriptorpb"
)

func main() { vhlib.Main(escapeCase) }

// modes:
//
//	bytes: b -> esc = EscapeBytes(b), unesc = unescape(esc)
//	raw:   s -> unesc = unescape(s)
//	rt:    s -> the Go runtime's reading of default_value s on a bytes field
//	e2e:   bs -> compile a file whose bytes fields have these defaults; Default() in both runtimes
func escapeCase(in map[string]any) map[string]any {
	switch vhlib.Str(in, "mode") {
	case "bytes":
		b := vhlib.Unhex(vhlib.Str(in, "b"))
		esc := internal.EscapeBytes(b)
		return map[string]any{"esc": vhlib.Hx([]byte(esc)), "unesc": vhlib.Hx([]byte(linker.VerifUnescape(esc)))}
	case "raw":
		s := vhlib.Unhex(vhlib.Str(in, "s"))
		return map[string]any{"unesc": vhlib.Hx([]byte(linker.VerifUnescape(string(s))))}
	case "rt":
		s := vhlib.Unhex(vhlib.Str(in, "s"))
		fd := &descriptorpb.FileDescriptorProto{
			Name:   proto.String("rt.proto"),
			Syntax: proto.String("proto2"),
			MessageType: []*descriptorpb.DescriptorProto{{
				Name: proto.String("M"),
				Field: []*descriptorpb.FieldDescriptorProto{{
					Name:         proto.String("f"),
					Number:       proto.Int32(1),
					Label:        descriptorpb.FieldDescriptorProto_LABEL_OPTIONAL.Enum(),
					Type:         descriptorpb.FieldDescriptorProto_TYPE_BYTES.Enum(),
					DefaultValue: proto.String(string(s)),
					JsonName:     proto.String("f"),
				}},
			}},
		}
		f, err := protodesc.NewFile(fd, nil)
		if err != nil {
			return map[string]any{"ok": false}
		}
		d := f.Messages().Get(0).Fields().Get(0).Default().Bytes()
		return map[string]any{"ok": true, "out": vhlib.Hx(d)}
	case "e2e":
		bs := vhlib.Strs(in, "bs")
		var sb strings.Builder
		sb.WriteString("syntax = \"proto2\";\nmessage M {\n")
		for i, h := range bs {
			fmt.Fprintf(&sb, "  optional bytes f%d = %d [default = \"", i, i+1)
			for _, c := range vhlib.Unhex(h) {
				fmt.Fprintf(&sb, "\\x%02x", c)
			}
			sb.WriteString("\"];\n")
		}
		sb.WriteString("}\n")
		comp := protocompile.Compiler{Resolver: &protocompile.SourceResolver{
			Accessor: protocompile.SourceAccessorFromMap(map[string]string{"t.proto": sb.String()}),
		}}
		files, err := comp.Compile(context.Background(), "t.proto")
		if err != nil {
			return map[string]any{"err": err.Error()}
		}
		f := files[0]
		rt, err := protodesc.NewFile(protodesc.ToFileDescriptorProto(f), nil)
		if err != nil {
			return map[string]any{"err": "protodesc: " + err.Error()}
		}
		lk := make([]string, len(bs))
		rv := make([]string, len(bs))
		dv := make([]string, len(bs))
		fields := f.Messages().Get(0).Fields()
		rfields := rt.Messages().Get(0).Fields()
		fdp := protodesc.ToFileDescriptorProto(f)
		for i := range bs {
			lk[i] = vhlib.Hx(fields.Get(i).Default().Bytes())
			rv[i] = vhlib.Hx(rfields.Get(i).Default().Bytes())
			dv[i] = vhlib.Hx([]byte(fdp.MessageType[0].Field[i].GetDefaultValue()))
		}
		_ = protoreflect.Name("")
		return map[string]any{"linker": lk, "runtime": rv, "text": dv}
	}
	panic("bad mode")
}
