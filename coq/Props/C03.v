(* C03 - Source code info matches protoc: the comments.  Statements only; proofs are in Proofs/Comments.v.
   A gap g is what lies between two consecutive tokens (Model/Comments.v): whether there is a previous
   token, newlines, comments (line or block, with their text and the newlines that follow), the kind of
   the next token.  go_attribution g = what parser/lexer.go + sourceinfo.attributeComments + combineComments
   + newLocWithGivenComments make of it (trailing comment of the previous declaration, detached comments
   and leading comment of the next one); next_with_comments g = what protoc's Tokenizer::NextWithComments
   + AttachComments make of it (Model/ProtocComments.v); observable drops what neither compiler can
   emit (detached and leading comments before a closing token or the end of the file).  wf_gap: a line
   comment is followed by a newline unless it ends the file.

   go_attribution is the code as it is now, i.e. with the repairs e67d3d01, 574d1b31 and 1915eb6c;
   go_attribution_pinned is the code before them (cfg_pinned), for which the property is refuted.

   known_protoc_corrections (Model/ProtocComments.v) transcribes the corrections that
   sourceinfo/source_code_info_test.go applies to protoc's output: they select locations by path
   (default_value spans, the duplicate json_name location) and none of them concerns comments, so the
   statements about comments carry no exception for them; checks/C03.py applies them when it compares
   paths and spans with protoc's golden output. *)
From Coq Require Import List NArith ZArith Bool Arith.
From PV Require Import Common.Bytes Model.Lexer Model.Comments Model.ProtocComments Proofs.Comments.
Import ListNotations.

(* the comments this compiler attaches around a gap are those protoc attaches: every gap *)
Theorem C03_comments_eq_protoc : forall g,
  wf_gap g -> observable (g_next g) (go_attribution g) = observable (g_next g) (next_with_comments g).
Proof. exact comments_eq_protoc_lemma. Qed.
Print Assumptions C03_comments_eq_protoc.

(* who gets which comment, independent of the texts: for every configuration of the model the Go code and
   protoc split the comments of a gap into the same trailing group, detached groups and leading group,
   unless the next token is a comma or semicolon and the code treats those as the end of a scope *)
Theorem C03_attribution_eq_protoc : forall cf g,
  wf_gap g -> (g_next g = NSep -> fix_sep cf = true) ->
  obs_roles (g_next g) (go_uroles cf false g) = obs_roles (g_next g) (pc_uroles g).
Proof. exact attribution_eq_lemma. Qed.
Print Assumptions C03_attribution_eq_protoc.

(* combineComments against protoc's ConsumeLineComment / ConsumeBlockComment, one comment at a time *)
Theorem C03_combine_comments_text : forall u, go_ctext cfg_repaired u = spec_content u.
Proof. exact combine_comments_text_repaired_lemma. Qed.
Print Assumptions C03_combine_comments_text.

(* the three outputs of attributeComments split the comments of the gap, in order, none lost or repeated *)
Theorem C03_roles_partition : forall cf extra g,
  let '(t, d, l) := go_roles cf extra g in t ++ concat d ++ l = layout (g_pre g) 0 (g_units g).
Proof. exact roles_partition_lemma. Qed.
Print Assumptions C03_roles_partition.

(* the commentsUsed map: over any sequence of newLoc / newLocWithComments / newLocWithoutComments calls, in
   every mode, no comment (gap index, position in the gap) is written to two locations or two fields *)
Theorem C03_comment_used_once : forall cf extra optlocs gaps rs,
  NoDup (flat_map loc_ids (gen_locs cf extra optlocs gaps [] rs)).
Proof. exact comment_used_once_lemma. Qed.
Print Assumptions C03_comment_used_once.

(* ---- the code before the repairs (historical): refuted, and where it did hold ---- *)
(* three classes, one witness each (g_sep: a comment on the line before a lone semicolon; g_empty: an empty
   block comment; g_cr: a block comment with a line that starts with a carriage return) *)
Theorem C03_comments_eq_protoc_pinned_refuted :
  (wf_gap g_sep /\ observable (g_next g_sep) (go_attribution_pinned g_sep) <> observable (g_next g_sep) (next_with_comments g_sep)) /\
  (wf_gap g_empty /\ observable (g_next g_empty) (go_attribution_pinned g_empty) <> observable (g_next g_empty) (next_with_comments g_empty)) /\
  (wf_gap g_cr /\ observable (g_next g_cr) (go_attribution_pinned g_cr) <> observable (g_next g_cr) (next_with_comments g_cr)).
Proof. exact comments_eq_refuted_lemma. Qed.
Print Assumptions C03_comments_eq_protoc_pinned_refuted.

(* the next token is not a comma or semicolon, and every comment of the gap has a non-empty text on which the
   two ways of stripping a block comment agree (gap_ok, unit_ok) *)
Theorem C03_comments_eq_protoc_pinned_partial : forall g,
  wf_gap g -> g_next g <> NSep -> gap_ok cfg_pinned g ->
  observable (g_next g) (go_attribution_pinned g) = observable (g_next g) (next_with_comments g).
Proof. exact comments_eq_partial_lemma. Qed.
Print Assumptions C03_comments_eq_protoc_pinned_partial.

Theorem C03_combine_comments_text_pinned_refuted : exists u, go_ctext cfg_pinned u <> spec_content u.
Proof. exact combine_comments_text_refuted_lemma. Qed.
Print Assumptions C03_combine_comments_text_pinned_refuted.

Theorem C03_combine_comments_text_partial : forall cf u, text_ok cf u = true -> go_ctext cf u = spec_content u.
Proof. exact combine_comments_text_lemma. Qed.
Print Assumptions C03_combine_comments_text_partial.

(* non-vacuity: a gap with a trailing comment, a detached comment and a leading block comment; the boolean
   form of wf_gap that the correspondence evaluates on every real gap is the same predicate *)
Example C03_nonvacuous :
  let g := mkgap true 0 [mkunit false [32; 116]%N 2; mkunit false [32; 100]%N 2; mkunit true [32; 97; 10; 32; 42; 32; 98; 32]%N 1] NOther in
  wf_gap g /\
  go_attribution g = (Some [32; 116; 10]%N, [[32; 100; 10]%N], Some [32; 97; 10; 32; 98; 32]%N) /\
  next_with_comments g = go_attribution g /\
  (forall g', wf_gapb g' = true <-> wf_gap g').
Proof.
  cbn zeta. split; [cbn; repeat split; intros; discriminate|].
  split; [vm_compute; reflexivity|]. split; [vm_compute; reflexivity|]. exact wf_gapb_iff.
Qed.
