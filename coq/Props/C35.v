(* C35 - Incremental recompilation equals batch compilation.
   A corollary of C33 on the executor model (Model/IncExec.v).  The hypothesis under which it holds is the
   shape of a world: every query's result is a function (wcomp) of its own input - for the compiler queries
   the content the opener returns for the path the query names - and of the results of the queries it
   resolved, and the sequence of its Resolve calls (wdeps) is a function of its own input; inputs change only
   through EEdit, which evicts the keys whose input changed (for the compiler: queries.File of every changed
   path).  Whether the real queries (File, AST, IR, Link) satisfy that hypothesis - no hidden state in
   ir.Session, no mutation of shared files - is exactly what checks/C35.py tests on edit histories. *)
From Coq Require Import List Arith Bool NArith.
From PV Require Import Model.IncExec Proofs.IncExec1 Proofs.IncExec2 Proofs.IncExec3 Proofs.IncExec4.
Import ListNotations.

(* whatever histories (Runs, overlapping Runs, Edits, Evicts; any schedules and parallelism) lie behind two
   executors: if their current inputs agree, a Run of the same queries returns the same results.  Taking for B
   a brand-new executor started on the current inputs of A: incremental = batch *)
Theorem C35_incremental_eq_batch : forall w, (forall k, wpanic w k = None) -> wf_world w ->
  forall rk, (forall i k d, In d (flatd w i k) -> rk d < rk k) ->
  forall parA parB inputsA inputsB sA sB idA idB ks mA mB,
  reach w parA inputsA sA -> reach w parB inputsB sB -> (forall k, inp sA k = inp sB k) ->
  idA < nthr sA -> tkey (thr sA idA) = None -> tpc (thr sA idA) = PRelease mA -> groups w sA idA = [ks] ->
  idB < nthr sB -> tkey (thr sB idB) = None -> tpc (thr sB idB) = PRelease mB -> groups w sB idB = [ks] ->
  tacc (thr sA idA) = tacc (thr sB idB).
Proof. exact incremental_eq_batch. Qed.
Print Assumptions C35_incremental_eq_batch.

(* non-vacuity: 0 -> [1,2], 1 -> [2].  Executor A: Run [0], edit key 2, Run [1], edit key 1, Run [0;1]; executor B
   is new, starts on A's final inputs and has 3 permits instead of 1.  Both roots leave Resolve with the same results *)
Definition C35_w : world :=
  {| wn := 3; wdeps := fun _ k => nth k [[[1; 2]]; [[2]]; []] []; wcomp := acomp; wpanic := fun _ => None; wfix := false |}.
Definition C35_until_release (s : state) (ks : list key) : state :=
  let root := nthr s in
  (fix go (fuel : nat) (s : state) : state :=
     match fuel with
     | O => s
     | S f => match tpc (thr s root) with
              | PRelease _ => s
              | _ => match find (enabled C35_w s) (seq 0 (nthr s)) with
                     | Some t => match step C35_w s t with Some s' => go f s' | None => s end
                     | None => s
                     end
              end
     end) 300 (start_run s ks).
Example C35_nonvacuous :
  let a1 := drive C35_w 300 (start_run (init 1 (fun k => S k)) [0]) in
  let a2 := evict C35_w (with_inputs a1 (set_inputs (inp a1) [2] [10])) [2] in
  let a3 := drive C35_w 300 (start_run a2 [1]) in
  let a4 := evict C35_w (with_inputs a3 (set_inputs (inp a3) [1] [7])) [1] in
  let a5 := C35_until_release a4 [0; 1] in
  let b := C35_until_release (init 3 (inp a4)) [0; 1] in
  (exists m, tpc (thr a5 (nthr a4)) = PRelease m) /\ (exists m, tpc (thr b 0) = PRelease m) /\
  tacc (thr a5 (nthr a4)) = [CV 324%N; CV 74%N] /\ tacc (thr b 0) = tacc (thr a5 (nthr a4)) /\
  map (nexec a5) [0; 1; 2] = [1; 1; 1] /\ nexec a3 2 = 1.
Proof. vm_compute. repeat split; try reflexivity; eexists; reflexivity. Qed.

(* only the inputs the requested queries transitively read matter: P holds of the requested queries and is
   closed under their dependencies on A's current inputs; outside P the two executors' inputs may differ.  So an
   edit to a file that no requested query reads changes no result, and batch compilation of the read part of the
   workspace alone gives what the long-lived executor returns *)
Theorem C35_incremental_eq_batch_local : forall w, (forall k, wpanic w k = None) -> wf_world w ->
  forall rk, (forall i k d, In d (flatd w i k) -> rk d < rk k) ->
  forall parA parB inputsA inputsB sA sB idA idB ks mA mB (P : key -> Prop),
  reach w parA inputsA sA -> reach w parB inputsB sB ->
  (forall k, P k -> inp sB k = inp sA k /\ forall d, In d (flatd w (inp sA k) k) -> P d) ->
  (forall k, In k ks -> P k) ->
  idA < nthr sA -> tkey (thr sA idA) = None -> tpc (thr sA idA) = PRelease mA -> groups w sA idA = [ks] ->
  idB < nthr sB -> tkey (thr sB idB) = None -> tpc (thr sB idB) = PRelease mB -> groups w sB idB = [ks] ->
  tacc (thr sA idA) = tacc (thr sB idB).
Proof. exact incremental_eq_batch_local. Qed.
Print Assumptions C35_incremental_eq_batch_local.

(* non-vacuity: in C35_w query 1 reads only {1, 2}.  Executor A has the history of C35_nonvacuous; executor B is new
   and its input for key 0 (outside the closure of [1]) differs from A's.  Run [1] returns the same on both, and
   P := (k = 1 \/ k = 2) meets the closure hypothesis on A's inputs *)
Example C35_local_nonvacuous :
  let a1 := drive C35_w 300 (start_run (init 1 (fun k => S k)) [0]) in
  let a2 := evict C35_w (with_inputs a1 (set_inputs (inp a1) [2] [10])) [2] in
  let a3 := C35_until_release a2 [1] in
  let b := C35_until_release (init 2 (set_inputs (inp a2) [0] [99])) [1] in
  (exists m, tpc (thr a3 (nthr a2)) = PRelease m) /\ (exists m, tpc (thr b 0) = PRelease m) /\
  inp b 0 <> inp a3 0 /\ tacc (thr b 0) = tacc (thr a3 (nthr a2)) /\
  (forall k, (k = 1 \/ k = 2) -> inp b k = inp a3 k /\ forall d, In d (flatd C35_w (inp a3 k) k) -> d = 1 \/ d = 2).
Proof.
  cbv zeta. split; [vm_compute; eexists; reflexivity|]. split; [vm_compute; eexists; reflexivity|].
  split; [vm_compute; discriminate|]. split; [vm_compute; reflexivity|].
  intros k [-> | ->]; (split; [vm_compute; reflexivity|]); vm_compute; intros d Hd; intuition.
Qed.
