(* C19 after the repair fixes/C19-exact-unused-imports.diff (mark the import a lookup is answered
   through only if no other import answers it too).  Statements only; proofs are in
   Proofs/UnusedImportsFixed.v.  warned_r / run_r / removable_r are the repaired rule;
   removable_r compares, for every lookup of every reference, the element (or package sentinel) it
   is answered with; consistent says that a lookup is answered with the same element whichever
   import it goes through (what the symbol table guarantees for a linked file set). *)
From Coq Require Import List NArith Bool.
From PV Require Import Model.Visibility Model.Resolve Model.UnusedImports Model.UnusedImportsFixed
     Proofs.UnusedImports Proofs.UnusedImportsFixed.
Import ListNotations.

Theorem C19_repaired_unused_warning_iff_removable : forall W f refs i,
  graph_ok (w_G W) = true -> In f (w_G W) -> import_paths_distinct f -> consistent W f refs ->
  (warned_r W f refs i <-> (In (i, false) (vf_imports f) /\ removable_r W f refs i)).
Proof. exact unused_warning_iff_removable_repaired_lemma. Qed.
Print Assumptions C19_repaired_unused_warning_iff_removable.

Theorem C19_repaired_needed_never_warned : forall W f refs i,
  graph_ok (w_G W) = true -> In f (w_G W) -> import_paths_distinct f -> consistent W f refs ->
  (exists p, In p refs /\ fst (run_r W (remove_import i f) p) <> fst (run_r W f p)) ->
  ~ warned_r W f refs i.
Proof. exact needed_never_warned_repaired_lemma. Qed.
Print Assumptions C19_repaired_needed_never_warned.

(* the repair changes which import is marked, never what a lookup finds *)
Theorem C19_repaired_same_answers : forall G fn f,
  fst (resolve_mark_r G fn f) = fst (resolve_mark G fn f).
Proof. exact resolve_mark_r_fst_lemma. Qed.
Print Assumptions C19_repaired_same_answers.

(* non-vacuity: on the witness of C19_unused_warning_iff_removable_refuted both imports are now
   reported; once one of them is removed the other is needed and no longer reported *)
Example C19_repaired_nonvacuous :
  warned_list_r ex_W ex_f ex_refs = [1%N; 2%N] /\
  warned_list_r ex_W (remove_import 2 ex_f) ex_refs = [] /\
  graph_ok (w_G ex_W) = true.
Proof. exact repaired_example. Qed.
