(* C32 - Line/column conversion round-trips (experimental/source/file.go).
   Statements only; proofs are in Proofs/SourceFile.v.  [boundary text off]: off is reached by decoding
   rune after rune from the start (Model/Utf8.v); texts are arbitrary byte lists, no length bound. *)
From Coq Require Import List NArith ZArith Bool.
From PV Require Import Model.Utf8 Model.Lines Model.SourceFile Proofs.SourceFile.
Import ListNotations.
Open Scope nat_scope.

(* File.lines(): the loop never runs out of fuel and yields 0 followed by the offset after each newline *)
Theorem C32_lines_spec : forall text, lines text = Some (0 :: nl_after text).
Proof. exact lines_spec_lemma. Qed.
Print Assumptions C32_lines_spec.

(* File.Location is defined for every offset 0..len(text) ... *)
Theorem C32_location_in_range : forall text off u, off <= length text ->
  exists l c, file_location text off u = Some (l, c).
Proof. exact location_in_range_lemma. Qed.
Print Assumptions C32_location_in_range.

(* ... and its line is one plus the number of newlines before the offset, in every unit *)
Theorem C32_line_number_spec : forall text off u l c,
  file_location text off u = Some (l, c) -> l = 1 + count_nl (firstn off text).
Proof. exact line_number_spec_lemma. Qed.
Print Assumptions C32_line_number_spec.

(* the pinned inverseLocation does NOT invert File.Location at every character boundary *)
Theorem C32_inverse_location_roundtrip_refuted :
  exists text off u l c,
    boundary text off /\ file_location text off u = Some (l, c) /\
    file_inverse_location text l c u <> Some (Z.of_nat off).
Proof. exact roundtrip_refuted_lemma. Qed.
Print Assumptions C32_inverse_location_roundtrip_refuted.

(* it does exactly under the guard: byte columns, or a character follows the offset, or offset 0, or the
   last line ends in a one-byte character *)
Theorem C32_inverse_location_roundtrip_partial : forall text off u l c,
  boundary text off -> roundtrip_guard text off u ->
  file_location text off u = Some (l, c) ->
  file_inverse_location text l c u = Some (Z.of_nat off).
Proof. exact roundtrip_partial_lemma. Qed.
Print Assumptions C32_inverse_location_roundtrip_partial.

Theorem C32_inverse_location_roundtrip_fails_outside_guard : forall text off u l c,
  boundary text off -> ~ roundtrip_guard text off u ->
  file_location text off u = Some (l, c) ->
  file_inverse_location text l c u <> Some (Z.of_nat off).
Proof. exact roundtrip_fails_outside_guard_lemma. Qed.
Print Assumptions C32_inverse_location_roundtrip_fails_outside_guard.

(* the repaired inverseLocation (Model/SourceFile.v, inverse_location_fixed): the full round trip, for
   every text, every character boundary including the end of the text and an empty last line, every unit *)
Theorem C32_fixed_inverse_location_roundtrip : forall text off u l c,
  boundary text off ->
  file_location text off u = Some (l, c) ->
  file_inverse_location_fixed text l c u = Some (Z.of_nat off).
Proof. exact fixed_roundtrip_lemma. Qed.
Print Assumptions C32_fixed_inverse_location_roundtrip.

(* the end of the text is always a character boundary, so the theorems above do speak about it *)
Theorem C32_eof_is_boundary : forall text, boundary text (length text).
Proof. exact PV.Proofs.Utf8.boundary_full. Qed.
Print Assumptions C32_eof_is_boundary.

(* non-vacuity *)
Example C32_nonvacuous :
  boundary [97; 195; 169; 10; 98]%N 3 /\ roundtrip_guard [97; 195; 169; 10; 98]%N 3 URunes /\
  file_location [97; 195; 169; 10; 98]%N 3 URunes = Some (1, 3%Z) /\
  file_inverse_location [97; 195; 169; 10; 98]%N 1 3%Z URunes = Some 3%Z.
Proof. exact roundtrip_example. Qed.

(* a corollary of the round trip: within one unit the conversion is injective on character boundaries - two
   different positions of a text never get the same (line, column) *)
Theorem C32_location_injective : forall text u off1 off2 lc,
  boundary text off1 -> boundary text off2 ->
  file_location text off1 u = Some lc -> file_location text off2 u = Some lc -> off1 = off2.
Proof. exact location_injective_lemma. Qed.
Print Assumptions C32_location_injective.
