(* C04 - Descriptor views agree with the Go protobuf runtime.  Statements only; proofs are in Proofs/Features.v. *)
From Coq Require Import List NArith ZArith Bool String.
From PV Require Import Model.FeaturesTables Model.Features Model.FieldView Model.RuntimeSpec Proofs.Features Model.Ranges Proofs.Ranges.
Import ListNotations.
Open Scope N_scope.

(* Feature resolution: in an editions file the resolved value is the value set on the nearest enclosing
   element that sets it (levels c = the element, its parents, the file; any depth), else the edition
   default; in a proto2 / proto3 file it is the edition default. *)
Theorem C04_resolve_feature_is_nearest_override : forall e c f,
  (is_editions e = true ->
     (forall pre s post v, levels c = pre ++ s :: post ->
        Forall (fun g => fs_get g f = None) pre -> fs_get s f = Some v ->
        resolve_feature e c f = v)
     /\ (Forall (fun g => fs_get g f = None) (levels c) -> resolve_feature e c f = edition_default e f))
  /\ (is_editions e = false -> resolve_feature e c f = edition_default e f).
Proof. exact resolve_feature_is_nearest_override_lemma. Qed.
Print Assumptions C04_resolve_feature_is_nearest_override.

(* The views of a field agree with the runtime's rules, for every syntax, label, type, oneof membership,
   proto3_optional flag, packed option and feature overrides at every nesting level (wf_field: what the
   compiler enforces on every accepted file). *)
Theorem C04_has_presence_eq_runtime : forall f, wf_field f = true -> has_presence f = rt_has_presence f.
Proof. exact has_presence_eq_runtime_lemma. Qed.
Print Assumptions C04_has_presence_eq_runtime.

Theorem C04_is_packed_eq_runtime : forall f, wf_field f = true -> is_packed f = rt_is_packed f.
Proof. exact is_packed_eq_runtime_lemma. Qed.
Print Assumptions C04_is_packed_eq_runtime.

Theorem C04_kind_eq_runtime : forall f, wf_field f = true -> kind f = rt_kind f.
Proof. exact kind_eq_runtime_lemma. Qed.
Print Assumptions C04_kind_eq_runtime.

Theorem C04_cardinality_eq_runtime : forall f, wf_field f = true -> cardinality f = rt_cardinality f.
Proof. exact cardinality_eq_runtime_lemma. Qed.
Print Assumptions C04_cardinality_eq_runtime.

Theorem C04_is_map_eq_runtime : forall f, wf_field f = true -> is_map f = rt_is_map f.
Proof. exact is_map_eq_runtime_lemma. Qed.
Print Assumptions C04_is_map_eq_runtime.

Theorem C04_is_list_eq_runtime : forall f, wf_field f = true -> is_list f = rt_is_list f.
Proof. exact is_list_eq_runtime_lemma. Qed.
Print Assumptions C04_is_list_eq_runtime.

Theorem C04_has_optional_keyword_eq_runtime : forall f, wf_field f = true ->
  has_optional_keyword f = rt_has_optional_keyword f.
Proof. exact has_optional_keyword_eq_runtime_lemma. Qed.
Print Assumptions C04_has_optional_keyword_eq_runtime.

(* The legacy-required clause of wf_field follows from the rules the compiler applies to source files:
   field_presence only on the field itself and on the file, not LEGACY_REQUIRED on the file, not on a
   repeated field (map fields included), an extension or a oneof member. *)
Theorem C04_source_rules_give_no_legacy_required : forall f,
  only_ends_set_fp (f_chain f) = true ->
  (match fs_fp (file_fs (f_chain f)) with Some v => negb (v =? FP_LEGACY_REQUIRED) | None => true end) = true ->
  (((f_label f =? LABEL_REPEATED) || f_is_ext f || f_has_oneof f || f_parent_mapentry f) = true -> fs_fp (chain_head (f_chain f)) = None) ->
  supported_edition (f_edition f) = true ->
  (negb ((f_label f =? LABEL_REPEATED) || f_is_ext f || f_has_oneof f || f_parent_mapentry f) || negb (f_resolve f FieldPresence =? FP_LEGACY_REQUIRED)) = true.
Proof. exact source_rules_give_no_lr. Qed.
Print Assumptions C04_source_rules_give_no_legacy_required.

(* enumDescriptor.IsClosed agrees with the runtime for every enum of an accepted file, whatever values the
   enum_type overrides have (ENUM_TYPE_UNKNOWN included). *)
Theorem C04_is_closed_eq_runtime : forall e c,
  wf_enum e c = true -> is_closed e c = rt_is_closed e c.
Proof. exact is_closed_eq_runtime_lemma. Qed.
Print Assumptions C04_is_closed_eq_runtime.

(* msgDescriptor.RequiredNumbers agrees with the runtime for every message of well-formed fields, editions
   fields with LEGACY_REQUIRED presence included. *)
Theorem C04_required_numbers_eq_runtime : forall fields,
  Forall (fun f => wf_field f = true) fields ->
  required_numbers fields = rt_required_numbers fields.
Proof. exact required_numbers_eq_runtime_lemma. Qed.
Print Assumptions C04_required_numbers_eq_runtime.

(* Default() of a singular field of an integer kind (int32 .. sfixed64): for every number z in the range of the
   kind, if default_value holds the decimal text of z then the linker's Default() is z; and whatever the text,
   it is what the runtime reads from it whenever the runtime accepts the file. (The defaults of the other
   kinds are compared linker-vs-runtime by the direct oracle only.) *)
Theorem C04_default_int_of_rendered : forall k signed bits z,
  int_kind k = Some (signed, bits) -> int_in_range signed bits z = true ->
  default_int k (Some (render_int z)) = z.
Proof. exact default_int_of_rendered_lemma. Qed.
Print Assumptions C04_default_int_of_rendered.

Theorem C04_default_int_eq_runtime : forall k text v,
  rt_default_int k text = Some v -> default_int k text = v.
Proof. exact default_int_eq_runtime_lemma. Qed.
Print Assumptions C04_default_int_eq_runtime.

(* Has of the range views (ReservedRanges / ExtensionRanges of a message: incl = false, end exclusive; ReservedRanges
   of an enum: incl = true): the linker scans the ranges in declaration order, the runtime binary-searches a copy
   sorted by start. For every list of non-empty, pairwise non-overlapping ranges IN ANY ORDER and every number the
   runtime's search terminates within its fuel and gives the linker's answer, and both are membership in one of
   the ranges. *)
Theorem C04_ranges_has_eq_runtime : forall incl rs n,
  ranges_valid incl rs -> rt_has incl rs n = Some (lk_has incl rs n).
Proof. exact ranges_has_eq_runtime_lemma. Qed.
Print Assumptions C04_ranges_has_eq_runtime.

Theorem C04_ranges_has_is_membership : forall incl rs n,
  ranges_valid incl rs ->
  (lk_has incl rs n = true <-> has_spec incl rs n) /\ (rt_has incl rs n = Some true <-> has_spec incl rs n).
Proof. exact ranges_has_is_membership_lemma. Qed.
Print Assumptions C04_ranges_has_is_membership.

(* TextName() of a field agrees with the runtime: the bracketed full name for an extension; the message name for a
   group-like field (group kind, message declared in the field's own scope, field name = the lower-cased message
   name); the field's own name otherwise. scopes_by_name: for a non-extension field the runtime's same-file and
   same-parent-descriptor tests hold exactly when the two parent names are equal (full names are unique in a link). *)
Theorem C04_text_name_eq_runtime : forall f nm same_file same_scope,
  wf_field f = true -> scopes_by_name f nm same_file same_scope = true ->
  text_name f nm = rt_text_name f nm same_file same_scope.
Proof. exact text_name_eq_runtime_lemma. Qed.
Print Assumptions C04_text_name_eq_runtime.

(* Group-likeness needs the exact lower-cased spelling: a field whose name is not the lower-cased message name (equal
   to the message name only when case is ignored, say) has its own name as text name on both sides. *)
Theorem C04_text_name_not_lowered : forall f nm same_file same_scope,
  n_name nm <> to_lower (n_msg_name nm) -> f_is_ext f = false ->
  text_name f nm = n_name nm /\ rt_text_name f nm same_file same_scope = n_name nm.
Proof. exact text_name_not_lowered_lemma. Qed.
Print Assumptions C04_text_name_not_lowered.

(* The code before the repairs (IsClosed == CLOSED, RequiredNumbers by label) is refuted in Proofs/Features.v:
   is_closed_old_eq_runtime_refuted_lemma, required_numbers_old_eq_runtime_refuted_lemma (with the partial
   results it did satisfy). *)

(* non-vacuity: a well-formed editions field three levels deep whose presence comes from an override on the
   field itself, with different values further out *)
Example C04_nonvacuous :
  let f := mkfield ED_2023 LABEL_OPTIONAL 5 7 false false false None false false
             (CNest (mkfs (Some FP_IMPLICIT) None None None None None)
               (CNest fs_empty
                 (CNest (mkfs None None None None (Some ME_DELIMITED) None)
                   (CFile (mkfs (Some FP_EXPLICIT) None None None None None))))) in
  wf_field f = true /\ has_presence f = false /\ rt_has_presence f = false /\
  cardinality f = CARD_OPTIONAL /\ f_resolve f MessageEncoding = ME_DELIMITED.
Proof. vm_compute. repeat split; reflexivity. Qed.

Example C04_nonvacuous_default :
  default_int KIND_UINT64 (Some "18446744073709551615"%string) = 18446744073709551615%Z /\
  render_int (-9223372036854775808) = "-9223372036854775808"%string /\
  default_int KIND_SFIXED64 (Some (render_int (-9223372036854775808))) = (-9223372036854775808)%Z /\
  default_int KIND_UINT32 (Some "4294967296"%string) = 0%Z.
Proof. vm_compute. repeat split; reflexivity. Qed.

(* non-vacuity for the range views: ranges declared out of ascending order; a binary search over the declaration
   order (without the sorted copy) would miss 1500 *)
Example C04_nonvacuous_ranges :
  let rs := [(1000, 2000); (100, 200); (500, 600)]%Z in
  ranges_valid_b false rs = true /\ lk_has false rs 1500%Z = true /\ rt_has false rs 1500%Z = Some true /\
  rt_search false 3 rs 1500%Z = Some false /\ lk_has false rs 200%Z = false /\ rt_has true rs 200%Z = Some true.
Proof. vm_compute. repeat split; reflexivity. Qed.

(* non-vacuity for text names: a delimited editions field of a sibling message type MyGroup; named mygroup it is
   group-like on both sides, named myGroup (equal only ignoring case) it is not *)
Example C04_nonvacuous_text_name :
  let f := mkfield ED_2023 LABEL_OPTIONAL TYPE_MESSAGE 1 false false false None false false
             (CNest (mkfs None None None None (Some ME_DELIMITED) None) (CNest fs_empty (CFile fs_empty))) in
  let g := mknames "mygroup" "p.Outer.mygroup" "p.Outer" "MyGroup" "p.Outer" in
  let h := mknames "myGroup" "p.Outer.myGroup" "p.Outer" "MyGroup" "p.Outer" in
  wf_field f = true /\ kind f = TYPE_GROUP /\
  text_name f g = "MyGroup"%string /\ rt_text_name f g true true = "MyGroup"%string /\
  text_name f h = "myGroup"%string /\ rt_text_name f h true true = "myGroup"%string /\
  scopes_by_name f g true true = true.
Proof. vm_compute. repeat split; reflexivity. Qed.
