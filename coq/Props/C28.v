(* C28 - Experimental parser is total.  Statements only; proofs are in Proofs/XLexer*.v.
   The lexer half is the model of Model/XLexer.v ([repaired] = the working tree, with the repairs;
   [as_is] = the pinned tree before them); of the parser only the verdict loop of parser.Parse is
   modelled ([verdict_repaired] = the working tree, [verdict_as_is] = before the repair).  The
   theorems about the code before the repairs are kept as historical lemmas. *)
From Coq Require Import List NArith ZArith Bool.
From PV Require Import Model.XLexer Model.XLexerTables Proofs.XLexerLoop Proofs.XLexer Proofs.XLexerParser.
Import ListNotations.

(* the lexer (with the repairs) never panics (mustProgress never fires, Stream.Push never overflows, no
   diagnostic constructor panics) and never runs out of its fuel length+1, on any text *)
Theorem C28_xlex_total : forall s, no_panic (xlex parser_cfg repaired s).
Proof. exact xlex_total_lemma_repaired. Qed.
Print Assumptions C28_xlex_total.

(* historical: the lexer before the repairs does panic: a quote followed by a backslash at the end of the text *)
Theorem C28_xlex_total_refuted :
  exists s ts ds, prelude_ok parser_cfg s /\ xlex parser_cfg as_is s = XICE ts ds.
Proof. exact xlex_total_refuted_lemma. Qed.
Print Assumptions C28_xlex_total_refuted.

(* historical: ... and only on texts that end in a backslash *)
Theorem C28_xlex_total_partial : forall s, last_byte s <> Some 92%N -> no_panic (xlex parser_cfg as_is s).
Proof. exact xlex_total_partial_lemma. Qed.
Print Assumptions C28_xlex_total_partial.

(* fuel, separately: out-of-fuel is never the answer, in either variant *)
Theorem C28_xlex_never_out_of_fuel : forall V s, xlex parser_cfg V s <> XFuel.
Proof. exact xlex_fuel_lemma. Qed.
Print Assumptions C28_xlex_never_out_of_fuel.

(* every token and every span of every lexer diagnostic lies inside the file, in either variant,
   also when lexing was aborted by the panic *)
Theorem C28_xlex_spans_in_file : forall V s, in_file s (xlex parser_cfg V s).
Proof. exact xlex_spans_in_file_lemma. Qed.
Print Assumptions C28_xlex_spans_in_file.

(* the verdict (d.Level() <= report.Error): ok exactly when no diagnostic is of
   level Error or worse, over the levels ICE < Error < Warning < Remark *)
Theorem C28_verdict_spec : forall levels, Forall known_level levels ->
  (verdict_repaired levels = true <-> forall l, In l levels -> ~ error_or_worse l).
Proof. exact verdict_spec_repaired_lemma. Qed.
Print Assumptions C28_verdict_spec.

(* historical, the verdict before the repair (d.Level() >= report.Error): a lone warning fails the parse, a lone ICE
   passes it *)
Theorem C28_verdict_spec_refuted :
  (Forall known_level [L_Warning] /\ verdict_as_is [L_Warning] = false
     /\ forall l, In l [L_Warning] -> ~ error_or_worse l)
  /\ (Forall known_level [L_ICE] /\ verdict_as_is [L_ICE] = true /\ error_or_worse L_ICE).
Proof. exact verdict_spec_refuted_lemma. Qed.
Print Assumptions C28_verdict_spec_refuted.

(* historical: the verdict before the repair agrees with the specification exactly on these diagnostic lists: the
   empty one, and those that contain both a level >= Error and a level <= Error *)
Theorem C28_verdict_spec_partial : forall levels, Forall known_level levels ->
  ((verdict_as_is levels = true <-> forall l, In l levels -> ~ error_or_worse l)
   <-> (levels = [] \/ ((exists l, In l levels /\ (L_Error <= l)%Z) /\ (exists l, In l levels /\ (l <= L_Error)%Z)))).
Proof. exact verdict_spec_partial_lemma. Qed.
Print Assumptions C28_verdict_spec_partial.

(* non-vacuity: the verdicts on an error-only and on a warning-only history *)
Example C28_nonvacuous :
  Forall known_level [L_Warning; L_Remark] /\ verdict_repaired [L_Warning; L_Remark] = true
  /\ verdict_repaired [L_Warning; L_Error] = false /\ verdict_repaired [L_ICE] = false
  /\ no_panic (xlex parser_cfg repaired [34; 92]%N).
Proof.
  split; [constructor; [right; right; left; reflexivity|constructor; [right; right; right; reflexivity|constructor]]|].
  split; [reflexivity|]. split; [reflexivity|]. split; [reflexivity|]. apply xlex_total_lemma_repaired.
Qed.
