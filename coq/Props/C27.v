(* C27 - Experimental compiler agrees with the stable compiler.  Statements only; proofs are in
   Proofs/DualCore.v.

   What is proved here is small and says so: it is about the COMPARISON the differential check uses
   between the two compilers' FileDescriptorProtos (Model/DualCore.v: trees of fields as the harness
   hands them over after decoding both descriptors against the same schema), not about either
   compiler.  desc_eq is the comparison, proj what it looks at.  The agreement of the compilers
   themselves is established by the differential oracle of checks/C27.py on generated programs. *)
From Coq Require Import List NArith ZArith Bool.
From PV Require Import Model.DualCore Proofs.DualCore.
Import ListNotations.

Theorem C27_desc_eq_refl : forall x, desc_eq x x = true.
Proof. exact desc_eq_refl_lemma. Qed.
Print Assumptions C27_desc_eq_refl.

Theorem C27_desc_eq_sym : forall x y, desc_eq x y = true -> desc_eq y x = true.
Proof. exact desc_eq_sym_lemma. Qed.
Print Assumptions C27_desc_eq_sym.

Theorem C27_desc_eq_trans : forall x y z, desc_eq x y = true -> desc_eq y z = true -> desc_eq x z = true.
Proof. exact desc_eq_trans_lemma. Qed.
Print Assumptions C27_desc_eq_trans.

(* two descriptors compare equal exactly when their projections are the same tree; the projection
   removes the top-level source_code_info, erases the known/unknown storage flags and identifies
   all NaNs *)
Theorem C27_desc_eq_iff_projection_eq : forall x y, desc_eq x y = true <-> proj x = proj y.
Proof. exact desc_eq_iff_projection_eq_lemma. Qed.
Print Assumptions C27_desc_eq_iff_projection_eq.

(* ... and nothing else: a tree without source_code_info, without a raised storage flag and without
   a non-canonical NaN is its own projection, so on such trees the comparison is plain equality:
   any other difference (a name, a label, a number, a json_name, a default value, an option value,
   the order or number of repeated elements, an unknown field) makes it answer false *)
Theorem C27_projection_changes_nothing_else : forall t, plain_top t = true -> proj t = t.
Proof. exact proj_plain_lemma. Qed.
Print Assumptions C27_projection_changes_nothing_else.

Theorem C27_desc_eq_is_equality_on_plain_trees : forall x y,
  plain_top x = true -> plain_top y = true -> (desc_eq x y = true <-> x = y).
Proof. exact desc_eq_plain_lemma. Qed.
Print Assumptions C27_desc_eq_is_equality_on_plain_trees.

(* every tree is equivalent to a plain one (its projection), which is a fixed point *)
Theorem C27_projection_is_plain_representative : forall t,
  plain_top (proj t) = true /\ proj (proj t) = proj t /\ desc_eq t (proj t) = true.
Proof. exact proj_representative_lemma. Qed.
Print Assumptions C27_projection_is_plain_representative.

(* non-vacuity: descriptors that differ only in source info, option storage and NaN payload are
   equal; renaming the message makes them different *)
Example C27_nonvacuous :
  desc_eq ex_a ex_b = true /\ desc_eq ex_b ex_c = false /\ proj ex_a = proj ex_b /\ ex_a <> ex_b.
Proof. exact dual_example. Qed.
