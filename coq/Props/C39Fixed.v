(* C39 - Decimal to float conversion is correctly rounded: the FULL statements, for the model of the
   repaired Decimal.Float64 (Model/DecFloatFixed.v). To be used by checks/C39.py (VARIANT = fixed)
   once the repair is committed. Statements only; proofs are in Proofs/DecFloatFixed.v. *)
From Coq Require Import ZArith NArith List Bool Reals.
From Flocq Require Import Core.Core IEEE754.BinarySingleNaN.
From PV Require Import Model.DecFloatTables Model.DecFloat Model.DecFloatFixed Proofs.DecFloat Proofs.DecFloatFixed.
Import ListNotations.

(* for every finite Decimal (sign, base flag, any mantissa, any exponent): the result is the nearest
   binary64 of its value, ties to even, overflow to infinity of the same sign, sign of zero kept --
   provided strconv.ParseFloat is correctly rounding on decimal and hex-float text *)
Theorem C39_float64_correctly_rounded :
  forall pf, parse_float2_correct pf ->
  forall d : decimal, correctly_rounded (d_neg d) (value d) (fst (float64_fixed pf d)).
Proof. exact float64_correctly_rounded_lemma. Qed.
Print Assumptions C39_float64_correctly_rounded.

(* the reported exactness is true only when no rounding happened *)
Theorem C39_exact_flag_sound :
  forall pf, parse_float2_correct pf ->
  forall d : decimal, snd (float64_fixed pf d) = true -> B2R (fst (float64_fixed pf d)) = value d.
Proof. exact exact_flag_sound_lemma. Qed.
Print Assumptions C39_exact_flag_sound.

(* the assumption on strconv.ParseFloat is satisfiable *)
Theorem C39_parse_float_assumption_realisable : parse_float2_correct ref_parse_float2.
Proof. exact ref_parse_float2_correct. Qed.
Print Assumptions C39_parse_float_assumption_realisable.

(* non-vacuity: 77e-169 (the numeral the pinned code misrounds) yields the correct
   bits, and 0.5 is reported exact while 0.1 is not *)
Example C39_fixed_nonvacuous :
  let d := {| d_neg := false; d_bin := false; d_mant := 77; d_exp := -167 |} in
  bits_of (fst (float64_fixed ref_parse_float2 d)) = 2106856951444029349%N /\
  snd (float64_fixed ref_parse_float2 {| d_neg := false; d_bin := false; d_mant := 5; d_exp := 0 |}) = true /\
  snd (float64_fixed ref_parse_float2 {| d_neg := false; d_bin := false; d_mant := 1; d_exp := 0 |}) = false.
Proof. vm_compute. repeat split; reflexivity. Qed.
