(* C15 - Relative name resolution follows protoc scoping.  Statements only; proofs are in
   Proofs/Resolve.v.  go_resolve mirrors linker/resolve.go as it is (after the fix
   fixes/C15-resolve-scope.diff); Spec.lookup is protoc's LookupSymbolNoPlaceholder;
   go_resolve_old is the code before the fix. *)
From Coq Require Import List NArith Bool.
From PV Require Import Model.Resolve Model.ProtocLookup Proofs.Resolve.
Import ListNotations.

(* CreatePrefixList of a package with components cs: every non-empty prefix, longest first, then
   the empty string (prefixes_desc cs = [cs; ...; [c1]; []]) *)
Theorem C15_create_prefix_list_spec : forall cs, Forall (fun c => simple c = true) cs ->
  create_prefix_list (join_dots cs) = map join_dots (prefixes_desc cs).
Proof. exact create_prefix_list_spec_lemma. Qed.
Print Assumptions C15_create_prefix_list_spec.

(* for every well-formed universe, every enclosing scope, every name (any byte string without two
   leading dots) and both lookup modes the Go algorithm answers like protoc: the same element, or
   both fail with the same kind of failure (nothing found / resolved to a name that is not
   defined / not a type) *)
Theorem C15_resolve_eq_protoc : forall U path elem nm m,
  wf_universe U = true -> scope_ok U path elem = true -> double_dot nm = false ->
  Spec.outcome_of m (Spec.to_spec U (go_resolve U path nm (Spec.only_types m)))
  = Spec.outcome_of m (Spec.lookup U (relative_to U path elem) nm m).
Proof. exact resolve_eq_protoc_lemma. Qed.
Print Assumptions C15_resolve_eq_protoc.

(* a leading dot bypasses scoping: the answer does not depend on the enclosing scopes or on the
   mode, and it is protoc's FindSymbol of the rest of the name *)
Theorem C15_resolve_absolute : forall U path ot n,
  go_resolve U path (dot :: n) ot = resolve_element U n /\
  (wf_universe U = true -> starts_with_dot n = false ->
   Spec.to_spec U (go_resolve U path (dot :: n) ot) = Spec.of_find n (Spec.find_symbol U n)).
Proof. exact resolve_absolute_lemma. Qed.
Print Assumptions C15_resolve_absolute.

(* the fuel of the specification loop never runs out *)
Theorem C15_lookup_total : forall U relative_to nm m, Spec.lookup U relative_to nm m <> Spec.SOutOfFuel.
Proof. exact lookup_total_lemma. Qed.
Print Assumptions C15_lookup_total.

(* historical: the code before the fix did not follow protoc; an unqualified type reference stopped
   at a non-type found at a package level of the file although an outer level holds a type *)
Theorem C15_old_resolve_refuted :
  exists U path elem nm m,
    wf_universe U = true /\ scope_ok U path elem = true /\ double_dot nm = false /\
    go_resolve_old U path nm (Spec.only_types m) = GDesc [97;46;98;46;120]%N KExtension /\
    Spec.lookup U (relative_to U path elem) nm m = Spec.SFound [97;46;120]%N (Spec.SK KMessage) /\
    Spec.outcome_of m (Spec.to_spec U (go_resolve_old U path nm (Spec.only_types m)))
    <> Spec.outcome_of m (Spec.lookup U (relative_to U path elem) nm m).
Proof. exact resolve_eq_protoc_refuted_lemma. Qed.
Print Assumptions C15_old_resolve_refuted.

(* outside the grammar: a reference with two leading dots (descriptor input only) is resolved by
   the Go code (two more dots are stripped on the way) and is unknown to protoc; this is why
   C15_resolve_eq_protoc excludes double_dot names *)
Theorem C15_double_dot_diverges :
  go_resolve ex_U [[77]%N] [46;46;97;46;120]%N true = GDesc [97;46;120]%N KMessage /\
  Spec.lookup ex_U (relative_to ex_U [[77]%N] [102]%N) [46;46;97;46;120]%N Spec.LookupTypes = Spec.SNone.
Proof. exact double_dot_diverges_lemma. Qed.
Print Assumptions C15_double_dot_diverges.

(* non-vacuity: package a.b with extension x and message M, imported package a with message x.
   The universe is well-formed and M is a scope; inside M the type reference x is a.x (the old
   code answered with the extension a.b.x), an extendee reference x at file level is a.b.x *)
Example C15_nonvacuous :
  wf_universe ex_U = true /\ scope_ok ex_U [[77]%N] [102]%N = true /\
  go_resolve ex_U [[77]%N] [120]%N true = GDesc [97;46;120]%N KMessage /\
  go_resolve ex_U [[77]%N] [97;46;120]%N true = GDesc [97;46;120]%N KMessage /\
  go_resolve ex_U [] [120]%N false = GDesc [97;46;98;46;120]%N KExtension /\
  go_resolve_old ex_U [[77]%N] [120]%N true = GDesc [97;46;98;46;120]%N KExtension /\
  create_prefix_list [97;46;98]%N = [[97;46;98]%N; [97]%N; []].
Proof. exact resolve_example. Qed.
