(* C15 - Relative name resolution follows protoc scoping.  Statements only; proofs are in
   Proofs/Resolve.v.  go_resolve mirrors linker/resolve.go as it is; Spec.lookup is protoc's
   LookupSymbolNoPlaceholder; go_resolve_fixed is the proposed repair (one scope per package prefix). *)
From Coq Require Import List NArith Bool.
From PV Require Import Model.Resolve Model.ProtocLookup Proofs.Resolve.
Import ListNotations.

(* CreatePrefixList of a package with components cs: every non-empty prefix, longest first, then
   the empty string (prefixes_desc cs = [cs; ...; [c1]; []]) *)
Theorem C15_create_prefix_list_spec : forall cs, Forall (fun c => simple c = true) cs ->
  create_prefix_list (join_dots cs) = map join_dots (prefixes_desc cs).
Proof. exact create_prefix_list_spec_lemma. Qed.
Print Assumptions C15_create_prefix_list_spec.

(* a leading dot bypasses scoping: the answer does not depend on the enclosing scopes or on the
   mode, and it is protoc's FindSymbol of the rest of the name *)
Theorem C15_resolve_absolute : forall U path ot n,
  go_resolve U path (dot :: n) ot = resolve_element U n /\
  (wf_universe U = true -> starts_with_dot n = false ->
   Spec.to_spec U (go_resolve U path (dot :: n) ot) = Spec.of_find n (Spec.find_symbol U n)).
Proof. exact resolve_absolute_lemma. Qed.
Print Assumptions C15_resolve_absolute.

(* the fuel of the specification loop never runs out *)
Theorem C15_lookup_total : forall U relative_to nm m, Spec.lookup U relative_to nm m <> Spec.SOutOfFuel.
Proof. exact lookup_total_lemma. Qed.
Print Assumptions C15_lookup_total.

(* the code as it is does NOT follow protoc: an unqualified type reference stops at a non-type
   found at a package level of the file although an outer package level holds a type *)
Theorem C15_resolve_eq_protoc_refuted :
  exists U path elem nm m,
    wf_universe U = true /\ scope_ok U path elem = true /\ double_dot nm = false /\
    go_resolve U path nm (Spec.only_types m) = GDesc [97;46;98;46;120]%N KExtension /\
    Spec.lookup U (relative_to U path elem) nm m = Spec.SFound [97;46;120]%N (Spec.SK KMessage) /\
    Spec.outcome_of m (Spec.to_spec U (go_resolve U path nm (Spec.only_types m)))
    <> Spec.outcome_of m (Spec.lookup U (relative_to U path elem) nm m).
Proof. exact resolve_eq_protoc_refuted_lemma. Qed.
Print Assumptions C15_resolve_eq_protoc_refuted.

(* ... and it does follow protoc for every universe, scope, name and mode under the guard:
   the lookup is not LOOKUP_TYPES, or the name is qualified, or no package level of the file
   holds a non-type (element or sub-package) with that name *)
Theorem C15_resolve_eq_protoc_partial : forall U path elem nm m,
  wf_universe U = true -> scope_ok U path elem = true -> double_dot nm = false -> guard U nm m = true ->
  Spec.outcome_of m (Spec.to_spec U (go_resolve U path nm (Spec.only_types m)))
  = Spec.outcome_of m (Spec.lookup U (relative_to U path elem) nm m).
Proof. exact resolve_eq_protoc_partial_lemma. Qed.
Print Assumptions C15_resolve_eq_protoc_partial.

(* the proposed repair follows protoc without the guard: same element, or both fail with the same
   kind of failure (nothing found / resolved to a name that is not defined / not a type) *)
Theorem C15_repaired_resolve_eq_protoc : forall U path elem nm m,
  wf_universe U = true -> scope_ok U path elem = true -> double_dot nm = false ->
  Spec.outcome_of m (Spec.to_spec U (go_resolve_fixed U path nm (Spec.only_types m)))
  = Spec.outcome_of m (Spec.lookup U (relative_to U path elem) nm m).
Proof. exact repaired_resolve_eq_protoc_lemma. Qed.
Print Assumptions C15_repaired_resolve_eq_protoc.

(* the same repair in the form of the proposed patch (a skipNonTypes flag handed to the scopes; the
   file scope moves on to the next package level itself): identical answers, hence the same theorem *)
Theorem C15_patched_resolve_eq_protoc : forall U path elem nm m,
  wf_universe U = true -> scope_ok U path elem = true -> double_dot nm = false ->
  Spec.outcome_of m (Spec.to_spec U (go_resolve_skip U path nm (Spec.only_types m)))
  = Spec.outcome_of m (Spec.lookup U (relative_to U path elem) nm m).
Proof. exact patched_resolve_eq_protoc_lemma. Qed.
Print Assumptions C15_patched_resolve_eq_protoc.

(* outside the grammar: a reference with two leading dots (descriptor input only) is resolved by
   the Go code (two more dots are stripped on the way) and is unknown to protoc *)
Theorem C15_double_dot_diverges :
  go_resolve ex_U [[77]%N] [46;46;97;46;120]%N true = GDesc [97;46;120]%N KMessage /\
  Spec.lookup ex_U (relative_to ex_U [[77]%N] [102]%N) [46;46;97;46;120]%N Spec.LookupTypes = Spec.SNone.
Proof. exact double_dot_diverges_lemma. Qed.
Print Assumptions C15_double_dot_diverges.

(* non-vacuity: a well-formed universe with a scope; the guard holds for a qualified and fails for
   the unqualified spelling; the repaired algorithm finds the message *)
Example C15_nonvacuous :
  wf_universe ex_U = true /\ scope_ok ex_U [[77]%N] [102]%N = true /\
  guard ex_U [97;46;120]%N Spec.LookupTypes = true /\ guard ex_U [120]%N Spec.LookupTypes = false /\
  go_resolve ex_U [[77]%N] [97;46;120]%N true = GDesc [97;46;120]%N KMessage /\
  go_resolve_fixed ex_U [[77]%N] [120]%N true = GDesc [97;46;120]%N KMessage /\
  create_prefix_list [97;46;98]%N = [[97;46;98]%N; [97]%N; []].
Proof. exact resolve_example. Qed.
