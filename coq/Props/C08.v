(* C08 - Error reporter contract.  Statements only; the proofs are in Proofs/Reporter.v.
   The model (Model/Reporter.v) is a small-step transition system of reporter.Handler: a root handler
   with the user's reporter behind a mutex (explicit lock / unlock steps), sub-handlers with their own
   copy of (err, errsReported), threads issuing arbitrary sequences of HandleError (positional or
   plain), HandleWarning, Error() and ReporterError() on arbitrary handlers.  cfg fixes the handler
   tree, the user's reporter (any function of the call index and the reported error) and the programs
   of all threads; a schedule is an arbitrary list of thread ids.  Every theorem is for all cfg and
   all schedules. *)
From Coq Require Import List Arith Bool.
From PV Require Import Model.Reporter Proofs.Reporter Proofs.ReporterErase.
Import ListNotations.

(* the user's reporter is never entered concurrently: a thread inside reporter.Error or
   reporter.Warning owns the root mutex, and it is the only thread inside the critical section *)
Theorem C08_reporter_mutex : forall cfg sched t1,
  let s := run cfg sched (init cfg) in
  in_reporter (tpc (threads s t1)) = true ->
  mu s = Some t1 /\ forall t2, in_critical (tpc (threads s t2)) = true -> t2 = t1.
Proof. exact reporter_mutex_lemma. Qed.
Print Assumptions C08_reporter_mutex.

(* once the reporter returns an error e the root err is e, and from any state in which the root err
   is e, whatever happens next: it stays e, Error() is e, no further reporter.Error call begins and no
   thread is inside reporter.Error *)
Theorem C08_abort_latches : forall cfg sched1,
  let s1 := run cfg sched1 (init cfg) in
  (forall t c idx e, tpc (threads s1 t) = PInRep c idx -> rep cfg idx (etag c) = Some e ->
     exists s', step cfg s1 t = Some s' /\ root_err s' = Some e /\ tpc (threads s' t) = PUnlock c (Some e)) /\
  (forall e, root_err s1 = Some e -> forall sched2,
     let s2 := run cfg sched2 s1 in
     root_err s2 = Some e /\ error_result (hs s2 0) = Some e /\ ncalls s2 = ncalls s1 /\
     (forall t c idx, tpc (threads s2 t) <> PInRep c idx)).
Proof. exact abort_latches_lemma. Qed.
Print Assumptions C08_abort_latches.

(* every HandleError call (on any handler, by any thread) that was made when the root err already was e
   returns e; esnap is the root err at the moment the call is made; a root Error() / ReporterError()
   returns the current value *)
Theorem C08_later_calls_return_latched : forall cfg sched t,
  let s := run cfg sched (init cfg) in
  (forall c ret e, In (LErr c ret) (tlog (threads s t)) -> esnap c = Some e -> ret = Some e) /\
  (forall h pos tag rest s', tpc (threads s t) = PIdle -> prog (threads s t) = OErr h pos tag :: rest ->
     step cfg s t = Some s' ->
     tpc (threads s' t) = PLock {| eh := h; epos := pos; etag := tag; esnap := root_err s |}) /\
  (forall rest s', tpc (threads s t) = PIdle -> prog (threads s t) = OError 0 :: rest ->
     step cfg s t = Some s' ->
     tlog (threads s' t) = LRead 0 true (error_result (hs s 0)) :: tlog (threads s t)) /\
  (forall rest s', tpc (threads s t) = PIdle -> prog (threads s t) = ORepError 0 :: rest ->
     step cfg s t = Some s' ->
     tlog (threads s' t) = LRead 0 false (root_err s) :: tlog (threads s t)).
Proof. exact later_calls_lemma. Qed.
Print Assumptions C08_later_calls_return_latched.

(* if every reporter call so far returned nil, no plain error was stored and at least one error reached
   the reporter, Error() is ErrInvalidSource *)
Theorem C08_accept_all_invalid_source : forall cfg sched,
  let s := run cfg sched (init cfg) in
  1 <= ncalls s -> plain_seen s = false -> (forall tag e, ~ In (CErr tag (Some e)) (rlog s)) ->
  error_result (hs s 0) = Some EInvalidSource.
Proof. exact accept_all_invalid_source_lemma. Qed.
Print Assumptions C08_accept_all_invalid_source.

(* the same from static hypotheses: a reporter that accepts everything, programs without plain errors *)
Theorem C08_never_abort_invalid_source : forall cfg,
  (forall idx tag, rep cfg idx tag = None) ->
  (forall t h tag, ~ In (OErr h false tag) (progs cfg t)) ->
  forall sched, let s := run cfg sched (init cfg) in
  1 <= ncalls s -> error_result (hs s 0) = Some EInvalidSource.
Proof. exact never_abort_invalid_source_lemma. Qed.
Print Assumptions C08_never_abort_invalid_source.

(* a step of a thread that is busy with HandleWarning changes no handler field, no counter, no other
   thread, and adds at most a warning to the logs: Error() of every handler is unchanged *)
Theorem C08_warnings_inert : forall cfg s t s',
  at_warning (threads s t) = true -> step cfg s t = Some s' ->
  hs s' = hs s /\ ncalls s' = ncalls s /\ handled s' = handled s /\ plain_seen s' = plain_seen s /\
  hcount s' = hcount s /\ (forall h, error_result (hs s' h) = error_result (hs s h)) /\
  (forall x, x <> t -> threads s' x = threads s x) /\
  (tlog (threads s' t) = tlog (threads s t) \/ tlog (threads s' t) = LWarn :: tlog (threads s t)) /\
  (rlog s' = rlog s \/ exists tag, rlog s' = CWarn tag :: rlog s).
Proof. exact warnings_inert_lemma. Qed.
Print Assumptions C08_warnings_inert.

(* warnings are erasable: whatever a run does, the same configuration with every HandleWarning removed
   from the programs has a run that ends with the same handler fields (so the same Error() everywhere),
   the same reporter.Error calls and the same results of all other operations *)
Theorem C08_warnings_erasable : forall cfg sched, exists sched',
  let s := run cfg sched (init cfg) in
  let s' := run (erase_cfg cfg) sched' (init (erase_cfg cfg)) in
  (forall h, hs s' h = hs s h) /\ (forall h, error_result (hs s' h) = error_result (hs s h)) /\
  ncalls s' = ncalls s /\ rlog s' = erase_rlog (rlog s) /\
  (forall t, tlog (threads s' t) = erase_log (tlog (threads s t))) /\
  (forall t, finished (threads s t) = true -> finished (threads s' t) = true).
Proof. exact warnings_erasable_lemma. Qed.
Print Assumptions C08_warnings_erasable.

(* Error() of the root is nil exactly when no HandleError call has passed the root; Error() of a
   sub-handler is nil exactly when no HandleError call returned through it; so after any completed
   HandleError call neither the root nor the handler it was issued on reports success *)
Theorem C08_success_iff_no_error : forall cfg sched,
  let s := run cfg sched (init cfg) in
  (error_result (hs s 0) = None <-> handled s = 0) /\
  (forall h, h <> 0 -> (error_result (hs s h) = None <-> hcount s h = 0)) /\
  (forall t c ret, In (LErr c ret) (tlog (threads s t)) ->
     error_result (hs s 0) <> None /\ (eh c <> 0 -> error_result (hs s (eh c)) <> None)).
Proof. exact success_iff_no_error_lemma. Qed.
Print Assumptions C08_success_iff_no_error.

(* a sub-handler's err is either nil or the root's latched error *)
Theorem C08_sub_handler_sound : forall cfg sched h e,
  let s := run cfg sched (init cfg) in
  h <> 0 -> herr (hs s h) = Some e -> root_err s = Some e /\ error_result (hs s h) = Some e.
Proof. exact sub_handler_sound_lemma. Qed.
Print Assumptions C08_sub_handler_sound.

(* while some thread is unfinished some thread can take a step (the mutex never deadlocks) *)
Theorem C08_no_deadlock : forall cfg sched,
  let s := run cfg sched (init cfg) in
  (exists t, finished (threads s t) = false) -> exists t s', step cfg s t = Some s'.
Proof. exact no_deadlock_lemma. Qed.
Print Assumptions C08_no_deadlock.

(* the fuel of the handler chain (the parent of h is clipped below h) is always enough *)
Theorem C08_chain_fuel_enough : forall par fuel h, h <= fuel -> chain par fuel h = chain par h h.
Proof. exact chain_fuel_enough. Qed.
Print Assumptions C08_chain_fuel_enough.

(* the sequential driver used by the correspondence only produces reachable states *)
Theorem C08_run_order_reachable : forall cfg fuel order, reach cfg (run_order cfg fuel order (init cfg)).
Proof. exact run_order_init_reach. Qed.
Print Assumptions C08_run_order_reachable.

(* what Compile returns, modelled as: the root handler's Error() when it is not nil, otherwise the first
   error among the requested files' tasks (failures that were never given to the reporter).  Whatever the
   task errors are and in whatever order the files were requested: accepted errors give ErrInvalidSource, a
   latched reporter error is returned as it is, Compile succeeds only if no HandleError call passed the root
   and no task failed, and when nothing was handled the result is the first task error *)
Theorem C08_compile_final : forall cfg sched task_errs,
  let s := run cfg sched (init cfg) in
  (1 <= ncalls s -> plain_seen s = false -> (forall tag e, ~ In (CErr tag (Some e)) (rlog s)) ->
     compile_final s task_errs = Some EInvalidSource) /\
  (forall e, root_err s = Some e -> compile_final s task_errs = Some e) /\
  (compile_final s task_errs = None -> handled s = 0 /\ forall x, In x task_errs -> x = None) /\
  (handled s = 0 -> compile_final s task_errs = first_some task_errs).
Proof. exact compile_final_lemma. Qed.
Print Assumptions C08_compile_final.

(* non-vacuity: two threads on two sub-handlers, reporter aborting at the second call.  Thread 1 is
   scheduled into the reporter first; while it is inside, thread 0 cannot pass the lock.  In the final
   state the second call latched ERep 2, the third error never reached the reporter, every later call
   returned ERep 2, and the sub-handler of thread 1 (which only saw nil) says ErrInvalidSource. *)
Definition C08_cfg : config :=
  {| parent := fun _ => 0;
     rep := policy 2 false;
     progs := fun t => match t with
                       | 0 => [OErr 1 true 10; OErr 1 true 11; OError 1; OError 0]
                       | 1 => [OWarn 2 20; OErr 2 true 21; OError 2]
                       | _ => []
                       end |}.
Example C08_nonvacuous :
  let mid := run C08_cfg [1;1;1; 1;1;1; 0;0;0] (init C08_cfg) in
  let s := run C08_cfg (repeat 1 12 ++ repeat 0 30) mid in
  in_reporter (tpc (threads mid 1)) = true /\ tpc (threads mid 0) = PLock {| eh := 1; epos := true; etag := 10; esnap := None |} /\
  finished (threads s 0) = true /\ finished (threads s 1) = true /\
  rev (rlog s) = [CWarn 20; CErr 21 None; CErr 10 (Some (ERep 2))] /\ ncalls s = 2 /\
  rev (map entry_obs (tlog (threads s 0))) = [Some (Some (ERep 2)); Some (Some (ERep 2)); Some (Some (ERep 2)); Some (Some (ERep 2))] /\
  rev (map entry_obs (tlog (threads s 1))) = [None; Some None; Some (Some EInvalidSource)] /\
  error_result (hs s 0) = Some (ERep 2).
Proof. vm_compute. repeat split; reflexivity. Qed.

(* a remark, not a defect: the documentation of SubHandler promises a consistent view only to a sub-handler
   that is used by one goroutine.  When two goroutines share one, a stale nil can overwrite the latched
   error in the sub-handler copy: its Error() is then ErrInvalidSource (never nil, see
   C08_success_iff_no_error) while the root, which is what Compile returns, has the reporter's error. *)
Definition C08_shared_cfg : config :=
  {| parent := fun _ => 0; rep := policy 2 false;
     progs := fun t => match t with 0 => [OErr 1 true 1] | 1 => [OErr 1 true 2] | _ => [] end |}.
Example C08_shared_sub_handler_remark :
  let s := run C08_shared_cfg ([0;0;0;0;0] ++ repeat 1 7 ++ [0;0]) (init C08_shared_cfg) in
  finished (threads s 0) = true /\ finished (threads s 1) = true /\
  error_result (hs s 0) = Some (ERep 2) /\ error_result (hs s 1) = Some EInvalidSource.
Proof. vm_compute. repeat split; reflexivity. Qed.
