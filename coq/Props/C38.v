(* C38 - String interning is a bijection, also under concurrency.
   Statements only; proofs are in Proofs/Char6.v and Proofs/Intern.v. *)
From Coq Require Import List NArith ZArith Bool Arith.
From PV Require Import Common.Bytes Model.Char6 Model.Intern Proofs.Char6 Proofs.Intern.
Import ListNotations.
Open Scope Z_scope.

(* ---------------- the inline char6 encoding (int32 ids, explicit wrap in the model) ---------------- *)

(* decodeChar6 inverts encodeChar6 on every string it accepts *)
Theorem C38_char6_roundtrip : forall s id, encode s = Some id -> decode id = s.
Proof. exact char6_roundtrip_lemma. Qed.
Print Assumptions C38_char6_roundtrip.

(* one-to-one on its whole domain *)
Theorem C38_char6_injective : forall s1 s2 id, encode s1 = Some id -> encode s2 = Some id -> s1 = s2.
Proof. exact char6_injective_lemma. Qed.
Print Assumptions C38_char6_injective.

(* inline ids of non-empty strings are negative: disjoint from table ids (> 0) and from the empty string (0) *)
Theorem C38_char6_negative_nonzero : forall s id, encode s = Some id -> s <> [] -> id < 0.
Proof. exact char6_negative_nonzero_lemma. Qed.
Print Assumptions C38_char6_negative_nonzero.

(* the exact image: 0 for the empty string, otherwise [-2^30, -2] (top two bits set, not all ones) *)
Theorem C38_char6_image : forall s id, encode s = Some id ->
  (s = [] /\ id = 0) \/ (s <> [] /\ -1073741824 <= id <= -2).
Proof. exact char6_image_lemma. Qed.
Print Assumptions C38_char6_image.

(* onto that image *)
Theorem C38_char6_onto : forall id, -1073741824 <= id <= -2 -> encode (decode id) = Some id.
Proof. exact char6_onto_lemma. Qed.
Print Assumptions C38_char6_onto.

(* which strings are short enough to be stored inline: empty, or at most five alphabet symbols
   not ending in a dot *)
Theorem C38_char6_encodable_iff : forall s, encode s <> None <->
  (s = [] \/ ((length s <= 5)%nat /\ has_suffix_dot s = false /\ Forall (fun c => In c alphabet) s)).
Proof. exact char6_encodable_iff_lemma. Qed.
Print Assumptions C38_char6_encodable_iff.

(* ---------------- Query ---------------- *)

(* Query reports a string present exactly when it is inline or its index slot holds a committed id *)
Theorem C38_query_present_iff : forall ix s,
  snd (query ix s) = true <-> (inline_domain s \/ exists id, ix s = Done id).
Proof. exact query_present_iff_lemma. Qed.
Print Assumptions C38_query_present_iff.

(* ... and, in every reachable state of every schedule, the slot holds a committed id exactly when
   some Intern(s) call has returned: present iff inline or interned *)
Theorem C38_query_present_iff_history : forall progs sched s,
  let st := run sched (init progs) in
  snd (query (index st) s) = true <->
  (inline_domain s \/ exists t th id, nth_error (threads st) t = Some th /\ In (s, id) (res th)).
Proof. intros progs sched s. apply inv_query_history, reachable_inv. Qed.
Print Assumptions C38_query_present_iff_history.

(* ---------------- the table: all schedules, any number of threads ---------------- *)

(* the invariant named in the design: a committed id points at its string in the log *)
Theorem C38_intern_index_log_invariant : forall progs sched s id,
  let st := run sched (init progs) in
  index st s = Done id -> 1 <= id /\ nth_error (log st) (Z.to_nat (id - 1)) = Some s.
Proof. intros progs sched s id. apply (inv_done _ (reachable_inv progs sched)). Qed.
Print Assumptions C38_intern_index_log_invariant.

(* ... and every key owns at most one log slot *)
Theorem C38_intern_log_nodup : forall progs sched, NoDup (log (run sched (init progs))).
Proof. intros progs sched. apply inv_nodup, reachable_inv. Qed.
Print Assumptions C38_intern_log_nodup.

(* equal strings get equal ids, whichever threads interned them and whenever *)
Theorem C38_intern_equal_strings_equal_ids : forall progs sched t1 th1 t2 th2 s id1 id2,
  let st := run sched (init progs) in
  nth_error (threads st) t1 = Some th1 -> nth_error (threads st) t2 = Some th2 ->
  In (s, id1) (res th1) -> In (s, id2) (res th2) -> id1 = id2.
Proof. intros progs sched. apply inv_equal_strings, reachable_inv. Qed.
Print Assumptions C38_intern_equal_strings_equal_ids.

(* distinct strings get distinct ids *)
Theorem C38_intern_distinct_strings_distinct_ids : forall progs sched t1 th1 t2 th2 s1 s2 id,
  let st := run sched (init progs) in
  nth_error (threads st) t1 = Some th1 -> nth_error (threads st) t2 = Some th2 ->
  In (s1, id) (res th1) -> In (s2, id) (res th2) -> s1 = s2.
Proof. intros progs sched. apply inv_distinct_strings, reachable_inv. Qed.
Print Assumptions C38_intern_distinct_strings_distinct_ids.

(* Value (Intern s) = s, evaluated in any state after the Intern call returned *)
Theorem C38_intern_value_roundtrip : forall progs sched t th s id,
  let st := run sched (init progs) in
  nth_error (threads st) t = Some th -> In (s, id) (res th) -> value (log st) id = Some s.
Proof. intros progs sched. apply inv_value, reachable_inv. Qed.
Print Assumptions C38_intern_value_roundtrip.

(* the three id classes are disjoint: 0 = empty string, negative = inline, 1..len(log) = table *)
Theorem C38_intern_ids_disjoint_classes : forall progs sched t th s id,
  let st := run sched (init progs) in
  nth_error (threads st) t = Some th -> In (s, id) (res th) ->
  (s = [] /\ id = 0) \/ (s <> [] /\ encode s = Some id /\ -1073741824 <= id <= -2) \/
  (encode s = None /\ 1 <= id <= Z.of_nat (length (log st)) /\ index st s = Done id).
Proof. intros progs sched. apply inv_classes, reachable_inv. Qed.
Print Assumptions C38_intern_ids_disjoint_classes.

(* a thread panics only when the log holds 2^31 - 1 strings *)
Theorem C38_intern_no_panic_below_limit : forall progs sched t th,
  let st := run sched (init progs) in
  nth_error (threads st) t = Some th -> pc th = Panicked -> 2147483647 <= Z.of_nat (length (log st)).
Proof. intros progs sched. apply inv_no_panic, reachable_inv. Qed.
Print Assumptions C38_intern_no_panic_below_limit.

(* ---------------- progress ---------------- *)

(* no deadlock: in every state either every thread is finished or some thread can step *)
Theorem C38_intern_deadlock_free : forall st, final st = true \/ exists t st', step st t = Some st'.
Proof. exact deadlock_free_lemma. Qed.
Print Assumptions C38_intern_deadlock_free.

(* termination of the Gosched spin under weak fairness: if every thread is scheduled again and
   again, every thread finishes all its Intern calls (or panics on log exhaustion) *)
Theorem C38_intern_terminates_weak_fairness : forall (progs : list (list str)) (sched : nat -> nat),
  (forall t, (t < length progs)%nat -> forall k, exists m, (k <= m)%nat /\ sched m = t) ->
  exists n, final (run_inf sched n (init progs)) = true.
Proof. exact terminates_weak_fairness_lemma. Qed.
Print Assumptions C38_intern_terminates_weak_fairness.

(* ---------------- the byte-slice entry points ---------------- *)

(* InternBytes / QueryBytes on caller-owned buffers that the caller overwrites between calls
   (BWrite, arbitrary content, arbitrary positions in the history) answer exactly like
   Intern / Query on the content each buffer had when the call was made; so every clause above
   carries over to histories through the byte-slice entry points with buffer reuse *)
Theorem C38_bytes_entry_points_snapshot : forall ops hp ix lg,
  run_bops hp ix lg ops = run_ops ix lg (resolve_bops hp ops).
Proof. exact bytes_snapshot_lemma. Qed.
Print Assumptions C38_bytes_entry_points_snapshot.

(* overwriting the buffer after InternBytes returned changes no later answer *)
Theorem C38_bytes_write_after_call_unobservable : forall hp ix lg b s ops,
  (forall o, In o ops -> match o with BOp _ => True | _ => False end) ->
  run_bops hp ix lg (BInternBytes b :: BWrite b s :: ops) = run_bops hp ix lg (BInternBytes b :: ops).
Proof. exact bytes_write_after_call_lemma. Qed.
Print Assumptions C38_bytes_write_after_call_unobservable.

(* ---------------- non-vacuity ---------------- *)

(* the encoding does something *)
Example C38_nonvacuous_char6 :
  encode ex_inline = Some (-212278) /\ decode (-212278) = ex_inline /\ encode ex_key = None /\
  encode [97;46]%N = None /\ encode [46;97]%N = Some (-3393).
Proof. exact example_char6. Qed.

(* two threads race for the same new key: thread 1 finds it pending and turns in the Gosched
   loop while thread 0 is the leader; both end with the same id; a third string is inline *)
Example C38_nonvacuous_contention :
  let progs := [[ex_key; ex_inline]; [ex_key]] in
  let mid := run [0;0;1;1;1;1]%nat (init progs) in
  let fin := run [0;0;1;1;1;1;1;1;0;0;1;1;0;0]%nat (init progs) in
  map pc (threads mid) = [PAppend ex_key; PSpin ex_key] /\
  final fin = true /\
  map res (threads fin) = [[(ex_key, 1); (ex_inline, -212278)]; [(ex_key, 1)]] /\
  log fin = [ex_key] /\ value (log fin) 1 = Some ex_key /\ query (index fin) ex_key = (1, true).
Proof. exact example_contention. Qed.

(* the fairness hypothesis is satisfiable: round robin over two threads *)
Example C38_nonvacuous_fair :
  forall t, (t < 2)%nat -> forall k, exists m, (k <= m)%nat /\ Nat.modulo m 2 = t.
Proof. exact example_fair. Qed.

(* InternBytes of a buffer, the caller scribbles over it: the original string is still present
   with its id and Value gives it back; the scribbled content is a different, absent string *)
Example C38_nonvacuous_bytes :
  let ops := [BWrite 0 ex_key; BInternBytes 0; BWrite 0 [120;120;120;120;120;120;120;120]%N;
              BOp (OQuery ex_key); BOp (OIntern ex_key); BOp (OValue 1); BQueryBytes 0; BInternBytes 0] in
  snd (run_bops heap_empty idx_empty [] ops) =
  [RIntern 1; RQuery 1 true; RIntern 1; RValue (Some ex_key); RQuery 0 false; RIntern 2].
Proof. exact example_bytes. Qed.
