(* C21 - Lenient and unlinked interpretation agree with strict interpretation.
   Statements only; proofs are in Proofs/Options.v.  Model: Model/Options.v. *)
From Coq Require Import List ZArith NArith Bool String.
From PV Require Import Model.Options Model.ProtocOptions Proofs.Options.
Import ListNotations.
Open Scope string_scope.
Open Scope Z_scope.

(* When strict interpretation succeeds, lenient interpretation of the same statements yields the identical
   options message and leaves nothing uninterpreted. *)
Theorem C21_strict_ok_implies_lenient_same : forall sch tt T m0 stmts m rem,
  interpret_strict sch tt T m0 stmts = Ok (m, rem) ->
  interpret_lenient sch tt T m0 stmts = LOk m [] /\ rem = [].
Proof. exact strict_ok_implies_lenient_same_lemma. Qed.
Print Assumptions C21_strict_ok_implies_lenient_same.

(* Unlinked interpretation, statement by statement: what it does interpret (no error reported) has the value the
   linked interpreter gives the same statement in the same message. *)
Theorem C21_unlinked_values_subset_of_strict : forall sch tt T m name v m',
  interpret_field (no_exts sch) tt T m name v = (m', []) -> interpret_field sch tt T m name v = (m', []).
Proof. exact unlinked_statement_lemma. Qed.
Print Assumptions C21_unlinked_values_subset_of_strict.

(* Unlinked interpretation, the whole run: when strict interpretation succeeds and the non-custom options mention
   no extension, the unlinked result is exactly the message strict interpretation has after its pass over the
   non-custom options, and exactly the custom options are kept, in order. *)
Theorem C21_unlinked_run_equals_strict_first_pass : forall sch tt T m0 stmts m rem,
  noncustom_ext_free stmts = true ->
  interpret_strict sch tt T m0 stmts = Ok (m, rem) ->
  exists m1, pass_strict sch tt false T m0 stmts = Ok (m1, filter is_custom stmts) /\
             interpret_unlinked sch tt T m0 stmts = LOk m1 (filter is_custom stmts).
Proof. exact unlinked_run_lemma. Qed.
Print Assumptions C21_unlinked_run_equals_strict_first_pass.

(* The remainder of a lenient (or unlinked) run is what ONE walk over the statements in source order keeps:
   a statement is kept exactly when its own interpretation reported an error; statements are kept verbatim
   and in order (ref_walk never reorders or rewrites; its remainder is a subsequence of the statements). *)
Theorem C21_uninterpreted_kept_verbatim : forall sch tt T m0 stmts m rem,
  interpret_lenient sch tt T m0 stmts = LOk m rem ->
  (exists m1, ref_walk sch tt T m0 m1 stmts = (m1, m, rem)) /\ subseq rem stmts.
Proof. exact uninterpreted_kept_verbatim_full_lemma. Qed.
Print Assumptions C21_uninterpreted_kept_verbatim.

(* The code as it is: a statement that fails can leave the options message changed (intermediate messages of its
   path stay behind; a message literal is stored without the field that failed; a value is stored although the
   option may not be used on this kind of element) - and the lenient run returns that message together with
   the statement as uninterpreted. *)
Theorem C21_no_half_population_refuted :
  (exists sch tt T m name v m' e, interpret_field sch tt T m name v = (m', e) /\ e <> [] /\ m' <> m) /\
  (exists sch tt T st m, interpret_lenient sch tt T [] [st] = LOk m [st] /\ m <> []).
Proof. exact no_half_population_refuted_full_lemma. Qed.
Print Assumptions C21_no_half_population_refuted.

(* Where it holds: no field restricts its targets, the value is not a message literal or list, and every message
   on the path of the option name is already there.  Each of the three guards is needed: the witnesses
   half_population_target, half_population_literal and half_population_path drop one each. *)
Theorem C21_no_half_population_partial : forall sch tt, targets_free sch = true ->
  forall name T m v m' e,
  scalar_shaped v = true -> prefix_present sch T m name = true ->
  interpret_field sch tt T m name v = (m', e) -> e <> [] -> m' = m.
Proof. exact no_half_population_partial_lemma. Qed.
Print Assumptions C21_no_half_population_partial.

(* non-vacuity: a lenient run that keeps two of four statements; one guarded failure leaves the message alone *)
Example C21_nonvacuous :
  interpret_lenient hp_schema 3%N 0%nat []
    [mkStmt [PExt "foo"; PField "a"] (OUint 1); mkStmt [PExt "foo"; PField "a"] (OUint 2);
     mkStmt [PExt "foo"; PField "r"] (OUint 7); mkStmt [PExt "foo"; PField "nosuch"] (OUint 7)]
  = LOk [(50001%N, VM [(1%N, VS (SInt 1)); (3%N, VL [VS (SInt 7)])])]
        [mkStmt [PExt "foo"; PField "a"] (OUint 2); mkStmt [PExt "foo"; PField "nosuch"] (OUint 7)].
Proof. vm_compute. reflexivity. Qed.
