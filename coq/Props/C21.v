(* C21 - Lenient and unlinked interpretation agree with strict interpretation.
   Statements only; proofs are in Proofs/Options.v.  Model: Model/Options.v, the code after the repair 307ffab4
   (in lenient mode the options message is copied before each option and the copy is taken back when the option
   reported an error). *)
From Coq Require Import List ZArith NArith Bool String.
From PV Require Import Model.Options Model.ProtocOptions Proofs.Options.
Import ListNotations.
Open Scope string_scope.
Open Scope Z_scope.

(* When strict interpretation succeeds, lenient interpretation of the same statements yields the identical
   options message and leaves nothing uninterpreted. *)
Theorem C21_strict_ok_implies_lenient_same : forall sch tt T m0 stmts m rem,
  interpret_strict sch tt T m0 stmts = Ok (m, rem) ->
  (exists done, interpret_lenient sch tt T m0 stmts = (m, [], done)) /\ rem = [].
Proof. exact strict_ok_implies_lenient_same_lemma. Qed.
Print Assumptions C21_strict_ok_implies_lenient_same.

(* Unlinked interpretation, statement by statement: what it does interpret (no error reported) has the value the
   linked interpreter gives the same statement in the same message. *)
Theorem C21_unlinked_values_subset_of_strict : forall sch tt T m name v m',
  interpret_field (no_exts sch) tt T m name v = (m', []) -> interpret_field sch tt T m name v = (m', []).
Proof. exact unlinked_statement_lemma. Qed.
Print Assumptions C21_unlinked_values_subset_of_strict.

(* Unlinked interpretation, the whole run: when strict interpretation succeeds and the non-custom options mention
   no extension, the unlinked result is exactly the message strict interpretation has after its pass over the
   non-custom options, and exactly the custom options are kept, in order. *)
Theorem C21_unlinked_run_equals_strict_first_pass : forall sch tt T m0 stmts m rem,
  noncustom_ext_free stmts = true ->
  interpret_strict sch tt T m0 stmts = Ok (m, rem) ->
  exists m1 done, pass_strict sch tt false T m0 stmts = Ok (m1, filter is_custom stmts) /\
                  interpret_unlinked sch tt T m0 stmts = (m1, filter is_custom stmts, done).
Proof. exact unlinked_run_lemma. Qed.
Print Assumptions C21_unlinked_run_equals_strict_first_pass.

(* The remainder of a lenient (or unlinked) run is what ONE walk over the statements in source order keeps:
   a statement is kept exactly when its own interpretation reported an error (and then the message of its pass
   stays as it was); statements are kept verbatim and in order. *)
Theorem C21_uninterpreted_kept_verbatim : forall sch tt T m0 stmts m rem done,
  interpret_lenient sch tt T m0 stmts = (m, rem, done) ->
  (exists m1, ref_walk sch tt T m0 m1 stmts = (m1, m, rem)) /\ subseq rem stmts.
Proof. exact uninterpreted_kept_verbatim_full_lemma. Qed.
Print Assumptions C21_uninterpreted_kept_verbatim.

(* No half-populated options message, for every schema and statement list: the message of the lenient run is exactly
   what the interpreted options produce when applied alone (each without error, in the order of the two passes);
   options that are kept leave no trace; remainder and interpreted options partition the statements. *)
Theorem C21_no_half_population : forall sch tt T m0 stmts m rem done,
  interpret_lenient sch tt T m0 stmts = (m, rem, done) ->
  apply_all sch tt T m0 done = Some m /\ subseq rem stmts /\
  (List.length rem + List.length done = List.length stmts)%nat.
Proof. exact no_half_population_lemma. Qed.
Print Assumptions C21_no_half_population.

(* non-vacuity: the three ways in which the code before 307ffab4 left a trace now leave the options message alone
   (the historical lemmas half_population_path / _literal / _target and no_half_population_old_refuted_lemma in
   Proofs/Options.v record what it did) *)
Example C21_nonvacuous :
  interpret_lenient hp_schema 3%N 0%nat []
    [mkStmt [PExt "foo"; PField "sub"; PField "a"] (OStr [98%N]);
     mkStmt [PExt "foo"] (OMsg [(LField "r", OList [OUint 1; OUint 2; OStr [120%N]])]);
     mkStmt [PExt "onfield"] (OUint 1);
     mkStmt [PExt "foo"; PField "a"] (OUint 7);
     mkStmt [PExt "foo"; PField "a"] (OUint 8)]
  = ([(50001%N, VM [(1%N, VS (SInt 7))])],
     [mkStmt [PExt "foo"; PField "sub"; PField "a"] (OStr [98%N]);
      mkStmt [PExt "foo"] (OMsg [(LField "r", OList [OUint 1; OUint 2; OStr [120%N]])]);
      mkStmt [PExt "onfield"] (OUint 1);
      mkStmt [PExt "foo"; PField "a"] (OUint 8)],
     [mkStmt [PExt "foo"; PField "a"] (OUint 7)]).
Proof. vm_compute. reflexivity. Qed.
