(* C05 - Output is independent of parallelism, order and scheduling (executor level).
   Statements only.  What is proved is the part of the property that lives in the executor:
   the success / failure of the compilation and the set of files compiled depend only on the
   import graph and the set of requested files.  The byte-level determinism of linking one file
   (linker, options, source info) is outside this model; it is explored by the correspondence
   harness (deterministic-marshal bytes compared across runs), not proved. *)
From Coq Require Import List Arith Bool.
From PV Require Import Model.CompileExec Proofs.CompileExec1 Proofs.CompileExec2 Proofs.CompileExec3 Proofs.CompileExec4.
Import ListNotations.

Theorem C05_verdict_confluent : forall g, wf_graph g -> forall par par' req req' s s',
  1 <= par -> 1 <= par' ->
  (forall x, In x req -> x < nfiles g) -> (forall x, In x req <-> In x req') ->
  reach g par req s -> reach g par' req' s' -> final g s = true -> final g s' = true ->
  verdict s req = verdict s' req'.
Proof. exact verdict_confluent. Qed.
Print Assumptions C05_verdict_confluent.

Theorem C05_success_outputs_all_reachable : forall g, wf_graph g -> forall par req s,
  (forall x, In x req -> x < nfiles g) -> reach g par req s -> verdict s req = true ->
  forall x, reachable_from_req g req x -> tpc (tasks s x) = PDone None.
Proof. exact success_outputs_all_reachable. Qed.
Print Assumptions C05_success_outputs_all_reachable.

(* non-vacuity: the same diamond compiled with 1 permit / request [0] and 3 permits / request [0;0]
   under different schedules gives the same verdict *)
Definition C05_g : graph :=
  {| nfiles := 4; imports := fun f => match f with 0 => [1; 2] | 1 => [3] | 2 => [3] | _ => [] end;
     rres := fun _ => ROk; lres := fun _ => true |}.
Example C05_nonvacuous :
  let s := run C05_g (round_robin C05_g 200) (init 1 [0]) in
  let s' := run C05_g (rev (round_robin C05_g 300)) (init 3 [0; 0]) in
  final C05_g s = true /\ final C05_g s' = true /\ verdict s [0] = true /\ verdict s' [0; 0] = true.
Proof. vm_compute. repeat split; reflexivity. Qed.
