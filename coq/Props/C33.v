(* C33 - The incremental executor memoizes and invalidates exactly.
   Statements only; the proofs are in Proofs/IncExec{1,2,3,4}.v.  The model (Model/IncExec.v) is a
   small-step transition system of experimental/incremental (executor.go, task.go); a history is an
   arbitrary list of events: steps of arbitrary threads (any interleaving, any number of permits),
   starts of Runs (overlapping freely), Evicts and input Edits (exclusive).  C33 is about
   deterministic queries that do not panic (hypothesis wpanic = None; panics are C34).  A query that
   returns a fatal error is not a panic: its result (Value and Fatal together) is one number oval, the
   theorems hold for every result function wcomp. *)
From Coq Require Import List Arith Bool NArith.
From PV Require Import Model.IncExec Proofs.IncExec1 Proofs.IncExec2 Proofs.IncExec3 Proofs.IncExec4.
Import ListNotations.

(* each query executes at most once between two evictions of it: nexec counts the leader elections
   (CompareAndSwap wins, each followed by one Execute) of a key since the key was last evicted *)
Theorem C33_at_most_once_between_evictions : forall w par, (forall k, wpanic w k = None) ->
  forall inputs s k, reach w par inputs s -> nexec s k <= 1.
Proof. exact at_most_once. Qed.
Print Assumptions C33_at_most_once_between_evictions.

(* every Run returns the values a fresh computation on the current inputs gives (acyclic dependency
   functions: rk is any rank that every dependency decreases): the results the root Task holds when
   its Resolve call returns *)
Theorem C33_run_returns_fresh_values : forall w par, (forall k, wpanic w k = None) -> forall inputs,
  wf_world w -> forall rk, (forall i k d, In d (flatd w i k) -> rk d < rk k) ->
  forall s id ks m, reach w par inputs s -> id < nthr s ->
  tkey (thr s id) = None -> tpc (thr s id) = PRelease m -> groups w s id = [ks] ->
  tacc (thr s id) = map (fun k => CV (freshv w rk (inp s) k)) ks.
Proof. exact run_returns_fresh_values. Qed.
Print Assumptions C33_run_returns_fresh_values.

(* ... every memoized value is fresh at all times, in every reachable state ... *)
Theorem C33_memoized_values_fresh : forall w par, (forall k, wpanic w k = None) -> forall inputs,
  wf_world w -> forall rk, (forall i k d, In d (flatd w i k) -> rk d < rk k) ->
  forall s k v, reach w par inputs s -> done_val s k = Some v -> v = freshv w rk (inp s) k.
Proof. exact memoized_values_fresh. Qed.
Print Assumptions C33_memoized_values_fresh.

(* ... and every Execute only sees fresh values of its dependencies *)
Theorem C33_execute_sees_fresh_values : forall w par, (forall k, wpanic w k = None) -> forall inputs,
  wf_world w -> forall rk, (forall i k d, In d (flatd w i k) -> rk d < rk k) ->
  forall s id k g, reach w par inputs s -> id < nthr s ->
  tkey (thr s id) = Some k -> acc_index w s id = Some g ->
  tacc (thr s id) = map (fun d => CV (freshv w rk (inp s) d)) (concat (firstn g (wdeps w (inp s k) k))).
Proof. exact execute_sees_fresh_values. Qed.
Print Assumptions C33_execute_sees_fresh_values.

(* Evict removes exactly the memoized keys that (transitively) depend on an evicted memoized key *)
Theorem C33_evict_closure_exact : forall w par, (forall k, wpanic w k = None) -> forall inputs,
  wf_world w -> forall rk, (forall i k d, In d (flatd w i k) -> rk d < rk k) ->
  forall s ks k, reach w par inputs s -> quiescent s = true ->
  is_done (evict w s ks) k = true <-> (is_done s k = true /\ ~ depends w s ks k).
Proof. exact evict_closure_exact. Qed.
Print Assumptions C33_evict_closure_exact.

(* all callers in one Run see the same Changed flag (and value) for a key *)
Theorem C33_changed_flag_consistent : forall w par, (forall k, wpanic w k = None) -> forall inputs,
  forall s a b ga gb i j d va cha vb chb,
  reach w par inputs s -> a < nthr s -> b < nthr s -> trun (thr s a) = trun (thr s b) ->
  cur_group w s a = Some ga -> nth_error ga i = Some d -> nth_error (tslots (thr s a)) i = Some (Some (DVal va cha)) ->
  cur_group w s b = Some gb -> nth_error gb j = Some d -> nth_error (tslots (thr s b)) j = Some (Some (DVal vb chb)) ->
  va = vb /\ cha = chb.
Proof. exact changed_flag_consistent. Qed.
Print Assumptions C33_changed_flag_consistent.

(* Changed is set exactly when the memoized result carries the run id of the observing Run ... *)
Theorem C33_changed_iff_computed_this_run : forall w par, (forall k, wpanic w k = None) -> forall inputs,
  forall s a ga i d v ch, reach w par inputs s -> a < nthr s ->
  cur_group w s a = Some ga -> nth_error ga i = Some d -> nth_error (tslots (thr s a)) i = Some (Some (DVal v ch)) ->
  exists o, tmap s d = TRes o /\ oclosed (objs s o) = true /\ oval (objs s o) = v /\
            (ch = true <-> orun (objs s o) = trun (thr s a)).
Proof. exact changed_iff_result_of_this_run. Qed.
Print Assumptions C33_changed_iff_computed_this_run.

(* ... a result gets its run id from the thread that computes it, in the step that completes it ... *)
Theorem C33_result_stamped_by_its_run : forall w par, (forall k, wpanic w k = None) -> forall inputs,
  forall s id s' k o, reach w par inputs s -> step w s id = Some s' ->
  tmap s k = TRes o -> oclosed (objs s o) = false -> oclosed (objs s' o) = true ->
  tkey (thr s id) = Some k /\ tobj (thr s id) = o /\ orun (objs s' o) = trun (thr s id).
Proof. exact result_stamped_by_its_run. Qed.
Print Assumptions C33_result_stamped_by_its_run.

(* ... and a completed result is never altered while it is in the map *)
Theorem C33_memoized_result_stable : forall w par, (forall k, wpanic w k = None) -> forall inputs,
  forall s e s' k o, reach w par inputs s -> do_event w s e = Some s' ->
  tmap s k = TRes o -> oclosed (objs s o) = true -> tmap s' k = TRes o ->
  oclosed (objs s' o) = true /\ oval (objs s' o) = oval (objs s o) /\ orun (objs s' o) = orun (objs s o).
Proof. exact memoized_result_stable. Qed.
Print Assumptions C33_memoized_result_stable.

(* ... which is always the id of a Run that has started (ids start at 1), never the zero id of a fresh
   result object.  A result is the pair Value/Fatal of the Go code as one opaque number: these theorems
   hold for every wcomp, so for queries that return a fatal error exactly as for those that succeed *)
Theorem C33_result_run_id_valid : forall w par, (forall k, wpanic w k = None) -> forall inputs,
  forall s k o, reach w par inputs s -> tmap s k = TRes o -> oclosed (objs s o) = true ->
  1 <= orun (objs s o) <= nrun s.
Proof. exact result_run_id_valid. Qed.
Print Assumptions C33_result_run_id_valid.

(* the step that completes a result leaves it memoized, stamped with the run id of the completing thread,
   and reports Changed = true to that thread's own caller *)
Theorem C33_completion_reports_changed : forall w par, (forall k, wpanic w k = None) -> forall inputs,
  forall s id s' k o, reach w par inputs s -> step w s id = Some s' ->
  tmap s k = TRes o -> oclosed (objs s o) = false -> oclosed (objs s' o) = true ->
  tmap s' k = TRes o /\ orun (objs s' o) = trun (thr s' id) /\ 1 <= orun (objs s' o) /\
  tpc (thr s' id) = PReturn (DVal (oval (objs s' o)) true).
Proof. exact completion_reports_changed. Qed.
Print Assumptions C33_completion_reports_changed.

(* non-vacuity: the graph 0 -> [1,2], 1 -> [2] with the arithmetic queries of the harness, two permits:
   Run [0], edit key 2 (which evicts 2, 1 and 0), Run [1], Run [0]: every key is computed once per
   eviction, the last Run recomputes only key 0 and returns 2*147 for inputs 1,2,10 *)
Definition C33_w : world :=
  {| wn := 3; wdeps := fun _ k => nth k [[[1; 2]]; [[2]]; []] []; wcomp := acomp; wpanic := fun _ => None; wfix := false |}.
Definition C33_run (s : state) (ks : list key) : state := drive C33_w 300 (start_run s ks).
Example C33_nonvacuous :
  let s1 := C33_run (init 2 (fun k => S k)) [0] in
  let s2 := evict C33_w (with_inputs s1 (set_inputs (inp s1) [2] [10])) [2] in
  let s3 := C33_run s2 [1] in
  let s4 := C33_run s3 [0] in
  quiescent s1 = true /\ done_keys C33_w s1 = [0; 1; 2] /\ done_keys C33_w s2 = [] /\
  done_keys C33_w s3 = [1; 2] /\ done_keys C33_w s4 = [0; 1; 2] /\
  map (nexec s4) [0; 1; 2] = [1; 1; 1] /\ done_val s4 0 = Some 294%N /\
  tslots (thr s4 (nthr s3)) = [Some (DVal 294%N true)].
Proof. vm_compute. repeat split; reflexivity. Qed.

(* non-vacuity with failing queries: the same graph, key 2 returns a fatal error of its own while its input
   is odd (results are 2 * value + 1 when fatal), so keys 1 and 0 fail with it.  Run [2; 0] computes all
   three: both results are failures and both are Changed, all stamped with run id 1; the second Run gets
   them from the cache: not Changed, nothing executes; after the edit of key 2 to 10 everything is evicted
   and the third Run recomputes successes, Changed *)
Definition C33_wf : world :=
  {| wn := 3; wdeps := fun _ k => nth k [[[1; 2]]; [[2]]; []] []; wcomp := acompf [(2, (1, 2))];
     wpanic := fun _ => None; wfix := true |}.
Definition C33_runf (s : state) (ks : list key) : state := drive C33_wf 300 (start_run s ks).
Example C33_nonvacuous_failing :
  let s1 := C33_runf (init 2 (fun k => S k)) [2; 0] in
  let s2 := C33_runf s1 [0; 2] in
  let s3 := evict C33_wf (with_inputs s2 (set_inputs (inp s2) [2] [10])) [2] in
  let s4 := C33_runf s3 [0; 2] in
  quiescent s1 = true /\ done_keys C33_wf s1 = [0; 1; 2] /\
  tslots (thr s1 0) = [Some (DVal 7%N true); Some (DVal 3%N true)] /\
  map (done_val s1) [0; 1; 2] = [Some 3%N; Some 5%N; Some 7%N] /\
  map (fun k => match tmap s1 k with TRes o => orun (objs s1 o) | _ => 0 end) [0; 1; 2] = [1; 1; 1] /\
  quiescent s2 = true /\ tslots (thr s2 (nthr s1)) = [Some (DVal 3%N false); Some (DVal 7%N false)] /\
  map (nexec s2) [0; 1; 2] = [1; 1; 1] /\
  done_keys C33_wf s3 = [] /\ quiescent s4 = true /\
  tslots (thr s4 (nthr s3)) = [Some (DVal 294%N true); Some (DVal 20%N true)].
Proof. vm_compute. repeat split; reflexivity. Qed.
