(* C17 on the REPAIRED model (import_fx: the extension numbers are checked before the commit).
   Prepared for the proposed fix; it is not a claim about the pinned code.  Statements only. *)
From Coq Require Import List NArith ZArith Bool.
From PV Require Import Model.Symbols Proofs.Symbols.
Import ListNotations.

(* not repaired by the proposed fix: dependencies and packages of the failed file stay *)
Theorem C17r_failed_import_is_noop_refuted_deps :
  exists h f T' n b q,
    let T := fst (run_ops_with import_fx [] h) in
    import_fx f T = (T', Err (ESym n b)) /\ observe_with import_fx T' q <> observe_with import_fx T q.
Proof. exact (refuted_deps_lemma true). Qed.
Print Assumptions C17r_failed_import_is_noop_refuted_deps.

Theorem C17r_failed_import_is_noop_refuted_packages :
  exists h f T' n b g,
    let T := fst (run_ops_with import_fx [] h) in
    import_fx f T = (T', Err (ESym n b)) /\
    observe_with import_fx T (QImport g) = ARes Ok /\
    observe_with import_fx T' (QImport g) = ARes (Err (ESym [18%N; 17%N] true)).
Proof. exact (refuted_packages_lemma true). Qed.
Print Assumptions C17r_failed_import_is_noop_refuted_packages.

(* repaired: with the packages registered and the dependencies imported, ANY failed import (name
   or extension-number collision, or a rejected extension) leaves the table exactly as it was *)
Theorem C17r_failed_import_is_noop :
  forall T f T' e,
    deps_settled import_fx T f -> import_fx f T = (T', Err e) ->
    T' = T /\ forall q, observe_with import_fx T' q = observe_with import_fx T q.
Proof. exact failed_import_fx_is_noop_lemma. Qed.
Print Assumptions C17r_failed_import_is_noop.

Theorem C17r_failed_import_repeats :
  forall T f T' e,
    deps_settled import_fx T f -> import_fx f T = (T', Err e) -> import_fx f T' = (T', Err e).
Proof. exact failed_import_fx_repeats_lemma. Qed.
Print Assumptions C17r_failed_import_repeats.

(* non-vacuity: the witness of the pinned model is now rejected before anything is written *)
Example C17r_nonvacuous :
  deps_settled import_fx [] wX /\ import_fx wX [] = ([], Err (EExt [7%N] 100%Z)).
Proof. exact fx_nonvacuous. Qed.
