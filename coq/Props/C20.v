(* C20 - Option values are interpreted like protoc.  Statements only; proofs are in Proofs/Options.v.
   The model is that of the code after the repairs bb1a10d1, 36246e7a and f7db43f0 (see Model/Options.v).
   Model: Model/Options.v (mirror of options/options.go).  Specification: Model/ProtocOptions.v. *)
From Coq Require Import List ZArith NArith Bool String.
From PV Require Import Model.Options Model.ProtocOptions Proofs.Options.
Import ListNotations.
Open Scope string_scope.
Open Scope Z_scope.

(* An integer literal is accepted for an integer kind (int32, sint32, sfixed32, int64, sint64, sfixed64,
   uint32, fixed32, uint64, fixed64) exactly when its mathematical value lies in the range of the kind,
   and the stored value is that value. *)
Theorem C20_scalar_coercion_ranges : forall k lo hi v z inlit,
  int_range k = Some (lo, hi) -> num_value v = Some z -> lexable v ->
  scalar_field_value k v inlit = if (lo <=? z) && (z <=? hi) then Ok (SInt z) else Err ERange.
Proof. exact scalar_coercion_ranges_lemma. Qed.
Print Assumptions C20_scalar_coercion_ranges.

(* Nothing else is an integer: floats, identifiers, strings and message literals are rejected, never truncated. *)
Theorem C20_noninteger_rejected : forall k lo hi v inlit,
  int_range k = Some (lo, hi) -> num_value v = None -> scalar_field_value k v inlit = Err EType.
Proof. exact noninteger_rejected_lemma. Qed.
Print Assumptions C20_noninteger_rejected.

(* float and double take every integer literal; the stored value is the integer rounded to nearest-even, and it
   is the integer itself below 2^24 (float) and 2^53 (double). *)
Theorem C20_int_to_float : forall k v z inlit,
  (k = KFloat \/ k = KDouble) -> num_value v = Some z ->
  scalar_field_value k v inlit
    = Ok (SFloat (if match k with KFloat => true | _ => false end then to_f32 z 0 else to_f64 z 0)) /\
  (k = KFloat -> Z.abs z < 2 ^ 24 -> fl_denotes (to_f32 z 0) z) /\
  (k = KDouble -> Z.abs z < 2 ^ 53 -> fl_denotes (to_f64 z 0) z).
Proof. exact int_to_float_lemma. Qed.
Print Assumptions C20_int_to_float.

(* bool outside a message literal: exactly the identifiers true and false *)
Theorem C20_bool_coercion : forall v b,
  scalar_field_value KBool v false = Ok (SBool b) <-> v = OIdent (if b then "true" else "false")%string.
Proof. exact bool_coercion_lemma. Qed.
Print Assumptions C20_bool_coercion.

(* Model = specification, for every schema, every element target, every options message and every list of
   statements: the strict run ends in the options message protoc computes, or both reject.
   Assumed: the schema is well formed (what descriptors guarantee: a repeated field is in no oneof, a field
   without presence is a singular scalar outside oneofs) and the integer literals are what the lexer produces
   (negative ones fit int64, the others uint64; larger ones are float literals). *)
Theorem C20_interpret_eq_protoc : forall sch tt,
  schema_wf sch = true ->
  forall T m0 stmts, stmts_lexable stmts = true ->
  same_outcome (interpret_strict sch tt T m0 stmts) (protoc_interpret sch tt true T m0 stmts).
Proof. exact interpret_eq_protoc_lemma. Qed.
Print Assumptions C20_interpret_eq_protoc.

Theorem C20_no_uninterpreted_left_on_success : forall sch tt T m0 stmts m rem,
  interpret_strict sch tt T m0 stmts = Ok (m, rem) -> rem = [].
Proof. exact no_uninterpreted_left_on_success_lemma. Qed.
Print Assumptions C20_no_uninterpreted_left_on_success.

(* non-vacuity: a well-formed schema (with a field without presence and a float field), statements through a path, a repeated field, a message
   literal and a oneof; the strict run succeeds and protoc's interpretation is the same message *)
Definition nv_schema : schema :=
  mkSchema [mkMsg [mkField "deprecated" 3%N KBool false None false []];
            mkMsg [mkField "a" 1%N KInt32 false None false []; mkField "r" 3%N KUint64 true None false [];
                   mkField "sub" 4%N (KMsg 1) false None false [];
                   mkField "x" 5%N KString false (Some 0%nat) false []; mkField "y" 6%N KBool false (Some 0%nat) false [];
                   mkField "z" 7%N KInt32 false None true []; mkField "fl" 8%N KFloat false None false []]]
           [mkEnum [("A", 0); ("B", 1)] true]
           [mkExt "foo" 0%nat (mkField "foo" 50001%N (KMsg 1) false None false []);
            mkExt "e" 0%nat (mkField "e" 50002%N (KEnum 0) false None false [])].
Definition nv_stmts : list stmt :=
  [mkStmt [PExt "foo"; PField "sub"; PField "a"] (OInt (-2147483648));
   mkStmt [PField "deprecated"] (OIdent "true");
   mkStmt [PExt "foo"; PField "r"] (OUint 18446744073709551615);
   mkStmt [PExt "foo"; PField "sub"; PField "r"] (OUint 1);
   mkStmt [PExt "e"] (OIdent "B");
   mkStmt [PExt "foo"; PField "z"] (OUint 0);
   mkStmt [PExt "foo"; PField "sub"; PField "sub"] (OMsg [(LField "y", OIdent "t"); (LField "r", OList [OUint 2; OUint 3])]);
   mkStmt [PExt "foo"; PField "sub"; PField "sub"; PField "sub"] (OMsg [(LField "fl", OIdent "Infinity"); (LField "z", OUint 0)]);
   mkStmt [PExt "foo"; PField "sub"; PField "sub"; PField "sub"; PField "z"] (OUint 4)].
Example C20_nonvacuous :
  schema_wf nv_schema = true /\ stmts_lexable nv_stmts = true /\
  exists m, interpret_strict nv_schema 3%N 0%nat [] nv_stmts = Ok (m, []) /\
            protoc_interpret nv_schema 3%N true 0%nat [] nv_stmts = Ok m /\ m <> [].
Proof.
  split; [reflexivity|]. split; [reflexivity|].
  eexists. split; [vm_compute; reflexivity|]. split; [vm_compute; reflexivity|discriminate].
Qed.

(* non-vacuity of the bookkeeping for fields without presence: one field descriptor (z, no presence) reached through
   three paths of one options message is set three times, zero values included, and accepted by model and
   specification alike; the first path once more is rejected by both as already set *)
Definition nv_paths : list stmt :=
  [mkStmt [PExt "foo"; PField "z"] (OUint 0);
   mkStmt [PExt "foo"; PField "sub"; PField "z"] (OUint 0);
   mkStmt [PExt "foo"; PField "sub"; PField "sub"; PField "z"] (OUint 5)].
Example C20_same_field_through_several_paths :
  (exists m, interpret_strict nv_schema 3%N 0%nat [] nv_paths = Ok (m, []) /\
             protoc_interpret nv_schema 3%N true 0%nat [] nv_paths = Ok m) /\
  interpret_strict nv_schema 3%N 0%nat [] (nv_paths ++ [mkStmt [PExt "foo"; PField "z"] (OUint 7)]) = Err EAlreadySet /\
  same_outcome (interpret_strict nv_schema 3%N 0%nat [] (nv_paths ++ [mkStmt [PExt "foo"; PField "z"] (OUint 7)]))
               (protoc_interpret nv_schema 3%N true 0%nat [] (nv_paths ++ [mkStmt [PExt "foo"; PField "z"] (OUint 7)])).
Proof.
  split; [eexists; split; vm_compute; reflexivity|]. split; [vm_compute; reflexivity|].
  apply C20_interpret_eq_protoc; reflexivity.
Qed.
