(* C30 - Printer round-trip mode reproduces the source.  Statements only; proofs are in
   Proofs/Trivia.v, the model in Model/Trivia.v.

   cfg_asis is the model of the pinned code, cfg_fixed of the code repaired by
   fixes/C30-roundtrip-verbatim.diff.  For the pinned code each property is refuted by a smallest
   witness and proved under a guard:
     guard cf toks   at every position of every scope, (a) a `;`, `,` or `{...}` is not followed on
                     the same line (spaces and comments only in between) by a bracket pair or a
                     concatenated string, and (b) if only skippable tokens follow the last token of
                     the scope and that token is neither `;` nor `{...}`, then each of the two parts
                     of that trivia (before / from its first newline) is empty or holds a comment;
     eof_ok          the text after the last token of the file is a single newline, or is a mix of
                     whitespace and comments that ends in a newline (or is empty after a newline).
   Both guards are trivially true for cfg_fixed. *)
From Coq Require Import List NArith Bool.
From PV Require Import Model.Trivia Proofs.Trivia.
Import ListNotations.
Open Scope N_scope.

(* the fuel of the model never runs out *)
Theorem C30_build_total : forall cf toks, build cf toks <> None.
Proof. exact build_total_lemma. Qed.
Print Assumptions C30_build_total.

(* trivia_partition: reading the index along the token tree (slot before each declaration start,
   leading, trailing, remaining slots before the closer) yields every skippable token of the
   source exactly once, in stream order *)
Theorem C30_trivia_partition : forall toks ix,
  wf_toks toks -> build cfg_fixed toks = Some ix -> tree_trivia ix toks = pieces (trivia_of toks).
Proof. exact trivia_partition_lemma. Qed.
Print Assumptions C30_trivia_partition.

Theorem C30_trivia_partition_refuted :
  (exists toks ix, wf_toks toks /\ build cfg_asis toks = Some ix /\
                   tree_trivia ix toks <> pieces (trivia_of toks))
  /\ (exists toks ix, wf_toks toks /\ build cfg_asis toks = Some ix /\
                      ~ Permutation.Permutation (index_trivia ix) (trivia_of toks)).
Proof. exact (conj tree_partition_refuted_asis partition_refuted_asis). Qed.
Print Assumptions C30_trivia_partition_refuted.

Theorem C30_trivia_partition_partial : forall toks ix,
  wf_toks toks -> guard cfg_asis toks -> build cfg_asis toks = Some ix ->
  tree_trivia ix toks = pieces (trivia_of toks).
Proof. exact trivia_partition_partial_lemma. Qed.
Print Assumptions C30_trivia_partition_partial.

(* emit_roundtrip_id: replaying the index reproduces the token stream, ids and texts *)
Theorem C30_emit_roundtrip_id : forall toks ix,
  wf_toks toks -> build cfg_fixed toks = Some ix -> emit_roundtrip ix toks = flatten toks.
Proof. exact emit_roundtrip_id_lemma. Qed.
Print Assumptions C30_emit_roundtrip_id.

Theorem C30_emit_roundtrip_id_refuted :
  exists toks ix, wf_toks toks /\ build cfg_asis toks = Some ix /\ emit_roundtrip ix toks <> flatten toks.
Proof. exact roundtrip_refuted_asis. Qed.
Print Assumptions C30_emit_roundtrip_id_refuted.

Theorem C30_emit_roundtrip_id_partial : forall toks ix,
  wf_toks toks -> guard cfg_asis toks -> build cfg_asis toks = Some ix ->
  emit_roundtrip ix toks = flatten toks.
Proof. exact emit_roundtrip_id_partial_lemma. Qed.
Print Assumptions C30_emit_roundtrip_id_partial.

(* PrintFile in round-trip mode, including the end of the file *)
Theorem C30_print_file_roundtrip : forall toks,
  wf_toks toks -> print_file_rt cfg_fixed toks = Some (source_text toks).
Proof. exact print_file_roundtrip_lemma. Qed.
Print Assumptions C30_print_file_roundtrip.

Theorem C30_print_file_roundtrip_refuted :
  exists toks, wf_toks toks /\ print_file_rt cfg_asis toks <> Some (source_text toks).
Proof. exact print_file_refuted_asis. Qed.
Print Assumptions C30_print_file_roundtrip_refuted.

Theorem C30_print_file_roundtrip_partial : forall toks ix pend out,
  wf_toks toks -> guard cfg_asis toks ->
  build cfg_asis toks = Some ix -> emit_file ix toks = (pend, out) ->
  eof_ok (flat_map snd out) (text_of pend) = true ->
  print_file_rt cfg_asis toks = Some (source_text toks).
Proof. exact print_file_roundtrip_partial_lemma. Qed.
Print Assumptions C30_print_file_roundtrip_partial.

(* The working tree after the end-of-file repair (fix b0227a81 = fixes/C30-final-newline.diff) is
   cfg_eof_only: PrintFile appends the text after the last token as it is.  Under guard alone the
   whole file round-trips; without the guard the same witnesses as for cfg_asis refute it. *)
Theorem C30_print_file_roundtrip_eof_only : forall toks,
  wf_toks toks -> guard cfg_eof_only toks -> print_file_rt cfg_eof_only toks = Some (source_text toks).
Proof. exact print_file_roundtrip_eof_only_lemma. Qed.
Print Assumptions C30_print_file_roundtrip_eof_only.

Theorem C30_emit_roundtrip_id_eof_only : forall toks ix,
  wf_toks toks -> guard cfg_eof_only toks -> build cfg_eof_only toks = Some ix ->
  emit_roundtrip ix toks = flatten toks.
Proof. exact emit_roundtrip_id_eof_only_lemma. Qed.
Print Assumptions C30_emit_roundtrip_id_eof_only.

Theorem C30_trivia_partition_eof_only : forall toks ix,
  wf_toks toks -> guard cfg_eof_only toks -> build cfg_eof_only toks = Some ix ->
  tree_trivia ix toks = pieces (trivia_of toks).
Proof. exact trivia_partition_eof_only_lemma. Qed.
Print Assumptions C30_trivia_partition_eof_only.

Theorem C30_eof_only_refuted :
  (exists toks, wf_toks toks /\ print_file_rt cfg_eof_only toks <> Some (source_text toks))
  /\ (exists toks ix, wf_toks toks /\ build cfg_eof_only toks = Some ix /\ emit_roundtrip ix toks <> flatten toks)
  /\ (exists toks ix, wf_toks toks /\ build cfg_eof_only toks = Some ix /\ tree_trivia ix toks <> pieces (trivia_of toks))
  /\ (exists toks ds tail, wf_toks toks /\ print_decls cfg_eof_only toks = Some (ds, tail)
                           /\ concat ds ++ tail <> source_text toks).
Proof. exact eof_only_refuted. Qed.
Print Assumptions C30_eof_only_refuted.

(* per_decl_concat: the per-declaration prints concatenate to the source minus the trailing trivia *)
Theorem C30_per_decl_concat : forall toks,
  wf_toks toks ->
  exists ds tail, print_decls cfg_fixed toks = Some (ds, tail) /\ concat ds ++ tail = source_text toks.
Proof. exact per_decl_concat_lemma. Qed.
Print Assumptions C30_per_decl_concat.

Theorem C30_per_decl_concat_refuted :
  exists toks ds tail, wf_toks toks /\ print_decls cfg_asis toks = Some (ds, tail) /\
                       concat ds ++ tail <> source_text toks.
Proof. exact per_decl_refuted_asis. Qed.
Print Assumptions C30_per_decl_concat_refuted.

(* non-vacuity: a guarded source with trivia in every kind of list *)
Definition c30_example : list tok :=
  [Leaf 1 COther [109]; Leaf 2 CSpace [32];
   Fused 3 12 BBraces [123] [125]
     [Leaf 4 CNewline [10]; Leaf 5 CLine [47; 47; 99]; Leaf 6 CNewline [10]; Leaf 7 CNewline [10];
      Leaf 8 COther [120]; Leaf 9 CSemi [59]; Leaf 10 CSpace [32]; Leaf 11 CLine [47; 47; 116]];
   Leaf 13 CNewline [10]].

Example C30_nonvacuous :
  exists ix, build cfg_asis c30_example = Some ix
             /\ tree_trivia ix c30_example = pieces (trivia_of c30_example)
             /\ length (trivia_of c30_example) = 8%nat
             /\ print_file_rt cfg_asis c30_example = Some (source_text c30_example).
Proof. eexists. split; [vm_compute; reflexivity|]. split; [vm_compute; reflexivity|]. split; vm_compute; reflexivity. Qed.
