(* C40 - Interval maps match a naive model.  Statements only; proofs are in Proofs/Interval.v
   (Intersect) and Proofs/IntervalNest.v (Nesting).

   [go_run c ops] runs a history of Intersect.Insert calls (start, end, value) on the model with
   configuration c and returns the tree, the heap of backing arrays, the flags the calls returned
   and a ghost flag that is true when some call went through one of the two places where the code
   as it is differs from the repaired code (gap test on adjacent entries; append to a slice with
   spare capacity). [nest_run c ops] is the same for Nesting.Insert (ghost flag: a set that already
   holds an interval with the same End, or an interval behind the first candidate that starts
   inside the new one). [asis] is the tree as it is, [repaired] the code after the proposed repairs. *)
From Coq Require Import List ZArith Bool Sorting.Permutation.
From PV Require Import Model.Interval Proofs.Interval Proofs.IntervalNest.
Import ListNotations.
Open Scope Z_scope.

(* ------------------------------------------------------------------ Intersect, the tree as it is *)
(* entries are not always sorted / disjoint / non-empty: [0,0], [1,1], then [0,1] *)
Theorem C40_entries_sorted_disjoint_refuted :
  exists ops t h flags hz, Forall valid_op ops /\ go_run asis ops = Some (t, h, flags, hz)
                           /\ ~ sorted_disjoint (ranges (go_entries t h)).
Proof. exact entries_sorted_disjoint_refuted_lemma. Qed.
Print Assumptions C40_entries_sorted_disjoint_refuted.

Theorem C40_get_eq_naive_refuted :
  exists ops t h flags hz q, Forall valid_op ops /\ go_run asis ops = Some (t, h, flags, hz)
                             /\ values_of (go_get t h q) <> naive ops q.
Proof. exact get_eq_naive_refuted_lemma. Qed.
Print Assumptions C40_get_eq_naive_refuted.

(* independent second defect: shared backing arrays; the entries themselves stay well formed *)
Theorem C40_get_eq_naive_aliasing_refuted :
  exists ops t h flags hz q, Forall valid_op ops /\ go_run asis ops = Some (t, h, flags, hz)
                             /\ sorted_disjoint (ranges (go_entries t h))
                             /\ values_of (go_get t h q) <> naive ops q.
Proof. exact get_eq_naive_aliasing_refuted_lemma. Qed.
Print Assumptions C40_get_eq_naive_aliasing_refuted.

Theorem C40_insert_disjoint_flag_refuted :
  exists ops t h flags hz, Forall valid_op ops /\ go_run asis ops = Some (t, h, flags, hz)
                           /\ flags <> naive_flags [] ops.
Proof. exact insert_disjoint_flag_refuted_lemma. Qed.
Print Assumptions C40_insert_disjoint_flag_refuted.

(* what holds for the tree as it is: the whole property, for every history that never goes through
   one of the two defective places (ghost flag false) *)
Theorem C40_intersect_partial : forall ops t h flags,
  go_run asis ops = Some (t, h, flags, false) ->
  sorted_disjoint (ranges (go_entries t h))
  /\ (forall q, values_of (go_get t h q) = naive ops q)
  /\ flags = naive_flags [] ops.
Proof. exact intersect_partial_lemma. Qed.
Print Assumptions C40_intersect_partial.

(* the same for any mixture of repaired and unrepaired places *)
Theorem C40_intersect_guarded : forall c ops t h flags hz,
  go_run c ops = Some (t, h, flags, hz) ->
  fix_clip c = true \/ hz = false -> fix_gap c = true \/ hz = false ->
  sorted_disjoint (ranges (go_entries t h))
  /\ (forall q, values_of (go_get t h q) = naive ops q)
  /\ flags = naive_flags [] ops.
Proof. exact intersect_guarded_lemma. Qed.
Print Assumptions C40_intersect_guarded.

(* Insert panics exactly when some interval has start > end (any configuration) *)
Theorem C40_insert_panics_iff : forall c ops, go_run c ops = None <-> ~ Forall valid_op ops.
Proof. exact go_run_panics_iff. Qed.
Print Assumptions C40_insert_panics_iff.

(* ------------------------------------------------------------------ Intersect, repaired *)
Theorem C40_entries_sorted_disjoint_repaired : forall ops t h flags hz,
  go_run repaired ops = Some (t, h, flags, hz) -> sorted_disjoint (ranges (go_entries t h)).
Proof. exact entries_sorted_disjoint_repaired_lemma. Qed.
Print Assumptions C40_entries_sorted_disjoint_repaired.

Theorem C40_get_eq_naive_repaired : forall ops t h flags hz,
  go_run repaired ops = Some (t, h, flags, hz) -> forall q, values_of (go_get t h q) = naive ops q.
Proof. exact get_eq_naive_repaired_lemma. Qed.
Print Assumptions C40_get_eq_naive_repaired.

Theorem C40_insert_disjoint_flag_repaired : forall ops t h flags hz,
  go_run repaired ops = Some (t, h, flags, hz) -> flags = naive_flags [] ops.
Proof. exact insert_disjoint_flag_repaired_lemma. Qed.
Print Assumptions C40_insert_disjoint_flag_repaired.

(* ------------------------------------------------------------------ Nesting, the tree as it is *)
(* [3,10], [5,6], then [2,4] end up in one set although [2,4] and [3,10] overlap partially *)
Theorem C40_nesting_sets_laminar_refuted :
  exists ops, Forall valid_op ops /\ ~ Forall laminar (fst (nest_run asis ops)).
Proof. exact nesting_sets_laminar_refuted_lemma. Qed.
Print Assumptions C40_nesting_sets_laminar_refuted.

(* [0,10] then [5,10]: the second overwrites the first *)
Theorem C40_nesting_partition_refuted :
  exists ops, Forall valid_op ops /\ ~ Permutation (concat (fst (nest_run asis ops))) (map op_entry ops).
Proof. exact nesting_partition_refuted_lemma. Qed.
Print Assumptions C40_nesting_partition_refuted.

Theorem C40_nesting_partial : forall ops sets,
  Forall valid_op ops -> nest_run asis ops = (sets, false) ->
  Forall laminar sets /\ Permutation (concat sets) (map op_entry ops).
Proof. exact nesting_partial_lemma. Qed.
Print Assumptions C40_nesting_partial.

Theorem C40_nesting_guarded : forall c ops sets hz,
  Forall valid_op ops -> nest_run c ops = (sets, hz) ->
  fix_eqend c = true \/ hz = false -> fix_encl c = true \/ hz = false ->
  Forall laminar sets /\ Permutation (concat sets) (map op_entry ops).
Proof. exact nesting_guarded_lemma. Qed.
Print Assumptions C40_nesting_guarded.

(* ------------------------------------------------------------------ Nesting, repaired *)
Theorem C40_nesting_sets_laminar_repaired : forall ops, Forall valid_op ops ->
  Forall laminar (fst (nest_run repaired ops)).
Proof. exact nesting_sets_laminar_repaired_lemma. Qed.
Print Assumptions C40_nesting_sets_laminar_repaired.

Theorem C40_nesting_partition_repaired : forall ops, Forall valid_op ops ->
  Permutation (concat (fst (nest_run repaired ops))) (map op_entry ops).
Proof. exact nesting_partition_repaired_lemma. Qed.
Print Assumptions C40_nesting_partition_repaired.

(* non-vacuity: a history with overlaps, splits and gaps that stays outside the defective places
   (ghost flag false), and the two witnesses do set the ghost flag *)
Example C40_nonvacuous_intersect :
  (exists t h, go_run asis [(0, 9, 1%nat); (30, 39, 2%nat); (5, 34, 3%nat)]
               = Some (t, h, [true; true; false], false)
               /\ go_entries t h = [(0, 4, [1]%nat, 1%nat); (5, 9, [1; 3]%nat, 2%nat); (10, 29, [3]%nat, 1%nat);
                                    (30, 34, [2; 3]%nat, 2%nat); (35, 39, [2]%nat, 1%nat)])
  /\ (exists t h fl, go_run asis w_gap = Some (t, h, fl, true))
  /\ (exists t h fl, go_run asis w_alias = Some (t, h, fl, true)).
Proof. exact intersect_examples. Qed.

Example C40_nonvacuous_nesting :
  nest_run asis [(1, 10, 1%nat); (5, 15, 2%nat); (4, 9, 3%nat); (9, 11, 4%nat)]
  = ([[mkE 4 9 3%nat; mkE 1 10 1%nat]; [mkE 9 11 4%nat; mkE 5 15 2%nat]], false)
  /\ snd (nest_run asis [(0, 10, 1%nat); (5, 10, 2%nat)]) = true
  /\ snd (nest_run asis [(3, 10, 1%nat); (5, 6, 2%nat); (2, 4, 3%nat)]) = true.
Proof. exact nesting_examples. Qed.
