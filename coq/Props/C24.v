(* C24 - Cloned parse results are independent deep copies.  Statements about the model of the
   PINNED code (Model/Clone.v, clone); proofs are in Proofs/Clone.v.  The pinned Clone gives the
   copy of a result WITHOUT AST a non-nil empty index and no placeholder node, so the lookup
   clause is refuted for such results and holds for every result that has an index. *)
From Coq Require Import List NArith Bool.
From PV Require Import Model.Clone Proofs.Clone.
Import ListNotations.

(* REFUTED: a result without AST answers every lookup with its placeholder node, its clone with nil *)
Theorem C24_clone_index_complete_refuted :
  exists g r p ko kc,
    wf_as CFile (r_proto r) = true /\ key_at (r_proto r) p = Some ko /\ key_at (r_proto (clone g r)) p = Some kc /\
    node_of r ko = Some 7%N /\ node_of (clone g r) kc = None.
Proof. exact clone_index_complete_refuted_lemma. Qed.
Print Assumptions C24_clone_index_complete_refuted.

(* PARTIAL, exact guard (the result has an index, i.e. it was built from an AST): at every key
   position p of the descriptor tree - an element of any kind, the extensions statement of an
   extension range, an uninterpreted option, an option name part, at any depth - the clone's index
   answers for the clone's message what the original's index answers for the original's message *)
Theorem C24_clone_index_complete_partial :
  forall g r look p ko kc,
    r_nodes r = Some look -> wf_as CFile (r_proto r) = true ->
    key_at (r_proto r) p = Some ko -> key_at (r_proto (clone g r)) p = Some kc ->
    node_of (clone g r) kc = node_of r ko.
Proof. exact clone_index_complete_partial_lemma. Qed.
Print Assumptions C24_clone_index_complete_partial.

(* the clone's descriptor has the content of the original's *)
Theorem C24_clone_proto_equal : forall g r, erase (r_proto (clone g r)) = erase (r_proto r).
Proof. exact clone_proto_equal_lemma. Qed.
Print Assumptions C24_clone_proto_equal.

(* no proto object of the clone is an object of the original (allocated before generation g) *)
Theorem C24_clone_independent :
  forall g r a, older g (r_proto r) -> In a (addrs_of (r_proto (clone g r))) -> ~ In a (addrs_of (r_proto r)).
Proof. exact clone_independent_lemma. Qed.
Print Assumptions C24_clone_independent.

(* abstract heap: whatever is written to any object of the clone, the original's descriptor is
   still stored in the heap exactly as before *)
Theorem C24_clone_heap_independent :
  forall g r h a c,
    older g (r_proto r) -> stored h (r_proto r) -> In a (addrs_of (r_proto (clone g r))) ->
    stored (write h a c) (r_proto r).
Proof. exact clone_heap_independent_lemma. Qed.
Print Assumptions C24_clone_heap_independent.

(* the clone's index is a new map that knows only the clone's own messages *)
Theorem C24_clone_index_fresh :
  forall g r m k, r_nodes (clone g r) = Some m -> fst (key_addr k) <> g -> m k = None.
Proof. exact clone_index_fresh_lemma. Qed.
Print Assumptions C24_clone_index_fresh.

(* non-vacuity: a file with one message that has an extension range whose options are shared
   with nothing, one uninterpreted option with two name parts; every lookup is carried over *)
Example C24_nonvacuous :
  let o := fun n : nat => (0%N, [SOpt n]) in
  let tree := Elem CFile (o 0) None 0%N
                [[Elem CMsg (o 1) None 0%N
                    [[]; []; [Elem CExtRange (o 2) (Some (o 3, 0%N, [UOpt (o 4) 0%N [(o 5, 0%N); (o 6, 0%N)]])) 0%N []]; []; []; []; []]];
                 []; []; []] in
  let index := [(KMsg (o 0), 10%N); (KMsg (o 1), 11%N); (KMsg (o 2), 12%N); (KExts (o 2), 13%N);
                (KMsg (o 4), 14%N); (KMsg (o 5), 15%N); (KMsg (o 6), 16%N)] in
  let r := Result (Some 0%N) tree (Some (assoc index)) None in
  let r' := clone 1%N r in
  wf_as CFile tree = true /\
  map (fun p => match key_at (r_proto r') p with Some k => node_of r' k | None => Some 99%N end)
      [PHere WSelf; PChild 0 0 (PHere WSelf); PChild 0 0 (PChild 2 0 (PHere WSelf)); PChild 0 0 (PChild 2 0 (PHere WExts));
       PChild 0 0 (PChild 2 0 (PHere (WOpt 0))); PChild 0 0 (PChild 2 0 (PHere (WPart 0 1)))]
  = [Some 10%N; Some 11%N; Some 12%N; Some 13%N; Some 14%N; Some 16%N] /\
  node_of r' (KMsg (o 1)) = None.
Proof. repeat split; vm_compute; reflexivity. Qed.
