(* C41 - Topological sort and prefix trie match their specifications.
   Statements only; proofs are in Proofs/Toposort.v and Proofs/Trie.v. *)
From Coq Require Import List Arith NArith Bool.
From PV Require Import Model.Toposort Model.Trie Proofs.Toposort Proofs.Trie.
Import ListNotations.

(* ------------------------------------------------------------------ toposort *)
(* the fuel the model gives to the loop always suffices *)
Theorem C41_sort_terminates : forall g roots, sort g roots <> TOutOfFuel.
Proof. exact sort_terminates_lemma. Qed.
Print Assumptions C41_sort_terminates.

(* whenever Sort completes: every reachable node exactly once, each after all of its children *)
Theorem C41_sort_ok_spec : forall g roots out, sort g roots = TOk out ->
  NoDup out /\ (forall v, In v out <-> reach g roots v) /\ (forall a b, In a out -> edge g a b -> before out b a).
Proof. exact sort_ok_spec_lemma. Qed.
Print Assumptions C41_sort_ok_spec.

(* for any DAG (no cycle reachable from the roots) it does complete *)
Theorem C41_sort_dag_spec : forall g roots, ~ reachable_cycle g roots ->
  exists out, sort g roots = TOk out /\ NoDup out /\ (forall v, In v out <-> reach g roots v)
              /\ (forall a b, In a out -> edge g a b -> before out b a).
Proof. exact sort_dag_spec_lemma. Qed.
Print Assumptions C41_sort_dag_spec.

(* exactly the inputs with a cycle reachable from the roots panic, and the node named by the panic
   is reachable and lies on a cycle *)
Theorem C41_sort_cyclic_panics_iff : forall g roots,
  (reachable_cycle g roots <-> exists s v, sort g roots = TPanic s v)
  /\ (forall s v, sort g roots = TPanic s v -> reach g roots v /\ path g v v).
Proof. exact sort_cyclic_panics_iff_lemma. Qed.
Print Assumptions C41_sort_cyclic_panics_iff.

(* the property's clause for cyclic input (terminate and yield each reachable node once) is false for this code *)
Theorem C41_sort_cyclic_yields_all_refuted :
  ~ (forall g roots, exists out, sort g roots = TOk out /\ NoDup out /\ forall v, In v out <-> reach g roots v).
Proof. exact sort_cyclic_yields_all_refuted_lemma. Qed.
Print Assumptions C41_sort_cyclic_yields_all_refuted.

(* ------------------------------------------------------------------ trie *)
Theorem C41_trie_prefixes_total : forall kvs q, trie_prefixes (trie_run trie_empty kvs) q <> None.
Proof. exact trie_prefixes_total_lemma. Qed.
Print Assumptions C41_trie_prefixes_total.

(* Prefixes lists exactly the inserted keys that are prefixes of the query, shortest first, each with
   the value of its last insertion *)
Theorem C41_trie_prefixes_all_in_order : forall kvs q,
  Forall (fun kv => Bytes_key (fst kv)) kvs -> Bytes_key q ->
  trie_prefixes (trie_run trie_empty kvs) q = Some (spec_prefixes kvs q).
Proof. exact trie_prefixes_all_in_order_lemma. Qed.
Print Assumptions C41_trie_prefixes_all_in_order.

(* Get returns the longest inserted key that is a prefix of the query (with its latest value), or
   the zero values when there is none *)
Theorem C41_trie_get_longest_prefix : forall kvs q,
  Forall (fun kv => Bytes_key (fst kv)) kvs -> Bytes_key q ->
  exists p v, trie_get (trie_run trie_empty kvs) q = Some (p, v) /\
    (((forall n, last_value kvs (firstn n q) = None) /\ p = [] /\ v = 0)
     \/ (exists n, n <= length q /\ p = firstn n q /\ last_value kvs p = Some v
                   /\ forall m, n < m -> m <= length q -> last_value kvs (firstn m q) = None)).
Proof. exact trie_get_longest_prefix_lemma. Qed.
Print Assumptions C41_trie_get_longest_prefix.

(* non-vacuity *)
Example C41_nonvacuous_sort :
  sort [[1; 2]; [3]; [3]; []] [0] = TOk [3; 2; 1; 0]
  /\ sort [[1]; [2]; [0]] [0] = TPanic [0; 1; 2] 0
  /\ ~ reachable_cycle [[1; 2]; [3]; [3]; []] [0] /\ reachable_cycle [[1]; [2]; [0]] [0].
Proof. exact sort_examples. Qed.

Example C41_nonvacuous_trie :
  let kvs := [([97]%N, 1); ([97; 98]%N, 2); ([], 3); ([97; 99]%N, 4); ([97]%N, 5)] in
  Forall (fun kv => Bytes_key (fst kv)) kvs /\
  trie_prefixes (trie_run trie_empty kvs) [97; 98; 99]%N = Some [([], 3); ([97]%N, 5); ([97; 98]%N, 2)]
  /\ trie_get (trie_run trie_empty kvs) [98]%N = Some ([], 3).
Proof. exact trie_examples. Qed.
