(* C41 - Topological sort and prefix trie match their specifications.
   Statements only; proofs are in Proofs/Toposort.v and Proofs/Trie.v. *)
From Coq Require Import List Arith NArith Bool.
From PV Require Import Model.Toposort Model.Trie Proofs.Toposort Proofs.Trie.
Import ListNotations.

(* ------------------------------------------------------------------ toposort *)
(* the fuel the model gives to the loop always suffices *)
Theorem C41_sort_terminates : forall g roots, sort g roots <> TOutOfFuel.
Proof. exact sort_terminates_lemma. Qed.
Print Assumptions C41_sort_terminates.

(* whenever Sort completes: every reachable node exactly once, each after all of its children *)
Theorem C41_sort_ok_spec : forall g roots out, sort g roots = TOk out ->
  NoDup out /\ (forall v, In v out <-> reach g roots v) /\ (forall a b, In a out -> edge g a b -> before out b a).
Proof. exact sort_ok_spec_lemma. Qed.
Print Assumptions C41_sort_ok_spec.

(* for any DAG (no cycle reachable from the roots) it does complete *)
Theorem C41_sort_dag_spec : forall g roots, ~ reachable_cycle g roots ->
  exists out, sort g roots = TOk out /\ NoDup out /\ (forall v, In v out <-> reach g roots v)
              /\ (forall a b, In a out -> edge g a b -> before out b a).
Proof. exact sort_dag_spec_lemma. Qed.
Print Assumptions C41_sort_dag_spec.

(* exactly the inputs with a cycle reachable from the roots panic, and the node named by the panic
   is reachable and lies on a cycle *)
Theorem C41_sort_cyclic_panics_iff : forall g roots,
  (reachable_cycle g roots <-> exists s v, sort g roots = TPanic s v)
  /\ (forall s v, sort g roots = TPanic s v -> reach g roots v /\ path g v v).
Proof. exact sort_cyclic_panics_iff_lemma. Qed.
Print Assumptions C41_sort_cyclic_panics_iff.

(* the property's clause for cyclic input (terminate and yield each reachable node once) is false for this code *)
Theorem C41_sort_cyclic_yields_all_refuted :
  ~ (forall g roots, exists out, sort g roots = TOk out /\ NoDup out /\ forall v, In v out <-> reach g roots v).
Proof. exact sort_cyclic_yields_all_refuted_lemma. Qed.
Print Assumptions C41_sort_cyclic_yields_all_refuted.

(* ---- the Sorter as a reusable object (one Sorter / one iter.Seq used several times) ----
   [sorter_use s g roots lim] is one iteration of s.Sort(roots, dag): lim = None takes every element,
   Some k breaks on the k-th; it returns what the consumer saw and the Sorter afterwards. *)
(* the deferred reset: after ANY use - complete, abandoned after any prefix, panicked - and from any
   state, the Sorter is in its initial state *)
Theorem C41_sorter_state_reset_after_any_prefix : forall s g roots lim,
  snd (sorter_use s g roots lim) = sorter_init.
Proof. exact sorter_state_reset_after_any_prefix_lemma. Qed.
Print Assumptions C41_sorter_state_reset_after_any_prefix.

(* hence every iteration in a history of uses of one Sorter behaves like the first one on a new Sorter *)
Theorem C41_sorter_history_fresh : forall g uses,
  sorter_history sorter_init g uses
  = map (fun u : list nat * option nat => fst (sorter_use sorter_init g (fst u) (snd u))) uses.
Proof. exact sorter_history_fresh_lemma. Qed.
Print Assumptions C41_sorter_history_fresh.

(* a complete iteration is the sort of the theorems above *)
Theorem C41_sorter_use_complete : forall g roots,
  match sort g roots with
  | TOk o => fst (sorter_use sorter_init g roots None) = UDone o
  | TPanic s v => exists o, fst (sorter_use sorter_init g roots None) = UPanic o s v
  | TOutOfFuel => False
  end.
Proof. exact sorter_use_complete_lemma. Qed.
Print Assumptions C41_sorter_use_complete.

(* an iteration abandoned on its k-th element saw exactly the first k elements of the complete one *)
Theorem C41_sorter_use_cut : forall g roots k, 1 <= k ->
  fst (sorter_use sorter_init g roots (Some k)) = cut k (fst (sorter_use sorter_init g roots None)).
Proof. exact sorter_use_cut_lemma. Qed.
Print Assumptions C41_sorter_use_cut.

(* ------------------------------------------------------------------ trie *)
Theorem C41_trie_prefixes_total : forall kvs q, trie_prefixes (trie_run trie_empty kvs) q <> None.
Proof. exact trie_prefixes_total_lemma. Qed.
Print Assumptions C41_trie_prefixes_total.

(* Prefixes lists exactly the inserted keys that are prefixes of the query, shortest first, each with
   the value of its last insertion *)
Theorem C41_trie_prefixes_all_in_order : forall kvs q,
  Forall (fun kv => Bytes_key (fst kv)) kvs -> Bytes_key q ->
  trie_prefixes (trie_run trie_empty kvs) q = Some (spec_prefixes kvs q).
Proof. exact trie_prefixes_all_in_order_lemma. Qed.
Print Assumptions C41_trie_prefixes_all_in_order.

(* Get returns the longest inserted key that is a prefix of the query (with its latest value), or
   the zero values when there is none *)
Theorem C41_trie_get_longest_prefix : forall kvs q,
  Forall (fun kv => Bytes_key (fst kv)) kvs -> Bytes_key q ->
  exists p v, trie_get (trie_run trie_empty kvs) q = Some (p, v) /\
    (((forall n, last_value kvs (firstn n q) = None) /\ p = [] /\ v = 0)
     \/ (exists n, n <= length q /\ p = firstn n q /\ last_value kvs p = Some v
                   /\ forall m, n < m -> m <= length q -> last_value kvs (firstn m q) = None)).
Proof. exact trie_get_longest_prefix_lemma. Qed.
Print Assumptions C41_trie_get_longest_prefix.

(* non-vacuity *)
Example C41_nonvacuous_sort :
  sort [[1; 2]; [3]; [3]; []] [0] = TOk [3; 2; 1; 0]
  /\ sort [[1]; [2]; [0]] [0] = TPanic [0; 1; 2] 0
  /\ ~ reachable_cycle [[1; 2]; [3]; [3]; []] [0] /\ reachable_cycle [[1]; [2]; [0]] [0].
Proof. exact sort_examples. Qed.

Example C41_nonvacuous_sorter :
  sorter_history sorter_init [[1]; [2]; [3]; []] [([0], Some 2); ([3], None); ([0], None)]
  = [UStopped [3; 2]; UDone [3]; UDone [3; 2; 1; 0]]
  /\ sorter_history sorter_init [[1]; [0]; []] [([0], None); ([2], None)] = [UPanic [] [0; 1] 0; UDone [2]].
Proof. exact sorter_examples. Qed.

Example C41_nonvacuous_trie :
  let kvs := [([97]%N, 1); ([97; 98]%N, 2); ([], 3); ([97; 99]%N, 4); ([97]%N, 5)] in
  Forall (fun kv => Bytes_key (fst kv)) kvs /\
  trie_prefixes (trie_run trie_empty kvs) [97; 98; 99]%N = Some [([], 3); ([97]%N, 5); ([97; 98]%N, 2)]
  /\ trie_get (trie_run trie_empty kvs) [98]%N = Some ([], 3).
Proof. exact trie_examples. Qed.
