(* C37 - Diagnostic reports survive serialization.  Statements only; proofs are in Proofs/ReportCodec.v.
   The model (Model/ReportCodec.v) has one switch per proposed repair; asis = the pinned code,
   repaired = the code after the three-line repair.  roundtrip r = from_proto (to_proto r), with
   None standing for a panic inside ToProto. *)
From Coq Require Import List ZArith NArith Bool.
From PV Require Import Model.ReportCodec Proofs.ReportCodec.
Import ListNotations.
Open Scope Z_scope.

(* The code as it is does NOT have the property: four smallest well-formed reports, one per failing class,
   with what the decoder answers.  w_eof: empty span at the end of a file; w_empty: the only span of an
   empty file; w_ice: level ICE; w_text: an ordinary span that is not the whole file (ToProto stores the
   text of the span as the text of the file). *)
Theorem C37_report_roundtrip_refuted :
  (wf w_eof /\ roundtrip w_eof = Some (Err (EOutOfBounds 0 1 3 3) [])) /\
  (wf w_empty /\ roundtrip w_empty = Some (Err (EOutOfBounds 0 0 0 0) [])) /\
  (wf w_ice /\ roundtrip w_ice = Some (Err (EInvalidLevel 1) [])) /\
  (wf w_text /\ roundtrip w_text = Some (Err (EOutOfBounds 0 0 1 2) []) /\
   to_proto w_text = Some (mkpreport [mkpfile [97]%N [98]%N]
     [mkpdiag [109]%N [] 2 [] [mkpannot 0 1 2 [] true false []] [] [] []])).
Proof. exact report_roundtrip_refuted_lemma. Qed.
Print Assumptions C37_report_roundtrip_refuted.

Theorem C37_report_roundtrip_refuted_exists :
  exists r, wf r /\ forall p, to_proto r = Some p -> from_proto p <> Ok (map forget_sort r).
Proof. exact report_roundtrip_refuted_exists. Qed.
Print Assumptions C37_report_roundtrip_refuted_exists.

(* ... and has it exactly under the guards of its three unrepaired places: no ICE, every span starts
   before the end of its file, and the first snippet that mentions a path spans the whole file. *)
Theorem C37_report_roundtrip_partial : forall r, wf r -> guard asis r ->
  exists p, to_proto r = Some p /\ from_proto p = Ok (map forget_sort r).
Proof. exact report_roundtrip_partial_lemma. Qed.
Print Assumptions C37_report_roundtrip_partial.

(* The repaired code has the property as stated, for every well-formed report. *)
Theorem C37_report_roundtrip_repaired : forall r, wf r ->
  exists p, to_proto_v repaired r = Some p /\ from_proto_v repaired p = Ok (map forget_sort r).
Proof. exact report_roundtrip_repaired_lemma. Qed.
Print Assumptions C37_report_roundtrip_repaired.

(* Both are instances of one theorem over all eight combinations of the repairs. *)
Theorem C37_roundtrip_all_variants : forall v r, wf r -> guard v r ->
  roundtrip_v v r = Some (Ok (map forget_sort r)).
Proof. exact roundtrip_v_lemma. Qed.
Print Assumptions C37_roundtrip_all_variants.

(* each repair removes its own witness and not the others *)
Theorem C37_repairs_independent :
  roundtrip_v (mkvar true false false) w_text = Some (Ok (map forget_sort w_text)) /\
  roundtrip_v (mkvar true false false) w_eof <> Some (Ok (map forget_sort w_eof)) /\
  roundtrip_v (mkvar true false false) w_ice <> Some (Ok (map forget_sort w_ice)) /\
  roundtrip_v (mkvar false true false) w_eof = Some (Ok (map forget_sort w_eof)) /\
  roundtrip_v (mkvar false true false) w_empty = Some (Ok (map forget_sort w_empty)) /\
  roundtrip_v (mkvar false true false) w_text <> Some (Ok (map forget_sort w_text)) /\
  roundtrip_v (mkvar false false true) w_ice = Some (Ok (map forget_sort w_ice)) /\
  roundtrip_v (mkvar false false true) w_eof <> Some (Ok (map forget_sort w_eof)).
Proof. exact repairs_independent_lemma. Qed.
Print Assumptions C37_repairs_independent.

(* non-vacuity: a two-file report with a tag, notes, help, debug, a page break and an edit satisfies wf
   and the guard of the code as it is, and round-trips *)
Example C37_nonvacuous : wf ex_ok /\ guard asis ex_ok /\ roundtrip ex_ok = Some (Ok (map forget_sort ex_ok)).
Proof. exact ex_ok_wf_guard. Qed.

(* no information the property lists is lost in the message: well-formed reports with the same serialization
   agree on every field but sortOrder (a corollary of the round trip) *)
Theorem C37_to_proto_injective : forall r1 r2, wf r1 -> wf r2 ->
  to_proto_v repaired r1 = to_proto_v repaired r2 -> map forget_sort r1 = map forget_sort r2.
Proof. exact to_proto_injective_lemma. Qed.
Print Assumptions C37_to_proto_injective.
