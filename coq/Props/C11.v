(* C11 - AST reproduces the source exactly (lexer level).  Statements only; proofs in
   Proofs/Lexer.v.  What is proved: whenever the lexer accepts an input, its items (tokens and
   comments, in order, ending with the EOF token) tile the input after the byte order mark: each
   item is preceded by a run of whitespace and covers exactly its raw text, nothing is skipped
   and nothing overlaps.  That the AST built by the goyacc actions contains every token exactly
   once in order is exercised by the harness (the test suite's printAST walk must reproduce the
   bytes), not modelled. *)
From Coq Require Import List NArith ZArith Bool.
From PV Require Import Model.Lexer Proofs.Lexer.
Import ListNotations.

Theorem C11_lex_tiles : forall data items, lex data = LDone items -> Tiles 0 (strip_bom data) items.
Proof. exact lex_tiles_lemma. Qed.
Print Assumptions C11_lex_tiles.

(* tiling, spelled out on the bytes: leading whitespace ++ raw text of every item, in order,
   is the input; item offsets are where their raw text starts; the last item is the EOF token at
   the end of the input (its leading whitespace is the trailing whitespace of the file) *)
Theorem C11_tiles_rebuild : forall pos rest l, Tiles pos rest l ->
  exists cs, chunks_ok pos cs l /\ rest = flatten_chunks cs /\
             exists e, last l e = mk (IToken TEof) (pos + length rest) 0.
Proof. exact tiles_rebuild_lemma. Qed.
Print Assumptions C11_tiles_rebuild.

(* the byte order mark is the one exception: it is dropped before lexing and only then *)
Theorem C11_bom_only_exception : forall data,
  strip_bom data = data \/ data = [239; 187; 191]%N ++ strip_bom data.
Proof.
  intros data. unfold strip_bom. destruct data as [|a [|b [|c r]]]; auto.
  destruct (a =? 239)%N eqn:Ea; destruct (b =? 187)%N eqn:Eb; destruct (c =? 191)%N eqn:Ec; cbn; auto.
  apply N.eqb_eq in Ea, Eb, Ec. subst. right. reflexivity.
Qed.
Print Assumptions C11_bom_only_exception.

Example C11_nonvacuous :
  lex [109; 32; 47; 42; 120; 42; 47; 10; 34; 92; 110; 34; 59]%N =
  LDone [mk (IToken TName) 0 1; mk (IComment true) 2 5; mk (IToken (TStr [10%N])) 8 4;
         mk (IToken (TRune 59%N)) 12 1; mk (IToken TEof) 13 0].
Proof. exact lex_example. Qed.

(* the three statements composed, end to end: an accepted input is the optional byte order mark followed by the
   concatenation, in order, of each item's leading whitespace and raw text, and the last item is the EOF token
   at the end of the input *)
Theorem C11_lex_rebuilds_source : forall data items, lex data = LDone items ->
  exists cs, chunks_ok 0 cs items /\
             (data = flatten_chunks cs \/ data = [239; 187; 191]%N ++ flatten_chunks cs) /\
             exists e, last items e = mk (IToken TEof) (length (strip_bom data)) 0.
Proof. exact lex_rebuilds_source_lemma. Qed.
Print Assumptions C11_lex_rebuilds_source.
