(* C24 on the REPAIRED model (clone_fixed: the clone of a result without AST is a result without
   AST with the same placeholder node).  Prepared for the proposed fix; it is not a claim about
   the pinned code.  Statements only. *)
From Coq Require Import List NArith Bool.
From PV Require Import Model.Clone Proofs.Clone.
Import ListNotations.

(* every lookup, on every kind of result *)
Theorem C24r_clone_index_complete :
  forall g r p ko kc,
    wf_as CFile (r_proto r) = true ->
    key_at (r_proto r) p = Some ko -> key_at (r_proto (clone_fixed g r)) p = Some kc ->
    node_of (clone_fixed g r) kc = node_of r ko.
Proof. exact clone_fixed_index_complete_lemma. Qed.
Print Assumptions C24r_clone_index_complete.

Theorem C24r_clone_proto_equal : forall g r, erase (r_proto (clone_fixed g r)) = erase (r_proto r).
Proof. exact clone_fixed_proto_equal_lemma. Qed.
Print Assumptions C24r_clone_proto_equal.

Theorem C24r_clone_independent :
  forall g r a, older g (r_proto r) -> In a (addrs_of (r_proto (clone_fixed g r))) -> ~ In a (addrs_of (r_proto r)).
Proof. exact clone_fixed_independent_lemma. Qed.
Print Assumptions C24r_clone_independent.

Theorem C24r_clone_heap_independent :
  forall g r h a c,
    older g (r_proto r) -> stored h (r_proto r) -> In a (addrs_of (r_proto (clone_fixed g r))) ->
    stored (write h a c) (r_proto r).
Proof. exact clone_fixed_heap_independent_lemma. Qed.
Print Assumptions C24r_clone_heap_independent.

Theorem C24r_clone_index_fresh :
  forall g r m k, r_nodes (clone_fixed g r) = Some m -> fst (key_addr k) <> g -> m k = None.
Proof. exact clone_fixed_index_fresh_lemma. Qed.
Print Assumptions C24r_clone_index_fresh.

(* non-vacuity: the witness of the pinned model now keeps its placeholder *)
Example C24r_nonvacuous :
  node_of (clone_fixed 1%N witness_noast) (KMsg (1%N, [])) = Some 7%N /\
  node_of witness_noast (KMsg (0%N, [])) = Some 7%N.
Proof. split; vm_compute; reflexivity. Qed.
