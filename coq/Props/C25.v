(* C25 - Fast import scanner agrees with the full parser.  Statements only; the proofs are in
   Proofs/FastScanDecls.v, Proofs/FastScanLex.v and Proofs/FastScan.v. *)
From Coq Require Import List NArith ZArith Bool.
From PV Require Import Common.Bytes Model.Utf8 Model.Lexer Model.FastScan Proofs.FastScan.
Import ListNotations.
Open Scope N_scope.

(* (1) the token loop of fastscan.Scan: on the tokens of any list of well-formed declarations
   (imports with their modifier and adjacent literals, package, syntax/edition, and any other
   declaration that does not start with import/package and ends at its first depth-0 semicolon or
   closing brace, brackets balanced) it returns exactly the package and the imports, in order, with
   their flags, and no syntax error *)
Theorem C25_scan_tokens_of_decls : forall ds, wf_decls ds ->
  scan (tokens_of ds) = {| r_pkg := package_of ds; r_imports := imports_of ds; r_errs := [] |}.
Proof. exact scan_tokens_of_decls_lemma. Qed.
Print Assumptions C25_scan_tokens_of_decls.

(* (2) every string literal the full lexer accepts is decoded to the same bytes by the fast
   lexer (quote is the opening quote, rest what follows it; n = bytes up to and including the
   closing quote), and the fast lexer continues at the same place *)
Theorem C25_string_decode_agree : forall quote rest bs n,
  full_decode quote rest = Some (bs, n) -> fast_decode hex_signed quote rest = Some (bs, skipn n rest).
Proof. exact (string_decode_agree_lemma hex_signed hex_signed_ok). Qed.
Print Assumptions C25_string_decode_agree.

(* (2') on every input the full lexer accepts the fast lexer sees the same tokens: same text of
   names and numbers, same decoded strings, same symbols; comments dropped *)
Theorem C25_fast_lex_agree : forall data items, lex data = LDone items ->
  fast_lex hex_signed data = Some (ftoks_of_items (strip_bom data) items).
Proof. exact (fast_lex_agree_lemma hex_signed hex_signed_ok). Qed.
Print Assumptions C25_fast_lex_agree.

(* (1) + (2') end to end *)
Theorem C25_fast_scan_accepted : forall data items ds,
  lex data = LDone items ->
  ftoks_of_items (strip_bom data) items = tokens_of ds ->
  wf_decls ds ->
  fast_scan hex_signed data = Some {| r_pkg := package_of ds; r_imports := imports_of ds; r_errs := [] |}.
Proof. exact (fast_scan_accepted_lemma hex_signed hex_signed_ok). Qed.
Print Assumptions C25_fast_scan_accepted.

(* (3) totality: the fuel of the model never runs out, on any byte string *)
Theorem C25_fast_scan_total : forall data, fast_scan hex_signed data <> None.
Proof. exact (fast_scan_total_lemma hex_signed). Qed.
Print Assumptions C25_fast_scan_total.

Theorem C25_fast_string_total : forall quote rest, fast_decode hex_signed quote rest <> None.
Proof. exact (fast_string_total_lemma hex_signed). Qed.
Print Assumptions C25_fast_string_total.

(* ---- the same for the scanner after the optional hardening patch (strconv.ParseUint on the digits
   of hex and unicode escapes, fixes/C25-fastscan-signed-escapes-optional.diff); the check compares the
   tree with this instance when run with VERIF_C25_MODEL=unsigned ---- *)
Theorem C25_string_decode_agree_unsigned : forall quote rest bs n,
  full_decode quote rest = Some (bs, n) -> fast_decode hex_unsigned quote rest = Some (bs, skipn n rest).
Proof. exact (string_decode_agree_lemma hex_unsigned hex_unsigned_ok). Qed.
Print Assumptions C25_string_decode_agree_unsigned.

Theorem C25_fast_scan_accepted_unsigned : forall data items ds,
  lex data = LDone items ->
  ftoks_of_items (strip_bom data) items = tokens_of ds ->
  wf_decls ds ->
  fast_scan hex_unsigned data = Some {| r_pkg := package_of ds; r_imports := imports_of ds; r_errs := [] |}.
Proof. exact (fast_scan_accepted_lemma hex_unsigned hex_unsigned_ok). Qed.
Print Assumptions C25_fast_scan_accepted_unsigned.

Theorem C25_fast_scan_total_unsigned : forall data, fast_scan hex_unsigned data <> None.
Proof. exact (fast_scan_total_lemma hex_unsigned). Qed.
Print Assumptions C25_fast_scan_total_unsigned.

(* non-vacuity: a file with a public import made of two adjacent literals (one with a hex escape),
   a package, a message whose option value contains the word import inside nested braces, and a
   late import: it is a well-formed declaration list, the full lexer accepts it with exactly those
   tokens, and the scanner model returns the package and both imports *)
Example C25_nonvacuous :
  wf_decls ex_decls /\
  (exists items, lex ex_data = LDone items /\ ftoks_of_items (strip_bom ex_data) items = tokens_of ex_decls) /\
  fast_scan hex_signed ex_data =
    Some {| r_pkg := [120; 46; 121];
            r_imports := [ {| im_path := [97; 65; 98]; im_public := true; im_weak := false; im_option := false |};
                           {| im_path := [122]; im_public := false; im_weak := false; im_option := false |} ];
            r_errs := [] |} /\
  package_of ex_decls = [120; 46; 121] /\
  full_decode 34 [97; 92; 120; 52; 49; 34; 32] = Some ([97; 65], 6%nat).
Proof. exact fastscan_example. Qed.

(* the one place where the scanner and the full lexer differ lies outside the property: a signed
   hex escape is an error for the full lexer *)
Example C25_signed_escape :
  full_decode 34 [92; 120; 43; 53; 34] = None /\
  fast_decode hex_signed 34 [92; 120; 43; 53; 34] = Some ([5], []) /\
  fast_decode hex_unsigned 34 [92; 120; 43; 53; 34] = Some ([92; 120; 43; 53], []).
Proof. exact signed_escape_example. Qed.
