(* C07 - Faults and cancellation are contained (executor level).  Statements only.
   The fault plan is part of the graph: per file, the resolver returns an error or panics, or
   linking fails.  Context cancellation and goroutine liveness are not in the model (see DESIGN.md);
   they are exercised on the implementation by the harness. *)
From Coq Require Import List Arith Bool.
From PV Require Import Model.CompileExec Proofs.CompileExec1 Proofs.CompileExec2 Proofs.CompileExec3 Proofs.CompileExec4.
Import ListNotations.

(* with any fault plan the compilation still terminates: bounded steps and no deadlock *)
Theorem C07_steps_bounded_with_faults : forall g, wf_graph g -> forall par req,
  (forall x, In x req -> x < nfiles g) ->
  forall sched, steps_taken g sched (init par req) <= measure g (max_deg g) (init par req).
Proof. exact compile_steps_bounded. Qed.
Print Assumptions C07_steps_bounded_with_faults.

Theorem C07_can_finish_with_faults : forall g, wf_graph g -> forall par req, 1 <= par ->
  (forall x, In x req -> x < nfiles g) ->
  forall s, reach g par req s -> exists sched, final g (run g sched s) = true.
Proof. exact compile_can_finish. Qed.
Print Assumptions C07_can_finish_with_faults.

(* a fault in any file reachable from the request makes Compile fail, under every schedule *)
Theorem C07_faults_contained : forall g, wf_graph g -> forall par req s,
  (forall x, In x req -> x < nfiles g) -> reach g par req s ->
  (exists x, reachable_from_req g req x /\ (rres g x <> ROk \/ lres g x = false)) ->
  verdict s req = false.
Proof. exact faults_contained. Qed.
Print Assumptions C07_faults_contained.

(* a resolver panic is recorded as that file's PanicError, never as success or as another error *)
Theorem C07_panic_surfaces : forall g, wf_graph g -> forall par req s f r,
  (forall x, In x req -> x < nfiles g) -> reach g par req s ->
  rres g f = RPanic -> tpc (tasks s f) = PDone r -> r = Some FPanic.
Proof. exact panic_surfaces. Qed.
Print Assumptions C07_panic_surfaces.

Definition C07_g : graph :=
  {| nfiles := 3; imports := fun f => match f with 0 => [1; 2] | 1 => [2] | _ => [] end;
     rres := fun f => match f with 2 => RPanic | _ => ROk end; lres := fun _ => true |}.
Example C07_nonvacuous :
  let s := run C07_g (round_robin C07_g 40) (init 2 [0]) in
  final C07_g s = true /\ verdict s [0] = false /\ tpc (tasks s 2) = PDone (Some FPanic).
Proof. vm_compute. repeat split; reflexivity. Qed.
