(* C22 on the REPAIRED model (strip_fixed = strip_file strip_opts_fixed true: recursive strip that
   keeps unknown fields, shallowCopy keeps unknown fields).  Prepared for the proposed fix; it is
   not a claim about the pinned code.  Statements only. *)
From Coq Require Import List NArith Bool.
From PV Require Import Model.Retention Proofs.Retention.
Import ListNotations.
Open Scope N_scope.

(* no source-retention field is left, at any nesting depth *)
Theorem C22r_strip_removes_exactly_source_fields :
  forall g f, wf_elem (f_root f) = true -> no_source (fst (strip_fixed g f)).
Proof. exact fixed_removes_lemma. Qed.
Print Assumptions C22r_strip_removes_exactly_source_fields.

(* ... and nothing else changes: input and result are equal once the source-retention fields are
   deleted from both (with the theorem above: the result IS the input minus those fields) *)
Theorem C22r_strip_preserves_rest :
  forall g f, prune_elem (f_root (fst (strip_fixed g f))) = prune_elem (f_root f).
Proof. exact fixed_preserves_lemma. Qed.
Print Assumptions C22r_strip_preserves_rest.

Theorem C22r_strip_idempotent :
  forall g g' f, strip_fixed g' (fst (strip_fixed g f)) = (fst (strip_fixed g f), false).
Proof. exact fixed_idempotent_lemma. Qed.
Print Assumptions C22r_strip_idempotent.

Theorem C22r_strip_pure :
  forall g f x, In x (file_objs (fst (strip_fixed g f))) -> obj_addr x < g -> In x (file_objs f).
Proof. exact fixed_pure_lemma. Qed.
Print Assumptions C22r_strip_pure.

Theorem C22r_strip_locations_exact :
  forall g f,
    let qs := removed_elem removed_deep [] (f_root f) in
    match f_sci f with
    | Some (a, l :: locs) =>
      if snd (strip_fixed g f)
      then f_sci (fst (strip_fixed g f)) = Some (fresh g a, filter (fun l => negb (under_any qs (fst l))) (l :: locs))
      else fst (strip_fixed g f) = f
    | other => f_sci (fst (strip_fixed g f)) = other
    end.
Proof. exact fixed_locations_lemma. Qed.
Print Assumptions C22r_strip_locations_exact.

(* non-vacuity: the witness of the pinned model; the nested field and its location go as well *)
Example C22r_nonvacuous :
  let f := File (Elem KFile 0 None 1 []
             [[Elem KMsg 1 (Some (2, [(50001, RUnset, VMsg 3 [(1, RUnset, VScalar 5); (2, RSource, VScalar 6)] [8]);
                                      (50002, RSource, VScalar 7)], [9])) 2 [] [[];[];[];[];[];[]]]; []; []; []])
             (Some (4, [([4;0], 1); ([4;0;7], 2); ([4;0;7;50001], 3); ([4;0;7;50001;2], 4); ([4;0;7;50002], 5); ([4;0;7;50002;1], 6)])) in
  wf_elem (f_root f) = true /\
  strip_fixed 10 f =
  (File (Elem KFile 10 None 1 []
           [[Elem KMsg 11 (Some (12, [(50001, RUnset, VMsg 13 [(1, RUnset, VScalar 5)] [8])], [9])) 2 []
               [[];[];[];[];[];[]]]; []; []; []])
        (Some (14, [([4;0], 1); ([4;0;7], 2); ([4;0;7;50001], 3)])), true).
Proof. split; vm_compute; reflexivity. Qed.
