(* C29 - Lexer tokens tile the input.  Statements only; proofs are in Proofs/XLexer*.v.
   [parser_cfg] is the lexer configuration of parser.Parse (Model/XLexerTables.v); [repaired] is the
   lexer of the working tree, i.e. with the two repairs (flush of trailing unrecognised bytes;
   return after the short-escape snippet); [as_is] is the lexer as it was in the pinned tree before
   them.  The theorems about [as_is] are kept as historical lemmas: they record what failed. *)
From Coq Require Import List NArith ZArith Bool.
From PV Require Import Model.XLexer Model.XLexerTables Proofs.XLexerLoop Proofs.XLexer Proofs.XLexerParser Proofs.XLexerBraces.
Import ListNotations.

(* the lexer (with the repairs): for every text the prelude accepts, lexing ends normally (fuel length+1
   is enough, no panic) and the tokens are contiguous and their texts concatenate to the text *)
Theorem C29_tokens_tile : forall s, prelude_ok parser_cfg s ->
  exists ts ds, xlex parser_cfg repaired s = XDone ts ds
                /\ concat (map (text_of s) ts) = s /\ contiguous ts.
Proof. exact tokens_tile_lemma_repaired. Qed.
Print Assumptions C29_tokens_tile.

(* historical, the lexer before the repairs: a text the prelude accepts whose tokens do not cover it (a lone ^) *)
Theorem C29_tokens_tile_refuted :
  exists s ts ds, prelude_ok parser_cfg s /\ xlex parser_cfg as_is s = XDone ts ds
                  /\ concat (map (text_of s) ts) <> s.
Proof. exact tokens_tile_refuted_lemma. Qed.
Print Assumptions C29_tokens_tile_refuted.

(* historical, the lexer before the repairs, whenever its main loop ends normally in state st: the tokens are
   contiguous, and they cover the text exactly when no unrecognised bytes are pending at the end
   or an unclosed bracket makes fuseBraces push (which flushes them) *)
Theorem C29_tokens_tile_partial : forall s st, final_state parser_cfg as_is s = Some st ->
  exists ts ds, xlex parser_cfg as_is s = XDone ts ds /\ contiguous ts
    /\ (concat (map (text_of s) ts) = s <-> ((bad st <= 0)%Z \/ unclosed parser_cfg st <> [])).
Proof. exact tokens_tile_partial_lemma. Qed.
Print Assumptions C29_tokens_tile_partial.

(* historical: ... and its main loop does end normally unless the text ends in a backslash *)
Theorem C29_loop_ends_partial : forall s, prelude_ok parser_cfg s -> last_byte s <> Some 92%N ->
  exists st, final_state parser_cfg as_is s = Some st.
Proof. exact final_state_partial_lemma. Qed.
Print Assumptions C29_loop_ends_partial.

(* historical, the second way the lexer before the repairs leaves text uncovered: the panic inside
   errtoken.InvalidEscape aborts lexing (a quote followed by a backslash) *)
Theorem C29_tokens_tile_refuted_by_panic :
  exists s ts ds, prelude_ok parser_cfg s /\ xlex parser_cfg as_is s = XICE ts ds.
Proof. exact xlex_total_refuted_lemma. Qed.
Print Assumptions C29_tokens_tile_refuted_by_panic.

(* fuel: the model never reports out-of-fuel, for any text, in either variant *)
Theorem C29_xlex_total : forall V s, xlex parser_cfg V s <> XFuel.
Proof. exact xlex_fuel_lemma. Qed.
Print Assumptions C29_xlex_total.

(* texts the prelude declines: exactly one diagnostic, of level Error, and no tokens *)
Theorem C29_prelude_reject_reports_error : forall V s d, xlex parser_cfg V s = XReject d ->
  d_level d = L_Error /\ diag_in (length s) d.
Proof. exact prelude_reject_reports_error_lemma. Qed.
Print Assumptions C29_prelude_reject_reports_error.

(* fuseBraces accounts for every bracket token the main loop remembered in l.braces (the tokens
   pushed with the BracketKeyword action, with their ids and spans): its id is one end of a fused
   pair, or its span is a snippet of an unmatched-delimiter diagnostic of level Error.  This is a
   statement about the model's bracket records; that the records are exactly the bracket tokens
   of the stream is how the model pushes them, and is checked on the implementation by the oracle. *)
Theorem C29_brackets_matched_or_reported : forall tl st st' fz,
  fuse_braces parser_cfg tl st = (st', fz) ->
  forall b, In b (braces st) ->
    (exists p, In p fz /\ (fst p = b_id b \/ snd p = b_id b))
    \/ (exists d, In d (diags st') /\ (d_class d = DUnmatched /\ d_level d = L_Error) /\ In (b_sp b) (d_spans d)).
Proof. exact (fuse_braces_accounts parser_cfg). Qed.
Print Assumptions C29_brackets_matched_or_reported.

(* ... and WHICH tokens are fused: every pair of fuseBraces joins an opening bracket with a closing bracket of the
   same kind, both among the remembered bracket tokens (b_kw o is its own left bracket, b_kw c is not, and the left
   bracket of c is b_kw o); or it joins an opening bracket that is never closed with a token fuseBraces appends for
   it, and then an unmatched-delimiter diagnostic of level Error mentions that opening bracket.  So no bracket is
   ever matched with a bracket of another kind, and none with a bracket facing the same way. *)
Theorem C29_fused_brackets_match : forall tl st st' fz,
  fuse_braces parser_cfg tl st = (st', fz) ->
  forall p, In p fz ->
    (exists o c, In o (braces st) /\ In c (braces st)
       /\ (N.eqb (b_kw o) (kw_left parser_cfg (b_kw o)) = true
           /\ N.eqb (b_kw c) (kw_left parser_cfg (b_kw c)) = false
           /\ N.eqb (b_kw o) (kw_left parser_cfg (b_kw c)) = true)
       /\ p = (b_id o, b_id c))
    \/ (exists o, In o (braces st) /\ N.eqb (b_kw o) (kw_left parser_cfg (b_kw o)) = true /\ fst p = b_id o
          /\ exists d, In d (diags st') /\ (d_class d = DUnmatched /\ d_level d = L_Error) /\ In (b_sp o) (d_spans d)).
Proof. exact (fuse_braces_pairs parser_cfg). Qed.
Print Assumptions C29_fused_brackets_match.

(* non-vacuity *)
Example C29_nonvacuous :
  prelude_ok parser_cfg [97; 123; 34; 120; 34; 125; 32; 94]%N
  /\ xlex parser_cfg repaired [97; 123; 34; 120; 34; 125; 32; 94]%N
     = XDone [ {| o_kind := 3; o_start := 0; o_end := 1; o_kw := 0; o_off := 0 |};
               {| o_kind := 6; o_start := 1; o_end := 2; o_kw := 133; o_off := 2 |};
               {| o_kind := 4; o_start := 2; o_end := 5; o_kw := 0; o_off := 0 |};
               {| o_kind := 6; o_start := 5; o_end := 6; o_kw := 133; o_off := -2 |};
               {| o_kind := 1; o_start := 6; o_end := 7; o_kw := 0; o_off := 0 |};
               {| o_kind := 0; o_start := 7; o_end := 8; o_kw := 0; o_off := 0 |} ]
             [ {| d_level := 2; d_class := DUnrecognized; d_spans := [(7, 8)] |} ].
Proof. exact xlex_example. Qed.

Example C29_brackets_nonvacuous :
  xlex parser_cfg repaired [40; 93; 40]%N
  = XDone [ {| o_kind := 6; o_start := 0; o_end := 1; o_kw := 131; o_off := 4 |};
            {| o_kind := 6; o_start := 1; o_end := 2; o_kw := 119; o_off := 0 |};
            {| o_kind := 6; o_start := 2; o_end := 3; o_kw := 131; o_off := 1 |};
            {| o_kind := 0; o_start := 3; o_end := 3; o_kw := 0; o_off := -1 |};
            {| o_kind := 0; o_start := 3; o_end := 3; o_kw := 0; o_off := -4 |} ]
          [ {| d_level := 2; d_class := DUnmatched; d_spans := [(1, 2)] |};
            {| d_level := 2; d_class := DUnmatched; d_spans := [(0, 1)] |};
            {| d_level := 2; d_class := DUnmatched; d_spans := [(2, 3)] |} ].
Proof. exact xlex_brackets_example. Qed.
