(* C04 - RequiredNumbers after the proposed repair (select on the field's Cardinality()): the full theorem.
   Not part of the claimed set while the repair is not applied to the repository. *)
From Coq Require Import List NArith Bool.
From PV Require Import Model.FeaturesTables Model.Features Model.FieldView Model.RuntimeSpec Proofs.Features.
Import ListNotations.
Open Scope N_scope.

Theorem C04_required_numbers_eq_runtime : forall fields,
  Forall (fun f => wf_field f = true) fields ->
  required_numbers_repaired fields = rt_required_numbers fields.
Proof. exact required_numbers_repaired_eq_runtime_lemma. Qed.
Print Assumptions C04_required_numbers_eq_runtime.
