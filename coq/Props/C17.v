(* C17 - A failed symbol import leaves the table unchanged.  Statements only; the proofs are in
   Proofs/Symbols.v.  The model is the pinned code, which does not satisfy the property: the
   refuted theorems give the witnesses, the partial theorems say what does hold. *)
From Coq Require Import List NArith ZArith Bool.
From PV Require Import Model.Symbols Proofs.Symbols.
Import ListNotations.

(* the property fails even for a file without imports in the root package: an extension-number
   collision is found after the names are committed and the file is marked imported *)
Theorem C17_failed_import_is_noop_refuted_extnum :
  exists f T' e q, deps_settled import [] f /\ import f [] = (T', Err e) /\ observe T' q <> observe [] q.
Proof. exact refuted_extnum_lemma. Qed.
Print Assumptions C17_failed_import_is_noop_refuted_extnum.

(* ... and importing the same file again then succeeds *)
Theorem C17_failed_import_repeats_refuted :
  exists f T' e, deps_settled import [] f /\ import f [] = (T', Err e) /\ import f T' = (T', Ok).
Proof. exact repeats_refuted_lemma. Qed.
Print Assumptions C17_failed_import_repeats_refuted.

(* a dependency imported before the failure stays visible to lookups *)
Theorem C17_failed_import_is_noop_refuted_deps :
  exists h f T' n b q,
    let T := fst (run_ops [] h) in
    import f T = (T', Err (ESym n b)) /\ observe T' q <> observe T q.
Proof. exact (refuted_deps_lemma false). Qed.
Print Assumptions C17_failed_import_is_noop_refuted_deps.

(* the packages registered for the failed file stay: a later import that succeeded before now fails *)
Theorem C17_failed_import_is_noop_refuted_packages :
  exists h f T' n b g,
    let T := fst (run_ops [] h) in
    import f T = (T', Err (ESym n b)) /\
    observe T (QImport g) = ARes Ok /\
    observe T' (QImport g) = ARes (Err (ESym [18%N; 17%N] true)).
Proof. exact (refuted_packages_lemma false). Qed.
Print Assumptions C17_failed_import_is_noop_refuted_packages.

(* what holds: when the packages of the file are registered and its dependencies are imported
   (deps_settled), a name collision leaves the table exactly as it was, for every observation *)
Theorem C17_failed_import_is_noop_partial :
  forall T f T' n b,
    deps_settled import T f -> import f T = (T', Err (ESym n b)) ->
    T' = T /\ forall q, observe T' q = observe T q.
Proof. exact failed_import_is_noop_partial_lemma. Qed.
Print Assumptions C17_failed_import_is_noop_partial.

Theorem C17_failed_import_repeats_partial :
  forall T f T' n b,
    deps_settled import T f -> import f T = (T', Err (ESym n b)) ->
    import f T' = (T', Err (ESym n b)).
Proof. exact failed_import_repeats_partial_lemma. Qed.
Print Assumptions C17_failed_import_repeats_partial.

(* a collision of the package name itself never leaves anything behind, whatever the table *)
Theorem C17_failed_package_collision_keeps_table :
  forall T owner pkg T' e, import_packages T owner pkg = (T', PkgErr e) -> T' = T.
Proof. exact failed_package_collision_keeps_table_lemma. Qed.
Print Assumptions C17_failed_package_collision_keeps_table.

(* non-vacuity of the partial theorems: a settled file whose import fails with a name collision *)
Example C17_partial_nonvacuous :
  let T := fst (import wD0 []) in
  deps_settled import T wD1 /\ import wD1 T = (T, Err (ESym [4%N; 7%N] false)).
Proof. exact partial_nonvacuous. Qed.
