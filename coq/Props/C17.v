(* C17 - A failed symbol import leaves the table unchanged.  Statements only; the proofs are in
   Proofs/Symbols.v.  The model is the pinned code, which does not satisfy the property: the
   refuted theorems give the witnesses, the partial theorems say what does hold. *)
From Coq Require Import List NArith ZArith Bool.
From PV Require Import Model.Symbols Proofs.Symbols Proofs.SymbolsH.
Import ListNotations.

(* the property fails even for a file without imports in the root package: an extension-number
   collision is found after the names are committed and the file is marked imported *)
Theorem C17_failed_import_is_noop_refuted_extnum :
  exists f T' e q, deps_settled import [] f /\ import f [] = (T', Err e) /\ observe T' q <> observe [] q.
Proof. exact refuted_extnum_lemma. Qed.
Print Assumptions C17_failed_import_is_noop_refuted_extnum.

(* ... and importing the same file again then succeeds *)
Theorem C17_failed_import_repeats_refuted :
  exists f T' e, deps_settled import [] f /\ import f [] = (T', Err e) /\ import f T' = (T', Ok).
Proof. exact repeats_refuted_lemma. Qed.
Print Assumptions C17_failed_import_repeats_refuted.

(* a dependency imported before the failure stays visible to lookups *)
Theorem C17_failed_import_is_noop_refuted_deps :
  exists h f T' n b q,
    let T := fst (run_ops [] h) in
    import f T = (T', Err (ESym n b)) /\ observe T' q <> observe T q.
Proof. exact (refuted_deps_lemma false). Qed.
Print Assumptions C17_failed_import_is_noop_refuted_deps.

(* the packages registered for the failed file stay: a later import that succeeded before now fails *)
Theorem C17_failed_import_is_noop_refuted_packages :
  exists h f T' n b g,
    let T := fst (run_ops [] h) in
    import f T = (T', Err (ESym n b)) /\
    observe T (QImport g) = ARes Ok /\
    observe T' (QImport g) = ARes (Err (ESym [18%N; 17%N] true)).
Proof. exact (refuted_packages_lemma false). Qed.
Print Assumptions C17_failed_import_is_noop_refuted_packages.

(* what holds: when the packages of the file are registered and its dependencies are imported
   (deps_settled), a name collision leaves the table exactly as it was, for every observation *)
Theorem C17_failed_import_is_noop_partial :
  forall T f T' n b,
    deps_settled import T f -> import f T = (T', Err (ESym n b)) ->
    T' = T /\ forall q, observe T' q = observe T q.
Proof. exact failed_import_is_noop_partial_lemma. Qed.
Print Assumptions C17_failed_import_is_noop_partial.

Theorem C17_failed_import_repeats_partial :
  forall T f T' n b,
    deps_settled import T f -> import f T = (T', Err (ESym n b)) ->
    import f T' = (T', Err (ESym n b)).
Proof. exact failed_import_repeats_partial_lemma. Qed.
Print Assumptions C17_failed_import_repeats_partial.

(* a collision of the package name itself never leaves anything behind, whatever the table *)
Theorem C17_failed_package_collision_keeps_table :
  forall T owner pkg T' e, import_packages T owner pkg = (T', PkgErr e) -> T' = T.
Proof. exact failed_package_collision_keeps_table_lemma. Qed.
Print Assumptions C17_failed_package_collision_keeps_table.

(* non-vacuity of the partial theorems: a settled file whose import fails with a name collision *)
Example C17_partial_nonvacuous :
  let T := fst (import wD0 []) in
  deps_settled import T wD1 /\ import wD1 T = (T, Err (ESym [4%N; 7%N] false)).
Proof. exact partial_nonvacuous. Qed.

(* ---- the kind of handler.  importH makes the handler explicit (fail-fast: the reporter returns
   the error; collecting: the reporter returns nil and Handler.Error() becomes ErrInvalidSource);
   import above is its fail-fast instance ---- *)
Theorem C17_fail_fast_handler_is_import :
  forall f T, importH HAbort f T [] =
              let '(T', r) := import f T in (T', match r with Err e => [e] | Ok => [] end, r).
Proof. exact importH_abort_lemma. Qed.
Print Assumptions C17_fail_fast_handler_is_import.

(* the partial theorem for either kind of handler: packages registered, dependencies imported, and
   the import reported a name collision => the table is literally unchanged, every observation is,
   and importing again reports and returns the same *)
Theorem C17_failed_import_is_noop_partial_any_handler :
  forall m T f T' hs r,
    deps_settledH m T f -> importH m f T [] = (T', hs, r) -> (exists n b, In (ESym n b) hs) ->
    T' = T /\ (forall q, observeH m T' q = observeH m T q) /\ importH m f T' [] = (T', hs, r).
Proof. exact failed_import_is_noop_partialH_lemma. Qed.
Print Assumptions C17_failed_import_is_noop_partial_any_handler.

(* the three defect classes under the collecting handler *)
Theorem C17_collect_refuted_extnum :
  exists f T' hs r q, deps_settledH HCollect [] f /\ importH HCollect f [] [] = (T', hs, r) /\ hs <> [] /\
                      observeH HCollect T' q <> observeH HCollect [] q /\
                      importH HCollect f T' [] = (T', [], Ok).
Proof. exact refuted_extnum_collect_lemma. Qed.
Print Assumptions C17_collect_refuted_extnum.

Theorem C17_collect_refuted_deps :
  exists h f T' hs r q,
    let T := fst (run_opsH HCollect [] h) in
    importH HCollect f T [] = (T', hs, r) /\ hs <> [] /\ observeH HCollect T' q <> observeH HCollect T q.
Proof. exact refuted_deps_collect_lemma. Qed.
Print Assumptions C17_collect_refuted_deps.

Theorem C17_collect_refuted_packages :
  exists h f T' hs r g,
    let T := fst (run_opsH HCollect [] h) in
    importH HCollect f T [] = (T', hs, r) /\ hs <> [] /\
    observeH HCollect T (QImport g) = AHRes [] Ok /\
    observeH HCollect T' (QImport g) = AHRes [ESym [18%N; 17%N] true] (Err EInvalid).
Proof. exact refuted_packages_collect_lemma. Qed.
Print Assumptions C17_collect_refuted_packages.

(* non-vacuity under the collecting handler: the gate Handler.Error() stops the commit *)
Example C17_partial_any_handler_nonvacuous :
  let T := fst (fst (importH HCollect wD0 [] [])) in
  deps_settledH HCollect T wD1 /\ importH HCollect wD1 T [] = (T, [ESym [4%N; 7%N] false], Err EInvalid).
Proof. exact partialH_nonvacuous. Qed.
