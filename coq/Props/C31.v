(* C31 - Formatting preserves meaning and is idempotent.  Statements only; proofs are in
   Proofs/Trivia.v, the model at the end of Model/Trivia.v.

   What is proved (P-core): on the model of the token-level effect of format mode - the top-level
   declarations are sorted with a stable sort on compareDecl's (rank, import-option flag, name),
   empty declarations are dropped, every declaration contributes its own non-skippable tokens -
   the output is a permutation of the non-empty declarations, ordered by rank, in which the
   blocks that carry no name (syntax, package, everything of rank body) keep their source order.
   That the real formatter changes nothing else (only skippable tokens, message-literal
   separators / colons and the spelling of angle brackets) is the correspondence the check
   evaluates on every formatted output; that the result compiles to the same descriptors and
   that a second pass changes nothing is decided by the direct oracle only. *)
From Coq Require Import List NArith Bool Permutation.
From PV Require Import Model.Trivia Proofs.Trivia.
Import ListNotations.
Open Scope N_scope.

Theorem C31_format_preserves_token_sequence : forall ds,
  exists ds',
    format_effect ds = concat (map f_toks ds')
    /\ Permutation ds' (filter (fun d => negb (f_empty d)) ds)
    /\ (forall r, r <> 2 -> r <> 3 ->
                  filter (rank_is r) ds' = filter (rank_is r) (filter (fun d => negb (f_empty d)) ds))
    /\ rank_sorted ds'.
Proof. exact format_preserves_token_sequence_lemma. Qed.
Print Assumptions C31_format_preserves_token_sequence.

Theorem C31_format_preserves_declarations : forall ds,
  Permutation (format_order ds) (filter (fun d => negb (f_empty d)) ds).
Proof. exact format_preserves_declarations_lemma. Qed.
Print Assumptions C31_format_preserves_declarations.

Theorem C31_format_keeps_block_order : forall r ds,
  r <> 2 -> r <> 3 ->
  filter (rank_is r) (format_order ds) = filter (rank_is r) (filter (fun d => negb (f_empty d)) ds).
Proof. exact format_keeps_block_order_lemma. Qed.
Print Assumptions C31_format_keeps_block_order.

Theorem C31_format_rank_sorted : forall ds, rank_sorted (format_order ds).
Proof. exact format_rank_sorted_lemma. Qed.
Print Assumptions C31_format_rank_sorted.

(* non-vacuity: imports are reordered, a lone `;` is dropped, messages keep their order *)
Example C31_nonvacuous :
  format_effect
    [mkFdecl 4 false [] false [[109]; [65]];
     mkFdecl 2 false [98] false [[105]; [98]];
     mkFdecl 4 false [] true [[59]];
     mkFdecl 2 false [97] false [[105]; [97]];
     mkFdecl 0 false [] false [[115]];
     mkFdecl 4 false [] false [[109]; [66]]]
  = [[115]; [105]; [97]; [105]; [98]; [109]; [65]; [109]; [66]].
Proof. vm_compute. reflexivity. Qed.
