(* C31 - Formatting preserves meaning and is idempotent.  Statements only; proofs are in
   Proofs/Trivia.v, the model at the end of Model/Trivia.v.

   What is proved (P-core): on the model of the token-level effect of format mode - the top-level
   declarations are sorted with a stable sort on compareDecl's (rank, import-option flag, name),
   empty declarations are dropped, every declaration contributes its own non-skippable tokens -
   the output is a permutation of the non-empty declarations, ordered by rank, in which the
   blocks that carry no name (syntax, package, everything of rank body) keep their source order.
   That the real formatter changes nothing else (only skippable tokens, message-literal
   separators / colons and the spelling of angle brackets) is the correspondence the check
   evaluates on every formatted output; that the result compiles to the same descriptors and
   that a second pass changes nothing is decided by the direct oracle only.

   One part of the second pass IS proved: the text of a block comment.  On the model of
   printer.emitBlockComment and of dom's rendering of what it pushes (Model/BlockComment.v: common
   indentation with tabs at 8-column stops, unindent, right trimming, the prefix / plain
   normalisation of the Legacy preset, pending line feeds) the lines of a comment printed at an
   indentation of k spaces are printed unchanged when they are printed again at the same depth:
   without premise for the verbatim mode of the Default preset, and for the normalising mode of
   the Legacy preset for every comment whose last line is not blank and whose other lines do not
   begin with the closer (every block comment token: it ends with its only closer).  The check
   compares the model with the formatter on block comments of arbitrary shape. *)
From Coq Require Import List NArith Bool Permutation.
From PV Require Import Model.Trivia Proofs.Trivia Model.BlockComment Proofs.BlockComment.
Import ListNotations.
Open Scope N_scope.

Theorem C31_format_preserves_token_sequence : forall ds,
  exists ds',
    format_effect ds = concat (map f_toks ds')
    /\ Permutation ds' (filter (fun d => negb (f_empty d)) ds)
    /\ (forall r, r <> 2 -> r <> 3 ->
                  filter (rank_is r) ds' = filter (rank_is r) (filter (fun d => negb (f_empty d)) ds))
    /\ rank_sorted ds'.
Proof. exact format_preserves_token_sequence_lemma. Qed.
Print Assumptions C31_format_preserves_token_sequence.

Theorem C31_format_preserves_declarations : forall ds,
  Permutation (format_order ds) (filter (fun d => negb (f_empty d)) ds).
Proof. exact format_preserves_declarations_lemma. Qed.
Print Assumptions C31_format_preserves_declarations.

Theorem C31_format_keeps_block_order : forall r ds,
  r <> 2 -> r <> 3 ->
  filter (rank_is r) (format_order ds) = filter (rank_is r) (filter (fun d => negb (f_empty d)) ds).
Proof. exact format_keeps_block_order_lemma. Qed.
Print Assumptions C31_format_keeps_block_order.

Theorem C31_format_rank_sorted : forall ds, rank_sorted (format_order ds).
Proof. exact format_rank_sorted_lemma. Qed.
Print Assumptions C31_format_rank_sorted.

(* non-vacuity: imports are reordered, a lone `;` is dropped, messages keep their order *)
Example C31_nonvacuous :
  format_effect
    [mkFdecl 4 false [] false [[109]; [65]];
     mkFdecl 2 false [98] false [[105]; [98]];
     mkFdecl 4 false [] true [[59]];
     mkFdecl 2 false [97] false [[105]; [97]];
     mkFdecl 0 false [] false [[115]];
     mkFdecl 4 false [] false [[109]; [66]]]
  = [[115]; [105]; [97]; [105]; [98]; [109]; [65]; [109]; [66]].
Proof. vm_compute. reflexivity. Qed.

(* ---- the text of a block comment is a fixed point of the second pass *)
Theorem C31_block_comment_verbatim_idempotent : forall k ls,
  emit_verbatim k (emit_verbatim k ls) = emit_verbatim k ls.
Proof. exact emit_verbatim_idempotent_lemma. Qed.
Print Assumptions C31_block_comment_verbatim_idempotent.

Theorem C31_block_comment_normalised_idempotent : forall k ls,
  blank (last ls []) = false ->
  Forall (fun l => starts_close (trim_left l) = false) (removelast ls) ->
  emit_norm k (emit_norm k ls) = emit_norm k ls.
Proof. exact emit_norm_idempotent_lemma. Qed.
Print Assumptions C31_block_comment_normalised_idempotent.

(* non-vacuity: slash star / 4 spaces a / 2 spaces, tab (blank) / 6 spaces b / 3 spaces star slash,
   inside a body (k = 2).  Verbatim: the common indentation 3 (the closing line) goes, the blank
   line disappears; normalised: no common prefix character, three spaces, the blank line stays. *)
Example C31_block_comment_nonvacuous :
  let c := [[47; 42]; [32; 32; 32; 32; 97]; [32; 32; 9]; [32; 32; 32; 32; 32; 32; 98]; [32; 32; 32; 42; 47]] in
  emit_verbatim 2 c = [[47; 42]; [32; 32; 32; 97]; [32; 32; 32; 32; 32; 98]; [32; 32; 42; 47]]
  /\ emit_norm 2 c = [[47; 42]; [32; 32; 32; 32; 32; 97]; []; [32; 32; 32; 32; 32; 32; 32; 98]; [32; 32; 42; 47]]
  /\ blank (last c []) = false
  /\ Forall (fun l => starts_close (trim_left l) = false) (removelast c).
Proof. vm_compute. repeat split; repeat constructor. Qed.
