(* C06 - Compilation always terminates and reports exactly the import cycles.
   Statements only; the proofs are in Proofs/CompileExec{1,2,3,4}.v.  The model
   (Model/CompileExec.v) is a small-step transition system of compiler.go's executor in which a
   schedule is an arbitrary list of task ids and the number of semaphore permits is arbitrary. *)
From Coq Require Import List Arith Bool.
From PV Require Import Model.CompileExec Proofs.CompileExec1 Proofs.CompileExec2 Proofs.CompileExec3 Proofs.CompileExec4.
Import ListNotations.

(* no infinite runs: whatever the schedule, at most (measure of the initial state) steps are taken *)
Theorem C06_steps_bounded : forall g, wf_graph g -> forall par req,
  (forall x, In x req -> x < nfiles g) ->
  forall sched, steps_taken g sched (init par req) <= measure g (max_deg g) (init par req).
Proof. exact compile_steps_bounded. Qed.
Print Assumptions C06_steps_bounded.

(* no deadlock: in every reachable state that is not final, some task is enabled (any parallelism >= 1) *)
Theorem C06_no_deadlock : forall g, wf_graph g -> forall par, 1 <= par -> forall req,
  (forall x, In x req -> x < nfiles g) ->
  forall s, reach g par req s -> final g s = false -> exists f s', step g s f = Some s'.
Proof. exact no_deadlock. Qed.
Print Assumptions C06_no_deadlock.

(* hence every reachable state can be driven to a final state *)
Theorem C06_can_finish : forall g, wf_graph g -> forall par req, 1 <= par ->
  (forall x, In x req -> x < nfiles g) ->
  forall s, reach g par req s -> exists sched, final g (run g sched s) = true.
Proof. exact compile_can_finish. Qed.
Print Assumptions C06_can_finish.

(* soundness: a reported cycle is a real import cycle reachable from the requested files *)
Theorem C06_cycle_report_sound : forall g, wf_graph g -> forall par req,
  (forall x, In x req -> x < nfiles g) ->
  forall s f sq d, reach g par req s -> tpc (tasks s f) = PDone (Some (FCycle sq d)) ->
  gpath g d d /\ (f = d \/ gpath g f d) /\ (In f req \/ exists r, In r req /\ gpath g r f).
Proof. exact cycle_report_sound. Qed.
Print Assumptions C06_cycle_report_sound.

(* completeness: if every reachable file resolves and a cycle is reachable, every completed run
   contains a cycle report, whatever the schedule and the parallelism *)
Theorem C06_cycle_report_complete : forall g, wf_graph g -> forall par, 1 <= par -> forall req,
  (forall x, In x req -> x < nfiles g) ->
  forall s, reach g par req s -> final g s = true ->
  (forall x, reachable_from_req g req x -> rres g x = ROk) ->
  (exists c, reachable_from_req g req c /\ gpath g c c) ->
  cycle_reported g s = true.
Proof. exact cycle_report_complete. Qed.
Print Assumptions C06_cycle_report_complete.

(* acyclic, fault-free graphs never fail (in particular: never because of a cycle) *)
Theorem C06_clean_implies_success : forall g, wf_graph g -> forall par req,
  (forall x, In x req -> x < nfiles g) ->
  forall s, reach g par req s -> final g s = true ->
  (forall x, reachable_from_req g req x -> rres g x = ROk /\ lres g x = true /\ ~ gpath g x x) ->
  verdict s req = true.
Proof. exact clean_implies_success. Qed.
Print Assumptions C06_clean_implies_success.

(* non-vacuity: a concrete cyclic graph (0 -> 1,2; 1 -> 2,0), request [0], one permit: the round-robin
   schedule reaches a final state in which file 1 reports the cycle 1 -> 0 -> 1 and the compile fails *)
Definition C06_g : graph :=
  {| nfiles := 3; imports := fun f => match f with 0 => [1; 2] | 1 => [2; 0] | _ => [] end;
     rres := fun _ => ROk; lres := fun _ => true |}.
Example C06_nonvacuous :
  let s := run C06_g (round_robin C06_g 40) (init 1 [0]) in
  final C06_g s = true /\ verdict s [0] = false /\ cycle_reported C06_g s = true /\
  tpc (tasks s 1) = PDone (Some (FCycle [1; 0] 1)).
Proof. vm_compute. repeat split; reflexivity. Qed.
