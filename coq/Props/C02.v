(* C02 - Compiled descriptors equal protoc's.  Statements only; proofs are in
   Proofs/LowerNames.v.  Left-hand sides mirror internal/util.go + internal/cases (JSONName,
   MapEntry) and parser/result.go processProto3OptionalFields (Model/Lower.v); right-hand sides
   are protoc's documented algorithms (Model/ProtocDescriptor.v). *)
From Coq Require Import List NArith ZArith Bool.
From PV Require Import Model.MiniProto Model.Lower Model.ProtocDescriptor Model.ValiditySpec Model.Validate.
From PV Require Model.Resolve.
From PV Require Import Proofs.LowerNames Proofs.Link.
Import ListNotations.
Open Scope N_scope.

(* the word-splitting converter (split at underscores, capitalise the first letter of every word
   but the first, keep the rest) is protoc's single pass with the capitalize_next flag *)
Theorem C02_json_name_eq_protoc : forall s, json_name s = to_json_name s.
Proof. exact json_name_eq_protoc_lemma. Qed.
Print Assumptions C02_json_name_eq_protoc.

Theorem C02_map_entry_name_eq_protoc : forall s, map_entry s = map_entry_name s.
Proof. exact map_entry_name_eq_protoc_lemma. Qed.
Print Assumptions C02_map_entry_name_eq_protoc.

(* the X-prefix loop ends within the fuel of the model (never out of fuel) ... *)
Theorem C02_oo_name_total : forall all f, oo_name all f <> None.
Proof. exact oo_name_total_lemma. Qed.
Print Assumptions C02_oo_name_total.

(* ... and returns protoc's name for the same set of taken names: the first of _f, X_f, XX_f, ...
   that is not taken *)
Theorem C02_oo_name_is_synth : forall all f r, oo_name all f = Some r -> is_synth_name all f r.
Proof. exact oo_name_is_synth_lemma. Qed.
Print Assumptions C02_oo_name_is_synth.

Theorem C02_process_p3opt_total : forall all fields oneofs, process_p3opt all fields oneofs <> None.
Proof. exact process_p3opt_total_lemma. Qed.
Print Assumptions C02_process_p3opt_total.

(* the synthetic oneofs are appended after the declared ones, have pairwise distinct names, and
   no name collides with a name collected from the message *)
Theorem C02_synthetic_oneof_names_fresh : forall all fields oneofs fs' oneofs',
  process_p3opt all fields oneofs = Some (fs', oneofs') ->
  exists new, oneofs' = oneofs ++ new /\ NoDup new /\ forall n, In n new -> ~ In n all.
Proof. exact synthetic_oneof_names_fresh_lemma. Qed.
Print Assumptions C02_synthetic_oneof_names_fresh.

(* with the larger name set of the Go code (also extensions, enums, enum values, nested messages)
   the fields and oneofs come out as with protoc's set (fields and oneofs only), provided none of
   the extra names is a candidate X..X_f of an optional field f; outside this hypothesis the
   code documents a deliberate divergence *)
Theorem C02_synthetic_oneof_names_eq_protoc : forall fields oneofs exts enums nested,
  (forall f k n, In f fields -> df_p3opt f = true ->
     In n (go_all_names fields oneofs exts enums nested) -> ~ In n (protoc_all_names fields oneofs) ->
     n <> x_times k (synth_candidate (df_name f))) ->
  process_p3opt (go_all_names fields oneofs exts enums nested) fields oneofs
  = process_p3opt (protoc_all_names fields oneofs) fields oneofs.
Proof. exact synthetic_oneof_names_eq_protoc_lemma. Qed.
Print Assumptions C02_synthetic_oneof_names_eq_protoc.

(* resolved_names_absolute: after an error-free resolveFieldTypes / resolveMethodTypes every reference
   left in the descriptor is the absolute name (leading dot) of the element the lookup found (the
   lookup is the one proved equal to protoc's in C15), with type MESSAGE / GROUP for a message and
   ENUM for an enum; an extension number lies in an extension range of the extendee *)
Theorem C02_resolved_type_absolute : forall L path fd fd' c tn,
  df_type_name fd = Some (c :: tn) -> resolve_type L path fd = (fd', []) ->
  exists n k, resolve_ref (lc_cfg L) (lc_U L) path (df_name fd) (c :: tn) true = Resolve.GDesc n k /\
              df_type_name fd' = Some (dotc :: n) /\
              ((k = Resolve.KMessage /\ (df_type fd' = Some DMessage \/ df_type fd' = Some DGroup)) \/
               (k = Resolve.KEnum /\ df_type fd' = Some DEnum)).
Proof. exact resolve_type_absolute_lemma. Qed.
Print Assumptions C02_resolved_type_absolute.

Theorem C02_resolved_extendee_absolute : forall L path X fd fd' X' stop c x,
  df_extendee fd = Some (c :: x) -> resolve_extendee L path X fd = (fd', X', [], stop) ->
  exists n, resolve_ref (lc_cfg L) (lc_U L) path (df_name fd) (c :: x) false = Resolve.GDesc n Resolve.KMessage /\
            df_extendee fd' = Some (dotc :: n) /\
            existsb (in_half_open (df_number fd)) (match info_of L n with IMsg mi => mi_extr mi | _ => [] end) = true.
Proof. exact resolve_extendee_absolute_lemma. Qed.
Print Assumptions C02_resolved_extendee_absolute.

Theorem C02_resolved_rpc_absolute : forall L svc mtd t t',
  resolve_rpc_type L svc mtd t = (t', []) ->
  exists n, resolve_ref (lc_cfg L) (lc_U L) [svc] mtd t false = Resolve.GDesc n Resolve.KMessage /\ t' = dotc :: n.
Proof. exact resolve_rpc_absolute_lemma. Qed.
Print Assumptions C02_resolved_rpc_absolute.

(* what max means in the three kinds of range (parser/result.go getRangeBounds through asExtensionRanges /
   asMessageReservedRange / asEnumReservedRange): a range written `s to max` ends at the limit handed in - in the
   descriptor one beyond it for the half-open ranges of a message (2^29 for an ordinary message, 2^31-1 for a message
   set), the limit itself, 2^31-1, for the closed reserved range of an enum - and nothing is reported when the start is
   inside the limits.  Which limit a message hands to its ranges is the next theorem; that the mirror chooses as the code does is
   tied in by the differential oracle (range stratum of checks/C02.py). *)
Theorem C02_range_max : forall r, sr_max r = true ->
  (forall mt, (1 <= sr_start r <= mt)%Z -> msg_range r mt = ((sr_start r, (mt + 1)%Z), [])) /\
  ((int32_min <= sr_start r <= int32_max)%Z -> enum_range r = ((sr_start r, int32_max), [])).
Proof. exact range_max_lemma. Qed.
Print Assumptions C02_range_max.

(* which limit: the reserved and the extension ranges of the descriptor of a message are the ranges written in the body
   of that message, in source order, every one of them bounded by the limit of that message itself ([msg_limit]: 2^31-2
   iff its own body carries message_set_wire_format = true, else 2^29-1) - not by the limit of the enclosing message
   ([mt]), and the same limit for both kinds of range *)
Theorem C02_message_ranges_limit : forall syn mt d a nm body, (S d < 32)%nat ->
  exists md, a_nested (lower_elem syn mt d a (MMessage nm body)) = a_nested a ++ [md] /\
    dm_rsvr md = flat_map (own_rsvr (msg_limit body)) body /\
    dm_extr md = flat_map (own_extr (msg_limit body)) body /\
    dm_msgset md = match is_msgset body with MsYes => true | _ => false end.
Proof. exact message_ranges_limit_lemma. Qed.
Print Assumptions C02_message_ranges_limit.

(* non-vacuity: reserved 2000 to max in a message set ends at 2147483647, in an ordinary message at 536870912 *)
Example C02_range_max_nonvacuous :
  msg_range (mkRange 2000 None true) msgset_max = ((2000, 2147483647), [])%Z /\
  msg_range (mkRange 2000 None true) field_max = ((2000, 536870912), [])%Z /\
  enum_range (mkRange 5 None true) = ((5, 2147483647), [])%Z.
Proof. repeat split; vm_compute; reflexivity. Qed.

(* non-vacuity: foo_bar -> fooBar / FooBarEntry, _x -> X / XEntry; with fields a, _a and X_a taken,
   the synthetic oneof of a is XX_a *)
Example C02_nonvacuous :
  json_name [102;111;111;95;98;97;114] = [102;111;111;66;97;114] /\
  map_entry [102;111;111;95;98;97;114] = [70;111;111;66;97;114;69;110;116;114;121] /\
  json_name [95;120] = [88] /\
  oo_name [[97]; [95;97]; [88;95;97]] [97] = Some [88;88;95;97].
Proof. exact c02_example. Qed.
