(* C16 - Shared symbol table: safe concurrent use, same collisions as one compile.
   Statements only; proofs in Proofs/Symbols.v and Proofs/SymbolsSpec.v.  The model is the pinned
   code: Lookup / LookupExtension read a map without the read lock, so the lock discipline is
   refuted for them and proved for the import paths. *)
From Coq Require Import List NArith ZArith Bool Permutation.
From PV Require Import Model.Symbols Proofs.Symbols Proofs.SymbolsSpec.
Import ListNotations.

(* a goroutine running Lookup reaches its read of the symbols map of node [1] holding no lock *)
Theorem C16_lock_discipline_refuted :
  exists T opss sched t th,
    nth_error (cs_threads (run_sched (init_state T (map ops_prog opss)) sched)) t = Some th /\
    access_ok th = false /\
    next_access (th_prog th) = Some ([1%N], FSymbols, false) /\ th_held th = [].
Proof. exact lock_discipline_refuted_lemma. Qed.
Print Assumptions C16_lock_discipline_refuted.

(* ... while an Import holding the write lock of that node is about to write the same map *)
Theorem C16_model_race_witness :
  exists T opss sched, race_at (run_sched (init_state T (map ops_prog opss)) sched) 0 1 = true.
Proof. exact model_race_witness_lemma. Qed.
Print Assumptions C16_model_race_witness.

(* import paths (Import, AddExtension, any number of goroutines, any table, any schedule): every
   read of a map of a node holds R or W of that node, every write holds W *)
Theorem C16_lock_discipline_imports :
  forall T opss sched t th,
    Forall (Forall is_import_op) opss ->
    nth_error (cs_threads (run_sched (init_state T (map ops_prog opss)) sched)) t = Some th ->
    access_ok th = true.
Proof. exact lock_discipline_imports_lemma. Qed.
Print Assumptions C16_lock_discipline_imports.

(* hence no two goroutines are ever about to make conflicting accesses *)
Theorem C16_model_drf_imports :
  forall T opss sched i j,
    Forall (Forall is_import_op) opss ->
    race_at (run_sched (init_state T (map ops_prog opss)) sched) i j = false.
Proof. exact model_drf_imports_lemma. Qed.
Print Assumptions C16_model_drf_imports.
