(* C16 - Shared symbol table: safe concurrent use, same collisions as one compile.
   Statements only; proofs in Proofs/Symbols.v, Proofs/SymbolsSpec.v and Proofs/SymbolsSeq.v.
   The model follows the repository after commit 3a583125: Lookup / LookupExtension hold the read
   lock of the node around their map read (lookup_prog_fx, lookup_ext_prog_fx), Import is the
   pinned one (import_prog_gen false; the theorems hold for the proposed extension pre-check, fx =
   true, as well).  The statements about the lookups before that commit are kept at the end as
   history. *)
From Coq Require Import List NArith ZArith Bool Permutation.
From PV Require Import Model.Symbols Proofs.Symbols Proofs.SymbolsSpec Proofs.SymbolsSeq Proofs.SymbolsH.
Import ListNotations.

(* ---- same collisions as one compile (parts imported one after another on the shared table) ---- *)

(* importing a set of well-formed files, in any order, reports no collision exactly when the set
   (with everything it imports) contains none: no two files share a name, no name of one is a
   package of another, no two share an (extendee, tag), no file has one twice *)
Theorem C16_collision_iff_reported :
  forall fs T l,
    wf_universe (closure_list fs) ->
    run_ops [] (map OImport fs) = (T, l) ->
    (any_err l = false <-> ~ collides (closure_list fs)).
Proof. exact collision_iff_reported_lemma. Qed.
Print Assumptions C16_collision_iff_reported.

(* the same with the boolean has_collision, which is what the check compares with the real code *)
Theorem C16_reported_eq_has_collision :
  forall fs T l,
    wf_universe (closure_list fs) ->
    run_ops [] (map OImport fs) = (T, l) -> any_err l = has_collision fs.
Proof. exact reported_eq_has_collision_lemma. Qed.
Print Assumptions C16_reported_eq_has_collision.

(* hence splitting the files into parts, in any order, sharing the table, reports a collision
   exactly when importing them all together does *)
Theorem C16_partition_equiv :
  forall fs parts T1 l1 T2 l2,
    wf_universe (closure_list fs) -> Permutation (concat parts) fs ->
    run_ops [] (map OImport fs) = (T1, l1) ->
    run_ops [] (map OImport (concat parts)) = (T2, l2) ->
    any_err l2 = any_err l1.
Proof. exact partition_equiv_lemma. Qed.
Print Assumptions C16_partition_equiv.

(* without a collision the final table answers every lookup in the same way, whatever the order *)
Theorem C16_import_commutes :
  forall fs fs' T1 l1 T2 l2,
    wf_universe (closure_list fs) -> Permutation fs fs' ->
    ~ collides (closure_list fs) ->
    run_ops [] (map OImport fs) = (T1, l1) ->
    run_ops [] (map OImport fs') = (T2, l2) ->
    (forall n, lookup T2 n = lookup T1 n) /\ (forall m t, lookup_ext T2 m t = lookup_ext T1 m t).
Proof. exact import_commutes_lemma. Qed.
Print Assumptions C16_import_commutes.

(* the same for either kind of handler (fail-fast, or collecting: the reporter returns nil), a fresh
   handler per import: some import reports or returns an error exactly when the set collides *)
Theorem C16_failed_eq_has_collision_any_handler :
  forall m fs,
    wf_universe (closure_list fs) ->
    any_failH (snd (run_opsH m [] (map OImport fs))) = has_collision fs.
Proof. exact failed_eq_has_collisionH_lemma. Qed.
Print Assumptions C16_failed_eq_has_collision_any_handler.

Theorem C16_import_commutes_any_handler :
  forall m fs fs',
    wf_universe (closure_list fs) -> Permutation fs fs' -> ~ collides (closure_list fs) ->
    (forall n, lookup (fst (run_opsH m [] (map OImport fs'))) n = lookup (fst (run_opsH m [] (map OImport fs))) n) /\
    (forall mn t, lookup_ext (fst (run_opsH m [] (map OImport fs'))) mn t
                  = lookup_ext (fst (run_opsH m [] (map OImport fs))) mn t).
Proof. exact import_commutesH_lemma. Qed.
Print Assumptions C16_import_commutes_any_handler.

(* the hypothesis is decidable by wf_universe_b, which the check evaluates on every generated case *)
Theorem C16_wf_universe_b_sound : forall U, wf_universe_b U = true -> wf_universe U.
Proof. exact wf_universe_b_sound. Qed.
Print Assumptions C16_wf_universe_b_sound.

(* non-vacuity: a well-formed clean set and a well-formed colliding set, both orders *)
Example C16_nonvacuous_clean :
  wf_universe (closure_list [xB; xC]) /\ ~ collides (closure_list [xB; xC]) /\
  any_err (snd (run_ops [] (map OImport [xB; xC]))) = false /\
  any_err (snd (run_ops [] (map OImport [xC; xB]))) = false.
Proof. exact nonvacuous_clean. Qed.
Example C16_nonvacuous_collision :
  wf_universe (closure_list [xB; xD]) /\ collides (closure_list [xB; xD]) /\
  any_err (snd (run_ops [] (map OImport [xB; xD]))) = true /\
  any_err (snd (run_ops [] (map OImport [xD; xB]))) = true.
Proof. exact nonvacuous_collision. Qed.

(* ---- safe concurrent use ---- *)

(* every operation (Import, AddExtension, Lookup, LookupExtension), any number of goroutines, any
   table, any schedule: every read of a map of a node holds R or W of that node, every write W *)
Theorem C16r_lock_discipline :
  forall fx T opss sched t th,
    nth_error (cs_threads (run_sched (init_state T
       (map (ops_prog_with (op_prog_with (import_prog_gen fx) lookup_prog_fx lookup_ext_prog_fx)) opss)) sched)) t = Some th ->
    access_ok th = true.
Proof. exact lock_discipline_fx_lemma. Qed.
Print Assumptions C16r_lock_discipline.

(* hence no two goroutines are ever about to make conflicting accesses *)
Theorem C16r_model_drf :
  forall fx T opss sched i j,
    race_at (run_sched (init_state T
       (map (ops_prog_with (op_prog_with (import_prog_gen fx) lookup_prog_fx lookup_ext_prog_fx)) opss)) sched) i j = false.
Proof. exact model_drf_fx_lemma. Qed.
Print Assumptions C16r_model_drf.

(* non-vacuity: the schedule that exposed the unlocked read before the fix is harmless now *)
Example C16r_nonvacuous :
  race_at (run_sched (init_state race_init
     (map (ops_prog_with (op_prog_with (import_prog_gen false) lookup_prog_fx lookup_ext_prog_fx)) race_threads)) race_sched) 0 1 = false.
Proof. vm_compute. reflexivity. Qed.

(* the two halves of the model are one: the step program of Import, run alone, returns what the
   sequential Import returns and leaves a table that reads alike at every node (also for the
   repaired Import, fx = true) *)
Theorem C16_seq_refines :
  forall fx f T,
    (forall q, get_node (fst (run_seq (import_prog_gen fx f) T)) q = get_node (fst (import_gen fx f T)) q) /\
    snd (run_seq (import_prog_gen fx f) T) = snd (import_gen fx f T).
Proof. exact seq_refines_lemma. Qed.
Print Assumptions C16_seq_refines.

(* ---- history: the lookups before commit 3a583125 (lookup_prog, lookup_ext_prog: no lock around the
   final map read).  Not part of the claim about the current code. ---- *)

(* a goroutine running Lookup reaches its read of the symbols map of node [1] holding no lock *)
Theorem C16_lock_discipline_refuted :
  exists T opss sched t th,
    nth_error (cs_threads (run_sched (init_state T (map ops_prog opss)) sched)) t = Some th /\
    access_ok th = false /\
    next_access (th_prog th) = Some ([1%N], FSymbols, false) /\ th_held th = [].
Proof. exact lock_discipline_refuted_lemma. Qed.
Print Assumptions C16_lock_discipline_refuted.

(* ... while an Import holding the write lock of that node is about to write the same map *)
Theorem C16_model_race_witness :
  exists T opss sched, race_at (run_sched (init_state T (map ops_prog opss)) sched) 0 1 = true.
Proof. exact model_race_witness_lemma. Qed.
Print Assumptions C16_model_race_witness.

(* import paths (Import, AddExtension, any number of goroutines, any table, any schedule): every
   read of a map of a node holds R or W of that node, every write holds W *)
Theorem C16_lock_discipline_imports :
  forall T opss sched t th,
    Forall (Forall is_import_op) opss ->
    nth_error (cs_threads (run_sched (init_state T (map ops_prog opss)) sched)) t = Some th ->
    access_ok th = true.
Proof. exact lock_discipline_imports_lemma. Qed.
Print Assumptions C16_lock_discipline_imports.

(* hence no two goroutines are ever about to make conflicting accesses *)
Theorem C16_model_drf_imports :
  forall T opss sched i j,
    Forall (Forall is_import_op) opss ->
    race_at (run_sched (init_state T (map ops_prog opss)) sched) i j = false.
Proof. exact model_drf_imports_lemma. Qed.
Print Assumptions C16_model_drf_imports.

