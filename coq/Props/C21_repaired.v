(* C21 for the repaired interpreter (proposed repair of interpreter.interpretOptions: in lenient mode the options
   message is copied before each option and the copy is taken back when the option reported an error).
   Claimed by checks/C21.py once the repair is in the tree (VERIF_OPTIONS_REPAIRED=1).  Statements only. *)
From Coq Require Import List ZArith NArith Bool String.
From PV Require Import Model.Options Model.ProtocOptions Proofs.Options.
Import ListNotations.
Open Scope string_scope.
Open Scope Z_scope.

(* No half-populated options message, for every schema and statement list: the message of the lenient run is exactly
   what the interpreted options produce when applied alone (each without error, in the order of the two passes);
   kept options leave no trace; remainder and interpreted options partition the statements. *)
Theorem C21_no_half_population : forall sch tt T m0 stmts m rem done,
  interpret_lenient_fx sch tt T m0 stmts = Some (m, rem, done) ->
  apply_all sch tt T m0 done = Some m /\ subseq rem stmts /\
  (List.length rem + List.length done = List.length stmts)%nat.
Proof. exact no_half_population_repaired_lemma. Qed.
Print Assumptions C21_no_half_population.

Theorem C21_strict_ok_implies_lenient_same : forall sch tt T m0 stmts m rem,
  interpret_strict sch tt T m0 stmts = Ok (m, rem) ->
  exists done, interpret_lenient_fx sch tt T m0 stmts = Some (m, [], done).
Proof. exact strict_ok_implies_lenient_fx_same_lemma. Qed.
Print Assumptions C21_strict_ok_implies_lenient_same.

(* unchanged by the repair: the per-statement agreement of unlinked and linked interpretation *)
Theorem C21_unlinked_values_subset_of_strict : forall sch tt T m name v m',
  interpret_field (no_exts sch) tt T m name v = (m', []) -> interpret_field sch tt T m name v = (m', []).
Proof. exact unlinked_statement_lemma. Qed.
Print Assumptions C21_unlinked_values_subset_of_strict.

(* non-vacuity: the three witnesses of the unrepaired code now leave the options message empty *)
Example C21_repaired_nonvacuous :
  interpret_lenient_fx hp_schema 3%N 0%nat []
    [mkStmt [PExt "foo"; PField "sub"; PField "a"] (OStr [98%N]);
     mkStmt [PExt "foo"] (OMsg [(LField "r", OList [OUint 1; OUint 2; OStr [120%N]])]);
     mkStmt [PExt "onfield"] (OUint 1);
     mkStmt [PExt "foo"; PField "a"] (OUint 7)]
  = Some ([(50001%N, VM [(1%N, VS (SInt 7))])],
          [mkStmt [PExt "foo"; PField "sub"; PField "a"] (OStr [98%N]);
           mkStmt [PExt "foo"] (OMsg [(LField "r", OList [OUint 1; OUint 2; OStr [120%N]])]);
           mkStmt [PExt "onfield"] (OUint 1)],
          [mkStmt [PExt "foo"; PField "a"] (OUint 7)]).
Proof. vm_compute. reflexivity. Qed.
