(* C14 - String and number literals decode like protoc.  Statements only; proofs in
   Proofs/Literals.v.  protoc is not available in the sandbox, so "like protoc" is split:
   (1) theorems about what the lexer model decodes, stated against protoc-independent mathematical
   references: string decoding inverts the C escaping that protoc itself uses to print bytes
   (CEscape = internal.EscapeBytes, Model/Escape.v) and the two-digit hex spelling, for every byte
   string; integer literals have the value of their digits in their base, with the stated overflow
   rules; undefined escapes are errors;  (2) a transcription of protoc's tokenizer rules
   (ConsumeString / ParseStringAppend / ConsumeNumber) in the check's oracle, compared with the
   implementation on exhaustively enumerated short literals - differences fall in named classes. *)
From Coq Require Import List NArith ZArith Bool.
From PV Require Import Common.Bytes Model.Escape Model.Lexer Proofs.Lexer Proofs.Literals.
Import ListNotations.
Open Scope N_scope.

(* every byte string, written with the simple / octal escapes of CEscape between either kind of
   quotes, is lexed as one string literal whose value is exactly those bytes *)
Theorem C14_string_literal_decodes_escaped : forall q b tail pos, (q = 34 \/ q = 39) -> Bytes b ->
  dispatch pos (q :: escape_bytes b ++ q :: tail) =
  DItem (mk (IToken (TStr b)) pos (length (escape_bytes b) + 2)).
Proof. exact string_literal_decodes_escaped_lemma. Qed.
Print Assumptions C14_string_literal_decodes_escaped.

(* the same for the \xHH spelling of every byte *)
Theorem C14_string_literal_decodes_hex : forall q b tail pos st fuel, (q = 34 \/ q = 39) -> Bytes b ->
  (length (flat_map hex2 b) < fuel)%nat ->
  scan_string fuel q pos (flat_map hex2 b ++ q :: tail) st = SDone (pos + 4 * length b + 1) (emit st b).
Proof. exact string_literal_decodes_hex_lemma. Qed.
Print Assumptions C14_string_literal_decodes_hex.

(* an escape character that is not one of x X 0-7 u U a b f n r t v, backslash, the two quote
   characters or the question mark is reported as an error *)
Theorem C14_invalid_escape_reported : forall q e t pos st, e < 128 -> valid_escape_start e = false ->
  (q = 34 \/ q = 39) ->
  string_step q pos (92 :: e :: t) st = SCont (pos + 2) t (report st (Z.of_nat pos)).
Proof. exact invalid_escape_reported_lemma. Qed.
Print Assumptions C14_invalid_escape_reported.

Theorem C14_decimal_literal_value : forall d ds, 1 <= d < 10 -> Forall (fun x => x < 10) ds ->
  classify_number (dchars (d :: ds)) =
  if value_of 10 (d :: ds) <? two64 then Some (TInt (value_of 10 (d :: ds))) else Some TFloat.
Proof. exact decimal_literal_value_lemma. Qed.
Print Assumptions C14_decimal_literal_value.

Theorem C14_octal_literal_value : forall d ds, d < 8 -> Forall (fun x => x < 8) ds ->
  classify_number (dchars (0 :: d :: ds)) =
  if value_of 8 (0 :: d :: ds) <? two64 then Some (TInt (value_of 8 (0 :: d :: ds))) else None.
Proof. exact octal_literal_value_lemma. Qed.
Print Assumptions C14_octal_literal_value.

Theorem C14_hex_literal_value : forall d ds, Forall (fun x => x < 16) (d :: ds) ->
  classify_number (48 :: 120 :: dchars (d :: ds)) =
  if value_of 16 (d :: ds) <? two64 then Some (TInt (value_of 16 (d :: ds))) else None.
Proof. exact hex_literal_value_lemma. Qed.
Print Assumptions C14_hex_literal_value.

Theorem C14_leading_zero_decimal_rejected : forall ds, Forall (fun x => x < 10) ds ->
  existsb (fun x => 8 <=? x) ds = true -> classify_number (dchars (0 :: ds)) = None.
Proof. exact leading_zero_decimal_rejected_lemma. Qed.
Print Assumptions C14_leading_zero_decimal_rejected.

(* non-vacuity *)
Example C14_nonvacuous :
  dispatch 0 (34 :: escape_bytes [0; 10; 34; 200] ++ [34; 59]) = DItem (mk (IToken (TStr [0; 10; 34; 200])) 0 14) /\
  classify_number (dchars [1; 8; 4; 4; 6; 7; 4; 4; 0; 7; 3; 7; 0; 9; 5; 5; 1; 6; 1; 5]) = Some (TInt 18446744073709551615) /\
  classify_number (dchars [1; 8; 4; 4; 6; 7; 4; 4; 0; 7; 3; 7; 0; 9; 5; 5; 1; 6; 1; 6]) = Some TFloat.
Proof. vm_compute. repeat split; reflexivity. Qed.
