(* C19 - Unused-import warnings are exact.  Statements only; proofs are in Proofs/UnusedImports.v.
   W is the compiled file set (import graph of Model/Visibility.v plus package and symbols of every
   file), f the explicitly requested file, refs its references (programs of lookups, each lookup
   being resolveInFile with its marking), warned W f refs i says that CheckForUnusedImports reports
   import i, remove_import i f is f without that import statement, removable W f refs i says that
   every reference resolves as before without it: same result, and every lookup it makes is
   answered by the same file with the same element.

   The code as it is does NOT satisfy the property as an equivalence: an import that is merely the
   first of several imports through which an element is reachable is marked, not warned about,
   and yet removable (C19_unused_warning_iff_removable_refuted).  What holds for every file set:
   a warned import is removable, a needed import is never warned about; and the equivalence holds
   when no lookup is answered through two imports (C19_unused_warning_iff_removable_partial). *)
From Coq Require Import List NArith Bool.
From PV Require Import Model.Visibility Model.Resolve Model.UnusedImports Proofs.UnusedImports.
From PV Require Import Model.ExplicitFlag Proofs.ExplicitFlag.
Import ListNotations.

(* removing an import that no lookup marked leaves every reference exactly as it was: results,
   answering files, and marks *)
Theorem C19_resolution_independent_of_unmarked_imports : forall W f refs i,
  graph_ok (w_G W) = true -> In f (w_G W) -> import_paths_distinct f ->
  In (i, false) (vf_imports f) -> ~ In i (used W f refs) ->
  forall p, In p refs -> run W (remove_import i f) p = run W f p.
Proof. exact resolution_independent_of_unmarked_imports_lemma. Qed.
Print Assumptions C19_resolution_independent_of_unmarked_imports.

(* warned ==> not public, removable, and the other warnings are unaffected *)
Theorem C19_unused_warning_sound : forall W f refs i,
  graph_ok (w_G W) = true -> In f (w_G W) -> import_paths_distinct f ->
  warned W f refs i ->
  (forall b, In (i, b) (vf_imports f) -> b = false) /\
  removable W f refs i /\
  (forall p, In p refs -> run W (remove_import i f) p = run W f p) /\
  (forall j, j <> i -> (warned W (remove_import i f) refs j <-> warned W f refs j)).
Proof. exact unused_warning_sound_lemma. Qed.
Print Assumptions C19_unused_warning_sound.

(* an import without which some reference resolves differently is never reported *)
Theorem C19_needed_never_warned : forall W f refs i,
  graph_ok (w_G W) = true -> In f (w_G W) -> import_paths_distinct f ->
  (exists p, In p refs /\ fst (run W (remove_import i f) p) <> fst (run W f p)) ->
  ~ warned W f refs i.
Proof. exact needed_never_warned_lemma. Qed.
Print Assumptions C19_needed_never_warned.

(* the equivalence fails on the code as it is *)
Theorem C19_unused_warning_iff_removable_refuted :
  exists W f refs i,
    graph_ok (w_G W) = true /\ In f (w_G W) /\ import_paths_distinct f /\
    In (i, false) (vf_imports f) /\ removable W f refs i /\ ~ warned W f refs i.
Proof. exact unused_warning_iff_removable_refuted_lemma. Qed.
Print Assumptions C19_unused_warning_iff_removable_refuted.

(* and holds exactly under the guard: no lookup of a reference is answered through two imports *)
Theorem C19_unused_warning_iff_removable_partial : forall W f refs i,
  graph_ok (w_G W) = true -> In f (w_G W) -> import_paths_distinct f ->
  unique_providers W f refs ->
  (warned W f refs i <-> (In (i, false) (vf_imports f) /\ removable W f refs i)).
Proof. exact unused_warning_iff_removable_partial_lemma. Qed.
Print Assumptions C19_unused_warning_iff_removable_partial.

(* what a warning means on the code as it is, without any guard *)
Theorem C19_warned_iff_never_first : forall W f refs i,
  warned W f refs i <->
  (In (i, false) (vf_imports f) /\
   forall p, In p refs -> forall e, In e (snd (run W f p)) -> ev_mark e <> Some i).
Proof. exact warned_iff_never_first_lemma. Qed.
Print Assumptions C19_warned_iff_never_first.

(* the marked import is the first one in declaration order through which the lookup is answered,
   and nothing is marked when the file itself answers *)
Theorem C19_mark_is_first_provider : forall G fn f i, graph_ok G = true -> In f G ->
  (snd (resolve_mark G fn f) = Some i <->
   fn f = None /\
   exists l1 l2, vf_imports f = l1 ++ (i, false) :: l2 /\
                 forallb (fun pi => negb (provides G fn (length G) (vf_path f) pi)) l1 = true /\
                 provides G fn (length G) (vf_path f) (i, false) = true).
Proof. exact mark_is_first_provider_lemma. Qed.
Print Assumptions C19_mark_is_first_provider.

(* the traversal that marks is the traversal of C18 (resolveInFile of Model/Visibility.v) *)
Theorem C19_marking_traversal_is_resolveInFile : forall G fn f,
  fst (resolve_mark G fn f) = visit G fn (S (length G)) false [] f.
Proof. exact resolve_mark_fst_lemma. Qed.
Print Assumptions C19_marking_traversal_is_resolveInFile.

(* the lookup programs of field types, extendees, rpc types and extension names are the scoping
   algorithm of C15 (go_resolve of Model/Resolve.v) when read as pure functions *)
Theorem C19_reference_programs_are_go_resolve : forall U qd path nm ot,
  interp (query_all U) (query_self U) qd (go_resolve_prog (f_pkg (u_self U)) path nm ot)
  = go_resolve U path nm ot.
Proof. exact go_resolve_prog_is_go_resolve_lemma. Qed.
Print Assumptions C19_reference_programs_are_go_resolve.

(* ---- which files are checked at all (compiler.go explicitFile, Model/ExplicitFlag.v) ----
   ef_checked req sched p: after Compile(req...) whose tasks ask for their imports in the order
   sched, the result of file p has explicitFile set, i.e. task.link calls CheckForUnusedImports.
   The request loop runs under the executor lock (compile_run); then, for every request list
   (any order, duplicates) and every schedule, the checked files are exactly the requested ones *)
Theorem C19_checked_iff_requested : forall req sched p, ef_checked req sched p = true <-> In p req.
Proof. exact checked_iff_requested_lemma. Qed.
Print Assumptions C19_checked_iff_requested.

Theorem C19_checked_independent_of_order_and_schedule : forall req1 req2 sched1 sched2,
  (forall p, In p req1 <-> In p req2) -> forall p, ef_checked req1 sched1 p = ef_checked req2 sched2 p.
Proof. exact checked_schedule_order_independent_lemma. Qed.
Print Assumptions C19_checked_independent_of_order_and_schedule.

(* the lock is what makes it so: when compileLocked calls of the loop and of the tasks may
   interleave, a requested file can end up unchecked *)
Theorem C19_request_loop_needs_lock :
  exists evs p, In (p, true) evs /\ checked_in (run_events [] evs) p = false.
Proof. exact unlocked_loop_refuted_lemma. Qed.
Print Assumptions C19_request_loop_needs_lock.

(* non-vacuity: the witness file set; import 2 is warned about, import 1 is used, the type
   resolves with either one of them and not without both *)
Example C19_nonvacuous :
  warned_list ex_W ex_f ex_refs = [2%N] /\ used ex_W ex_f ex_refs = [1%N] /\
  fst (run ex_W ex_f (ref_prog [] (RType [] pX))) = GDesc pX KMessage /\
  fst (run ex_W (remove_import 2 ex_f) (ref_prog [] (RType [] pX))) = GDesc pX KMessage /\
  fst (run ex_W (remove_import 1 (remove_import 2 ex_f)) (ref_prog [] (RType [] pX))) = GNil.
Proof. exact unused_example. Qed.
