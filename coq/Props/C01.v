(* C01 - Accept/reject agrees with protoc.  Statements only; proofs are in Proofs/ValidateRanges.v,
   Proofs/Validate.v, Proofs/ValidateJson.v.  The functions on the left of each statement mirror
   parser/result.go, parser/validate.go and linker/validate.go as they are (Model/Lower.v,
   Model/Validate.v); the propositions on the right are the declarative rules of
   Model/ValiditySpec.v.  Every statement is for all inputs (no bound on the number of ranges,
   fields, values or on their magnitudes). *)
From Coq Require Import List NArith ZArith Bool.
From PV Require Import Model.MiniProto Model.Lower Model.Validate Model.ValiditySpec Model.ProtocDescriptor.
From PV Require Import Proofs.ValidateRanges Proofs.Validate Proofs.ValidateJson Proofs.ValidateBasic Proofs.ExtDecl Proofs.LowerNames.
Import ListNotations.
Open Scope Z_scope.

(* ---- F1: numeric ranges ---- *)

(* message reserved / extension ranges: sort by (start, end), report where start < previous end.
   Something is reported iff two of the ranges share a number. *)
Theorem C01_ranges_overlap_sorted_iff : forall e rs, Forall wf_ho rs ->
  (overlap_errs Z.ltb (sort_rngs rs) e <> [] <-> two_share in_ho rs).
Proof. exact ranges_overlap_sorted_iff_lemma. Qed.
Print Assumptions C01_ranges_overlap_sorted_iff.

(* enum reserved ranges are closed: start <= previous end *)
Theorem C01_enum_ranges_overlap_sorted_iff : forall e rs, Forall wf_cl rs ->
  (overlap_errs Z.leb (sort_rngs rs) e <> [] <-> two_share in_cl rs).
Proof. exact enum_ranges_overlap_sorted_iff_lemma. Qed.
Print Assumptions C01_enum_ranges_overlap_sorted_iff.

(* the two-index scan over the sorted reserved and extension ranges: the fuel of the model
   suffices, and something is reported iff a reserved and an extension range share a number *)
Theorem C01_cross_overlap_iff : forall rsvr extr, Forall wf_ho rsvr -> Forall wf_ho extr ->
  exists l, merge_scan (length (sort_rngs rsvr) + length (sort_rngs extr)) (sort_rngs rsvr) (sort_rngs extr) = Some l
            /\ (l <> [] <-> cross_share in_ho rsvr extr).
Proof. exact cross_overlap_iff_lemma. Qed.
Print Assumptions C01_cross_overlap_iff.

(* sort.Search for the first range whose end exceeds the number, then one comparison with its
   start: when no two ranges share a number this decides membership in some range *)
Theorem C01_tag_in_range_iff : forall rs n, Forall wf_ho rs -> ~ two_share in_ho rs ->
  exists b, in_sorted_ranges Z.gtb (sort_rngs rs) n = Some b /\ (b = true <-> in_some in_ho n rs).
Proof. exact tag_in_range_iff_lemma. Qed.
Print Assumptions C01_tag_in_range_iff.

Theorem C01_enum_number_in_range_iff : forall rs n, Forall wf_cl rs -> ~ two_share in_cl rs ->
  exists b, in_sorted_ranges Z.geb (sort_rngs rs) n = Some b /\ (b = true <-> in_some in_cl n rs).
Proof. exact enum_number_in_range_iff_lemma. Qed.
Print Assumptions C01_enum_number_in_range_iff.

(* checkTag: 1 .. max without 19000 .. 19999 *)
Theorem C01_check_tag_iff : forall v maxTag, check_tag v maxTag = None <-> tag_ok maxTag v.
Proof. exact check_tag_iff_lemma. Qed.
Print Assumptions C01_check_tag_iff.

(* getRangeBounds: no error iff the written range is inside lo .. hi with start <= end (max
   stands for hi), and then the bounds are the denoted interval *)
Theorem C01_range_bounds_iff : forall r lo hi,
  (snd (range_bounds r lo hi) = [] <-> srange_ok lo hi r) /\
  (srange_ok lo hi r -> fst (range_bounds r lo hi) = srange_bounds hi r).
Proof. exact range_bounds_iff_lemma. Qed.
Print Assumptions C01_range_bounds_iff.

(* ---- F1 + F2 for one message: validateMessage reports nothing iff no extension ranges in
   proto3, ranges pairwise disjoint, extension and reserved ranges disjoint, field numbers distinct
   and outside every range, reserved names identifiers, no field with a reserved name ---- *)
Theorem C01_validate_message_iff : forall syn m,
  Forall wf_ho (dm_rsvr m) -> Forall wf_ho (dm_extr m) -> Forall (fun f => df_name f <> []) (dm_fields m) ->
  (validate_message syn m = [] <->
   msg_desc_ok true syn (dm_rsvr m) (dm_extr m) (dm_rsvn m) (names_nums (dm_fields m))).
Proof. exact validate_message_iff_lemma. Qed.
Print Assumptions C01_validate_message_iff.

(* ---- one enum: at least one value, allow_alias a single boolean, first value zero in proto3,
   numbers distinct unless allow_alias (and then not all distinct), reserved ranges disjoint and
   free of values, reserved names identifiers and unused ---- *)
Theorem C01_validate_enum_iff : forall syn e,
  Forall wf_cl (de_rsv e) -> Forall (fun p => fst p <> []) (de_values e) ->
  (validate_enum syn e = [] <->
   enum_desc_ok true false syn (alias_of (de_alias e)) (de_values e) (de_rsv e) (de_rsvn e)).
Proof. exact validate_enum_iff_lemma. Qed.
Print Assumptions C01_validate_enum_iff.

(* ---- F4: labels and keywords per syntax ---- *)
Theorem C01_validate_field_iff : forall syn fd,
  validate_field syn fd = [] <->
  field_rules_ok syn (is_some (df_label fd)) (is_label (df_label fd) DRequired) (is_label (df_label fd) DOptional)
                 (is_some (df_oneof fd)) (ext_nonempty fd) (is_group (df_type fd)) (has_default_opt fd).
Proof. exact validate_field_iff_lemma. Qed.
Print Assumptions C01_validate_field_iff.

(* ---- composition over the whole descriptor (validate_sound_complete at the level of
   validateBasic): for every file descriptor whose ranges are non-empty intervals and whose names
   are non-empty (what the construction guarantees when it reported nothing), the walk of
   validateBasic over messages, fields, nested messages to any depth, enums and extensions reports
   nothing iff no import is repeated and every message, enum, field and extension is valid ---- *)
Theorem C01_validate_basic_iff : forall d, file_wf d -> (validate_basic d = [] <-> file_valid d).
Proof. exact validate_basic_iff_lemma. Qed.
Print Assumptions C01_validate_basic_iff.

(* ---- extension declarations: validateExtension walks the extension ranges of the extendee, skips
   those that do not contain the number and checks the declaration in the first that does.  For
   pairwise disjoint ranges (what validateBasic enforces) this is the declarative reading: the one
   range that contains the number is consulted; if it asks for declarations the declaration with
   that number must exist, not be reserved, and match full name, type and cardinality ---- *)
Theorem C01_extension_range_lookup_iff : forall miss card xrs num fn ty rep,
  ~ two_share in_ho (map xr_rng xrs) ->
  go_ext_decl_errs miss card xrs num fn ty rep = spec_ext_decl_errs miss card xrs num fn ty rep.
Proof. exact extension_range_lookup_iff_lemma. Qed.
Print Assumptions C01_extension_range_lookup_iff.

(* ---- F2: JSON names ---- *)
(* proto3 / editions: no error iff default names pairwise distinct and effective names pairwise distinct *)
Theorem C01_json_compliant_iff : forall fs,
  json_conflict_errs true fs = [] <-> json_names_ok_compliant (map dflt fs) (map df_json fs).
Proof. exact json_compliant_iff_lemma. Qed.
Print Assumptions C01_json_compliant_iff.

(* the same characterisation holds for protoc's two-pass algorithm *)
Theorem C01_protoc_json_compliant_iff : forall fs, Forall jwf fs ->
  (protoc_json_errors to_json_name true fs = [] <-> json_names_ok_compliant (map jdflt fs) (map jjson fs)).
Proof. exact protoc_json_compliant_iff_lemma. Qed.
Print Assumptions C01_protoc_json_compliant_iff.

(* hence the verdicts agree wherever JSON support is mandatory *)
Theorem C01_json_go_eq_protoc_compliant : forall fs,
  Forall (fun fd => has_custom_json fd = false -> df_json fd = json_name (df_name fd)) fs ->
  (json_conflict_errs true fs = [] <-> protoc_json_errors to_json_name true (map jf_of fs) = []).
Proof. exact json_go_eq_protoc_compliant_lemma. Qed.
Print Assumptions C01_json_go_eq_protoc_compliant.

(* and in proto2 the Go code is stricter, as the repository documents (linker_test.go
   failure_json_name_custom_and_default_proto2) *)
Theorem C01_json_go_stricter_proto2 :
  json_conflict_errs false [ex_foo; ex_foo_bar] = [EJsonConflict] /\
  protoc_json_errors to_json_name false (map jf_of [ex_foo; ex_foo_bar]) = [].
Proof. exact json_go_stricter_proto2_lemma. Qed.
Print Assumptions C01_json_go_stricter_proto2.

(* ---- F2, reserved names as written in the source (parser/result.go addReservedNames), both spellings: in an editions
   file the identifiers are read, otherwise the string literals ([spelled]); the other spelling is reported iff it is
   used; a duplicate is reported iff the names read repeat among themselves or meet a name an earlier reserved
   statement of the same message / enum recorded ([seen] is alreadyReserved); afterwards exactly the earlier names and
   the names of this statement are recorded, whatever was reported; without a report the names are appended to the
   descriptor in source order ---- *)
Theorem C01_reserved_names_iff : forall syn strs idents names seen names' seen' errs',
  add_reserved_names syn strs idents names seen = (names', seen', errs') ->
  let ns := spelled syn strs idents in
  (In EReservedNameForm errs' <-> misspelled syn strs idents <> []) /\
  (In EReservedNameDup errs' <-> ~ (NoDup ns /\ forall x, In x ns -> ~ In x seen)) /\
  (errs' = [] <-> misspelled syn strs idents = [] /\ NoDup ns /\ forall x, In x ns -> ~ In x seen) /\
  (forall x, In x seen' <-> In x seen \/ In x ns) /\
  (exists added, names' = names ++ added /\ seen' = seen ++ added /\ (errs' = [] -> added = ns)).
Proof. exact reserved_names_iff_lemma. Qed.
Print Assumptions C01_reserved_names_iff.

(* non-vacuity of the above: edition 2023, reserved foo, foo - and reserved foo after an earlier reserved foo *)
Example C01_reserved_names_nonvacuous :
  add_reserved_names Editions [] [[102;111;111]; [102;111;111]]%N [] [] = ([[102;111;111]], [[102;111;111]], [EReservedNameDup])%N /\
  add_reserved_names Editions [] [[98]; [102;111;111]]%N [[102;111;111]]%N [[102;111;111]]%N
    = ([[102;111;111]; [98]], [[102;111;111]; [98]], [EReservedNameDup])%N /\
  add_reserved_names Proto2 [[102;111;111]; [102;111;111]]%N [] [] [] = ([[102;111;111]], [[102;111;111]], [EReservedNameDup])%N.
Proof. repeat split; vm_compute; reflexivity. Qed.

(* non-vacuity: reserved 5 to 9 and 1 to 5 (half-open [5,10) and [1,6)) share the number 5, the
   scan reports it; with 1 to 4 instead nothing is reported and 9 is found in a range, 10 is not *)
Example C01_nonvacuous :
  Forall wf_ho [(5, 10); (1, 6)] /\
  overlap_errs Z.ltb (sort_rngs [(5, 10); (1, 6)]) EMsgReservedOverlap = [EMsgReservedOverlap] /\
  overlap_errs Z.ltb (sort_rngs [(5, 10); (1, 5)]) EMsgReservedOverlap = [] /\
  in_sorted_ranges Z.gtb (sort_rngs [(5, 10); (1, 5)]) 9 = Some true /\
  in_sorted_ranges Z.gtb (sort_rngs [(5, 10); (1, 5)]) 10 = Some false /\
  check_tag 19000 field_max = Some ETag19000 /\ check_tag 536870911 field_max = None.
Proof. exact c01_example. Qed.
