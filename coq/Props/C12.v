(* C12 - Parser is total and reports positions inside the file (lexer level).  Statements only;
   proofs in Proofs/Lexer.v.  The model is Model/Lexer.v, a branch-by-branch mirror of
   parser/lexer.go.  The goyacc automaton driven by these tokens is generated code: it is exercised
   by the harness (no panic, error iff reported, positions inside the file), not modelled. *)
From Coq Require Import List NArith ZArith Bool.
From PV Require Import Model.Lexer Proofs.Lexer.
Import ListNotations.

(* for every byte string the lexer terminates with tokens or with reported errors:
   the model's fuel (input length + 1) is never exhausted *)
Theorem C12_lex_total : forall data, lex data <> LFuel.
Proof. exact lex_total_lemma. Qed.
Print Assumptions C12_lex_total.

(* when lexing fails at least one error is reported, and every reported offset lies inside the
   file (0 <= offset <= length), for every byte string incl. invalid UTF-8 *)
Theorem C12_lex_error_positions : forall data items es, lex data = LFail items es ->
  es <> [] /\ forall e z, In (e, z) es -> (0 <= z <= Z.of_nat (length (strip_bom data)))%Z.
Proof. exact lex_error_positions_lemma. Qed.
Print Assumptions C12_lex_error_positions.

(* non-vacuity: the input that made the unrepaired parser panic (a hex escape followed by invalid
   UTF-8 at the start of the file) now yields an error at offset 1, inside the file *)
Example C12_nonvacuous :
  lex [34; 92; 120; 255; 255; 34]%N = LFail [] [(EStringEscape, 1%Z)].
Proof. vm_compute. reflexivity. Qed.

(* positions on the accepting side: every token and comment of an accepted input lies inside the file
   (offset + length <= length of the text after the byte order mark), for every byte string *)
Theorem C12_lex_item_positions : forall data items, lex data = LDone items ->
  forall it, In it items -> i_off it + i_len it <= length (strip_bom data).
Proof. exact lex_item_positions_lemma. Qed.
Print Assumptions C12_lex_item_positions.
