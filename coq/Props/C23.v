(* C23 - Source code info is well-formed in every mode.  Statements only; proofs are in
   Proofs/SourceInfo.v (on top of Proofs/FileInfo.v for positions and Proofs/Comments.v for comments).
   Model: Model/FileInfo.v (line table, SourcePos, NodeInfo.Start / End), Model/Comments.v (makeSpan, the
   comment attribution, and the location list as the sequence of newLocWithoutComments / newLoc /
   newLocWithComments calls the walk over the syntax tree issues: a request names the kind of call, whether
   it comes from generateSourceInfoForOptionChildren, path, span and the two gaps its comments are taken
   from; gen_locs cf extraComments extraOptionLocs gaps used requests = sci.locs).
   Which requests the walk issues for which syntax tree, and that their paths name existing elements, is
   not modelled: that part is checked on the implementation by checks/C23.py only. *)
From Coq Require Import List NArith ZArith Bool Arith Sorted Lia.
From PV Require Import Common.Bytes Model.Utf8 Model.Lines Model.FileInfo Model.Lexer Model.Comments
     Model.ProtocComments Proofs.Comments Proofs.SourceInfo.
Import ListNotations.
Open Scope nat_scope.

(* makeSpan of NodeInfo.Start of an item and NodeInfo.End of an item not before it: three or four numbers,
   start no later than end, lines inside the file; for every strictly increasing line table *)
Theorem C23_span_well_formed : forall t data i1 i2 s e,
  StronglySorted lt (0 :: t) -> fst i1 <= fst i2 ->
  item_start (0 :: t) data i1 = Some s -> node_end (0 :: t) data i2 = Some e ->
  span_ok (length (0 :: t)) (make_span s e).
Proof. exact span_well_formed_lemma. Qed.
Print Assumptions C23_span_well_formed.

(* ... in particular for the table the lexer records while it scans the file *)
Theorem C23_span_well_formed_lexed : forall data i1 i2 s e,
  fst i1 <= fst i2 ->
  item_start (lex_lines data) data i1 = Some s -> node_end (lex_lines data) data i2 = Some e ->
  span_ok (length (lex_lines data)) (make_span s e).
Proof. exact span_well_formed_lexed_lemma. Qed.
Print Assumptions C23_span_well_formed_lexed.

(* every comment of every location, in every mode, is combineComments of a run of consecutive comments
   of one gap of the source *)
Theorem C23_comments_are_source_text : forall cf extra g x,
  In x (texts (go_attribution_mode cf extra g)) ->
  exists pre grp post, g_units g = pre ++ grp ++ post /\ x = flat_map (go_ctext cf) grp.
Proof. exact comments_are_source_text_lemma. Qed.
Print Assumptions C23_comments_are_source_text.

(* extraComments: same locations (origin, path, span), in the same order *)
Theorem C23_extra_comments_same_locations : forall cf optlocs gaps rs used1 used2,
  map shape (gen_locs cf true optlocs gaps used1 rs) = map shape (gen_locs cf false optlocs gaps used2 rs).
Proof. exact extra_comments_same_locations_lemma. Qed.
Print Assumptions C23_extra_comments_same_locations.

(* ... but for an arbitrary sequence of calls NOT only added comments: a location can lose its comment to one
   generated before it with newLoc.  The witness refute_reqs is the sequence the walk issued for a group
   without label inside a oneof before the repair 216acdc1 (newLoc on the keyword group, the first token);
   since then the walk issues newLocWithoutComments there and the guard of the next theorem holds for it *)
Theorem C23_extra_comments_only_add_refuted :
  exists cf gaps rs, ~ Forall2 keeps (gen_locs cf false false gaps [] rs) (gen_locs cf true false gaps [] rs).
Proof. exact extra_comments_only_add_refuted_lemma. Qed.
Print Assumptions C23_extra_comments_only_add_refuted.

(* it holds when no newLoc location starts at the first token, or ends at the last token, of a location
   with comments, and the attribution inside the gaps does not depend on the flag *)
Theorem C23_extra_comments_only_add_partial : forall cf optlocs gaps rs,
  roles_stable cf gaps -> plain_apart rs ->
  Forall2 keeps (gen_locs cf false optlocs gaps [] rs) (gen_locs cf true optlocs gaps [] rs).
Proof. exact extra_comments_only_add_partial_lemma. Qed.
Print Assumptions C23_extra_comments_only_add_partial.

(* extraOptionLocs only adds: without the locations issued inside option values the list is unchanged
   (with their comments), and the added ones carry no comments, in the standard comment mode *)
Theorem C23_extra_option_locs_only_add : forall cf gaps rs used,
  opt_plain rs ->
  filter (fun o => negb (o_opt o)) (gen_locs cf false true gaps used rs) = gen_locs cf false false gaps used rs /\
  Forall (fun o => o_opt o = true -> o_trail o = [] /\ o_det o = [] /\ o_lead o = []) (gen_locs cf false true gaps used rs).
Proof. exact extra_option_locs_only_add_lemma. Qed.
Print Assumptions C23_extra_option_locs_only_add.

(* ... and in every comment mode as far as origin, paths and spans go *)
Theorem C23_extra_option_locs_same_other_locations : forall cf extra gaps rs used1 used2,
  map shape (filter (fun o => negb (o_opt o)) (gen_locs cf extra true gaps used1 rs))
  = map shape (gen_locs cf extra false gaps used2 rs).
Proof. exact extra_option_locs_shapes_lemma. Qed.
Print Assumptions C23_extra_option_locs_same_other_locations.

(* every comment of a gap, delimiters included, is a piece of the bytes between the two tokens *)
Theorem C23_comment_units_in_source : forall prev bs next g u,
  gap_of_bytes prev bs next = Some g -> In u (g_units g) ->
  exists a b, bs = a ++ delim (u_blk u) ++ u_text u ++ b.
Proof. exact gap_units_in_source_lemma. Qed.
Print Assumptions C23_comment_units_in_source.

(* non-vacuity: a two-line span and a one-line span *)
Example C23_nonvacuous :
  make_span (3, 5) (4, 2) = [2; 4; 3; 1]%Z /\ span_ok 10 (make_span (3, 5) (4, 2)) /\
  make_span (3, 5) (3, 9) = [2; 4; 8]%Z /\ span_ok 10 (make_span (3, 5) (3, 9)) /\
  ~ span_ok 10 [2; 4; 3]%Z.
Proof. repeat split; try reflexivity; cbn; try lia. Qed.
