(* C10 - Re-linking compiled output is a fixpoint.  Statements only; proofs are in Proofs/Relink.v. *)
From Coq Require Import List Bool String.
From PV Require Import Model.Relink Proofs.Relink.
From PV Require Import Model.JsonNames Proofs.JsonNames Model.MapRelink Proofs.MapRelink.
Import ListNotations.

(* A reference with a leading dot resolves to exactly the name it spells (if that name is visible), whatever
   the scope it stands in, and linking leaves it as it is. *)
Theorem C10_resolve_absolute_idempotent : forall vis pkg chain only_types p d,
  resolve vis pkg chain only_types (mkref true p) = Some d -> fst d = p /\ query_all vis p = Some (snd d).
Proof. exact resolve_absolute_idempotent_lemma. Qed.
Print Assumptions C10_resolve_absolute_idempotent.

Theorem C10_link_absolute_unchanged : forall vis pkg chain w p r',
  link_ref vis pkg chain w (mkref true p) = LOk r' -> r' = mkref true p.
Proof. exact link_absolute_unchanged_lemma. Qed.
Print Assumptions C10_link_absolute_unchanged.

(* Linking the output of a successful link succeeds and returns it unchanged: for every file, package, set of
   visible symbols, nesting of scopes and spelling of the references. *)
Theorem C10_link_idempotent : forall f f', link f = Some f' -> link f' = Some f'.
Proof. exact link_idempotent_lemma. Qed.
Print Assumptions C10_link_idempotent.

Theorem C10_linked_refs_absolute : forall f f', link f = Some f' ->
  Forall (fun x => r_abs (snd x) = true) (rf_refs f').
Proof. exact linked_refs_absolute_lemma. Qed.
Print Assumptions C10_linked_refs_absolute.

(* non-vacuity: package a.b; message a.b.M with nested N and a field of type N (written relative), another
   field written b.M.N (relative to package prefix a), an extendee written with a leading dot *)
Example C10_nonvacuous :
  let own := mkfs ["a"; "b"] [(["a"; "b"; "M"], KMessage); (["a"; "b"; "M"; "N"], KMessage);
                             (["a"; "b"; "M"; "f"], KOther); (["a"; "b"; "E"], KEnum)] in
  let f := mkrfile [own] ["a"; "b"]
             [([["a"; "b"; "M"]], WType, mkref false ["N"]);
              ([["a"; "b"; "M"]], WType, mkref false ["b"; "M"; "N"]);
              ([["a"; "b"; "M"]], WType, mkref false ["E"]);
              ([], WMessage, mkref true ["a"; "b"; "M"])] in
  option_map rf_refs (link f)
  = Some [([["a"; "b"; "M"]], WType, mkref true ["a"; "b"; "M"; "N"]);
          ([["a"; "b"; "M"]], WType, mkref true ["a"; "b"; "M"; "N"]);
          ([["a"; "b"; "M"]], WType, mkref true ["a"; "b"; "E"]);
          ([], WMessage, mkref true ["a"; "b"; "M"])].
Proof. vm_compute. reflexivity. Qed.

(* JSON-name validation on the second pass. The fields of a message of a file compiled from source (every field
   without an explicit json_name carries the default one), validated again without the AST: an error is reported
   only where the source compilation reported one, whatever the names, the custom names and the JSON compliance
   of the message. So warning-only conflicts (two default names in a proto2 or LEGACY_BEST_EFFORT message) stay
   warnings when the output is linked again. *)
Theorem C10_relink_json_errors_subset : forall compliant fs,
  Forall compiled fs -> In EErr (validate compliant false fs) -> In EErr (validate compliant true fs).
Proof. exact relink_json_errors_subset_lemma. Qed.
Print Assumptions C10_relink_json_errors_subset.

Theorem C10_relink_json_no_new_errors : forall compliant fs,
  Forall compiled fs -> errors (validate compliant true fs) = 0 -> errors (validate compliant false fs) = 0.
Proof. exact relink_json_no_new_errors_lemma. Qed.
Print Assumptions C10_relink_json_no_new_errors.

(* non-vacuity: foo_bar and fooBar in a proto2 message: one warning from source, one warning on the re-link; the
   same two fields in a JSON-compliant message are an error in both; an explicit json_name equal to the default is
   custom only while the AST is there *)
Example C10_nonvacuous_json :
  let a := mkjf "foo_bar" "fooBar" "fooBar" false in
  let b := mkjf "fooBar" "fooBar" "fooBar" false in
  let c := mkjf "x_y" "xY" "xY" true in
  validate false true [a; b] = [EWarn] /\ validate false false [a; b] = [EWarn] /\
  validate true true [a; b] = [EErr] /\ validate true false [a; b] = [EErr] /\
  claim true true c = ("xY", true) /\ claim true false c = ("xY", false).
Proof. vm_compute. repeat split; reflexivity. Qed.

(* References to synthetic map entries on the second pass (no AST). The fields of a message compiled from source: every
   map field is repeated and its entry is named after it. The code as it is accepts them all PROVIDED the repeated fields
   of the message - map fields or not - claim pairwise different entry names; without the proviso this is refuted (a
   repeated int32 Foo_bar before map foo_bar: the scan of the earlier fields does not look at what they refer to), which
   is the known finding map-entry-twin. The repaired scan (fixes/C10-map-entry-twin.diff) needs only that the map fields
   have different entry names, which every accepted source has (two equal entry names are a duplicate symbol). *)
Theorem C10_relink_map_fields_partial : forall fs,
  Forall from_source fs -> NoDup (repeated_entry_names fs) -> relink_errors [] fs = 0.
Proof. exact relink_map_fields_partial_lemma. Qed.
Print Assumptions C10_relink_map_fields_partial.

Theorem C10_relink_map_fields_refuted : exists fs,
  Forall from_source fs /\ NoDup (map_entry_names fs) /\ relink_errors [] fs = 1.
Proof. exact relink_map_fields_refuted_lemma. Qed.
Print Assumptions C10_relink_map_fields_refuted.

Theorem C10_relink_map_fields_repaired : forall fs,
  Forall from_source fs -> NoDup (map_entry_names fs) -> relink_errors_repaired [] fs = 0.
Proof. exact relink_map_fields_repaired_lemma. Qed.
Print Assumptions C10_relink_map_fields_repaired.

(* non-vacuity: a map field with a custom json_name is accepted whatever the JSON name is (the entry is named after the
   field's NAME); an explicit second reference to the same entry is an error *)
Example C10_nonvacuous_map :
  relink_errors [] [mkmf "name" "NameEntry" false None; mkmf "attrs" "AttrsEntry" true (Some "AttrsEntry")] = 0 /\
  relink_errors [] [mkmf "attrs" "AttrsEntry" true (Some "AttrsEntry"); mkmf "again" "AgainEntry" true (Some "AttrsEntry")] = 1.
Proof. vm_compute. split; reflexivity. Qed.
