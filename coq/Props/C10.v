(* C10 - Re-linking compiled output is a fixpoint.  Statements only; proofs are in Proofs/Relink.v. *)
From Coq Require Import List Bool String.
From PV Require Import Model.Relink Proofs.Relink.
Import ListNotations.

(* A reference with a leading dot resolves to exactly the name it spells (if that name is visible), whatever
   the scope it stands in, and linking leaves it as it is. *)
Theorem C10_resolve_absolute_idempotent : forall vis pkg chain only_types p d,
  resolve vis pkg chain only_types (mkref true p) = Some d -> fst d = p /\ query_all vis p = Some (snd d).
Proof. exact resolve_absolute_idempotent_lemma. Qed.
Print Assumptions C10_resolve_absolute_idempotent.

Theorem C10_link_absolute_unchanged : forall vis pkg chain w p r',
  link_ref vis pkg chain w (mkref true p) = LOk r' -> r' = mkref true p.
Proof. exact link_absolute_unchanged_lemma. Qed.
Print Assumptions C10_link_absolute_unchanged.

(* Linking the output of a successful link succeeds and returns it unchanged: for every file, package, set of
   visible symbols, nesting of scopes and spelling of the references. *)
Theorem C10_link_idempotent : forall f f', link f = Some f' -> link f' = Some f'.
Proof. exact link_idempotent_lemma. Qed.
Print Assumptions C10_link_idempotent.

Theorem C10_linked_refs_absolute : forall f f', link f = Some f' ->
  Forall (fun x => r_abs (snd x) = true) (rf_refs f').
Proof. exact linked_refs_absolute_lemma. Qed.
Print Assumptions C10_linked_refs_absolute.

(* non-vacuity: package a.b; message a.b.M with nested N and a field of type N (written relative), another
   field written b.M.N (relative to package prefix a), an extendee written with a leading dot *)
Example C10_nonvacuous :
  let own := mkfs ["a"; "b"] [(["a"; "b"; "M"], KMessage); (["a"; "b"; "M"; "N"], KMessage);
                             (["a"; "b"; "M"; "f"], KOther); (["a"; "b"; "E"], KEnum)] in
  let f := mkrfile [own] ["a"; "b"]
             [([["a"; "b"; "M"]], WType, mkref false ["N"]);
              ([["a"; "b"; "M"]], WType, mkref false ["b"; "M"; "N"]);
              ([["a"; "b"; "M"]], WType, mkref false ["E"]);
              ([], WMessage, mkref true ["a"; "b"; "M"])] in
  option_map rf_refs (link f)
  = Some [([["a"; "b"; "M"]], WType, mkref true ["a"; "b"; "M"; "N"]);
          ([["a"; "b"; "M"]], WType, mkref true ["a"; "b"; "M"; "N"]);
          ([["a"; "b"; "M"]], WType, mkref true ["a"; "b"; "E"]);
          ([], WMessage, mkref true ["a"; "b"; "M"])].
Proof. vm_compute. reflexivity. Qed.
