(* C18 - Resolvers expose exactly the visible elements.  Statements only; proofs are in
   Proofs/Visibility.v.  resolver_find G f q is fileResolver{f}.Find* (q: by name, by extendee and
   tag, by file path) = resolveInFile(f, false, nil, ...); visible G a b says that the file with
   path b is a itself, a direct import of a, or reachable from a direct import through public
   imports only (Model/Visibility.v). *)
From Coq Require Import List NArith ZArith Bool Relations.
From PV Require Import Model.Visibility Proofs.Visibility.
Import ListNotations.

(* a resolver finds an element exactly when a file of the visible set defines it; for names,
   extension numbers and file paths alike (q ranges over the three kinds of query) *)
Theorem C18_find_iff_visible : forall G f q, graph_ok G = true -> In f G ->
  ((exists p e, resolver_find G f q = VFound p e) <->
   (exists g, In g G /\ visible G (vf_path f) (vf_path g) /\ query_fn q g <> None)).
Proof. exact find_iff_visible_lemma. Qed.
Print Assumptions C18_find_iff_visible.

(* and what it finds is the element of such a file *)
Theorem C18_find_sound : forall G f q p e, graph_ok G = true -> In f G ->
  resolver_find G f q = VFound p e ->
  exists g, In g G /\ vf_path g = p /\ visible G (vf_path f) p /\ query_fn q g = Some e.
Proof. exact find_sound_lemma. Qed.
Print Assumptions C18_find_sound.

(* a lookup never panics and never runs out of fuel *)
Theorem C18_find_total : forall G f q, graph_ok G = true -> In f G ->
  resolver_find G f q = VNotFound \/ exists p e, resolver_find G f q = VFound p e.
Proof. exact find_total_lemma. Qed.
Print Assumptions C18_find_total.

(* the traversal terminates on every graph, cycles through public imports included (graph_ok
   does not exclude them): fuel above the number of files is never exhausted, for any lookup
   function, any starting checked list and either value of publicImportsOnly, and more fuel does
   not change the answer *)
Theorem C18_resolveInFile_terminates : forall G fn po checked f fuel,
  graph_ok G = true -> In f G -> (length G < fuel)%nat ->
  visit G fn fuel po checked f <> VOutOfFuel /\ visit G fn fuel po checked f <> VPanic /\
  visit G fn fuel po checked f = visit G fn (S (length G)) po checked f.
Proof. exact resolveInFile_terminates_lemma. Qed.
Print Assumptions C18_resolveInFile_terminates.

(* the weak flag of an import plays no part: clearing it on every import of every file (unweak)
   changes no answer of any resolver; with C18_find_iff_visible, whose visible set treats a weak
   import like any other direct import and a public import as public whatever its weak flag *)
Theorem C18_weak_flag_irrelevant : forall G f q,
  resolver_find (unweak G) (unweak_file f) q = resolver_find G f q.
Proof. exact weak_flag_irrelevant_lemma. Qed.
Print Assumptions C18_weak_flag_irrelevant.

(* the public closure used by visible is the reflexive-transitive closure of public import *)
Theorem C18_pub_closure_is_rt_closure : forall G a b,
  pub_closure G a b <-> clos_refl_trans_1n N (pub_edge G) a b.
Proof. exact pub_closure_rt. Qed.
Print Assumptions C18_pub_closure_is_rt_closure.

(* non-vacuity: a graph with a cycle through public imports (1 -> 2 -> 1) and weak flags on the
   direct import of 0, on the public edge 2 -> 1 and on the non-public edge 2 -> 3; from file 0 the
   elements of 2 are found through the public edge, those of 3 (a non-public import of 2) are not *)
Example C18_nonvacuous :
  graph_ok ex_G = true /\
  resolver_find ex_G (mkV 0 [(1, false)] [] [] [1])%N (QName 5) = VFound 2 5 /\
  resolver_find ex_G (mkV 0 [(1, false)] [] [] [1])%N (QName 7) = VNotFound /\
  resolver_find ex_G (mkV 0 [(1, false)] [] [] [1])%N (QExt 9 100) = VFound 2 6 /\
  resolver_find ex_G (mkV 0 [(1, false)] [] [] [1])%N (QPath 3) = VNotFound /\
  resolver_find ex_G (mkV 2 [(1, true); (3, false)] [5] [(9, 100%Z, 6)] [1; 3])%N (QPath 3) = VFound 3 3.
Proof. exact visibility_example. Qed.
