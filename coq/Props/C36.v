(* C36 - Diagnostics are deterministic.  Statements only; proofs are in Proofs/Canon.v.
   canon_rel keep l o: o is a possible content of Report.Diagnostics after Canonicalize on l
   (keep = Options.KeepDuplicates).  The sort is any sorted permutation (slices.SortFunc is not stable);
   the duplicate marking and deletion are the functions written in the code. *)
From Coq Require Import List ZArith NArith Bool Sorting.Permutation Sorting.Sorted.
From PV Require Import Model.Canon Proofs.Canon.
Import ListNotations.
Open Scope Z_scope.

(* Canonicalize always has an outcome (so the statements below are not vacuous) *)
Theorem C36_canon_rel_total : forall keep l, canon_rel keep l (canonicalize keep l).
Proof. exact canon_rel_total_lemma. Qed.
Print Assumptions C36_canon_rel_total.

(* Canonicalizing twice changes nothing: every outcome of one pass is a fixed point of the next pass.
   Needs: no diagnostic already has the level -1 that the code uses as its deletion mark. *)
Theorem C36_canon_idempotent : forall keep l o,
  no_sentinel l -> canon_rel keep l o -> canon_rel keep o o.
Proof. exact canon_idempotent_lemma. Qed.
Print Assumptions C36_canon_idempotent.

(* ... and it is the only outcome of the next pass when the six keys identify the diagnostics *)
Theorem C36_canon_idempotent_unique : forall keep l o o',
  no_sentinel l -> keys_injective l -> canon_rel keep l o -> canon_rel keep o o' -> o' = o.
Proof. exact canon_idempotent_unique_lemma. Qed.
Print Assumptions C36_canon_idempotent_unique.

(* whatever the keys, for a sort that leaves sorted input alone (the stable instance) *)
Theorem C36_canonicalize_idempotent : forall keep l,
  no_sentinel l -> canonicalize keep (canonicalize keep l) = canonicalize keep l.
Proof. exact canonicalize_idempotent_lemma. Qed.
Print Assumptions C36_canonicalize_idempotent.

Theorem C36_canon_idempotent_needs_no_sentinel :
  canon_rel false [sen_d; sen_x; sen_y] [sen_d; sen_y] /\
  (forall o', canon_rel false [sen_d; sen_y] o' -> o' = [sen_y]) /\
  canonicalize false (canonicalize false [sen_d; sen_x; sen_y]) <> canonicalize false [sen_d; sen_x; sen_y].
Proof. exact canon_idempotent_needs_no_sentinel_lemma. Qed.
Print Assumptions C36_canon_idempotent_needs_no_sentinel.

(* Same result for every input order: any two outcomes on two permutations of the same list are equal,
   PROVIDED no two different diagnostics of the list agree on all six sort keys. *)
Theorem C36_canon_perm_invariant : forall keep l l' o o',
  Permutation l l' -> keys_injective l -> canon_rel keep l o -> canon_rel keep l' o' -> o = o'.
Proof. exact canon_perm_invariant_lemma. Qed.
Print Assumptions C36_canon_perm_invariant.

(* The hypothesis cannot be dropped: two diagnostics equal on the six keys, different in level. Both
   orders are outcomes on the same input (unstable sort), and a stable sort keeps the input order, so it
   also gives different results on the two permutations. What is missing in the code is a tie-break on
   the remaining fields. *)
Theorem C36_canon_perm_invariant_needs_injective :
  dcmp tie_a tie_b = Eq /\ tie_a <> tie_b /\ Permutation [tie_a; tie_b] [tie_b; tie_a] /\
  forall keep,
    canon_rel keep [tie_a; tie_b] [tie_a; tie_b] /\ canon_rel keep [tie_a; tie_b] [tie_b; tie_a] /\
    canon_rel keep [tie_b; tie_a] [tie_b; tie_a] /\
    canonicalize keep [tie_a; tie_b] <> canonicalize keep [tie_b; tie_a].
Proof. exact canon_perm_invariant_needs_injective_lemma. Qed.
Print Assumptions C36_canon_perm_invariant_needs_injective.

(* incremental.Run appends the reports of the tasks it visits (each once, in an order that depends on
   sync.Map.Range and on the schedule) and canonicalizes: the report does not depend on that order. *)
Theorem C36_run_report_order_independent : forall keep v v' o o',
  Permutation v v' -> keys_injective (concat v) ->
  run_report keep v o -> run_report keep v' o' -> o = o'.
Proof. exact run_report_order_independent_lemma. Qed.
Print Assumptions C36_run_report_order_independent.

(* ---- the proposed repair: Canonicalize compares two more keys after the six (level, then a rendering of
   everything else), model comparison dcmp2.  Then the hypothesis on the keys disappears: the only thing
   left is that one path is one File object within a report. ---- *)
Theorem C36_canon_perm_invariant_repaired : forall keep l l' o o',
  Permutation l l' -> one_file_per_path l ->
  canon_rel_c dcmp2 keep l o -> canon_rel_c dcmp2 keep l' o' -> o = o'.
Proof. exact canon_perm_invariant_repaired_lemma. Qed.
Print Assumptions C36_canon_perm_invariant_repaired.

Theorem C36_canon_idempotent_repaired : forall keep l o o',
  no_sentinel l -> one_file_per_path l ->
  canon_rel_c dcmp2 keep l o -> canon_rel_c dcmp2 keep o o' -> o' = o.
Proof. exact canon_idempotent_repaired_lemma. Qed.
Print Assumptions C36_canon_idempotent_repaired.

Theorem C36_run_report_order_independent_repaired : forall keep v v' o o',
  Permutation v v' -> one_file_per_path (concat v) ->
  run_report_c dcmp2 keep v o -> run_report_c dcmp2 keep v' o' -> o = o'.
Proof. exact run_report_order_independent_repaired_lemma. Qed.
Print Assumptions C36_run_report_order_independent_repaired.


(* ---- incremental.Run with memory (slices with backing arrays, append, in-place Canonicalize): Run builds
   its report in an array of its own.  canon is any Canonicalize that does not lengthen the list; spare
   is any growth policy of append; the tasks are the memoised task slices living in heap h. ---- *)
Theorem C36_run_report_leaves_task_diagnostics_unchanged : forall spare canon h tasks h' rep',
  (forall l, length (canon l) <= length l)%nat -> Forall (task_old (length h)) tasks ->
  run_heap spare canon h tasks = (h', rep') -> forall t, In t tasks -> read h' t = read h t.
Proof. exact run_report_leaves_task_diagnostics_unchanged_lemma. Qed.
Print Assumptions C36_run_report_leaves_task_diagnostics_unchanged.

(* a second Run of the same queries on the same executor (nothing evicted) reports the same *)
Theorem C36_run_heap_rerun_same : forall spare spare' canon h tasks h1 rep1 h2 rep2,
  (forall l, length (canon l) <= length l)%nat -> Forall (task_old (length h)) tasks ->
  run_heap spare canon h tasks = (h1, rep1) -> run_heap spare' canon h1 tasks = (h2, rep2) ->
  read h2 rep2 = read h1 rep1.
Proof. exact run_heap_rerun_same_lemma. Qed.
Print Assumptions C36_run_heap_rerun_same.

(* and what it reports is an outcome of the relational run_report on the task reports *)
Theorem C36_run_heap_is_run_report : forall keep spare canon h tasks h' rep',
  (forall l, canon_rel keep l (canon l)) -> (forall l, length (canon l) <= length l)%nat ->
  Forall (task_old (length h)) tasks -> run_heap spare canon h tasks = (h', rep') ->
  run_report keep (map (read h) tasks) (read h' rep').
Proof. exact run_heap_is_run_report_lemma. Qed.
Print Assumptions C36_run_heap_is_run_report.

(* the variant that takes over the first task slice instead of copying it does overwrite that task *)
Theorem C36_run_alias_changes_task :
  Forall (task_old (length alias_heap)) alias_tasks /\
  read alias_heap (mkslice (Some 0%nat) 5) = [sd 114; sd 115; sd 116; sd 117; sd 118] /\
  read (fst (run_heap_alias (fun _ => 0%nat) (canonicalize false) alias_heap alias_tasks)) (mkslice (Some 0%nat) 5)
    = [sd 97; sd 114; sd 115; sd 116; sd 117] /\
  read (fst (run_heap (fun _ => 0%nat) (canonicalize false) alias_heap alias_tasks)) (mkslice (Some 0%nat) 5)
    = [sd 114; sd 115; sd 116; sd 117; sd 118].
Proof. exact run_alias_changes_task_lemma. Qed.
Print Assumptions C36_run_alias_changes_task.

(* non-vacuity: four diagnostics with one duplicate pair (same span, same tag), two input orders *)
Example C36_nonvacuous :
  keys_injective [ex_1; ex_2; ex_3; ex_4] /\ no_sentinel [ex_1; ex_2; ex_3; ex_4] /\
  canonicalize false [ex_1; ex_2; ex_3; ex_4] = [ex_4; ex_2; ex_3] /\
  canonicalize false [ex_3; ex_4; ex_2; ex_1] = [ex_4; ex_2; ex_3] /\
  canonicalize true [ex_3; ex_4; ex_2; ex_1] = [ex_4; ex_1; ex_2; ex_3].
Proof. exact canon_example. Qed.

(* ---------------- which tasks a Run visits does not depend on the history of the executor ---------------- *)
From Coq Require Import Relations.Relation_Operators.

(* in every state an executor can reach (any Runs before, any roots, any schedule), the tasks a Run
   visits from completed roots over the recorded forward edges are exactly the tasks reachable from
   the roots in the declared dependency graph *)
Theorem C36_run_walk_is_dependency_closure : forall deps_of st roots, x_reachable deps_of st ->
  (forall r, In r roots -> In r (x_done st)) ->
  forall t, x_visited st roots t <-> d_reach deps_of roots t.
Proof. exact x_walk_is_closure. Qed.
Print Assumptions C36_run_walk_is_dependency_closure.

(* so a Run on a warm executor visits the same tasks as the same Run on any other (e.g. fresh) executor *)
Theorem C36_run_walk_history_independent : forall deps_of st1 st2 roots,
  x_reachable deps_of st1 -> x_reachable deps_of st2 ->
  (forall r, In r roots -> In r (x_done st1)) -> (forall r, In r roots -> In r (x_done st2)) ->
  forall t, x_visited st1 roots t <-> x_visited st2 roots t.
Proof. exact x_walk_history_independent. Qed.
Print Assumptions C36_run_walk_history_independent.

(* non-vacuity: tasks 0 and 1 both depend on 2; 2 is computed for 0, then 1 finds it memoised; a Run
   of root 1 alone still visits 2 *)
Example C36_nonvacuous_warm_history :
  x_reachable ex_deps (fold_left x_apply ex_hist x_init) /\ x_visited (fold_left x_apply ex_hist x_init) [1%nat] 2%nat.
Proof. split; [exact ex_hist_reachable | exact ex_hist_visits]. Qed.
