(* C13 - Line and column positions are correct (ast/file_info.go SourcePos + the line table recorded by
   parser/lexer.go).  Statements only; proofs are in Proofs/FileInfo.v.  data = the file contents, an
   arbitrary byte list without length bound; lex_lines data = FileInfo.lines after lexing (pinned code);
   missed_newlines data = offsets after the newlines that the pinned lexer consumes inside string literals
   without recording them; upto off l = the entries of l that are <= off. *)
From Coq Require Import List NArith Bool Sorted.
From PV Require Import Model.Utf8 Model.Lines Model.FileInfo Proofs.FileInfo.
Import ListNotations.
Open Scope nat_scope.

(* the table of the pinned lexer, exactly: recorded entries + swallowed newlines = all newlines, up to any offset *)
Theorem C13_line_table_exact : forall data off,
  length (upto off (lex_lines data)) + length (upto off (missed_newlines data))
  = 1 + count_nl (firstn off data).
Proof. exact line_table_exact_lemma. Qed.
Print Assumptions C13_line_table_exact.

(* SourcePos never panics for an offset inside the file *)
Theorem C13_source_pos_in_range : forall data off, off <= length data ->
  exists l c, source_pos (lex_lines data) data off = Some (l, c).
Proof. exact source_pos_in_range_lemma. Qed.
Print Assumptions C13_source_pos_in_range.

(* the pinned code does NOT report line = 1 + newlines before the offset for every file and offset *)
Theorem C13_line_is_newlines_before_refuted :
  exists data off l c, off <= length data /\ source_pos (lex_lines data) data off = Some (l, c) /\
                       l <> 1 + count_nl (firstn off data).
Proof. exact line_refuted_lemma. Qed.
Print Assumptions C13_line_is_newlines_before_refuted.

(* it does whenever no newline before the offset was swallowed by a string literal *)
Theorem C13_line_is_newlines_before_partial : forall data off l c,
  upto off (missed_newlines data) = [] ->
  source_pos (lex_lines data) data off = Some (l, c) ->
  l = 1 + count_nl (firstn off data).
Proof. exact line_partial_lemma. Qed.
Print Assumptions C13_line_is_newlines_before_partial.

(* under the same guard the column loop runs over exactly the bytes since the last newline:
   col = 1 + fold (tab -> next multiple of 8 | rune start -> +1 | continuation byte -> +0) *)
Theorem C13_col_spec_partial : forall data off,
  off <= length data -> upto off (missed_newlines data) = [] ->
  source_pos (lex_lines data) data off
  = Some (1 + count_nl (firstn off data), 1 + col_loop (slice data (line_start data off) off) 0).
Proof. exact col_partial_lemma. Qed.
Print Assumptions C13_col_spec_partial.

(* and on valid UTF-8 that fold counts characters: a tab advances to the next multiple of eight, every
   other character (of one to four bytes) counts one *)
Theorem C13_col_counts_characters : forall bs, valid_utf8 bs -> col_loop bs 0 = col_chars (range bs).
Proof. exact col_counts_characters_lemma. Qed.
Print Assumptions C13_col_counts_characters.

(* positions computed while the file is still being lexed (error positions): table entries beyond the
   offset, recorded later, do not change the answer *)
Theorem C13_partial_table_same_position : forall pre rest data off,
  Forall (fun y => off < y) rest ->
  source_pos (pre ++ rest) data off = source_pos pre data off.
Proof. exact partial_table_lemma. Qed.
Print Assumptions C13_partial_table_same_position.

(* every node span starts no later than it ends: NodeInfo.Start of its first item against NodeInfo.End of its
   last item (zero-length items, multi-byte last characters and swallowed newlines included) *)
Theorem C13_span_start_le_end : forall data i1 i2 s e,
  fst i1 <= fst i2 ->
  item_start (lex_lines data) data i1 = Some s -> node_end (lex_lines data) data i2 = Some e -> pos_le s e.
Proof. exact span_start_le_end_lemma. Qed.
Print Assumptions C13_span_start_le_end.

(* the same for any strictly increasing table that starts with 0, and for Comment.End *)
Theorem C13_span_start_le_end_any_table : forall t data i1 i2 s e,
  StronglySorted lt (0 :: t) -> fst i1 <= fst i2 ->
  item_start (0 :: t) data i1 = Some s -> node_end (0 :: t) data i2 = Some e -> pos_le s e.
Proof. exact span_start_le_end_sorted_lemma. Qed.
Print Assumptions C13_span_start_le_end_any_table.

Theorem C13_comment_span_start_le_end : forall t data i s e,
  StronglySorted lt (0 :: t) -> 1 <= snd i ->
  item_start (0 :: t) data i = Some s -> comment_end (0 :: t) data i = Some e -> pos_le s e.
Proof. exact comment_span_sorted_lemma. Qed.
Print Assumptions C13_comment_span_start_le_end.

Theorem C13_lex_lines_strictly_increasing : forall data, StronglySorted lt (lex_lines data).
Proof. exact lex_lines_sorted. Qed.
Print Assumptions C13_lex_lines_strictly_increasing.

(* the repaired lexer (maybeNewLine on the runes readStringLiteral consumes): every newline is recorded, and
   line and column are right for every file and every offset *)
Theorem C13_fixed_line_table : forall data, lex_lines_fixed data = 0 :: nl_after data.
Proof. exact fixed_line_table_lemma. Qed.
Print Assumptions C13_fixed_line_table.

Theorem C13_fixed_line_and_col_spec : forall data off, off <= length data ->
  source_pos (lex_lines_fixed data) data off
  = Some (1 + count_nl (firstn off data), 1 + col_loop (slice data (line_start data off) off) 0).
Proof. exact fixed_source_pos_lemma. Qed.
Print Assumptions C13_fixed_line_and_col_spec.

(* NodeInfo.End of an item (offset o, length len > 0) is the position just after its last character: for every
   strictly increasing table with no entry at o + len and a last byte that starts a character and is not a tab,
   it equals SourcePos (o + len) - whatever the item contains (tabs, multi-byte characters) *)
Theorem C13_span_end_is_position_after_last_character : forall t data o len,
  StronglySorted lt (0 :: t) -> 0 < len -> o + len <= length data ->
  ~ In (o + len) (0 :: t) ->
  nth (o + len - 1) data 0%N <> 9%N -> rune_start (nth (o + len - 1) data 0%N) = true ->
  node_end (0 :: t) data (o, len) = source_pos (0 :: t) data (o + len).
Proof. exact node_end_after_last_char_lemma. Qed.
Print Assumptions C13_span_end_is_position_after_last_character.

(* with the table of the repaired lexer: the end of every item whose last byte is an ASCII character other than
   tab and newline (every token: identifiers, numbers, quoted strings, punctuation) has the line and the column of
   the property at the offset just after the item *)
Theorem C13_fixed_span_end_spec : forall data o len,
  0 < len -> o + len <= length data ->
  (nth (o + len - 1) data 0 < 128)%N -> nth (o + len - 1) data 0%N <> 9%N -> nth (o + len - 1) data 0%N <> 10%N ->
  node_end (lex_lines_fixed data) data (o, len)
  = Some (1 + count_nl (firstn (o + len) data), 1 + col_loop (slice data (line_start data (o + len)) (o + len)) 0).
Proof. exact fixed_node_end_lemma. Qed.
Print Assumptions C13_fixed_span_end_spec.

Example C13_span_end_nonvacuous :
  node_end (lex_lines_fixed [34; 9; 34]%N) [34; 9; 34]%N (0, 3) = Some (1, 10) /\
  node_end (lex_lines_fixed [32; 34; 195; 169; 9; 34; 59]%N) [32; 34; 195; 169; 9; 34; 59]%N (1, 5) = Some (1, 10).
Proof. exact node_end_example. Qed.

(* non-vacuity *)
Example C13_nonvacuous :
  upto 6 (missed_newlines [34; 195; 169; 34; 10; 9; 120]%N) = [] /\
  lex_lines [34; 195; 169; 34; 10; 9; 120]%N = [0; 5] /\
  source_pos (lex_lines [34; 195; 169; 34; 10; 9; 120]%N) [34; 195; 169; 34; 10; 9; 120]%N 6 = Some (2, 9) /\
  source_pos (lex_lines [34; 195; 169; 34; 10; 9; 120]%N) [34; 195; 169; 34; 10; 9; 120]%N 3 = Some (1, 3).
Proof. exact source_pos_example. Qed.
