(* C26 - Bytes default values survive escaping.  Statements only; proofs are in Proofs/Escape.v. *)
From Coq Require Import List NArith Bool.
From PV Require Import Common.Bytes Model.Escape Proofs.Escape.
Import ListNotations.
Open Scope N_scope.

(* this compiler: the escaped text decodes back to exactly the bytes, for every byte string *)
Theorem C26_unescape_escape : forall b, Bytes b -> unescape (escape_bytes b) = Some b.
Proof. exact unescape_escape_lemma. Qed.
Print Assumptions C26_unescape_escape.

(* the Go runtime's decoder (text-format string decoding of the default_value) *)
Theorem C26_runtime_unescape_escape : forall b, Bytes b -> rt_unescape (escape_bytes b) = RtOk b.
Proof. exact runtime_unescape_escape_lemma. Qed.
Print Assumptions C26_runtime_unescape_escape.

(* the fuel in the model never runs out, so Some/None above is never an artefact of fuel *)
Theorem C26_unescape_total : forall s, unescape s <> None.
Proof. exact unescape_total_lemma. Qed.
Print Assumptions C26_unescape_total.

Theorem C26_escape_is_printable_ascii : forall b, Bytes b -> forallb printable (escape_bytes b) = true.
Proof. exact escape_is_printable_ascii_lemma. Qed.
Print Assumptions C26_escape_is_printable_ascii.

(* non-vacuity *)
Example C26_nonvacuous : Bytes [0; 10; 34; 65; 92; 200; 255] /\
  escape_bytes [0; 10; 34; 65; 92; 200; 255]
  = [92;48;48;48; 92;110; 92;34; 65; 92;92; 92;51;49;48; 92;51;55;55].
Proof. exact escape_example. Qed.

(* a corollary of the round trip: the escaping is injective - two different byte strings never render as the same
   default_value text *)
Theorem C26_escape_injective : forall a b, Bytes a -> Bytes b -> escape_bytes a = escape_bytes b -> a = b.
Proof. exact escape_injective_lemma. Qed.
Print Assumptions C26_escape_injective.
