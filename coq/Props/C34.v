(* C34 - The incremental executor terminates on cycles and panics.
   Statements only; proofs in Proofs/IncExec{1,2,3,5,6,7}.v over Model/IncExec.v (see Props/C33.v for the
   model).  The code as it is (wfix = false) does not meet the property once a query panics: the
   _refuted theorems are reachable states of the model (the real executor reproduces each of them, see
   checks/C34.py), the _partial theorems hold for every dependency graph (cycles and self-loops
   included), every schedule, every parallelism >= 1 and any number of overlapping Runs as long as no
   query panics. *)
From Coq Require Import List Arith Bool NArith.
From PV Require Import Model.IncExec Proofs.IncExec1 Proofs.IncExec2 Proofs.IncExec3 Proofs.IncExec5 Proofs.IncExec6 Proofs.IncExec7.
Import ListNotations.

(* ---- a run returns ---- *)
(* no infinite runs: between two external events at most measure-many steps are taken, whatever the schedule *)
Theorem C34_run_terminates_partial_steps_bounded : forall w par, (forall k, wpanic w k = None) -> wf_world w ->
  forall inputs sched s, reach w par inputs s -> steps_taken w sched s <= measure w s.
Proof. exact steps_bounded. Qed.
Print Assumptions C34_run_terminates_partial_steps_bounded.

(* no deadlock: while some goroutine of some Run is unfinished, some thread can take a step *)
Theorem C34_run_terminates_partial_no_deadlock : forall w par, (forall k, wpanic w k = None) -> wf_world w ->
  forall inputs s, 1 <= par -> reach w par inputs s -> quiescent s = false -> exists t s', step w s t = Some s'.
Proof. exact no_deadlock. Qed.
Print Assumptions C34_run_terminates_partial_no_deadlock.

(* hence every reachable state can be driven to the state where every Run has returned *)
Theorem C34_run_terminates_partial : forall w par, (forall k, wpanic w k = None) -> wf_world w ->
  forall inputs, 1 <= par -> forall s, reach w par inputs s ->
  exists sched, quiescent (run w (map EStep sched) s) = true.
Proof. exact can_finish. Qed.
Print Assumptions C34_run_terminates_partial.

(* the arithmetic queries of the harness on a given graph; pan: the panicking keys *)
Definition C34_world (n : nat) (deps : list (list (list key))) (pan : list (key * nat)) (fx : bool) : world :=
  {| wn := n; wdeps := fun _ k => nth k deps []; wcomp := acomp;
     wpanic := fun k => option_map snd (find (fun e => Nat.eqb (fst e) k) pan); wfix := fx |}.
Definition C34_in (k : key) : nat := 10 * (k + 1) + 1.
Definition steps (l : list nat) : list event := map EStep l.

(* refuted, sequential: two independent keys, key 0 panics, ONE permit.  Run [0;1] fails with the panic;
   the goroutine started for key 1 loses the race for the permit against the cancellation and leaves
   its task pending for ever.  Everything has returned (quiescent).  The next Run [1] never returns. *)
Definition C34_w1 := C34_world 2 [[]; []] [(0, 0)] false.
Definition C34_h1 : list event :=
  ERun [0; 1] :: steps [0; 0; 0; 0; 0; 0; 0; 1; 1; 2; 2; 2; 2; 2; 1; 1; 1; 2; 0; 0; 0; 0].
Theorem C34_run_terminates_refuted :
  let s1 := run C34_w1 C34_h1 (init 1 C34_in) in
  let s2 := run C34_w1 (ERun [1] :: steps [3; 3; 3; 3; 3; 4; 4; 4; 4]) s1 in
  wfix C34_w1 = false /\ reach C34_w1 1 C34_in s2 /\
  quiescent s1 = true /\ rcanc s1 1 = Some 0 /\ stuck C34_w1 s2 = true.
Proof.
  cbv zeta. split; [reflexivity|]. split; [apply run_reach; apply run_reach; apply reach_init|].
  vm_compute. repeat split; reflexivity.
Qed.
Print Assumptions C34_run_terminates_refuted.

(* refuted, overlapping: one key that panics, two permits, Runs A and B of it.  A leads; B finds the
   pending result and waits; A panics and withdraws the result without closing done: A returns the
   panic, B waits for ever (its own context is never cancelled) *)
Definition C34_w2 := C34_world 1 [[]] [(0, 0)] false.
Theorem C34_run_terminates_refuted_overlapping :
  let s := run C34_w2 (ERun [0] :: ERun [0] :: steps [0;0;0;0;0; 1;1;1;1;1; 2;2; 3;3;3;3; 2;2;2;2; 0;0]) (init 2 C34_in) in
  wfix C34_w2 = false /\ reach C34_w2 2 C34_in s /\
  rcanc s 1 = Some 0 /\ rcanc s 2 = None /\ tpc (thr s 0) = PEnd /\ stuck C34_w2 s = true.
Proof.
  cbv zeta. split; [reflexivity|]. split; [apply run_reach; apply reach_init|].
  vm_compute. repeat split; reflexivity.
Qed.
Print Assumptions C34_run_terminates_refuted_overlapping.

(* ---- a panicking query fails the run and nothing computed from it is memoized ---- *)
(* refuted: 0 -> [1], key 1 panics.  Run [0] fails with the panic, but key 0 - whose Resolve returned
   the cancellation - is memoized (ocanc).  The next Run [0] succeeds: it returns that result unchanged,
   is not cancelled, and executes nothing *)
Definition C34_w3 := C34_world 2 [[[1]]; []] [(1, 0)] false.
Theorem C34_panic_fails_run_uncached_refuted :
  let s1 := run C34_w3 (ERun [0] :: steps [0;0;0;0;0; 1;1;1;1;1;1; 2;2;2;2;2;2; 1;1;1;1; 0;0]) (init 2 C34_in) in
  let s2 := run C34_w3 (ERun [0] :: steps [3;3;3;3;3;3;3;3]) s1 in
  wfix C34_w3 = false /\ reach C34_w3 2 C34_in s2 /\
  quiescent s1 = true /\ rcanc s1 1 = Some 1 /\
  (exists o, tmap s1 0 = TRes o /\ oclosed (objs s1 o) = true /\ ocanc (objs s1 o) = true) /\
  quiescent s2 = true /\ rcanc s2 2 = None /\ tslots (thr s2 3) = [Some (DVal 23%N false)] /\ nexec s2 0 = 1.
Proof.
  cbv zeta. split; [reflexivity|]. split; [apply run_reach; apply run_reach; apply reach_init|].
  vm_compute. repeat split; try reflexivity. exists 0. repeat split; reflexivity.
Qed.
Print Assumptions C34_panic_fails_run_uncached_refuted.

(* ---- cycles ---- *)
(* partial (sound): a cycle error is produced only when the stored edges, which are real dependencies,
   lead from the awaited query d back to the caller x, whose own edge to d is stored as well *)
Theorem C34_cycle_error_sound_partial : forall w par, (forall k, wpanic w k = None) -> wf_world w ->
  forall inputs s id o x q seen d, reach w par inputs s -> id < nthr s ->
  tpc (thr s id) = RCheck o (x :: q) seen -> tcaller (thr s id) = Some x -> tkey (thr s id) = Some d ->
  In (x, d) (edges s) /\ epath (edges s) d x /\ (forall a b, In (a, b) (edges s) -> In b (flatd w (inp s a) a)).
Proof. exact cycle_detected_only_on_real_cycle. Qed.
Print Assumptions C34_cycle_error_sound_partial.

(* partial (complete): with a dependency cycle nobody can wait for ever - this is the deadlock freedom
   above: the thread that published its Resolve call last on any wait cycle finds the cycle *)

(* refuted (the error names the cycle of the failing query): 0 -> [1;2], 1 -> [0], 2 -> [0], three
   permits.  The waiters of 1 and of 2 both find a cycle and both write it into the shared pending
   result of 0; the waiter called from 2 then reads the cycle 0 -> 1 -> 0, which does not contain 2 *)
Definition C34_w4 := C34_world 3 [[[1; 2]]; [[0]]; [[0]]] [] false.
Theorem C34_cycle_error_names_cycle_refuted :
  let s := run C34_w4 (ERun [0] :: steps [0;0;0;0;0; 1;1;1;1;1;1;1;1; 2;2;2;2;2;2;2; 3;3;3;3;3;3; 4;4;4;4; 5;5;5; 4; 5; 4])
              (init 3 C34_in) in
  wfix C34_w4 = false /\ reach C34_w4 3 C34_in s /\
  tcaller (thr s 4) = Some 2 /\ tkey (thr s 4) = Some 0 /\ tpc (thr s 4) = PReturn (DCyc [0; 1; 0]).
Proof.
  cbv zeta. split; [reflexivity|]. split; [apply run_reach; apply reach_init|].
  vm_compute. repeat split; reflexivity.
Qed.
Print Assumptions C34_cycle_error_names_cycle_refuted.

(* ---- permits ---- *)
Theorem C34_permits_all_released_partial : forall w par, (forall k, wpanic w k = None) ->
  forall inputs s, reach w par inputs s -> quiescent s = true -> permits s = par.
Proof. exact permits_all_released. Qed.
Print Assumptions C34_permits_all_released_partial.

(* acquire() while holding / release() without holding never happen: Task.abort is unreachable *)
Theorem C34_never_aborts_partial : forall w par, (forall k, wpanic w k = None) ->
  forall inputs s id, reach w par inputs s -> id < nthr s -> tpc (thr s id) <> PAbort.
Proof. exact never_aborts. Qed.
Print Assumptions C34_never_aborts_partial.

(* ---- the repaired protocol (wfix = true: the leader withdraws and closes its pending result on every
   abnormal exit and on completion under a cancelled context; a waiter that wakes up without a
   completed result retries while its own Run is live; cycle errors are per waiter) on the same
   histories: no stuck state, nothing memoized from the cancelled Run, the cycle names the caller ---- *)
Example C34_repaired_on_the_witnesses :
  let w1 := C34_world 2 [[]; []] [(0, 0)] true in
  let a := drive w1 200 (start_run (drive w1 200 (start_run (init 1 C34_in) [0; 1])) [1]) in
  let w2 := C34_world 1 [[]] [(0, 0)] true in
  let b := drive w2 200 (run w2 (ERun [0] :: ERun [0] :: steps [0;0;0;0;0; 1;1;1;1;1; 2;2; 3;3;3;3]) (init 2 C34_in)) in
  let w3 := C34_world 2 [[[1]]; []] [(1, 0)] true in
  let c1 := drive w3 200 (start_run (init 2 C34_in) [0]) in
  let c2 := drive w3 200 (start_run c1 [0]) in
  let w4 := C34_world 3 [[[1; 2]]; [[0]]; [[0]]] [] true in
  let d := drive w4 300 (start_run (init 3 C34_in) [0]) in
  quiescent a = true /\ done_val a 1 = Some 42%N /\ permits a = 1 /\
  quiescent b = true /\ rcanc b 1 = Some 0 /\ rcanc b 2 = Some 0 /\ permits b = 2 /\
  quiescent c1 = true /\ done_keys w3 c1 = [] /\ quiescent c2 = true /\ rcanc c2 2 = Some 1 /\
  quiescent d = true /\ permits d = 3.
Proof. vm_compute. repeat split; reflexivity. Qed.
