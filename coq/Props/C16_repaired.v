(* C16 on the REPAIRED model (Lookup / LookupExtension take the read lock of the node; with the
   pinned Import, fx = false, or with the repaired Import, fx = true).  Prepared for the proposed
   fix; not a claim about the pinned code.  Statements only. *)
From Coq Require Import List NArith ZArith Bool.
From PV Require Import Model.Symbols Proofs.Symbols.
Import ListNotations.

Theorem C16r_lock_discipline :
  forall fx T opss sched t th,
    nth_error (cs_threads (run_sched (init_state T
       (map (ops_prog_with (op_prog_with (import_prog_gen fx) lookup_prog_fx lookup_ext_prog_fx)) opss)) sched)) t = Some th ->
    access_ok th = true.
Proof. exact lock_discipline_fx_lemma. Qed.
Print Assumptions C16r_lock_discipline.

Theorem C16r_model_drf :
  forall fx T opss sched i j,
    race_at (run_sched (init_state T
       (map (ops_prog_with (op_prog_with (import_prog_gen fx) lookup_prog_fx lookup_ext_prog_fx)) opss)) sched) i j = false.
Proof. exact model_drf_fx_lemma. Qed.
Print Assumptions C16r_model_drf.

(* non-vacuity: the schedule that exposes the unlocked read in the pinned model is harmless here *)
Example C16r_nonvacuous :
  race_at (run_sched (init_state race_init
     (map (ops_prog_with (op_prog_with (import_prog_gen false) lookup_prog_fx lookup_ext_prog_fx)) race_threads)) race_sched) 0 1 = false.
Proof. vm_compute. reflexivity. Qed.
