(* C22 - Stripping source-retention options is exact.  Statements about the model of the PINNED
   code (Model/Retention.v, strip = strip_file strip_opts false); proofs are in Proofs/Retention.v.
   The pinned code looks only at the fields of the options message itself and rebuilds a message
   from its known fields, so two clauses of the property are refuted and hold under a guard. *)
From Coq Require Import List NArith Bool.
From PV Require Import Model.Retention Proofs.Retention.
Import ListNotations.
Open Scope N_scope.

(* REFUTED: a source-retention field inside the value of a kept option survives *)
Theorem C22_strip_removes_exactly_source_fields_refuted :
  exists g f, wf_elem (f_root f) = true /\ elem_has_source (f_root (fst (strip g f))) = true.
Proof. exact removes_refuted_lemma. Qed.
Print Assumptions C22_strip_removes_exactly_source_fields_refuted.

(* PARTIAL, exact guard: the result is free of source-retention fields (any depth) if and only if
   the input has none nested inside the value of a field that is itself kept *)
Theorem C22_strip_removes_exactly_source_fields_partial :
  forall g f, wf_elem (f_root f) = true ->
    (no_source (fst (strip g f)) <-> nested_source_free (f_root f) = true).
Proof. exact removes_partial_lemma. Qed.
Print Assumptions C22_strip_removes_exactly_source_fields_partial.

(* depth 1, no guard: no options message of the result has a source-retention field of its own *)
Theorem C22_strip_removes_top_level_source_fields :
  forall g f, wf_elem (f_root f) = true -> elem_top_source (f_root (fst (strip g f))) = false.
Proof. exact removes_top_lemma. Qed.
Print Assumptions C22_strip_removes_top_level_source_fields.

(* REFUTED: unknown fields of a rebuilt options message are lost (nothing source-retention is left
   in the witness, yet the result differs from the input minus its source-retention fields) *)
Theorem C22_strip_preserves_rest_refuted :
  exists g f, wf_elem (f_root f) = true /\ elem_has_source (f_root (fst (strip g f))) = false /\
              prune_elem (f_root (fst (strip g f))) <> prune_elem (f_root f).
Proof. exact preserves_refuted_lemma. Qed.
Print Assumptions C22_strip_preserves_rest_refuted.

(* PARTIAL: without unknown fields on options and descriptor messages, input and result are equal
   once the source-retention fields (any depth) are deleted from both: every other field, every
   other part of every element and the shape of the tree are unchanged *)
Theorem C22_strip_preserves_rest_partial :
  forall g f, no_unknown (f_root f) = true ->
    prune_elem (f_root (fst (strip g f))) = prune_elem (f_root f).
Proof. exact preserves_partial_lemma. Qed.
Print Assumptions C22_strip_preserves_rest_partial.

(* repeating it changes nothing: the second call returns its argument itself *)
Theorem C22_strip_idempotent :
  forall g g' f, strip g' (fst (strip g f)) = (fst (strip g f), false).
Proof. exact idempotent_lemma. Qed.
Print Assumptions C22_strip_idempotent.

(* the input is not modified: every object of the result that is not freshly allocated (address
   below the generation g) is an object of the input, with the content it has in the input *)
Theorem C22_strip_pure :
  forall g f x, In x (file_objs (fst (strip g f))) -> obj_addr x < g -> In x (file_objs f).
Proof. exact pure_lemma. Qed.
Print Assumptions C22_strip_pure.

(* source code info: exactly the locations whose path has a removed option path as a prefix go *)
Theorem C22_strip_locations_exact :
  forall g f,
    let qs := removed_elem removed_top [] (f_root f) in
    match f_sci f with
    | Some (a, l :: locs) =>
      if snd (strip g f)
      then f_sci (fst (strip g f)) = Some (fresh g a, filter (fun l => negb (under_any qs (fst l))) (l :: locs))
      else fst (strip g f) = f
    | other => f_sci (fst (strip g f)) = other
    end.
Proof. exact locations_lemma. Qed.
Print Assumptions C22_strip_locations_exact.

(* sourcePathTrie: after any sequence of addPath calls, isRemoved is the prefix test *)
Theorem C22_trie_is_prefix_set : forall qs p, is_removed p (trie_of qs) = under_any qs p.
Proof. exact trie_is_prefix_set_lemma. Qed.
Print Assumptions C22_trie_is_prefix_set.

(* non-vacuity: a message with a kept option (nested source field inside), a source option and
   locations; the source option and its locations go, the nested field stays *)
Example C22_nonvacuous :
  let f := File (Elem KFile 0 None 1 []
             [[Elem KMsg 1 (Some (2, [(50001, RUnset, VMsg 3 [(1, RUnset, VScalar 5); (2, RSource, VScalar 6)] []);
                                      (50002, RSource, VScalar 7)], [])) 2 [] [[];[];[];[];[];[]]]; []; []; []])
             (Some (4, [([4;0], 1); ([4;0;7], 2); ([4;0;7;50001], 3); ([4;0;7;50001;2], 4); ([4;0;7;50002], 5); ([4;0;7;50002;1], 6)])) in
  wf_elem (f_root f) = true /\
  strip 10 f =
  (File (Elem KFile 10 None 1 []
           [[Elem KMsg 11 (Some (12, [(50001, RUnset, VMsg 3 [(1, RUnset, VScalar 5); (2, RSource, VScalar 6)] [])], [])) 2 []
               [[];[];[];[];[];[]]]; []; []; []])
        (Some (14, [([4;0], 1); ([4;0;7], 2); ([4;0;7;50001], 3); ([4;0;7;50001;2], 4)])), true).
Proof. split; vm_compute; reflexivity. Qed.
