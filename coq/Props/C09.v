(* C09 - All input forms give the same result and inputs are not mutated.  Statements only; proofs are in
   Proofs/Forms.v. Every theorem is universally quantified over the types of sources, ASTs, descriptor contents
   and source infos and over the parser, the lowering, the linker and the source-info generator. *)
From Coq Require Import List Bool PeanoNat NArith.
From PV Require Import Model.Forms Proofs.Forms.
Import ListNotations.

(* One file: whichever form the resolver uses for the file whose source text is s, compilation succeeds and the
   compiled descriptor content is link_core (to_core (parse s)) deps; the source info is the same too whenever
   both forms carry the AST (source, AST, parse result) or the mode is SourceInfoNone. *)
Theorem C09_forms_agree_file :
  forall (src ast core si : Type) (parse : src -> ast) (to_core : ast -> core)
         (link_core : core -> list core -> core) (gen_si : N -> ast -> core -> si)
         (h : heap ast core si) (s : src) (inp1 inp2 : input src) (a1 a2 : option ast) (s1 s2 : option si)
         (deps : list core) (mode : N),
  wfh ast core si h ->
  represents src ast core si parse to_core h s inp1 a1 s1 ->
  represents src ast core si parse to_core h s inp2 a2 s2 ->
  exists c si1 si2 h1 h2,
    compile_file src ast core si parse to_core link_core gen_si h inp1 deps mode = Some ((c, si1), h1) /\
    compile_file src ast core si parse to_core link_core gen_si h inp2 deps mode = Some ((c, si2), h2) /\
    c = link_core (to_core (parse s)) deps /\
    ((a1 <> None /\ a2 <> None /\ s1 = None /\ s2 = None) \/ mode_none mode = true -> si1 = si2).
Proof. exact forms_agree_file_lemma. Qed.
Print Assumptions C09_forms_agree_file.

(* Whole programs (files in dependency order, any import structure, any number of files): two assignments of
   forms to the same sources give the same compiled descriptor contents, file by file - or fail alike. *)
Theorem C09_forms_agree :
  forall (src ast core si : Type) (parse : src -> ast) (to_core : ast -> core)
         (link_core : core -> list core -> core) (gen_si : N -> ast -> core -> si)
         (l1 l2 : list (file_in src)) (h1 h2 : heap ast core si) (d1 d2 : list (core * option si)) (mode : N),
  wfh ast core si h1 -> wfh ast core si h2 ->
  same_program src ast core si parse to_core h1 h2 l1 l2 ->
  map fst d1 = map fst d2 ->
  cores ast core si (compile_all src ast core si parse to_core link_core gen_si h1 l1 d1 mode)
  = cores ast core si (compile_all src ast core si parse to_core link_core gen_si h2 l2 d2 mode).
Proof. exact forms_agree_lemma. Qed.
Print Assumptions C09_forms_agree.

Theorem C09_forms_agree_mode_none :
  forall (src ast core si : Type) (parse : src -> ast) (to_core : ast -> core)
         (link_core : core -> list core -> core) (gen_si : N -> ast -> core -> si)
         (l1 l2 : list (file_in src)) (h1 h2 : heap ast core si) (d : list (core * option si)) (mode : N),
  mode_none mode = true ->
  wfh ast core si h1 -> wfh ast core si h2 ->
  same_program src ast core si parse to_core h1 h2 l1 l2 ->
  full ast core si (compile_all src ast core si parse to_core link_core gen_si h1 l1 d mode)
  = full ast core si (compile_all src ast core si parse to_core link_core gen_si h2 l2 d mode).
Proof. exact forms_agree_mode_none_lemma. Qed.
Print Assumptions C09_forms_agree_mode_none.

(* Source info of one compiled file, for every form and every value of the mode (the mode is a set of bits; only
   the value 0 = SourceInfoNone strips): none under SourceInfoNone; under ANY other mode - with or without the
   Standard bit - source info that came with the supplied descriptor proto (or parse result without AST) is kept
   as it is, a form with an AST and no source info gets the generated one, a form with neither has none. *)
Theorem C09_source_info_per_mode :
  forall (src ast core si : Type) (parse : src -> ast) (to_core : ast -> core)
         (link_core : core -> list core -> core) (gen_si : N -> ast -> core -> si)
         (h : heap ast core si) (s : src) (inp : input src) (a : option ast) (s0 : option si)
         (deps : list core) (mode : N),
  wfh ast core si h ->
  represents src ast core si parse to_core h s inp a s0 ->
  exists c sres h',
    compile_file src ast core si parse to_core link_core gen_si h inp deps mode = Some ((c, sres), h') /\
    (mode_none mode = true -> sres = None) /\
    (mode_none mode = false -> forall x, s0 = Some x -> sres = Some x) /\
    (mode_none mode = false -> s0 = None -> forall t, a = Some t -> sres = Some (gen_si mode t c)) /\
    (mode_none mode = false -> s0 = None -> a = None -> sres = None).
Proof. exact source_info_per_mode_lemma. Qed.
Print Assumptions C09_source_info_per_mode.

(* Any number of compilations, each with any input form, dependencies and mode, interleaved by any schedule:
   every object that existed when they started (in particular everything the resolver supplied) holds the
   same value afterwards. *)
Theorem C09_inputs_untouched :
  forall (src ast core si : Type) (parse : src -> ast) (to_core : ast -> core)
         (link_core : core -> list core -> core) (gen_si : N -> ast -> core -> si)
         (h0 : heap ast core si) (ts : list (task src core)) (sched : list nat)
         (h' : heap ast core si) (ts' : list (task src core)),
  wfh ast core si h0 ->
  Forall (fresh_task src core) ts ->
  run src ast core si parse to_core link_core gen_si h0 ts sched = (h', ts') ->
  forall i, i < next ast core si h0 -> store ast core si h' i = store ast core si h0 i.
Proof. exact inputs_untouched_lemma. Qed.
Print Assumptions C09_inputs_untouched.

(* the same for a sequential compilation of a whole program *)
Theorem C09_compile_all_untouched :
  forall (src ast core si : Type) (parse : src -> ast) (to_core : ast -> core)
         (link_core : core -> list core -> core) (gen_si : N -> ast -> core -> si)
         (files : list (file_in src)) (h : heap ast core si) (done : list (core * option si)) (mode : N)
         (res : list (core * option si)) (h' : heap ast core si),
  wfh ast core si h ->
  compile_all src ast core si parse to_core link_core gen_si h files done mode = Some (res, h') ->
  wfh ast core si h' /\ forall i, i < next ast core si h -> store ast core si h' i = store ast core si h i.
Proof. exact compile_all_untouched_lemma. Qed.
Print Assumptions C09_compile_all_untouched.

(* non-vacuity: a three-file program (file 2 imports 0 and 1, file 1 imports 0) given as parse result, proto
   and AST compiles in the toy instance, leaves the supplied objects alone, and has source info exactly
   where the form carries an AST *)
Example C09_nonvacuous :
  run_forms [(FRes, []); (FProto, [0]); (FAst, [0; 1])] 1%N
  = Some ([(22%N, Some 298%N); (281%N, None); (2983%N, Some 38813%N)], true)
  /\ option_map (fun p => map fst (fst p)) (run_forms [(FSource, []); (FSource, [0]); (FSource, [0; 1])] 1%N)
     = Some [22%N; 281%N; 2983%N].
Proof. vm_compute. split; reflexivity. Qed.

(* a parse result WITHOUT AST (parser.ResultWithoutAST) is covered as well: same contents, no source info, the
   supplied result and its proto untouched *)
Example C09_nonvacuous_result_without_ast :
  run_forms [(FResNoAst, []); (FRes, [0])] 1%N = Some ([(22%N, None); (281%N, Some 3676%N)], true).
Proof. vm_compute. reflexivity. Qed.

(* a descriptor proto and a parse result without AST that already carry source info keep it under the modes
   2, 4 and 6 (no Standard bit) and lose it under mode 0 *)
Example C09_nonvacuous_supplied_source_info :
  run_forms [(FProtoSI, []); (FResNoAstSI, [0])] 2%N = Some ([(22%N, Some 0%N); (281%N, Some 0%N)], true) /\
  run_forms [(FProtoSI, []); (FResNoAstSI, [0])] 6%N = Some ([(22%N, Some 0%N); (281%N, Some 0%N)], true) /\
  run_forms [(FProtoSI, []); (FResNoAstSI, [0])] 0%N = Some ([(22%N, None); (281%N, None)], true).
Proof. vm_compute. repeat split; reflexivity. Qed.
