(* Model of experimental/report/report.go Report.ToProto and Report.AppendFromProto.
   Definitions only; proofs are in Proofs/ReportCodec.v.

   The model is parameterised by a [variant]: three switches, one per repair proposed for the
   three places where the pinned code departs from the round-trip property.  [asis] (all
   switches off) mirrors the code as it is; [repaired] (all on) mirrors the code after the
   proposed repair.  Nothing else differs between the variants.

     fix_text : ToProto stores the text of the FILE in Report.File.text.  As it is, the code
                writes snip.Text(), and for a snippet (which embeds source.Span, which embeds
                *File) that selector resolves to Span.Text, the text of the SPAN of the first
                snippet that mentions the path.
     fix_eof  : AppendFromProto rejects Start > len(text) instead of Start >= len(text).
     fix_ice  : AppendFromProto accepts level ICE (1) besides Error, Warning, Remark. *)
From Coq Require Import List ZArith NArith Bool.
From PV Require Import Common.Corr.
Import ListNotations.
Open Scope Z_scope.

Definition str := list N.                       (* a Go string / []byte: bytes *)

(* ---- report.Diagnostic and friends ---- *)
Record file := mkfile { f_path : str; f_text : str }.          (* a non-nil *source.File, by content *)
Record edit := mkedit { e_start : Z; e_end : Z; e_replace : str }.
Record snippet := mksnip {
  s_file : file; s_start : Z; s_end : Z;                        (* source.Span *)
  s_msg : str; s_primary : bool; s_break : bool; s_edits : list edit }.
Record diag := mkdiag {
  d_tag : str; d_msg : str; d_level : Z; d_sort : Z; d_infile : str;
  d_snips : list snippet; d_notes : list str; d_help : list str; d_debug : list str }.
Definition report := list diag.                                 (* Report.Diagnostics *)

(* ---- compilerpb.Report ---- *)
Record pfile := mkpfile { pf_path : str; pf_text : str }.
Record pedit := mkpedit { pe_start : Z; pe_end : Z; pe_replace : str }.
Record pannot := mkpannot {
  pa_file : Z; pa_start : Z; pa_end : Z; pa_msg : str; pa_primary : bool; pa_break : bool;
  pa_edits : list pedit }.
Record pdiag := mkpdiag {
  pd_msg : str; pd_tag : str; pd_level : Z; pd_infile : str; pd_annots : list pannot;
  pd_notes : list str; pd_help : list str; pd_debug : list str }.
Record preport := mkpreport { pr_files : list pfile; pr_diags : list pdiag }.

Record variant := mkvar { fix_text : bool; fix_eof : bool; fix_ice : bool }.
Definition asis := mkvar false false false.
Definition repaired := mkvar true true true.

(* ---- integer conversions, written out ---- *)
Definition u32 (z : Z) : Z := z mod 4294967296.                 (* uint32(int) *)
Definition wrap8 (z : Z) : Z := (z + 128) mod 256 - 128.        (* Level(int32): int8 *)
Definition len (s : str) : Z := Z.of_nat (length s).

Definition str_eqb (a b : str) : bool := list_N_eqb a b.

(* Span.Text: text[start:end]; None is the slice-bounds panic *)
Definition span_text (s : snippet) : option str :=
  let t := f_text (s_file s) in
  if (s_start s <? 0) || (len t <? s_end s) || (s_end s <? s_start s) then None
  else Some (firstn (Z.to_nat (s_end s - s_start s)) (skipn (Z.to_nat (s_start s)) t)).

(* ---- ToProto ---- *)
(* fileToIndex[path]: an entry is added exactly when a file is appended, so the map is the
   position of the path in proto.Files *)
Fixpoint find_path (p : str) (fs : list pfile) (i : nat) : option nat :=
  match fs with
  | [] => None
  | f :: r => if str_eqb (pf_path f) p then Some i else find_path p r (S i)
  end.

Definition vtext (v : variant) (s : snippet) : option str :=
  if fix_text v then Some (f_text (s_file s)) else span_text s.

Definition enc_edit (e : edit) : pedit := mkpedit (u32 (e_start e)) (u32 (e_end e)) (e_replace e).

Definition enc_annot (idx : nat) (s : snippet) : pannot :=
  mkpannot (u32 (Z.of_nat idx)) (u32 (s_start s)) (u32 (s_end s)) (s_msg s) (s_primary s) (s_break s)
           (map enc_edit (s_edits s)).

(* one iteration of the snippet loop; None = panic *)
Definition enc_snip (v : variant) (files : list pfile) (s : snippet) : option (list pfile * pannot) :=
  match find_path (f_path (s_file s)) files 0 with
  | Some i => Some (files, enc_annot i s)
  | None =>
    match vtext v s with
    | None => None
    | Some t => Some (files ++ [mkpfile (f_path (s_file s)) t], enc_annot (length files) s)
    end
  end.

Fixpoint enc_snips (v : variant) (files : list pfile) (ss : list snippet) : option (list pfile * list pannot) :=
  match ss with
  | [] => Some (files, [])
  | s :: r =>
    match enc_snip v files s with
    | None => None
    | Some (files1, a) =>
      match enc_snips v files1 r with
      | None => None
      | Some (files2, anns) => Some (files2, a :: anns)
      end
    end
  end.

Definition enc_diag (v : variant) (files : list pfile) (d : diag) : option (list pfile * pdiag) :=
  match enc_snips v files (d_snips d) with
  | None => None
  | Some (files1, anns) =>
    Some (files1, mkpdiag (d_msg d) (d_tag d) (d_level d) (d_infile d) anns (d_notes d) (d_help d) (d_debug d))
  end.

Fixpoint enc_diags (v : variant) (files : list pfile) (ds : list diag) : option (list pfile * list pdiag) :=
  match ds with
  | [] => Some (files, [])
  | d :: r =>
    match enc_diag v files d with
    | None => None
    | Some (files1, pd) =>
      match enc_diags v files1 r with
      | None => None
      | Some (files2, pds) => Some (files2, pd :: pds)
      end
    end
  end.

(* None = ToProto panicked (only possible as it is: Span.Text of an out-of-range span) *)
Definition to_proto_v (v : variant) (r : report) : option preport :=
  match enc_diags v [] r with
  | None => None
  | Some (fs, ds) => Some (mkpreport fs ds)
  end.

(* ---- AppendFromProto (onto an empty report) ---- *)
Inductive err :=
| EMissingMessage (i : nat)
| EInvalidLevel (lv : Z)
| EBadFile (i j : nat) (f : Z)
| EOutOfBounds (i j : nat) (s e : Z).

(* Err carries the diagnostics that were already appended when the error was returned *)
Inductive res := Ok (ds : list diag) | Err (e : err) (appended : list diag).

Definition level_ok (v : variant) (lv : Z) : bool :=
  (lv =? 2) || (lv =? 3) || (lv =? 4) || (fix_ice v && (lv =? 1)).

Definition start_rejected (v : variant) (start l : Z) : bool :=
  if fix_eof v then l <? start else l <=? start.

Definition dec_edit (e : pedit) : edit := mkedit (pe_start e) (pe_end e) (pe_replace e).

Definition dec_annot (v : variant) (files : list pfile) (i j : nat) (a : pannot) : err + snippet :=
  if Z.of_nat (length files) <=? pa_file a then inl (EBadFile i j (pa_file a))
  else
    let pf := nth (Z.to_nat (pa_file a)) files (mkpfile [] []) in
    let l := len (pf_text pf) in
    if start_rejected v (pa_start a) l || (l <? pa_end a) || (pa_end a <? pa_start a)
    then inl (EOutOfBounds i j (pa_start a) (pa_end a))
    else inr (mksnip (mkfile (pf_path pf) (pf_text pf)) (pa_start a) (pa_end a) (pa_msg a)
                     (pa_primary a) (pa_break a) (map dec_edit (pa_edits a))).

Fixpoint dec_annots (v : variant) (files : list pfile) (i j : nat) (anns : list pannot) : err + list snippet :=
  match anns with
  | [] => inr []
  | a :: r =>
    match dec_annot v files i j a with
    | inl e => inl e
    | inr s =>
      match dec_annots v files i (S j) r with
      | inl e => inl e
      | inr ss => inr (s :: ss)
      end
    end
  end.

Definition set_primary (s : snippet) : snippet :=
  mksnip (s_file s) (s_start s) (s_end s) (s_msg s) true (s_break s) (s_edits s).

(* if !havePrimary && len(d.snippets) > 0 { d.snippets[0].primary = true } *)
Definition default_primary (ss : list snippet) : list snippet :=
  if existsb s_primary ss then ss
  else match ss with [] => [] | s :: r => set_primary s :: r end.

Definition dec_diag (v : variant) (files : list pfile) (i : nat) (pd : pdiag) : err + diag :=
  match pd_msg pd with
  | [] => inl (EMissingMessage i)
  | _ :: _ =>
    let lv := wrap8 (pd_level pd) in
    if negb (level_ok v lv) then inl (EInvalidLevel lv)
    else match dec_annots v files i 0 (pd_annots pd) with
         | inl e => inl e
         | inr ss => inr (mkdiag (pd_tag pd) (pd_msg pd) lv 0 (pd_infile pd) (default_primary ss)
                                 (pd_notes pd) (pd_help pd) (pd_debug pd))
         end
  end.

Fixpoint dec_diags (v : variant) (files : list pfile) (i : nat) (pds : list pdiag) : res :=
  match pds with
  | [] => Ok []
  | pd :: r =>
    match dec_diag v files i pd with
    | inl e => Err e []
    | inr d =>
      match dec_diags v files (S i) r with
      | Ok ds => Ok (d :: ds)
      | Err e ds => Err e (d :: ds)
      end
    end
  end.

Definition from_proto_v (v : variant) (p : preport) : res := dec_diags v (pr_files p) 0 (pr_diags p).

(* the code as it is *)
Definition to_proto := to_proto_v asis.
Definition from_proto := from_proto_v asis.

(* what the proto does not carry: sortOrder comes back as 0 *)
Definition forget_sort (d : diag) : diag :=
  mkdiag (d_tag d) (d_msg d) (d_level d) 0 (d_infile d) (d_snips d) (d_notes d) (d_help d) (d_debug d).

Definition roundtrip_v (v : variant) (r : report) : option res :=
  match to_proto_v v r with None => None | Some p => Some (from_proto_v v p) end.

(* ---- the reports the property quantifies over ---- *)
Definition all_snips (r : report) : list snippet := flat_map d_snips r.

Definition u32_ok (z : Z) : Prop := 0 <= z < 4294967296.

Definition wf_edit (e : edit) : Prop := u32_ok (e_start e) /\ u32_ok (e_end e).

(* the annotation lies within its file; an empty span at the end of the file is allowed *)
Definition wf_snip (s : snippet) : Prop :=
  0 <= s_start s /\ s_start s <= s_end s /\ s_end s <= len (f_text (s_file s)) /\
  s_end s < 4294967296 /\ Forall wf_edit (s_edits s).

Definition wf_diag (d : diag) : Prop :=
  d_msg d <> [] /\ 1 <= d_level d <= 4 /\ Forall wf_snip (d_snips d) /\
  (d_snips d = [] \/ existsb s_primary (d_snips d) = true).

Definition wf (r : report) : Prop :=
  Forall wf_diag r /\
  (* ToProto identifies files by path (documented) *)
  (forall s1 s2, In s1 (all_snips r) -> In s2 (all_snips r) ->
                 f_path (s_file s1) = f_path (s_file s2) -> s_file s1 = s_file s2) /\
  Z.of_nat (length (all_snips r)) < 4294967296.

(* ---- the extra guards under which each unrepaired place still round-trips ---- *)
(* walking the snippets in report order, every snippet whose path has not occurred before spans
   its whole file *)
Definition whole (s : snippet) : Prop := s_start s = 0 /\ s_end s = len (f_text (s_file s)).
Fixpoint first_use_whole (seen : list str) (ss : list snippet) : Prop :=
  match ss with
  | [] => True
  | s :: r => (~ In (f_path (s_file s)) seen -> whole s) /\ first_use_whole (f_path (s_file s) :: seen) r
  end.

Definition guard (v : variant) (r : report) : Prop :=
  (fix_text v = false -> first_use_whole [] (all_snips r)) /\
  (fix_eof v = false -> forall s, In s (all_snips r) -> s_start s < len (f_text (s_file s))) /\
  (fix_ice v = false -> forall d, In d r -> d_level d <> 1).

(* ---- correspondence: observations made on the implementation, checked against the model ---- *)
Definition list_eqb {A} (eqb : A -> A -> bool) : list A -> list A -> bool :=
  fix go (a b : list A) : bool :=
    match a, b with
    | [], [] => true
    | x :: a', y :: b' => eqb x y && go a' b'
    | _, _ => false
    end.

Definition file_eqb (a b : file) := str_eqb (f_path a) (f_path b) && str_eqb (f_text a) (f_text b).
Definition edit_eqb (a b : edit) :=
  (e_start a =? e_start b) && (e_end a =? e_end b) && str_eqb (e_replace a) (e_replace b).
Definition snippet_eqb (a b : snippet) :=
  file_eqb (s_file a) (s_file b) && (s_start a =? s_start b) && (s_end a =? s_end b) &&
  str_eqb (s_msg a) (s_msg b) && Bool.eqb (s_primary a) (s_primary b) && Bool.eqb (s_break a) (s_break b) &&
  list_eqb edit_eqb (s_edits a) (s_edits b).
Definition diag_eqb (a b : diag) :=
  str_eqb (d_tag a) (d_tag b) && str_eqb (d_msg a) (d_msg b) && (d_level a =? d_level b) &&
  (d_sort a =? d_sort b) && str_eqb (d_infile a) (d_infile b) &&
  list_eqb snippet_eqb (d_snips a) (d_snips b) && list_eqb str_eqb (d_notes a) (d_notes b) &&
  list_eqb str_eqb (d_help a) (d_help b) && list_eqb str_eqb (d_debug a) (d_debug b).

Definition pfile_eqb (a b : pfile) := str_eqb (pf_path a) (pf_path b) && str_eqb (pf_text a) (pf_text b).
Definition pedit_eqb (a b : pedit) :=
  (pe_start a =? pe_start b) && (pe_end a =? pe_end b) && str_eqb (pe_replace a) (pe_replace b).
Definition pannot_eqb (a b : pannot) :=
  (pa_file a =? pa_file b) && (pa_start a =? pa_start b) && (pa_end a =? pa_end b) &&
  str_eqb (pa_msg a) (pa_msg b) && Bool.eqb (pa_primary a) (pa_primary b) &&
  Bool.eqb (pa_break a) (pa_break b) && list_eqb pedit_eqb (pa_edits a) (pa_edits b).
Definition pdiag_eqb (a b : pdiag) :=
  str_eqb (pd_msg a) (pd_msg b) && str_eqb (pd_tag a) (pd_tag b) && (pd_level a =? pd_level b) &&
  str_eqb (pd_infile a) (pd_infile b) && list_eqb pannot_eqb (pd_annots a) (pd_annots b) &&
  list_eqb str_eqb (pd_notes a) (pd_notes b) && list_eqb str_eqb (pd_help a) (pd_help b) &&
  list_eqb str_eqb (pd_debug a) (pd_debug b).
Definition preport_eqb (a b : preport) :=
  list_eqb pfile_eqb (pr_files a) (pr_files b) && list_eqb pdiag_eqb (pr_diags a) (pr_diags b).

Definition err_eqb (a b : err) : bool :=
  match a, b with
  | EMissingMessage i, EMissingMessage i' => Nat.eqb i i'
  | EInvalidLevel l, EInvalidLevel l' => l =? l'
  | EBadFile i j f, EBadFile i' j' f' => Nat.eqb i i' && Nat.eqb j j' && (f =? f')
  | EOutOfBounds i j s e, EOutOfBounds i' j' s' e' => Nat.eqb i i' && Nat.eqb j j' && (s =? s') && (e =? e')
  | _, _ => false
  end.
Definition res_eqb (a b : res) : bool :=
  match a, b with
  | Ok x, Ok y => list_eqb diag_eqb x y
  | Err e x, Err e' y => err_eqb e e' && list_eqb diag_eqb x y
  | _, _ => false
  end.

Inductive rc_case :=
| CRt (r : report) (p : option preport) (out : option res)   (* ToProto r = p (None: panic); AppendFromProto p = out *)
| CDec (p : preport) (out : res).                            (* AppendFromProto on an arbitrary proto *)

Definition rc_chk_v (v : variant) (c : rc_case) : bool :=
  match c with
  | CRt r p out =>
    match to_proto_v v r, p with
    | None, None => true
    | Some mp, Some ip =>
      preport_eqb mp ip &&
      match out with Some o => res_eqb (from_proto_v v ip) o | None => false end
    | _, _ => false
    end
  | CDec p out => res_eqb (from_proto_v v p) out
  end.

Definition rc_chk := rc_chk_v asis.
Definition rc_chk_000 := rc_chk_v (mkvar false false false).
Definition rc_chk_001 := rc_chk_v (mkvar false false true).
Definition rc_chk_010 := rc_chk_v (mkvar false true false).
Definition rc_chk_011 := rc_chk_v (mkvar false true true).
Definition rc_chk_100 := rc_chk_v (mkvar true false false).
Definition rc_chk_101 := rc_chk_v (mkvar true false true).
Definition rc_chk_110 := rc_chk_v (mkvar true true false).
Definition rc_chk_111 := rc_chk_v (mkvar true true true).
