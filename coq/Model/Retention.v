(* Model of options/source_retention_options.go (property C22).

   StripSourceRetentionOptionsFromFile walks a FileDescriptorProto, replaces every options
   message that has source-retention fields by a copy without them, copies (shallowly) every
   element on the way from the root to a replaced options message, and drops the source code
   info locations under the removed option paths.

   Values.  An options message is a tree: set fields in field-number order, each with the
   retention declared on the field, and a value that is a scalar, a sub-message or a repeated
   value; plus the bytes of its unknown (unparsed) fields.  Every message carries the address
   of the Go object that holds it, so that sharing between input and output and the absence of
   writes to the input can be stated: strip at generation g gives every object it allocates an
   address >= g (fresh g a = g + a), and the input is assumed to live below g.

   Descriptors.  One element type for all kinds; the kind fixes which child collections the Go
   code visits, in which order and under which field number (schema), and the field number of
   the options (opts_tag).  Everything else an element holds is the opaque payload rest;
   unk are the unknown fields of the descriptor message itself (shallowCopy rebuilds a message
   from Range and so loses them).

   strip_elem is parameterised by the function that strips ONE options message:
     strip_opts        the code as it is in the pinned tree: top-level fields only, the
                       replacement is rebuilt from Range (unknown fields are not carried over)
     strip_opts_fixed  the proposed repair: recursive, keeps unknown fields
   and by whether shallowCopy keeps the unknown fields of the descriptor message (it does not in
   the pinned tree; the repair adds SetUnknown). *)
From Coq Require Import List NArith Bool.
Import ListNotations.
Open Scope N_scope.

Inductive ret := RUnset | RRuntime | RSource.
Definition is_source (r : ret) : bool := match r with RSource => true | _ => false end.

Inductive oval :=
| VScalar (p : N)
| VMsg (a : N) (fs : list (N * ret * oval)) (unk : list N)
| VList (items : list oval).
Definition ofld := (N * ret * oval)%type.
Definition omsg := (N * list ofld * list N)%type.
Definition fld_ret (f : ofld) : ret := snd (fst f).
Definition fld_num (f : ofld) : N := fst (fst f).
Definition fld_val (f : ofld) : oval := snd f.

Inductive kind := KFile | KMsg | KField | KOneof | KExtRange | KEnum | KEnumVal | KSvc | KMethod.

Inductive elem :=
| Elem (k : kind) (a : N) (o : option omsg) (rest : N) (unk : list N) (slots : list (list elem)).

Definition path := list N.
Definition loc := (path * N)%type.
Record file := File { f_root : elem; f_sci : option (N * list loc) }.

(* internal/tags: field numbers of descriptor.proto *)
Definition opts_tag (k : kind) : N :=
  match k with
  | KFile => 8 | KMsg => 7 | KField => 8 | KOneof => 2 | KExtRange => 3
  | KEnum => 3 | KEnumVal => 3 | KSvc => 3 | KMethod => 4
  end.

(* the child collections the code visits, in the order it visits them *)
Definition schema (k : kind) : list (N * kind) :=
  match k with
  | KFile => [(4, KMsg); (5, KEnum); (7, KField); (6, KSvc)]
  | KMsg => [(2, KField); (8, KOneof); (5, KExtRange); (3, KMsg); (4, KEnum); (6, KField)]
  | KEnum => [(2, KEnumVal)]
  | KSvc => [(2, KMethod)]
  | _ => []
  end.

Definition fresh (g a : N) : N := g + a.

(* ---------------------------------------------------------------- sourcePathTrie *)
Inductive trie := Trie (removed : bool) (children : list (N * trie)).
Definition trie_empty : trie := Trie false [].

Fixpoint find_child (x : N) (ch : list (N * trie)) : option trie :=
  match ch with
  | [] => None
  | (y, c) :: tl => if x =? y then Some c else find_child x tl
  end.

Fixpoint upd_child (f : trie -> trie) (x : N) (ch : list (N * trie)) : list (N * trie) :=
  match ch with
  | [] => [(x, f trie_empty)]
  | (y, c) :: tl => if x =? y then (y, f c) :: tl else (y, c) :: upd_child f x tl
  end.

(* addPath *)
Fixpoint add_path (p : path) (t : trie) {struct p} : trie :=
  match p with
  | [] => match t with Trie _ ch => Trie true ch end
  | x :: r => match t with Trie rm ch => Trie rm (upd_child (add_path r) x ch) end
  end.

(* isRemoved *)
Fixpoint is_removed (p : path) (t : trie) {struct p} : bool :=
  match t with
  | Trie rm ch =>
    if rm then true else
    match p with
    | [] => false
    | x :: r => match find_child x ch with None => false | Some c => is_removed r c end
    end
  end.

Definition trie_of (ps : list path) : trie := fold_left (fun t p => add_path p t) ps trie_empty.

(* ---------------------------------------------------------------- stripSourceRetentionOptions, as it is *)
(* result: the options to store, whether it is a different pointer, the paths handed to addPath *)
Definition strip_opts (g : N) (o : option omsg) (p : path) : option omsg * bool * list path :=
  match o with
  | None => (None, false, [])
  | Some (a, fs, unk) =>
    let has := existsb (fun f => is_source (fld_ret f)) fs in
    let keep := filter (fun f => negb (is_source (fld_ret f))) fs in
    if negb has then (o, false, [])
    else match keep with
         | [] => (None, true, [p])
         | _ => (Some (fresh g a, keep, []), true,
                 map (fun f => p ++ [fld_num f]) (filter (fun f => is_source (fld_ret f)) fs))
         end
  end.

(* ---------------------------------------------------------------- the proposed repair *)
Fixpoint has_source_val (v : oval) : bool :=
  match v with
  | VScalar _ => false
  | VMsg _ fs _ => existsb (fun f => is_source (snd (fst f)) || has_source_val (snd f)) fs
  | VList items => existsb has_source_val items
  end.

Definition has_source_fields (fs : list ofld) : bool :=
  existsb (fun f => is_source (fld_ret f) || has_source_val (fld_val f)) fs.

Section CopyLists.
  Variable cp : path -> oval -> oval * list path.
  (* the Range loop of copyWithoutSourceRetentionFields over the set fields of one message *)
  Fixpoint copy_fields (p : path) (l : list ofld) : list ofld * list path :=
    match l with
    | [] => ([], [])
    | f :: tl =>
      let '(tl', rm) := copy_fields p tl in
      if is_source (snd (fst f)) then (tl', (p ++ [fst (fst f)]) :: rm)
      else let '(w', rw) := cp (p ++ [fst (fst f)]) (snd f) in
           ((fst (fst f), snd (fst f), w') :: tl', rw ++ rm)
    end.
  (* the loop over the items of a repeated field: the index is pushed *)
  Fixpoint copy_items (p : path) (l : list oval) (i : N) : list oval * list path :=
    match l with
    | [] => ([], [])
    | w :: tl =>
      let '(w', rw) := cp (p ++ [i]) w in
      let '(tl', rm) := copy_items p tl (i + 1) in
      (w' :: tl', rw ++ rm)
    end.
End CopyLists.

(* copyWithoutSourceRetentionFields: a fresh copy of the value without source-retention fields at
   any depth; p is the source path of the value (field number already pushed) *)
Fixpoint copy_val (g : N) (p : path) (v : oval) {struct v} : oval * list path :=
  match v with
  | VScalar s => (VScalar s, [])
  | VMsg a fs unk =>
    let '(fs', rem) := copy_fields (copy_val g) p fs in (VMsg (fresh g a) fs' unk, rem)
  | VList items =>
    let '(items', rem) := copy_items (copy_val g) p items 0 in (VList items', rem)
  end.

Definition strip_opts_fixed (g : N) (o : option omsg) (p : path) : option omsg * bool * list path :=
  match o with
  | None => (None, false, [])
  | Some (a, fs, unk) =>
    if negb (has_source_fields fs) then (o, false, [])
    else match copy_val g p (VMsg a fs unk) with
         | (VMsg a' [] [], rem) => (None, true, p :: rem)
         | (VMsg a' fs' unk', rem) => (Some (a', fs', unk'), true, rem)
         | (_, rem) => (o, false, [])   (* unreachable: a message copies to a message *)
         end
  end.

(* ---------------------------------------------------------------- the descriptor walk *)
Section AllSlots.
  Variable f : path -> elem -> elem * bool * list path.
  (* stripOptionsFromAll: pt is the path of the collection, the index is pushed *)
  Fixpoint strip_all (pt : path) (l : list elem) (i : N) : list elem * bool * list path :=
    match l with
    | [] => ([], false, [])
    | x :: tl =>
      let '(x', cx, rx) := f (pt ++ [i]) x in
      let '(tl', ct, rt) := strip_all pt tl (i + 1) in
      (x' :: tl', cx || ct, rx ++ rt)
    end.
  (* the sequence of stripOptionsFromAll calls of one strip...From<Kind> function *)
  Fixpoint strip_slots (p : path) (ss : list (list elem)) (sc : list (N * kind)) : list (list elem) * bool * list path :=
    match ss, sc with
    | s :: ss', (t, _) :: sc' =>
      let '(s', c1, r1) := strip_all (p ++ [t]) s 0 in
      let '(ss'', c2, r2) := strip_slots p ss' sc' in
      (s' :: ss'', c1 || c2, r1 ++ r2)
    | _, _ => (ss, false, [])
    end.
End AllSlots.

Section Walk.
  Variable so : N -> option omsg -> path -> option omsg * bool * list path.
  (* shallowCopy: does the copy of a descriptor message keep its unknown fields *)
  Variable ku : bool.

  (* strip...From<Kind>: p is the path of the element *)
  Fixpoint strip_elem (g : N) (p : path) (e : elem) {struct e} : elem * bool * list path :=
    match e with
    | Elem k a o rest unk slots =>
      let '(o', och, orem) := so g o (p ++ [opts_tag k]) in
      let '(slots', sch, srem) := strip_slots (strip_elem g) p slots (schema k) in
      let dirty := och || sch in
      (if dirty then Elem k (fresh g a) o' rest (if ku then unk else []) slots' else e, dirty, orem ++ srem)
    end.

  (* stripSourcePathsForSourceRetentionOptions *)
  Definition strip_sci (g : N) (sci : option (N * list loc)) (removed : list path) : option (N * list loc) :=
    match sci with
    | None => None
    | Some (_, []) => sci
    | Some (a, locs) =>
      let t := trie_of removed in
      Some (fresh g a, filter (fun l => negb (is_removed (fst l) t)) locs)
    end.

  (* StripSourceRetentionOptionsFromFile: the result and whether it is a different pointer *)
  Definition strip_file (g : N) (f : file) : file * bool :=
    let '(e', dirty, rem) := strip_elem g [] (f_root f) in
    if dirty then (File e' (strip_sci g (f_sci f) rem), true) else (f, false).
End Walk.

Definition strip := strip_file strip_opts false.
Definition strip_fixed := strip_file strip_opts_fixed true.

(* ---------------------------------------------------------------- vocabulary of the property *)
Fixpoint is_prefix (q p : path) : bool :=
  match q with
  | [] => true
  | x :: q' => match p with [] => false | y :: p' => (x =? y) && is_prefix q' p' end
  end.
(* the location path p points into one of the options qs *)
Definition under_any (qs : list path) (p : path) : bool := existsb (fun q => is_prefix q p) qs.

(* a predicate on (options, unknown fields of the element) holds at every element of the tree *)
Fixpoint elem_all (P : option omsg -> list N -> bool) (e : elem) : bool :=
  match e with
  | Elem _ _ o _ unk slots => P o unk && forallb (forallb (elem_all P)) slots
  end.

(* a predicate on options holds at some element of the tree *)
Fixpoint elem_any (H : option omsg -> bool) (e : elem) : bool :=
  match e with
  | Elem _ _ o _ _ slots => H o || existsb (existsb (elem_any H)) slots
  end.

(* a field with source retention somewhere in the options, at any depth *)
Definition opts_has_source (o : option omsg) : bool :=
  match o with None => false | Some (_, fs, _) => has_source_fields fs end.
Definition elem_has_source : elem -> bool := elem_any opts_has_source.
Definition no_source (f : file) : Prop := elem_has_source (f_root f) = false.

(* ... directly in the options message (depth 1) *)
Definition opts_top_source (o : option omsg) : bool :=
  match o with None => false | Some (_, fs, _) => existsb (fun f => is_source (fld_ret f)) fs end.
Definition elem_top_source : elem -> bool := elem_any opts_top_source.

(* no source-retention field hides inside the value of a field that is itself kept *)
Definition opts_nested_free (o : option omsg) : bool :=
  match o with
  | None => true
  | Some (_, fs, _) => forallb (fun f => is_source (fld_ret f) || negb (has_source_val (fld_val f))) fs
  end.
Definition nested_source_free (e : elem) : bool := elem_all (fun o _ => opts_nested_free o) e.

(* no unknown fields on options messages and descriptor messages *)
Definition is_nil {A} (l : list A) : bool := match l with [] => true | _ => false end.
Definition opts_no_unknown (o : option omsg) : bool :=
  match o with None => true | Some (_, _, unk) => is_nil unk end.
Definition no_unknown (e : elem) : bool := elem_all (fun o unk => opts_no_unknown o && is_nil unk) e.

(* every element has exactly the child collections of its kind *)
Fixpoint wf_elem (e : elem) : bool :=
  match e with
  | Elem k _ _ _ _ slots => Nat.eqb (length slots) (length (schema k)) && forallb (forallb wf_elem) slots
  end.

(* the tree without its source-retention fields (any depth) and without addresses; an options
   message that has neither fields nor unknown bytes left counts as absent *)
Section PruneFields.
  Variable pv : oval -> oval.
  Fixpoint prune_fields (l : list ofld) : list ofld :=
    match l with
    | [] => []
    | f :: tl => if is_source (snd (fst f)) then prune_fields tl
                 else (fst (fst f), snd (fst f), pv (snd f)) :: prune_fields tl
    end.
End PruneFields.
Fixpoint prune_val (v : oval) : oval :=
  match v with
  | VScalar p => VScalar p
  | VMsg _ fs unk => VMsg 0 (prune_fields prune_val fs) unk
  | VList items => VList (map prune_val items)
  end.
Definition prune_opts (o : option omsg) : option omsg :=
  match o with
  | None => None
  | Some (_, fs, unk) =>
    match prune_fields prune_val fs, unk with
    | [], [] => None
    | fs', _ => Some (0, fs', unk)
    end
  end.
Fixpoint prune_elem (e : elem) : elem :=
  match e with
  | Elem k _ o rest unk slots => Elem k 0 (prune_opts o) rest unk (map (map prune_elem) slots)
  end.

(* the objects (Go pointers) a descriptor consists of *)
Inductive obj :=
| OElem (e : elem)
| OMsg (a : N) (fs : list ofld) (unk : list N)
| OSci (a : N) (locs : list loc).
Definition obj_addr (x : obj) : N :=
  match x with OElem (Elem _ a _ _ _ _) => a | OMsg a _ _ => a | OSci a _ => a end.
Fixpoint val_objs (v : oval) : list obj :=
  match v with
  | VScalar _ => []
  | VMsg a fs unk => OMsg a fs unk :: flat_map (fun f => val_objs (snd f)) fs
  | VList items => flat_map val_objs items
  end.
Definition opts_objs (o : option omsg) : list obj :=
  match o with None => [] | Some (a, fs, unk) => val_objs (VMsg a fs unk) end.
Fixpoint elem_objs (e : elem) : list obj :=
  match e with
  | Elem _ _ o _ _ slots => OElem e :: opts_objs o ++ flat_map (flat_map elem_objs) slots
  end.
Definition file_objs (f : file) : list obj :=
  elem_objs (f_root f) ++ match f_sci f with Some (a, locs) => [OSci a locs] | None => [] end.

(* the option paths that are removed, read off the input: rs gives the paths for one options
   message at its path *)
Section RemovedPaths.
  Variable rs : path -> option omsg -> list path.
  Section Lists.
    Variable rp : path -> elem -> list path.
    Fixpoint removed_all (pt : path) (l : list elem) (i : N) : list path :=
      match l with [] => [] | x :: tl => rp (pt ++ [i]) x ++ removed_all pt tl (i + 1) end.
    Fixpoint removed_slots (p : path) (ss : list (list elem)) (sc : list (N * kind)) : list path :=
      match ss, sc with
      | s :: ss', (t, _) :: sc' => removed_all (p ++ [t]) s 0 ++ removed_slots p ss' sc'
      | _, _ => []
      end.
  End Lists.
  Fixpoint removed_elem (p : path) (e : elem) : list path :=
    match e with
    | Elem k _ o _ _ slots => rs (p ++ [opts_tag k]) o ++ removed_slots removed_elem p slots (schema k)
    end.
End RemovedPaths.

(* pinned code: the source-retention fields of the options message itself, or the whole options
   when nothing else is set *)
Definition removed_top (p : path) (o : option omsg) : list path :=
  match o with
  | None => []
  | Some (_, fs, _) =>
    match filter (fun f => is_source (fld_ret f)) fs, filter (fun f => negb (is_source (fld_ret f))) fs with
    | [], _ => []
    | _, [] => [p]
    | srcs, _ => map (fun f => p ++ [fld_num f]) srcs
    end
  end.

(* repaired code: the source-retention fields at any depth (a repeated message pushes the index) *)
Section RemovedDeep.
  Variable rv : path -> oval -> list path.
  Fixpoint removed_fields (p : path) (l : list ofld) : list path :=
    match l with
    | [] => []
    | f :: tl => (if is_source (snd (fst f)) then [p ++ [fst (fst f)]] else rv (p ++ [fst (fst f)]) (snd f))
                 ++ removed_fields p tl
    end.
  Fixpoint removed_items (p : path) (l : list oval) (i : N) : list path :=
    match l with [] => [] | w :: tl => rv (p ++ [i]) w ++ removed_items p tl (i + 1) end.
End RemovedDeep.
Fixpoint removed_val (p : path) (v : oval) : list path :=
  match v with
  | VScalar _ => []
  | VMsg _ fs _ => removed_fields removed_val p fs
  | VList items => removed_items removed_val p items 0
  end.
Definition removed_deep (p : path) (o : option omsg) : list path :=
  match o with
  | None => []
  | Some (_, fs, unk) =>
    if negb (has_source_fields fs) then []
    else match prune_fields prune_val fs, unk with
         | [], [] => p :: removed_fields removed_val p fs
         | _, _ => removed_fields removed_val p fs
         end
  end.

(* ---------------------------------------------------------------- correspondence *)
(* equality up to the names of fresh objects: an address below g must be the same address
   (the same object of the input), an address >= g only has to be >= g in the observation *)
Definition addr_sim (g a b : N) : bool := if a <? g then a =? b else g <=? b.

Fixpoint list_eqb {A} (eq : A -> A -> bool) (x y : list A) : bool :=
  match x, y with
  | [], [] => true
  | a :: x', b :: y' => eq a b && list_eqb eq x' y'
  | _, _ => false
  end.

Definition ret_eqb (a b : ret) : bool :=
  match a, b with RUnset, RUnset | RRuntime, RRuntime | RSource, RSource => true | _, _ => false end.

Definition kind_eqb (a b : kind) : bool :=
  match a, b with
  | KFile, KFile | KMsg, KMsg | KField, KField | KOneof, KOneof | KExtRange, KExtRange
  | KEnum, KEnum | KEnumVal, KEnumVal | KSvc, KSvc | KMethod, KMethod => true
  | _, _ => false
  end.

Fixpoint val_sim (g : N) (v w : oval) {struct v} : bool :=
  match v, w with
  | VScalar p, VScalar q => p =? q
  | VMsg a fs unk, VMsg b gs unk' =>
    addr_sim g a b && list_eqb N.eqb unk unk' &&
    (fix go (l : list (N * ret * oval)) (m : list (N * ret * oval)) {struct l} : bool :=
       match l, m with
       | [], [] => true
       | (n, r, x) :: l', (n', r', y) :: m' => (n =? n') && ret_eqb r r' && val_sim g x y && go l' m'
       | _, _ => false
       end) fs gs
  | VList xs, VList ys =>
    (fix go (l m : list oval) {struct l} : bool :=
       match l, m with
       | [], [] => true
       | x :: l', y :: m' => val_sim g x y && go l' m'
       | _, _ => false
       end) xs ys
  | _, _ => false
  end.

Definition opts_sim (g : N) (o o' : option omsg) : bool :=
  match o, o' with
  | None, None => true
  | Some (a, fs, unk), Some (b, gs, unk') => val_sim g (VMsg a fs unk) (VMsg b gs unk')
  | _, _ => false
  end.

Fixpoint elem_sim (g : N) (e e' : elem) {struct e} : bool :=
  match e, e' with
  | Elem k a o rest unk slots, Elem k' a' o' rest' unk' slots' =>
    kind_eqb k k' && addr_sim g a a' && opts_sim g o o' && (rest =? rest') && list_eqb N.eqb unk unk' &&
    (fix go_slots (ss ss' : list (list elem)) {struct ss} : bool :=
       match ss, ss' with
       | [], [] => true
       | s :: t, s' :: t' =>
         (fix go (l l' : list elem) {struct l} : bool :=
            match l, l' with
            | [], [] => true
            | x :: m, x' :: m' => elem_sim g x x' && go m m'
            | _, _ => false
            end) s s' && go_slots t t'
       | _, _ => false
       end) slots slots'
  end.

Definition loc_eqb (l l' : loc) : bool := list_eqb N.eqb (fst l) (fst l') && (snd l =? snd l').

Definition sci_sim (g : N) (s s' : option (N * list loc)) : bool :=
  match s, s' with
  | None, None => true
  | Some (a, ls), Some (b, ls') => addr_sim g a b && list_eqb loc_eqb ls ls'
  | _, _ => false
  end.

Definition file_sim (g : N) (f f' : file) : bool :=
  elem_sim g (f_root f) (f_root f') && sci_sim g (f_sci f) (f_sci f').

(* one observation of the real code: generation (number of objects of the input), the input, the
   result, whether the result is the input pointer, and the same for stripping the result again
   (generation g2 = number of objects seen so far) *)
Inductive ret_case := RC (fixed : bool) (g : N) (input out : file) (same : bool) (g2 : N) (again : option file) (same2 : bool).

(* again = None: the dump of the second result is identical to the dump of the first *)
Definition ret_chk (c : ret_case) : bool :=
  match c with
  | RC fixed g input out same g2 again same2 =>
    let st := if fixed then strip_fixed else strip in
    let '(m, ch) := st g input in
    let '(m2, ch2) := st g2 out in
    file_sim g m out && Bool.eqb (negb ch) same &&
    file_sim g2 m2 (match again with Some a => a | None => out end) && Bool.eqb (negb ch2) same2
  end.
