(* Model of relative name resolution in linker/resolve.go (result.resolve, fileScope, messageScope,
   resolveElementRelative, resolveElementInFile, matchesPkgNamespace, resolveElement) and of
   internal/util.go CreatePrefixList.  Definitions only.  Names are byte strings (list N) with
   dot = 46; every split at a dot that the Go code performs on strings is performed here on the
   byte list.

   [go_resolve] mirrors the code as it is after the fix fixes/C15-resolve-scope.diff: the scope
   function takes skipNonTypes (= onlyTypes && firstName == name) and the file scope itself moves
   on to the next package level when a match is not a type (file_scope_loop_skip, run_scope_skip,
   resolve_loop_skip).  [go_resolve_old] is the code before the fix (fileScope returned the first
   non-nil match of any package level, so the onlyTypes filter was never applied between two
   package levels); it is kept for the historical refutation.  [go_resolve_fixed] (one scope per
   package prefix) is a proof device: it gives the same answers as go_resolve. *)
From Coq Require Import List NArith Bool Arith.
Import ListNotations.

Definition name := list N.
Definition dot : N := 46%N.

Fixpoint name_eqb (a b : name) : bool :=
  match a, b with
  | [], [] => true
  | x :: a', y :: b' => N.eqb x y && name_eqb a' b'
  | _, _ => false
  end.

Definition is_nil (s : name) : bool := match s with [] => true | _ => false end.

Fixpoint has_prefix (s p : name) {struct p} : bool :=          (* strings.HasPrefix(s, p) *)
  match p, s with
  | [], _ => true
  | y :: p', x :: s' => N.eqb x y && has_prefix s' p'
  | _ :: _, [] => false
  end.

Definition starts_with_dot (s : name) : bool := match s with c :: _ => N.eqb c dot | [] => false end.

(* strings.TrimPrefix(s, dot) / the one-character strip in resolveElement *)
Definition trim_dot (s : name) : name := if starts_with_dot s then tl s else s.

(* strings.IndexByte(s, '.') *)
Fixpoint index_dot (s : name) : option nat :=
  match s with
  | [] => None
  | c :: r => if N.eqb c dot then Some O else option_map S (index_dot r)
  end.

Inductive kind := KMessage | KEnum | KService | KField | KExtension | KEnumValue | KOneof | KMethod.

Definition kind_eqb (a b : kind) : bool :=
  match a, b with
  | KMessage, KMessage | KEnum, KEnum | KService, KService | KField, KField
  | KExtension, KExtension | KEnumValue, KEnumValue | KOneof, KOneof | KMethod, KMethod => true
  | _, _ => false
  end.

(* one visible file: its package and the map full name -> element (result.descriptors) *)
Record file := mkFile { f_pkg : name; f_syms : list (name * kind) }.

(* the file being linked and the other files resolveInFile reaches from it (direct imports and
   the public closure of those), in the order in which resolveInFile visits them; see C18 *)
Record universe := mkU { u_self : file; u_deps : list file }.
Definition u_files (U : universe) : list file := u_self U :: u_deps U.

Fixpoint assoc (n : name) (l : list (name * kind)) : option kind :=
  match l with
  | [] => None
  | (m, k) :: r => if name_eqb n m then Some k else assoc n r
  end.

(* result.FindDescriptorByName: TrimPrefix(name, dot) then the map *)
Definition find_desc (f : file) (n : name) : option kind := assoc (trim_dot n) (f_syms f).

(* what result.resolve and the scopes return: nil, a real descriptor, or a sentinelDescriptor *)
Inductive gres := GNil | GDesc (n : name) (k : kind) | GSentinel (n : name).

Definition matches_pkg_namespace (fqn pkg : name) : bool :=
  if is_nil pkg then false
  else if name_eqb fqn pkg then true
  else if (length fqn <? length pkg)%nat && has_prefix pkg fqn then
    match nth_error pkg (length fqn) with
    | Some c => N.eqb c dot
    | None => false
    end
  else false.

Definition resolve_element_in_file (n : name) (f : file) : gres :=
  match find_desc f n with
  | Some k => GDesc (trim_dot n) k
  | None => if matches_pkg_namespace n (f_pkg f) then GSentinel n else GNil
  end.

(* resolveInFile over the visible files: first file that answers *)
Fixpoint first_hit (fn : file -> gres) (fs : list file) : gres :=
  match fs with
  | [] => GNil
  | f :: r => match fn f with GNil => first_hit fn r | d => d end
  end.

Definition resolve_element (U : universe) (n : name) : gres :=
  let n := trim_dot n in
  first_hit (resolve_element_in_file n) (u_files U).

Definition is_aggregate_g (d : gres) : bool :=
  match d with
  | GSentinel _ => true
  | GDesc _ (KMessage | KEnum | KService) => true
  | _ => false
  end.

Definition is_type_g (d : gres) : bool :=
  match d with
  | GDesc _ (KMessage | KEnum) => true
  | _ => false
  end.

Definition resolve_element_relative (firstName fullName : name) (query : name -> gres) : gres :=
  match query firstName with
  | GNil => GNil
  | d =>
    if name_eqb firstName fullName then d
    else if negb (is_aggregate_g d) then GNil
    else match query fullName with
         | GNil => GSentinel fullName
         | d' => d'
         end
  end.

(* ---- internal.CreatePrefixList ---- *)
Fixpoint count_dots (s : name) : nat :=
  match s with
  | [] => O
  | c :: r => if N.eqb c dot then S (count_dots r) else count_dots r
  end.

Fixpoint upd {A} (l : list A) (i : nat) (x : A) : list A :=
  match l, i with
  | [], _ => []
  | _ :: r, O => x :: r
  | y :: r, S j => y :: upd r j x
  end.

(* second pass: [i] is the index in pkg of the head of [rest]; prefixes[numDots] = pkg[:i]; numDots-- *)
Fixpoint fill_prefixes (pkg : name) (i : nat) (rest : name) (numDots : nat) (prefixes : list name)
  : list name :=
  match rest with
  | [] => prefixes
  | c :: r =>
    if N.eqb c dot
    then fill_prefixes pkg (S i) r (numDots - 1) (upd prefixes numDots (firstn i pkg))
    else fill_prefixes pkg (S i) r numDots prefixes
  end.

Definition create_prefix_list (pkg : name) : list name :=
  match pkg with
  | [] => [[]]
  | _ =>
    match count_dots pkg with
    | O => [pkg; []]
    | numDots =>
      let prefixes := repeat [] (numDots + 2) in
      upd (fill_prefixes pkg 0 pkg numDots prefixes) 0 pkg
    end
  end.

(* ---- scopes ---- *)
Definition query_all (U : universe) : name -> gres := resolve_element U.
Definition query_self (U : universe) : name -> gres := fun n => resolve_element_in_file n (u_self U).

(* one iteration of the loop in fileScope *)
Definition file_scope_step (U : universe) (prefix firstName fullName : name) : gres :=
  if is_nil prefix
  then resolve_element_relative fullName fullName (query_all U)
  else resolve_element_relative (prefix ++ dot :: firstName) (prefix ++ dot :: fullName) (query_all U).

Fixpoint file_scope_loop (U : universe) (prefixes : list name) (firstName fullName : name) : gres :=
  match prefixes with
  | [] => GNil
  | p :: r =>
    match file_scope_step U p firstName fullName with
    | GNil => file_scope_loop U r firstName fullName
    | d => d
    end
  end.

Definition file_scope (U : universe) (firstName fullName : name) : gres :=
  file_scope_loop U (create_prefix_list (f_pkg (u_self U))) firstName fullName.

Definition message_scope (U : universe) (messageName firstName fullName : name) : gres :=
  resolve_element_relative (messageName ++ dot :: firstName) (messageName ++ dot :: fullName)
                           (query_self U).

Inductive scope := ScFile | ScMsg (messageName : name) | ScPrefix (prefix : name).

Definition run_scope (U : universe) (sc : scope) (firstName fullName : name) : gres :=
  match sc with
  | ScFile => file_scope U firstName fullName
  | ScMsg m => message_scope U m firstName fullName
  | ScPrefix p => file_scope_step U p firstName fullName      (* only in go_resolve_fixed *)
  end.

(* the loop of result.resolve, innermost scope first; [best] is bestGuess *)
Fixpoint resolve_loop (U : universe) (firstName nm : name) (onlyTypes : bool)
         (scopes_inner_first : list scope) (best : gres) : gres :=
  match scopes_inner_first with
  | [] => best
  | sc :: r =>
    match run_scope U sc firstName nm with
    | GNil => resolve_loop U firstName nm onlyTypes r best
    | d =>
      if negb onlyTypes || is_type_g d || negb (name_eqb firstName nm) then d
      else resolve_loop U firstName nm onlyTypes r (match best with GNil => d | _ => best end)
    end
  end.

(* pos := IndexByte(name, dot); firstName := name; if pos > 0 then firstName = name[:pos] *)
Definition first_name (nm : name) : name :=
  match index_dot nm with
  | Some (S p) => firstn (S p) nm
  | _ => nm
  end.

Definition resolve (U : universe) (nm : name) (onlyTypes : bool) (scopes : list scope) : gres :=
  if starts_with_dot nm then resolve_element U (tl nm)
  else resolve_loop U (first_name nm) nm onlyTypes (rev scopes) GNil.

(* ---- how resolveReferences builds the scope stack for an element ----
   [path] = simple names of the enclosing messages (or the enclosing service), outermost first;
   full names are built as createMessages does: prefix + name. *)
Definition qualify (parent n : name) : name := if is_nil parent then n else parent ++ dot :: n.

Fixpoint msg_fqns (parent : name) (path : list name) : list name :=
  match path with
  | [] => []
  | m :: r => let fq := qualify parent m in fq :: msg_fqns fq r
  end.

Definition scopes_for (U : universe) (path : list name) : list scope :=
  ScFile :: map ScMsg (msg_fqns (f_pkg (u_self U)) path).

Definition go_resolve_old (U : universe) (path : list name) (nm : name) (onlyTypes : bool) : gres :=
  resolve U nm onlyTypes (scopes_for U path).

(* ---- proof device: one scope per package prefix, outermost (the empty prefix) first ---- *)
Definition scopes_for_fixed (U : universe) (path : list name) : list scope :=
  map ScPrefix (rev (create_prefix_list (f_pkg (u_self U)))) ++
  map ScMsg (msg_fqns (f_pkg (u_self U)) path).

Definition go_resolve_fixed (U : universe) (path : list name) (nm : name) (onlyTypes : bool) : gres :=
  resolve U nm onlyTypes (scopes_for_fixed U path).

(* ---- the code after the fix: the scope function takes a flag skipNonTypes
   (= onlyTypes && firstName == name) and the file scope itself moves on to the next package
   level when a match is not a type, remembering the first such match ---- *)
Fixpoint file_scope_loop_skip (U : universe) (prefixes : list name) (firstName fullName : name)
         (skipNonTypes : bool) (bestGuess : gres) : gres :=
  match prefixes with
  | [] => bestGuess
  | p :: r =>
    match file_scope_step U p firstName fullName with
    | GNil => file_scope_loop_skip U r firstName fullName skipNonTypes bestGuess
    | d =>
      if negb skipNonTypes || is_type_g d then d
      else file_scope_loop_skip U r firstName fullName skipNonTypes
                                (match bestGuess with GNil => d | _ => bestGuess end)
    end
  end.

Definition run_scope_skip (U : universe) (sc : scope) (firstName fullName : name) (skipNonTypes : bool) : gres :=
  match sc with
  | ScFile => file_scope_loop_skip U (create_prefix_list (f_pkg (u_self U))) firstName fullName skipNonTypes GNil
  | _ => run_scope U sc firstName fullName
  end.

Fixpoint resolve_loop_skip (U : universe) (firstName nm : name) (onlyTypes : bool)
         (scopes_inner_first : list scope) (best : gres) : gres :=
  match scopes_inner_first with
  | [] => best
  | sc :: r =>
    match run_scope_skip U sc firstName nm (onlyTypes && name_eqb firstName nm) with
    | GNil => resolve_loop_skip U firstName nm onlyTypes r best
    | d =>
      if negb onlyTypes || is_type_g d || negb (name_eqb firstName nm) then d
      else resolve_loop_skip U firstName nm onlyTypes r (match best with GNil => d | _ => best end)
    end
  end.

Definition go_resolve (U : universe) (path : list name) (nm : name) (onlyTypes : bool) : gres :=
  if starts_with_dot nm then resolve_element U (tl nm)
  else resolve_loop_skip U (first_name nm) nm onlyTypes (rev (scopes_for U path)) GNil.

(* ---- correspondence ---- *)
From PV Require Import Common.Corr.

Definition gres_eqb (a b : gres) : bool :=
  match a, b with
  | GNil, GNil => true
  | GDesc n k, GDesc m j => name_eqb n m && kind_eqb k j
  | GSentinel n, GSentinel m => name_eqb n m
  | _, _ => false
  end.

Fixpoint names_eqb (a b : list name) : bool :=
  match a, b with
  | [], [] => true
  | x :: a', y :: b' => name_eqb x y && names_eqb a' b'
  | _, _ => false
  end.

Inductive prefix_case := CP (pkg : name) (observed : list name).
Definition prefix_chk (c : prefix_case) : bool :=
  match c with CP pkg obs => names_eqb (create_prefix_list pkg) obs end.
