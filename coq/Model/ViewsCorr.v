(* C04 - correspondence: what the harness (harness/cmd/views) observed on the linker's descriptors and on the
   Go runtime's descriptors, checked against Model/FieldView.v and Model/RuntimeSpec.v inside coqc. *)
From Coq Require Import List NArith ZArith Bool String.
From PV Require Import Common.Corr Model.FeaturesTables Model.Features Model.FieldView Model.RuntimeSpec Model.Ranges.
Import ListNotations.
Open Scope N_scope.

Definition opt_N_eqb (a b : option N) : bool :=
  match a, b with
  | Some x, Some y => x =? y
  | None, None => true
  | _, _ => false
  end.

Fixpoint list_opt_N_eqb (a b : list (option N)) : bool :=
  match a, b with
  | [], [] => true
  | x :: r, y :: s => opt_N_eqb x y && list_opt_N_eqb r s
  | _, _ => false
  end.

(* required numbers are a set (FieldNumbers.Has); compare without order *)
Definition same_set (a b : list N) : bool :=
  Nat.eqb (List.length a) (List.length b) && forallb (fun x => N_mem x b) a && forallb (fun x => N_mem x a) b.

(* the attribute vector of one field: Cardinality Kind HasPresence IsPacked HasOptionalKeyword IsMap IsList *)
Record fobs := mkobs { o_card : N; o_kind : N; o_pres : bool; o_packed : bool; o_optkw : bool; o_map : bool; o_list : bool }.

Definition fobs_eqb (a b : fobs) : bool :=
  (o_card a =? o_card b) && (o_kind a =? o_kind b) && Bool.eqb (o_pres a) (o_pres b)
  && Bool.eqb (o_packed a) (o_packed b) && Bool.eqb (o_optkw a) (o_optkw b)
  && Bool.eqb (o_map a) (o_map b) && Bool.eqb (o_list a) (o_list b).

Definition model_fobs (f : field) : fobs :=
  mkobs (cardinality f) (kind f) (has_presence f) (is_packed f) (has_optional_keyword f) (is_map f) (is_list f).
Definition spec_fobs (f : field) : fobs :=
  mkobs (rt_cardinality f) (rt_kind f) (rt_has_presence f) (rt_is_packed f) (rt_has_optional_keyword f)
        (rt_is_map f) (rt_is_list f).

Definition f_feat (f : field) : list (option N) := map (protoutil_resolve_feature (f_edition f) (f_chain f)) all_features.

Fixpoint list_Z_eqb (a b : list Z) : bool :=
  match a, b with
  | [], [] => true
  | x :: r, y :: s => Z.eqb x y && list_Z_eqb r s
  | _, _ => false
  end.

(* the probe numbers for which Has answers true: linker model, runtime spec (out of fuel counts as a mismatch) *)
Definition lk_has_set (incl : bool) (rs : list range) (probes : list Z) : list Z := filter (lk_has incl rs) probes.
Definition rt_has_set (incl : bool) (rs : list range) (probes : list Z) : option (list Z) :=
  if forallb (fun n => match rt_has incl rs n with Some _ => true | None => false end) probes
  then Some (filter (fun n => match rt_has incl rs n with Some b => b | None => false end) probes)
  else None.

Inductive view_case :=
(* everything observed about one field in one term: linker vector, resolved features, runtime vector (None when
   the runtime rejected the file), the plugin's value of wf_field *)
| VFieldAll (f : field) (lk : fobs) (feat : list (option N)) (rt : option fobs) (wf : bool)
| VMsgAll (fields : list field) (lkreq : list N) (rtreq : option (list N))
| VEnumAll (e : N) (c : chain) (lkclosed : bool) (feat : list (option N)) (rtclosed : option bool) (wf known : bool)
(* Default() of a singular field of an integer kind: the kind, the default_value text of the compiled proto,
   what the linker's descriptor says, what the runtime's says (None when the runtime rejected the file) *)
| VDefInt (k : N) (text : option string) (lk : Z) (rt : option Z)
(* linker.File: Cardinality Kind HasPresence IsPacked HasOptionalKeyword IsMap IsList of one field *)
| VField (f : field) (card kind : N) (pres packed optkw ismap islist : bool)
(* protodesc.NewFile: the same attributes of the same field *)
| VFieldRt (f : field) (card kind : N) (pres packed optkw ismap islist : bool)
(* protoutil.ResolveFeature of the six features on any element (None = error) *)
| VFeat (e : N) (c : chain) (feat : list (option N))
| VEnum (e : N) (c : chain) (closed : bool)
| VEnumRt (e : N) (c : chain) (closed : bool)
| VMsg (fields : list field) (req : list N)
| VMsgRt (fields : list field) (req : list N)
(* editions.GetEditionDefaults(e): the six values *)
| VDefaults (e : N) (vals : list N)
(* the runtime on a featureless file of edition e: presence of a singular int32, required, packed of a
   repeated int32, delimited message field, closed enum *)
| VRtDefaults (e : N) (pres req packed delim closed : bool)
(* the plugin's evaluation of the guard of the agreement theorems *)
| VWfField (f : field) (wf : bool)
| VWfEnum (e : N) (c : chain) (wf known : bool)
(* ReservedRanges() / ExtensionRanges() of a message (incl = false) or ReservedRanges() of an enum (incl = true):
   the ranges in declaration order as they are in the compiled proto, the numbers asked, the numbers for which
   the linker's Has said true, the same for the runtime (None when the runtime rejected the file), the plugin's
   value of the guard ranges_valid_b *)
| VRangesHas (incl : bool) (rs : list range) (probes lk : list Z) (rt : option (list Z)) (valid : bool)
| VRangesLk (incl : bool) (rs : list range) (probes lk : list Z)
| VRangesRt (incl : bool) (rs : list range) (probes rt : list Z)
| VRangesValid (incl : bool) (rs : list range) (valid : bool)
(* TextName() of a message-typed field: the raw facts, the names, what the linker's descriptor says, and for the
   runtime (None when it rejected the file) its text name, same_file, same_scope as observed on its descriptors, and
   the plugin's value of the guard scopes_by_name *)
| VTextName (f : field) (nm : fnames) (lk : string) (rt : option (string * bool * bool)) (guard : bool)
| VTextLk (f : field) (nm : fnames) (lk : string)
| VTextRt (f : field) (nm : fnames) (t : string) (same_file same_scope : bool).

Definition views_chk (c : view_case) : bool :=
  match c with
  | VFieldAll f lk feat rt wf =>
      fobs_eqb (model_fobs f) lk && list_opt_N_eqb (f_feat f) feat
      && match rt with Some o => fobs_eqb (spec_fobs f) o | None => true end
      && Bool.eqb (wf_field f) wf
  | VMsgAll fields lkreq rtreq =>
      same_set (required_numbers fields) lkreq
      && match rtreq with Some r => same_set (rt_required_numbers fields) r | None => true end
  | VEnumAll e ch lkclosed feat rtclosed wf known =>
      Bool.eqb (is_closed e ch) lkclosed
      && list_opt_N_eqb (map (protoutil_resolve_feature e ch) all_features) feat
      && match rtclosed with Some b => Bool.eqb (rt_is_closed e ch) b | None => true end
      && Bool.eqb (wf_enum e ch) wf && Bool.eqb (enum_type_known ch) known
  | VField f card k pres packed optkw ismap islist =>
      (cardinality f =? card) && (kind f =? k) && Bool.eqb (has_presence f) pres && Bool.eqb (is_packed f) packed
      && Bool.eqb (has_optional_keyword f) optkw && Bool.eqb (is_map f) ismap && Bool.eqb (is_list f) islist
  | VFieldRt f card k pres packed optkw ismap islist =>
      (rt_cardinality f =? card) && (rt_kind f =? k) && Bool.eqb (rt_has_presence f) pres
      && Bool.eqb (rt_is_packed f) packed && Bool.eqb (rt_has_optional_keyword f) optkw
      && Bool.eqb (rt_is_map f) ismap && Bool.eqb (rt_is_list f) islist
  | VDefInt k text lk rt =>
      Z.eqb (default_int k text) lk
      && match rt with Some v => match rt_default_int k text with Some w => Z.eqb v w | None => false end | None => true end
  | VFeat e ch feat => list_opt_N_eqb (map (protoutil_resolve_feature e ch) all_features) feat
  | VEnum e ch closed => Bool.eqb (is_closed e ch) closed
  | VEnumRt e ch closed => Bool.eqb (rt_is_closed e ch) closed
  | VMsg fields req => same_set (required_numbers fields) req
  | VMsgRt fields req => same_set (rt_required_numbers fields) req
  | VDefaults e vals => list_N_eqb (map (edition_default e) all_features) vals
  | VRtDefaults e pres req packed delim closed =>
      let fl := rt_file_flags e fs_empty in
      Bool.eqb (IsFieldPresence fl) pres && Bool.eqb (IsLegacyRequired fl) req && Bool.eqb (IsPacked fl) packed
      && Bool.eqb (IsDelimitedEncoded fl) delim && Bool.eqb (negb (IsOpenEnum fl)) closed
  | VWfField f wf => Bool.eqb (wf_field f) wf
  | VWfEnum e ch wf known => Bool.eqb (wf_enum e ch) wf && Bool.eqb (enum_type_known ch) known
  | VRangesHas incl rs probes lk rt valid =>
      list_Z_eqb (lk_has_set incl rs probes) lk
      && match rt with
         | Some l => match rt_has_set incl rs probes with Some m => list_Z_eqb m l | None => false end
         | None => true
         end
      && Bool.eqb (ranges_valid_b incl rs) valid
  | VRangesLk incl rs probes lk => list_Z_eqb (lk_has_set incl rs probes) lk
  | VRangesRt incl rs probes rt => match rt_has_set incl rs probes with Some m => list_Z_eqb m rt | None => false end
  | VRangesValid incl rs valid => Bool.eqb (ranges_valid_b incl rs) valid
  | VTextName f nm lk rt guard =>
      String.eqb (text_name f nm) lk
      && match rt with
         | Some (t, sf, ss) => String.eqb (rt_text_name f nm sf ss) t && Bool.eqb (scopes_by_name f nm sf ss) guard
         | None => true
         end
  | VTextLk f nm lk => String.eqb (text_name f nm) lk
  | VTextRt f nm t sf ss => String.eqb (rt_text_name f nm sf ss) t
  end.
