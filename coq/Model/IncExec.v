(* Small-step model of the incremental executor of experimental/incremental (executor.go: Run, Evict;
   task.go: Resolve, task.start, task.run, task.checkCycle, task.waitUntilDone and the deferred
   completion / panic handler of run).

   Threads are the goroutines of the Go code, with one refinement: the query that Resolve runs
   synchronously on the caller's goroutine (index 0) is a model thread of its own (flag tsync); its
   caller sits in PCall until that thread hands back the result and the semaphore hold.  Every step
   is one shared-memory action of the Go code: one sync.Map / atomic.Pointer operation, one semaphore
   operation, one channel wait, one node visit of checkCycle.  A schedule is a list of events: a step
   of a thread, the start of a Run (Runs overlap freely), an Evict or an Edit (input change followed by
   Evict; both exclusive: they need every earlier Run to have finished, the dirty RW lock).

   The flag wfix selects the repaired completion / wake-up protocol (see the comments at PClose,
   RReload, RCycW); wfix = false is the code as it is.  Definitions only. *)
From Coq Require Import List Arith Bool NArith.
Import ListNotations.

Definition key := nat.

(* what a caller gets for one dependency (the *result passed to the done callback of start) *)
Inductive dres :=
| DVal (v : N) (changed : bool)      (* a completed result; changed = (result.runID == caller.runID) *)
| DCyc (path : list key)             (* ErrCycle from checkCycle *)
| DNil.                              (* nil: the leader panicked or the context was cancelled *)

(* what Execute sees of it *)
Inductive cres := CV (v : N) | CC | CN.
Definition to_cres (r : option dres) : cres :=
  match r with Some (DVal v _) => CV v | Some (DCyc _) => CC | _ => CN end.

Record world := {
  wn : nat;                                     (* keys are 0 .. wn-1 *)
  wdeps : nat -> key -> list (list key);        (* own input -> the Resolve calls of Execute, in order *)
  wcomp : nat -> key -> list cres -> N;         (* own input, everything Resolve returned -> the result *)
  wpanic : key -> option nat;                   (* Some g: Execute panics before its Resolve call number g
                                                   (after the last one if g is not smaller than their number) *)
  wfix : bool
}.

Inductive tentry := TAbsent | TNil | TRes (o : nat).   (* Executor.tasks + task.result *)

Record robj := {                      (* a *result *)
  oclosed : bool;                     (* done is closed *)
  oval : N; orun : nat;               (* Value/Fatal as one number, runID *)
  ocanc : bool;                       (* ghost: Execute returned because Resolve reported cancellation *)
  ocyc : option (list key)            (* the Fatal field while pending: written by waiters that found a cycle *)
}.
Definition new_obj : robj := {| oclosed := false; oval := 0%N; orun := 0; ocanc := false; ocyc := None |}.

Inductive cmode := MDone | MPanic | MNoAcq.

Inductive pc :=
(* t.run before / without becoming the leader *)
| RLoad                               (* output = t.result.Load() *)
| RCas                                (* t.result.CompareAndSwap(nil, output) *)
| RLoad2                              (* t.result.Load() after a lost CAS *)
| RCheck (o : nat) (q : list key) (seen : list (key * key))   (* checkCycle: queue and parent map *)
| RCycW (o : nat) (path : list key)   (* output.Fatal = err *)
| RCycR (o : nat)                     (* the done callback reads r.Fatal *)
| RRel (o : nat)                      (* waitUntilDone, sync: caller.release() *)
| RWait (o : nat)                     (* select output.done / ctx.Done *)
| RAcq (o : nat)                      (* waitUntilDone, sync: caller.acquire() *)
| RReload (o : nat)                   (* t.result.Load() after the wake-up *)
(* the leader *)
| PAcquire                            (* callee.acquire() (async) / root.acquire() *)
| PBody (g : nat)                     (* inside Execute, before Resolve call number g *)
| PEdges (g i : nat)                  (* Resolve: getOrCreateTask and the edge stores for dependency i *)
| PStart (g i : nat) (nw : bool)      (* Resolve: dep.start for dependency i-1 (backwards); nw = needWait *)
| PCall (g : nat) (nw : bool)         (* dependency 0 runs synchronously on this goroutine *)
| PJoinRel (g : nat)                  (* caller.release() before the join *)
| PJoin (g : nat)                     (* join.Acquire(ctx, n) *)
| PJoinAcq (g : nat)                  (* caller.acquire() after the join *)
| PRelease (m : cmode)                (* deferred callee.release() (async) *)
| PClose (m : cmode)                  (* the deferred handler of run: memoize / withdraw, close(done), cancel *)
| PReturn (r : dres)                  (* done(r): store into the caller's results, join.Release(1) *)
| PEnd
| PAbort.                             (* Task.abort: errBadAcquire / errBadRelease *)

Record thread := {
  trun : nat;                         (* runID *)
  tkey : option key;                  (* the query handled; None = the root Task of a Run *)
  tcaller : option key;               (* caller.task (None: called from the root) *)
  thost : option (nat * nat);         (* the calling thread and the index in its Resolve call *)
  tsync : bool;                       (* runs on the caller's goroutine (index 0) *)
  tpc : pc;
  tobj : nat;                         (* as leader: the result installed by the CAS *)
  tslots : list (option dres);        (* results of the current Resolve call *)
  tacc : list cres;                   (* results of the earlier Resolve calls *)
  thold : bool;                       (* Task.holding *)
  tcanc : bool;                       (* Resolve returned the cancellation cause *)
  tpub : nat;                         (* ghost: clock when the edges of the current Resolve call were stored *)
  tdisc : list key                    (* ghost: the nodes the last completed checkCycle discovered *)
}.

Record state := {
  inp : key -> nat;                   (* the inputs the queries read *)
  tmap : key -> tentry;
  edges : list (key * key);           (* (c, d): d in c.deps and c in d.callers *)
  objs : nat -> robj; nobj : nat;
  thr : nat -> thread; nthr : nat;
  rcanc : nat -> option key;          (* context.Cause of the Run: the key whose Execute panicked *)
  nrun : nat;                         (* Executor.counter *)
  permits : nat;
  clock : nat;                        (* ghost: number of edge stores *)
  nexec : key -> nat;                 (* ghost: leader elections per key since its last eviction *)
  roots : list (nat * list key)       (* ghost: root thread and query list of every Run so far *)
}.

Definition upd {A} (m : nat -> A) (k : nat) (v : A) : nat -> A := fun x => if Nat.eqb x k then v else m x.
Definition memb (x : nat) (l : list nat) : bool := existsb (Nat.eqb x) l.
Definition edge_eqb (a b : key * key) : bool := Nat.eqb (fst a) (fst b) && Nat.eqb (snd a) (snd b).
Definition has_edge (l : list (key * key)) (e : key * key) : bool := existsb (edge_eqb e) l.
Definition deps_of (l : list (key * key)) (c : key) : list key :=
  map snd (filter (fun e => Nat.eqb (fst e) c) l).
Definition callers_of (l : list (key * key)) (d : key) : list key :=
  map fst (filter (fun e => Nat.eqb (snd e) d) l).

Definition set_pc (t : thread) (p : pc) : thread :=
  {| trun := trun t; tkey := tkey t; tcaller := tcaller t; thost := thost t; tsync := tsync t; tpc := p;
     tobj := tobj t; tslots := tslots t; tacc := tacc t; thold := thold t; tcanc := tcanc t; tpub := tpub t; tdisc := tdisc t |}.
Definition set_pc_hold (t : thread) (p : pc) (h : bool) : thread :=
  {| trun := trun t; tkey := tkey t; tcaller := tcaller t; thost := thost t; tsync := tsync t; tpc := p;
     tobj := tobj t; tslots := tslots t; tacc := tacc t; thold := h; tcanc := tcanc t; tpub := tpub t; tdisc := tdisc t |}.
Definition set_pc_obj (t : thread) (p : pc) (o : nat) : thread :=
  {| trun := trun t; tkey := tkey t; tcaller := tcaller t; thost := thost t; tsync := tsync t; tpc := p;
     tobj := o; tslots := tslots t; tacc := tacc t; thold := thold t; tcanc := tcanc t; tpub := tpub t; tdisc := tdisc t |}.
Definition set_pc_slots (t : thread) (p : pc) (sl : list (option dres)) : thread :=
  {| trun := trun t; tkey := tkey t; tcaller := tcaller t; thost := thost t; tsync := tsync t; tpc := p;
     tobj := tobj t; tslots := sl; tacc := tacc t; thold := thold t; tcanc := tcanc t; tpub := tpub t; tdisc := tdisc t |}.
Definition set_pc_pub (t : thread) (p : pc) (c : nat) : thread :=
  {| trun := trun t; tkey := tkey t; tcaller := tcaller t; thost := thost t; tsync := tsync t; tpc := p;
     tobj := tobj t; tslots := tslots t; tacc := tacc t; thold := thold t; tcanc := tcanc t; tpub := c; tdisc := tdisc t |}.
Definition set_pc_disc (t : thread) (p : pc) (d : list key) : thread :=
  {| trun := trun t; tkey := tkey t; tcaller := tcaller t; thost := thost t; tsync := tsync t; tpc := p;
     tobj := tobj t; tslots := tslots t; tacc := tacc t; thold := thold t; tcanc := tcanc t; tpub := tpub t; tdisc := d |}.
(* leaving Resolve: the results join the accumulated ones; canc = Resolve returned an error *)
Definition leave_resolve (t : thread) (p : pc) (h canc : bool) : thread :=
  {| trun := trun t; tkey := tkey t; tcaller := tcaller t; thost := thost t; tsync := tsync t; tpc := p;
     tobj := tobj t; tslots := tslots t; tacc := tacc t ++ map to_cres (tslots t); thold := h; tcanc := canc; tpub := tpub t; tdisc := tdisc t |}.

Definition set_slot (sl : list (option dres)) (i : nat) (r : dres) : list (option dres) :=
  firstn i sl ++ match skipn i sl with [] => [] | _ :: tl => Some r :: tl end.
Definition slots_full (sl : list (option dres)) : bool :=
  forallb (fun x => match x with Some _ => true | None => false end) sl.

(* the Resolve calls of a thread: the root resolves the queries passed to Run *)
Definition groups (w : world) (s : state) (t : nat) : list (list key) :=
  match tkey (thr s t) with
  | Some k => wdeps w (inp s k) k
  | None => match find (fun r => Nat.eqb (fst r) t) (roots s) with Some r => [snd r] | None => [] end
  end.

Definition cancelled (s : state) (t : thread) : bool :=
  match rcanc s (trun t) with Some _ => true | None => false end.

Definition panics_at (w : world) (k : option key) (g ng : nat) : bool :=
  match k with
  | None => false
  | Some k => match wpanic w k with
              | None => false
              | Some p => if Nat.ltb g ng then Nat.eqb p g else Nat.leb ng p
              end
  end.

(* reconstruction of the cycle path by checkCycle: t, ..., caller, t *)
Fixpoint walk (fuel : nat) (seen : list (key * key)) (cur : option key) (d : key) : list key :=
  match fuel with
  | O => []
  | S f => match cur with
           | None => []
           | Some x => if Nat.eqb x d then []
                       else x :: walk f seen (option_map snd (find (fun e => Nat.eqb (fst e) x) seen)) d
           end
  end.
Definition parent_of (seen : list (key * key)) (x : key) : option key :=
  option_map snd (find (fun e => Nat.eqb (fst e) x) seen).
Definition mkpath (seen : list (key * key)) (c d : key) : list key :=
  rev (c :: walk (S (length seen)) seen (parent_of seen c) d ++ [d]) ++ [d].

(* node.deps.Range of checkCycle: unseen dependencies get node as parent and are queued *)
Fixpoint bfs_push (ds : list key) (x : key) (q : list key) (seen : list (key * key)) : list key * list (key * key) :=
  match ds with
  | [] => (q, seen)
  | y :: r => if memb y (map fst seen) then bfs_push r x q seen
              else bfs_push r x (q ++ [y]) (seen ++ [(y, x)])
  end.

Inductive peff := PAcq | PRel | PSame.

(* the effect of one step of a thread *)
Record eff := {
  e_self : thread;
  e_spawn : option thread;
  e_slot : option (nat * nat * dres * option bool);   (* host, index, result, hold handed back (sync) *)
  e_tmap : option (key * tentry);
  e_obj : option (nat * robj);
  e_edge : option (key * key);
  e_sem : peff;
  e_cancel : option key;
  e_lead : option key;
  e_pub : bool                                        (* ghost: the edges of a Resolve call are all stored: tick the clock *)
}.
Definition E (t : thread) : eff :=
  {| e_self := t; e_spawn := None; e_slot := None; e_tmap := None; e_obj := None; e_edge := None;
     e_sem := PSame; e_cancel := None; e_lead := None; e_pub := false |}.
Definition Esem (t : thread) (p : peff) : eff :=
  {| e_self := t; e_spawn := None; e_slot := None; e_tmap := None; e_obj := None; e_edge := None;
     e_sem := p; e_cancel := None; e_lead := None; e_pub := false |}.

(* the value a caller sees for a completed result *)
Definition val_of (o : robj) (run : nat) : dres := DVal (oval o) (Nat.eqb (orun o) run).

(* release(): no-op when not holding under a cancelled context, abort when not holding otherwise *)
Definition do_release (s : state) (t : thread) (next : pc) : eff :=
  if thold t then Esem (set_pc_hold t next false) PRel
  else if cancelled s t then E (set_pc t next) else E (set_pc t PAbort).

(* where a Resolve call ends: back in Execute, or (cancelled) Execute returns the error *)
Definition after_resolve (s : state) (t : thread) (g : nat) (h : bool) : thread :=
  if cancelled s t then leave_resolve t (PRelease MDone) h true
  else leave_resolve t (PBody (S g)) h false.

Definition step_local (w : world) (s : state) (id : nat) : option eff :=
  let t := thr s id in
  match tpc t with
  | PEnd | PAbort => None
  (* ---- t.run ---- *)
  | RLoad =>
    match tkey t with
    | None => None
    | Some d =>
      match tmap s d with
      | TRes o => if oclosed (objs s o) then Some (E (set_pc t (PReturn (val_of (objs s o) (trun t)))))
                  else Some (E (set_pc t (RCheck o [d] [])))
      | _ => Some (E (set_pc t RCas))
      end
    end
  | RCas =>
    match tkey t with
    | None => None
    | Some d =>
      match tmap s d with
      | TRes _ => Some (E (set_pc t RLoad2))
      | _ =>
        let o := nobj s in
        let t' := if tsync t then (if thold t then set_pc_obj t (PBody 0) o else set_pc t PAbort)
                  else set_pc_obj t PAcquire o in
        Some {| e_self := t'; e_spawn := None; e_slot := None; e_tmap := Some (d, TRes o);
                e_obj := Some (o, new_obj); e_edge := None; e_sem := PSame; e_cancel := None; e_lead := Some d; e_pub := false |}
      end
    end
  | RLoad2 =>
    match tkey t with
    | None => None
    | Some d =>
      match tmap s d with
      | TRes o => Some (E (set_pc t (RCheck o [d] [])))
      | _ => Some (E (set_pc t (PReturn DNil)))
      end
    end
  | RCheck o q seen =>
    match tkey t with
    | None => None
    | Some d =>
      match q with
      | [] => Some (E (set_pc_disc t (if tsync t then RRel o else RWait o) (d :: map fst seen)))
      | x :: q' =>
        if match tcaller t with Some c => Nat.eqb x c | None => false end
        then let path := mkpath seen x d in
             Some (E (set_pc t (if wfix w then PReturn (DCyc path) else RCycW o path)))
        else let '(q2, seen2) := bfs_push (deps_of (edges s) x) x q' seen in
             Some (E (set_pc t (RCheck o q2 seen2)))
      end
    end
  | RCycW o path =>
    let ob := objs s o in
    Some {| e_self := set_pc t (RCycR o); e_spawn := None; e_slot := None; e_tmap := None;
            e_obj := Some (o, {| oclosed := oclosed ob; oval := oval ob; orun := orun ob; ocanc := ocanc ob;
                                 ocyc := Some path |});
            e_edge := None; e_sem := PSame; e_cancel := None; e_lead := None; e_pub := false |}
  | RCycR o =>
    let ob := objs s o in
    Some (E (set_pc t (PReturn (match ocyc ob with Some p => DCyc p | None => val_of ob (trun t) end))))
  | RRel o => Some (do_release s t (RWait o))
  | RWait o =>
    if oclosed (objs s o) || cancelled s t
    then Some (E (set_pc t (if tsync t then RAcq o else RReload o)))
    else None
  | RAcq o =>
    if cancelled s t then Some (E (set_pc t (PReturn DNil)))
    else Some (Esem (set_pc_hold t (RReload o) true) PAcq)
  | RReload o =>
    match tkey t with
    | None => None
    | Some d =>
      if wfix w then
        (* repaired: only a completed result counts; otherwise give up (cancelled) or run again *)
        match tmap s d with
        | TRes o' => if Nat.eqb o' o && oclosed (objs s o)
                     then Some (E (set_pc t (PReturn (val_of (objs s o) (trun t)))))
                     else if cancelled s t then Some (E (set_pc t (PReturn DNil)))
                     else Some (E (set_pc t RLoad))
        | _ => if cancelled s t then Some (E (set_pc t (PReturn DNil))) else Some (E (set_pc t RLoad))
        end
      else
        match tmap s d with
        | TRes o' => if oclosed (objs s o') then Some (E (set_pc t (PReturn (val_of (objs s o') (trun t)))))
                     else Some (E (set_pc t (PReturn DNil)))
        | _ => Some (E (set_pc t (PReturn DNil)))
        end
    end
  (* ---- the leader ---- *)
  | PAcquire =>
    if cancelled s t then Some (E (set_pc t (PClose MNoAcq)))
    else Some (Esem (set_pc_hold t (PBody 0) true) PAcq)
  | PBody g =>
    let gs := groups w s id in
    if panics_at w (tkey t) g (length gs) then Some (E (set_pc t (PRelease MPanic)))
    else match nth_error gs g with
         | Some grp => Some (E (set_pc_slots t (PEdges g 0) (repeat None (length grp))))
         | None => Some (E (set_pc t (PRelease MDone)))
         end
  | PEdges g i =>
    match nth_error (groups w s id) g with
    | None => None
    | Some grp =>
      match nth_error grp i with
      | None => Some {| e_self := set_pc_pub t (PStart g (length grp) false) (clock s); e_spawn := None; e_slot := None;
                        e_tmap := None; e_obj := None; e_edge := None; e_sem := PSame; e_cancel := None; e_lead := None;
                        e_pub := true |}
      | Some d =>
        Some {| e_self := set_pc t (PEdges g (S i)); e_spawn := None; e_slot := None;
                e_tmap := match tmap s d with TAbsent => Some (d, TNil) | _ => None end;
                e_obj := None;
                e_edge := match tkey t with Some c => Some (c, d) | None => None end;
                e_sem := PSame; e_cancel := None; e_lead := None; e_pub := false |}
      end
    end
  | PStart g i nw =>
    match nth_error (groups w s id) g with
    | None => None
    | Some grp =>
      match i with
      | O => Some (E (if nw then set_pc t (PJoinRel g) else after_resolve s t g (thold t)))
      | S j =>
        match nth_error grp j with
        | None => None
        | Some d =>
          let hit := match tmap s d with
                     | TRes o => if oclosed (objs s o) then Some (val_of (objs s o) (trun t)) else None
                     | _ => None
                     end in
          match hit with
          | Some r => Some (E (set_pc_slots t (PStart g j nw) (set_slot (tslots t) j r)))
          | None =>
            let child (sync h : bool) :=
              {| trun := trun t; tkey := Some d; tcaller := tkey t; thost := Some (id, j); tsync := sync;
                 tpc := RLoad; tobj := 0; tslots := []; tacc := []; thold := h; tcanc := false; tpub := 0; tdisc := [] |} in
            match j with
            | O => Some {| e_self := set_pc_hold t (PCall g nw) false; e_spawn := Some (child true (thold t));
                           e_slot := None; e_tmap := None; e_obj := None; e_edge := None; e_sem := PSame;
                           e_cancel := None; e_lead := None; e_pub := false |}
            | S _ => Some {| e_self := set_pc t (PStart g j true); e_spawn := Some (child false false);
                             e_slot := None; e_tmap := None; e_obj := None; e_edge := None; e_sem := PSame;
                             e_cancel := None; e_lead := None; e_pub := false |}
            end
          end
        end
      end
    end
  | PCall g nw =>
    match nth_error (tslots t) 0 with
    | Some (Some _) => Some (E (if nw then set_pc t (PJoinRel g) else after_resolve s t g (thold t)))
    | _ => None
    end
  | PJoinRel g => Some (do_release s t (PJoin g))
  | PJoin g =>
    if cancelled s t then Some (E (leave_resolve t (PRelease MDone) (thold t) true))
    else if slots_full (tslots t) then Some (E (set_pc t (PJoinAcq g)))
    else None
  | PJoinAcq g =>
    if cancelled s t then Some (E (leave_resolve t (PRelease MDone) (thold t) true))
    else Some (Esem (after_resolve s t g true) PAcq)
  | PRelease m =>
    match tkey t with
    | None => Some (do_release s t PEnd)                          (* the root: defer root.release() *)
    | Some _ =>
      (* sync: the deferred caller.transferFrom(callee) aborts when the callee lost its hold (only under a
         cancelled context); that panic is recovered by the handler like a panic of the query *)
      if tsync t then Some (E (set_pc t (PClose (if thold t then m else MPanic))))
      else Some (do_release s t (PClose m))
    end
  | PClose m =>
    match tkey t with
    | None => None
    | Some k =>
      let o := tobj t in
      let ob := objs s o in
      let mine := match tmap s k with TRes o' => Nat.eqb o' o | _ => false end in
      let closed_with (v : N) (c : bool) :=
        {| oclosed := true; oval := v; orun := trun t; ocanc := c; ocyc := None |} in
      let withdraw (cl : bool) (cn : option key) :=
        {| e_self := set_pc t (PReturn DNil); e_spawn := None; e_slot := None;
           e_tmap := if mine then Some (k, TNil) else None;
           e_obj := if cl then Some (o, closed_with 0%N true) else None;
           e_edge := None; e_sem := PSame; e_cancel := cn; e_lead := None; e_pub := false |} in
      match m with
      | MDone =>
        if wfix w && cancelled s t then Some (withdraw true None)
        else
          let v := wcomp w (inp s k) k (tacc t) in
          Some {| e_self := set_pc t (PReturn (DVal v true)); e_spawn := None; e_slot := None; e_tmap := None;
                  e_obj := Some (o, closed_with v (tcanc t)); e_edge := None; e_sem := PSame;
                  e_cancel := None; e_lead := None; e_pub := false |}
      | MPanic => Some (withdraw (wfix w) (if cancelled s t then None else Some k))
      | MNoAcq => if wfix w then Some (withdraw true None) else Some (E (set_pc t (PReturn DNil)))
      end
    end
  | PReturn r =>
    match thost t with
    | None => None
    | Some (p, i) =>
      Some {| e_self := (if tsync t then set_pc_hold t PEnd false else set_pc t PEnd); e_spawn := None;
              e_slot := Some (p, i, r, if tsync t then Some (thold t) else None);
              e_tmap := None; e_obj := None; e_edge := None; e_sem := PSame; e_cancel := None; e_lead := None; e_pub := false |}
    end
  end.

Definition apply_slot (m : nat -> thread) (sl : option (nat * nat * dres * option bool)) : nat -> thread :=
  match sl with
  | None => m
  | Some (p, i, r, h) =>
    let tp := m p in
    upd m p {| trun := trun tp; tkey := tkey tp; tcaller := tcaller tp; thost := thost tp; tsync := tsync tp;
               tpc := tpc tp; tobj := tobj tp; tslots := set_slot (tslots tp) i r; tacc := tacc tp;
               thold := match h with Some b => b | None => thold tp end; tcanc := tcanc tp; tpub := tpub tp; tdisc := tdisc tp |}
  end.

(* the generic application of an effect; p = the new number of free permits *)
Definition apply_eff (s : state) (id : nat) (e : eff) (p : nat) : state :=
  let m1 := apply_slot (upd (thr s) id (e_self e)) (e_slot e) in
  {| inp := inp s;
     tmap := match e_tmap e with Some (k, v) => upd (tmap s) k v | None => tmap s end;
     edges := match e_edge e with
              | Some ed => if has_edge (edges s) ed then edges s else edges s ++ [ed]
              | None => edges s
              end;
     objs := match e_obj e with Some (o, v) => upd (objs s) o v | None => objs s end;
     nobj := match e_obj e with Some (o, _) => if Nat.eqb o (nobj s) then S (nobj s) else nobj s | None => nobj s end;
     thr := match e_spawn e with Some c => upd m1 (nthr s) c | None => m1 end;
     nthr := match e_spawn e with Some _ => S (nthr s) | None => nthr s end;
     rcanc := match e_cancel e with Some k => upd (rcanc s) (trun (thr s id)) (Some k) | None => rcanc s end;
     nrun := nrun s;
     permits := p;
     clock := match e_edge e with Some _ => S (clock s) | None => if e_pub e then S (clock s) else clock s end;
     nexec := match e_lead e with Some k => upd (nexec s) k (S (nexec s k)) | None => nexec s end;
     roots := roots s |}.

Definition step (w : world) (s : state) (id : nat) : option state :=
  if Nat.ltb id (nthr s) then
    match step_local w s id with
    | None => None
    | Some e =>
      match e_sem e with
      | PSame => Some (apply_eff s id e (permits s))
      | PRel => Some (apply_eff s id e (S (permits s)))
      | PAcq => match permits s with O => None | S p => Some (apply_eff s id e p) end
      end
    end
  else None.

(* ---- Run, Evict, Edit ---- *)
Definition ended (p : pc) : bool := match p with PEnd | PAbort => true | _ => false end.
Definition quiescent (s : state) : bool := forallb (fun i => ended (tpc (thr s i))) (seq 0 (nthr s)).

Definition root_thread (run : nat) : thread :=
  {| trun := run; tkey := None; tcaller := None; thost := None; tsync := false; tpc := PAcquire; tobj := 0;
     tslots := []; tacc := []; thold := false; tcanc := false; tpub := 0; tdisc := [] |}.

Definition start_run (s : state) (ks : list key) : state :=
  {| inp := inp s; tmap := tmap s; edges := edges s; objs := objs s; nobj := nobj s;
     thr := upd (thr s) (nthr s) (root_thread (S (nrun s))); nthr := S (nthr s);
     rcanc := rcanc s; nrun := S (nrun s); permits := permits s; clock := clock s; nexec := nexec s;
     roots := (nthr s, ks) :: roots s |}.

(* EvictWithCleanup: the tasks found for the keys, closed under callers *)
Fixpoint evict_close (fuel : nat) (ed : list (key * key)) (acc : list key) : list key :=
  match fuel with
  | O => acc
  | S f => evict_close f ed (acc ++ filter (fun c => negb (memb c acc)) (flat_map (callers_of ed) acc))
  end.
Definition in_map (s : state) (k : key) : bool := match tmap s k with TAbsent => false | _ => true end.
Definition evict_set (w : world) (s : state) (ks : list key) : list key :=
  evict_close (wn w) (edges s) (filter (in_map s) ks).

Definition evict (w : world) (s : state) (ks : list key) : state :=
  let ev := evict_set w s ks in
  {| inp := inp s;
     tmap := fun k => if memb k ev then TAbsent else tmap s k;
     edges := filter (fun e => negb (memb (fst e) ev)) (edges s);
     objs := objs s; nobj := nobj s; thr := thr s; nthr := nthr s; rcanc := rcanc s; nrun := nrun s;
     permits := permits s; clock := clock s;
     nexec := fun k => if memb k ev then 0 else nexec s k;
     roots := roots s |}.

Fixpoint set_inputs (m : key -> nat) (ks : list key) (vs : list nat) : key -> nat :=
  match ks, vs with
  | k :: ks', v :: vs' => set_inputs (upd m k v) ks' vs'
  | _, _ => m
  end.
Definition with_inputs (s : state) (m : key -> nat) : state :=
  {| inp := m; tmap := tmap s; edges := edges s; objs := objs s; nobj := nobj s; thr := thr s; nthr := nthr s;
     rcanc := rcanc s; nrun := nrun s; permits := permits s; clock := clock s; nexec := nexec s; roots := roots s |}.

Inductive event :=
| EStep (t : nat)
| ERun (ks : list key)
| EEvict (ks : list key)
| EEdit (ks : list key) (vs : list nat).       (* the inputs of ks change, then Evict ks *)

Definition do_event (w : world) (s : state) (e : event) : option state :=
  match e with
  | EStep t => step w s t
  | ERun ks => if forallb (fun k => Nat.ltb k (wn w)) ks then Some (start_run s ks) else None
  | EEvict ks => if quiescent s then Some (evict w s ks) else None
  | EEdit ks vs => if quiescent s then Some (evict w (with_inputs s (set_inputs (inp s) ks vs)) ks) else None
  end.

Definition init (par : nat) (inputs : key -> nat) : state :=
  {| inp := inputs; tmap := fun _ => TAbsent; edges := []; objs := fun _ => new_obj; nobj := 0;
     thr := fun _ => root_thread 0; nthr := 0; rcanc := fun _ => None; nrun := 0; permits := par; clock := 0;
     nexec := fun _ => 0; roots := [] |}.

(* a schedule/history is a list of events; an event that is not enabled stutters *)
Fixpoint run (w : world) (evs : list event) (s : state) : state :=
  match evs with
  | [] => s
  | e :: rest => match do_event w s e with Some s' => run w rest s' | None => run w rest s end
  end.

(* ---- observation functions ---- *)
Definition is_done (s : state) (k : key) : bool :=
  match tmap s k with TRes o => oclosed (objs s o) | _ => false end.
Definition done_val (s : state) (k : key) : option N :=
  match tmap s k with TRes o => if oclosed (objs s o) then Some (oval (objs s o)) else None | _ => None end.
Definition done_keys (w : world) (s : state) : list key := filter (is_done s) (seq 0 (wn w)).
(* a thread that can take a step *)
Definition enabled (w : world) (s : state) (t : nat) : bool :=
  match step w s t with Some _ => true | None => false end.
Definition stuck (w : world) (s : state) : bool :=
  negb (quiescent s) && forallb (fun t => negb (enabled w s t)) (seq 0 (nthr s)).

(* deterministic driver for the correspondence: repeatedly steps the lowest enabled thread *)
Fixpoint drive (w : world) (fuel : nat) (s : state) : state :=
  match fuel with
  | O => s
  | S f => match find (enabled w s) (seq 0 (nthr s)) with
           | None => s
           | Some t => match step w s t with Some s' => drive w f s' | None => s end
           end
  end.

(* ---- correspondence: observations of the real executor with the counting queries of the harness ---- *)
(* the harness query: value = (input + sum (2j+3) * dep_j) mod 1000003 with failed dependencies counted as 0;
   it fails with the first fatal error among its dependencies.  One number: 2 * value + (1 if fatal). *)
Fixpoint comb (j v : N) (f : bool) (l : list cres) : N * bool :=
  match l with
  | [] => (v, f)
  | CV r :: tl => let dv := if N.odd r then 0%N else N.div2 r in
                  comb (j + 1)%N ((v + (2 * j + 3) * dv) mod 1000003)%N (f || N.odd r) tl
  | _ :: tl => comb (j + 1)%N v true tl
  end.
(* a query of the harness can also fail on its own: fl gives (key, (r, m)): the Execute of that key returns a
   fatal error of its own, together with its value, iff input mod m = r (an ordinary error, no panic); the
   executor treats the pair Value/Fatal as one opaque result, which is the one number here *)
Definition own_fail (fl : list (key * (nat * nat))) (i : nat) (k : key) : bool :=
  match find (fun e => Nat.eqb (fst e) k) fl with
  | Some (_, (r, m)) => Nat.ltb 0 m && Nat.eqb (i mod m) r
  | None => false
  end.
Definition acompf (fl : list (key * (nat * nat))) (i : nat) (k : key) (l : list cres) : N :=
  let '(v, f) := comb 0%N (N.of_nat i mod 1000003)%N (own_fail fl i k) l in (2 * v + (if f then 1 else 0))%N.
Definition acomp (i : nat) (k : key) (l : list cres) : N := acompf [] i k l.

Inductive cop :=
| CRun (ks : list key)
       (cancelled : bool)                      (* Run returned ErrPanic *)
       (res : list (N * bool * bool))          (* per query: 2*value+fatal, Changed, compare the value (else only fatal) *)
       (execs : list nat)                      (* Execute calls per key during this Run *)
       (keys_after : option (list key))        (* Executor.Keys() afterwards, if compared *)
       (hang : bool)                           (* the Run did not return *)
| CPar (runs : list (list key)) (res : list (list N)) (keys_after : list key)
| CEvict (ks : list key) (keys_after : list key)
| CEdit (ks : list key) (vs : list nat) (keys_after : list key).

Record icase := {
  c_n : nat; c_deps : list (list (list key)); c_panic : list (key * nat); c_fail : list (key * (nat * nat)); c_fix : bool;
  c_par : nat; c_inputs : list nat; c_ops : list cop
}.

Definition world_of (c : icase) : world :=
  {| wn := c_n c; wdeps := fun _ k => nth k (c_deps c) []; wcomp := acompf (c_fail c);
     wpanic := fun k => option_map snd (find (fun e => Nat.eqb (fst e) k) (c_panic c)); wfix := c_fix c |}.

Definition list_nat_eqb (a b : list nat) : bool := if list_eq_dec Nat.eq_dec a b then true else false.
Definition res_eqb (r : option dres) (e : N * bool * bool) : bool :=
  let '(v, ch, exact) := e in
  match r with
  | Some (DVal v' ch') => (if exact then N.eqb v v' else Bool.eqb (N.odd v) (N.odd v')) && Bool.eqb ch ch'
  | _ => false
  end.
Fixpoint all2 {A B} (f : A -> B -> bool) (a : list A) (b : list B) : bool :=
  match a, b with
  | [], [] => true
  | x :: a', y :: b' => f x y && all2 f a' b'
  | _, _ => false
  end.
Definition val_eqb (r : option dres) (v : N) : bool :=
  match r with Some (DVal v' _) => N.eqb v v' | _ => false end.

Definition drive_fuel (c : icase) : nat := 400 * (c_n c + 2).

Fixpoint chk_ops (w : world) (c : icase) (ops : list cop) (s : state) : bool :=
  match ops with
  | [] => true
  | CRun ks canc res execs ka hang :: rest =>
    let s0 := start_run s ks in
    let root := nthr s in
    let s1 := drive w (drive_fuel c) s0 in
    if hang then stuck w s1
    else
      quiescent s1 && Nat.eqb (permits s1) (c_par c) &&
      Bool.eqb canc (match rcanc s1 (nrun s0) with Some _ => true | None => false end) &&
      (if canc then true
       else all2 res_eqb (tslots (thr s1 root)) res &&
            list_nat_eqb (map (fun k => nexec s1 k - nexec s k) (seq 0 (c_n c))) execs) &&
      match ka with
      | Some l => list_nat_eqb (done_keys w s1) l && chk_ops w c rest s1
      | None => if canc then true else chk_ops w c rest s1   (* Keys() not observable: an Evict followed at once *)
      end
  | CPar runs res ka :: rest =>
    let s0 := fold_left start_run runs s in
    let s1 := drive w (drive_fuel c * length runs) s0 in
    quiescent s1 && Nat.eqb (permits s1) (c_par c) &&
    all2 (fun i vs => all2 val_eqb (tslots (thr s1 (nthr s + i))) vs) (seq 0 (length runs)) res &&
    list_nat_eqb (done_keys w s1) ka && chk_ops w c rest s1
  | CEvict ks ka :: rest =>
    match do_event w s (EEvict ks) with
    | Some s1 => list_nat_eqb (done_keys w s1) ka && chk_ops w c rest s1
    | None => false
    end
  | CEdit ks vs ka :: rest =>
    match do_event w s (EEdit ks vs) with
    | Some s1 => list_nat_eqb (done_keys w s1) ka && chk_ops w c rest s1
    | None => false
    end
  end.

Definition inc_chk (c : icase) : bool :=
  let w := world_of c in
  Nat.leb 1 (c_par c) &&
  chk_ops w c (c_ops c) (init (c_par c) (fun k => nth k (c_inputs c) 0)).
