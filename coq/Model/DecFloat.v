(* C39 - model of internal/decimal Decimal.Float64 and pow5 (float.go) AS THEY ARE in the pinned tree,
   over Flocq's IEEE-754 binary64 (binary_float 53 1024, single NaN, round to nearest even).
   Definitions only. The constant tables come from Model/DecFloatTables.v, which the check
   regenerates from float.go on every run.

   Go operation                     model
   float64(w) for a uint64 w        of_uint64 w     = binary_normalize mode_NE w 0
   a * b, a / b on float64          Bmult mode_NE, Bdiv mode_NE
   math.Ldexp(v, e)                 Bldexp mode_NE v e
   constant 1e<a> / 0x1p<b>         const_of (a, b) = the exact quotient 10^a / 2^b rounded once
   strconv.ParseFloat(dddde<n>)     Section variable parse_float (assumed correctly rounding in Proofs) *)
From Coq Require Import ZArith NArith List Bool Reals.
From Flocq Require Import Core.Core IEEE754.BinarySingleNaN.
From PV Require Import Common.Corr Model.DecFloatTables.
Import ListNotations.
Open Scope Z_scope.

Definition prec : Z := 53.
Definition emax : Z := 1024.
Definition Hprec : Prec_gt_0 prec := eq_refl.
Definition Hmax : Prec_lt_emax prec emax := eq_refl.
#[global] Existing Instance Hprec.
#[global] Existing Instance Hmax.

Definition f64 : Type := binary_float prec emax.
Definition NE : mode := mode_NE.

Definition radix10 : radix := Build_radix 10 eq_refl.

Definition f_mul (a b : f64) : f64 := Bmult NE a b.
Definition f_div (a b : f64) : f64 := Bdiv NE a b.
Definition f_ldexp (a : f64) (e : Z) : f64 := Bldexp NE a e.
Definition f_neg (a : f64) : f64 := Bopp a.
Definition f_pinf : f64 := B754_infinity false.
Definition f_pzero : f64 := B754_zero false.

(* float64(w): one rounding of the integer w *)
Definition of_Z (z : Z) : f64 := binary_normalize prec emax Hprec Hmax NE z 0 false.
Definition of_uint64 (w : N) : f64 := of_Z (Z.of_N w).

(* the quotient n / d of two positive integers, rounded once (this is what the Go compiler does
   with an untyped constant expression converted to float64, and what a correctly rounding
   decimal reader does with a negative exponent) *)
Definition div_round (n d : positive) : f64 :=
  SF2B _ (proj1 (Bdiv_correct_aux prec emax Hprec Hmax NE false n 0 false d 0)).

Definition pos_of (z : Z) : positive := match z with Zpos p => p | _ => 1%positive end.

(* the constant expression 1e<a> / 0x1p<b> *)
Definition const_of (ab : Z * Z) : f64 :=
  let '(a, b) := ab in
  let n := (if 0 <=? a then 10 ^ a else 1) * (if 0 <=? b then 1 else 2 ^ (- b)) in
  let d := (if 0 <=? a then 1 else 10 ^ (- a)) * (if 0 <=? b then 2 ^ b else 1) in
  div_round (pos_of n) (pos_of d).

Definition pow5s : list f64 := map const_of pow5s_src.
Definition pow5s32 : list f64 := map const_of pow5s32_src.
Definition pow5s32neg : list f64 := map const_of pow5s32neg_src.

Definition tab (t : list f64) (i : Z) : f64 := nth (Z.to_nat i) t B754_nan.

(* func pow5(f float64, n int) float64 *)
Definition pow5 (f : f64) (n : Z) : f64 :=
  if (0 <=? n) && (n <=? 309) then
    f_mul (f_mul f (tab pow5s32 (n / 32))) (tab pow5s (n mod 32))
  else if (-324 <=? n) && (n <=? 0) then
    f_div (f_mul f (tab pow5s32neg ((- n) / 32))) (tab pow5s ((- n) mod 32))
  else if 0 <? n then f_pinf
  else f_pzero.

(* a finite Decimal: sign flag, base2 flag, mantissa, exponent (d.ddd form) *)
Record decimal := { d_neg : bool; d_bin : bool; d_mant : N; d_exp : Z }.

(* z.digits(): number of digits of the mantissa in its base (mantissa <> 0) *)
Definition d_digits (d : decimal) : Z :=
  if d_bin d then Zdigits radix2 (Z.of_N (d_mant d)) else Zdigits radix10 (Z.of_N (d_mant d)).
(* int(z.exp) - z.digits(): the exponent for an integer mantissa *)
Definition d_e (d : decimal) : Z := d_exp d - d_digits d.

(* the real number a finite Decimal stands for *)
Definition d_radix (d : decimal) : radix := if d_bin d then radix2 else radix10.
Definition abs_value (d : decimal) : R := (IZR (Z.of_N (d_mant d)) * bpow (d_radix d) (d_e d))%R.
Definition value (d : decimal) : R := if d_neg d then (- abs_value d)%R else abs_value d.

Definition max_mant64 : N := 2 ^ 53.                 (* maxMant64 = 1 << (mantBits64 + 1) *)

(* bigx.MSBs(x, n) *)
Definition msbs (x : N) (n : Z) : N :=
  N.shiftr x (Z.to_N (Z.max 0 (Zdigits radix2 (Z.of_N x) - n))).

Section WithParseFloat.
(* strconv.ParseFloat on the text <mantissa digits>e<exponent>, mantissa > 0 *)
Variable parse_float : positive -> Z -> f64.

(* the default: branch of the switch in Float64 *)
Definition slow (d : decimal) : f64 :=
  if d_bin d then
    let bits := 53 in                                 (* mantBits64 + 1 *)
    let w := msbs (d_mant d) bits in
    f_ldexp (of_uint64 w) (d_exp d - bits)
  else parse_float (pos_of (Z.of_N (d_mant d))) (d_e d).

(* func (z *Decimal) Float64() (v float64, exact bool), finite z: the switch statement *)
Definition float64_abs (d : decimal) : f64 * bool :=
  let w := d_mant d in
  if (w =? 0)%N then (f_pzero, true)
  else if (w <? 2 ^ 64)%N then                        (* bigx.IsUint64 *)
    let v := of_uint64 w in
    let exact := (w <=? max_mant64)%N in
    let e := d_e d in
    if e =? 0 then (v, exact)
    else if exact then
      let v1 := if d_bin d then v else pow5 v e in
      (f_ldexp v1 e, exact)
    else (slow d, exact)                              (* fallthrough *)
  else (slow d, false).

(* ... followed by: if z.Negative() { v = -v }; return v, exact && finite(v) *)
Definition float64_of (d : decimal) : f64 * bool :=
  let '(v, exact) := float64_abs d in
  ((if d_neg d then f_neg v else v), exact && is_finite v).

End WithParseFloat.

(* ---- specification: the nearest binary64, ties to even, overflow to infinity, sign kept ---- *)
Definition rnd (x : R) : R := round radix2 (SpecFloat.fexp prec emax) ZnearestE x.

(* f is the correctly rounded binary64 of the real x, whose sign flag is neg
   (x = 0 or a result rounded to zero keeps the sign of the numeral) *)
Definition correctly_rounded (neg : bool) (x : R) (f : f64) : Prop :=
  if Rlt_bool (Rabs (rnd x)) (bpow radix2 emax)
  then is_finite f = true /\ B2R f = rnd x /\ Bsign f = neg
  else f = B754_infinity neg.

(* what is assumed of strconv.ParseFloat: round to nearest even of the numeral m * 10^e, overflow to +Inf *)
Definition parse_float_correct (pf : positive -> Z -> f64) : Prop :=
  forall m e, correctly_rounded false (IZR (Zpos m) * bpow radix10 e)%R (pf m e).

(* the inputs on which the pinned code is correct: zero; a uint64 mantissa without exponent;
   Clinger's fast path (mantissa <= 2^53, base 10, |e| <= 22); a base-2 mantissa <= 2^53 (one Ldexp);
   base 10 with a mantissa above 2^53 (the strconv branch).
   Outside: base 10, mantissa <= 2^53, |e| > 22 (several roundings, table entry 23), and base 2 with
   a mantissa above 2^53 (truncation to 53 bits). *)
Definition pinned_guard (d : decimal) : bool :=
  let w := d_mant d in
  (w =? 0)%N
  || ((w <? 2 ^ 64)%N && (d_e d =? 0))
  || (negb (d_bin d) && (w <=? max_mant64)%N && (-22 <=? d_e d) && (d_e d <=? 22))
  || (d_bin d && (w <=? max_mant64)%N)
  || (negb (d_bin d) && (max_mant64 <? w)%N).

(* the inputs on which the pinned exact flag is sound *)
Definition pinned_exact_guard (d : decimal) : bool :=
  (d_mant d =? 0)%N || (d_e d =? 0) || (max_mant64 <? d_mant d)%N.

(* ---- a concrete correctly rounding decimal reader (realises the assumption on parse_float and is
        what the in-Coq evaluation of the correspondence uses for the strconv branch) ---- *)
Definition ref_parse_float (m : positive) (e : Z) : f64 :=
  if 0 <=? e then of_Z (Zpos m * 10 ^ e) else div_round m (pos_of (10 ^ (- e))).

(* ---- binary64 encoding, used only to compare with what the harness observed ---- *)
Definition bits_of (f : f64) : N :=
  let sgn (s : bool) : N := if s then (2 ^ 63)%N else 0%N in
  match f with
  | B754_zero s => sgn s
  | B754_infinity s => (sgn s + 2047 * 2 ^ 52)%N
  | B754_nan => (2047 * 2 ^ 52 + 2 ^ 51)%N
  | B754_finite s m e _ =>
    if (Npos m <? 2 ^ 52)%N then (sgn s + Npos m)%N
    else (sgn s + Z.to_N (e + 1075) * 2 ^ 52 + (Npos m - 2 ^ 52))%N
  end.

Definition of_bits (b : N) : f64 :=
  let s := N.testbit b 63 in
  let ex := Z.of_N (N.land (N.shiftr b 52) 2047) in
  let m := Z.of_N (N.land b (2 ^ 52 - 1)) in
  let sg (z : Z) := if s then - z else z in
  if ex =? 2047 then (if m =? 0 then B754_infinity s else B754_nan)
  else if ex =? 0 then binary_normalize prec emax Hprec Hmax NE (sg m) (-1074) s
  else binary_normalize prec emax Hprec Hmax NE (sg (m + 2 ^ 52)) (ex - 1075) s.

(* ---- correspondence: what the harness observed on the implementation, checked against the model ---- *)
Inductive dec_case :=
| CNum (neg bin : bool) (mant : N) (exp : Z) (bits : N) (exact : bool)
    (* Float64 of the Decimal with this representation returned these 64 bits and this flag *)
| CPow5 (f : N) (n : Z) (out : N)          (* pow5(frombits f, n) = frombits out *)
| CTab (which : nat) (idx : nat) (bits : N) (* entry idx of table which (0 pow5s, 1 pow5s32, 2 pow5s32neg) *)
| CLen (which : nat) (len : nat).           (* length of that table *)

Definition which_tab (w : nat) : list f64 :=
  match w with 0%nat => pow5s | 1%nat => pow5s32 | _ => pow5s32neg end.

Definition dec_chk (c : dec_case) : bool :=
  match c with
  | CNum neg bin mant exp bits exact =>
    let '(v, ex) := float64_of ref_parse_float {| d_neg := neg; d_bin := bin; d_mant := mant; d_exp := exp |} in
    (bits_of v =? bits)%N && Bool.eqb ex exact
  | CPow5 f n out => (bits_of (pow5 (of_bits f) n) =? out)%N
  | CTab w i bits => (bits_of (nth i (which_tab w) B754_nan) =? bits)%N
  | CLen w n => Nat.eqb (length (which_tab w)) n
  end.
