(* C10 - linking as a function on a small descriptor model in which type references are names.
   Mirrors linker/resolve.go: result.resolve (leading dot = already fully-qualified, else innermost scope
   outwards with protoc's skip-a-non-type rule), resolveElement / resolveInFile (this file, then its imports),
   resolveElementInFile (sentinel for a package namespace), resolveElementRelative, fileScope, messageScope,
   and the rewriting done by resolveFieldTypes / resolveMethodTypes (type_name, extendee, input_type,
   output_type become a dot followed by the full name of what was found). Definitions only. *)
From Coq Require Import List Bool String PeanoNat.
Import ListNotations.
Open Scope string_scope.
Open Scope list_scope.

Definition name := list string.                      (* a full name, by components; [] is the empty name *)

Fixpoint name_eqb (a b : name) : bool :=
  match a, b with
  | [], [] => true
  | x :: r, y :: s => String.eqb x y && name_eqb r s
  | _, _ => false
  end.

Inductive kind := KMessage | KEnum | KService | KOther | KSentinel.
(* KOther: field, extension, oneof, enum value, method. KSentinel: the name is a package namespace, or the
   not-defined rest of a name whose first component was found (newSentinelDescriptor). *)

Definition is_type (k : kind) : bool := match k with KMessage | KEnum => true | _ => false end.
Definition is_aggregate (k : kind) : bool :=
  match k with KMessage | KEnum | KService | KSentinel => true | KOther => false end.

(* what one file defines: its package and every descriptor in it with its full name *)
Record filesyms := mkfs { fs_pkg : name; fs_decls : list (name * kind) }.

Fixpoint lookup (l : list (name * kind)) (n : name) : option kind :=
  match l with
  | [] => None
  | (m, k) :: r => if name_eqb m n then Some k else lookup r n
  end.

Fixpoint is_prefix (a b : name) : bool :=
  match a, b with
  | [], _ => true
  | x :: r, y :: s => if String.eqb x y then is_prefix r s else false
  | _ :: _, [] => false
  end.

(* matchesPkgNamespace: fqn is the package or a proper dotted prefix of it; never for the empty package *)
Definition matches_pkg (fqn pkg : name) : bool :=
  match pkg with
  | [] => false
  | _ => match fqn with [] => false | _ => is_prefix fqn pkg end
  end.

(* resolveElementInFile *)
Definition query_in (f : filesyms) (n : name) : option kind :=
  match lookup (fs_decls f) n with
  | Some k => Some k
  | None => if matches_pkg n (fs_pkg f) then Some KSentinel else None
  end.

(* resolveElement: resolveInFile over the file itself and then its imports (with their public imports), in
   order; vis is that search order, the file itself first *)
Fixpoint query_all (vis : list filesyms) (n : name) : option kind :=
  match vis with
  | [] => None
  | f :: r => match query_in f n with Some k => Some k | None => query_all r n end
  end.

Definition query_own (vis : list filesyms) (n : name) : option kind :=
  match vis with [] => None | f :: _ => query_in f n end.

Definition desc := (name * kind)%type.

(* resolveElementRelative *)
Definition resolve_relative (first full : name) (q : name -> option kind) : option desc :=
  match q first with
  | None => None
  | Some k1 =>
    if name_eqb first full then Some (first, k1)
    else if negb (is_aggregate k1) then None
    else match q full with
         | None => Some (full, KSentinel)
         | Some k => Some (full, k)
         end
  end.

(* internal.CreatePrefixList: the package, its parents, the empty prefix *)
Fixpoint inits (l : name) : list name :=
  match l with
  | [] => [[]]
  | x :: r => [] :: map (cons x) (inits r)
  end.
Definition prefix_list (pkg : name) : list name := rev (inits pkg).

(* the loop of fileScope over the package prefixes, with its bestGuess *)
Fixpoint file_scope_loop (prefixes : list name) (q : name -> option kind) (first : string) (parts : name)
         (skip_non_types : bool) (best : option desc) : option desc :=
  match prefixes with
  | [] => best
  | p :: r =>
    match resolve_relative (p ++ [first]) (p ++ parts) q with
    | Some d =>
      if negb skip_non_types || is_type (snd d) then Some d
      else file_scope_loop r q first parts skip_non_types (match best with None => Some d | b => b end)
    | None => file_scope_loop r q first parts skip_non_types best
    end
  end.

(* the loop of result.resolve over the scopes, innermost first: chain holds the enclosing message / service
   names innermost first, the file scope comes last *)
Fixpoint scopes_loop (vis : list filesyms) (pkg : name) (chain : list name) (first : string) (parts : name)
         (only_types : bool) (best : option desc) : option desc :=
  let single := match parts with [_] => true | _ => false end in
  match chain with
  | m :: r =>
    match resolve_relative (m ++ [first]) (m ++ parts) (query_own vis) with
    | Some d =>
      if negb only_types || is_type (snd d) || negb single then Some d
      else scopes_loop vis pkg r first parts only_types (match best with None => Some d | b => b end)
    | None => scopes_loop vis pkg r first parts only_types best
    end
  | [] =>
    match file_scope_loop (prefix_list pkg) (query_all vis) first parts (only_types && single) None with
    | Some d =>
      if negb only_types || is_type (snd d) || negb single then Some d
      else match best with None => Some d | b => b end
    | None => best
    end
  end.

(* a reference as written in a descriptor proto: a leading dot or not, then the dotted name *)
Record ref := mkref { r_abs : bool; r_parts : name }.

(* result.resolve *)
Definition resolve (vis : list filesyms) (pkg : name) (chain : list name) (only_types : bool) (r : ref) : option desc :=
  if r_abs r then
    match query_all vis (r_parts r) with Some k => Some (r_parts r, k) | None => None end
  else
    match r_parts r with
    | [] => None
    | first :: _ => scopes_loop vis pkg chain first (r_parts r) only_types None
    end.

Inductive want := WType | WMessage.   (* a field's type_name (message or enum); an extendee or a method type *)

Inductive lres := LOk (r : ref) | LUnknown | LNotDefined | LWrongKind.

(* resolveFieldTypes / resolveMethodTypes on one reference *)
Definition link_ref (vis : list filesyms) (pkg : name) (chain : list name) (w : want) (r : ref) : lres :=
  match resolve vis pkg chain (match w with WType => true | WMessage => false end) r with
  | None => LUnknown
  | Some (_, KSentinel) => LNotDefined
  | Some (n, KMessage) => LOk (mkref true n)
  | Some (n, KEnum) => match w with WType => LOk (mkref true n) | WMessage => LWrongKind end
  | Some _ => LWrongKind
  end.

(* a file: what is visible from it, its package, and its references each with the scope it stands in *)
Record rfile := mkrfile { rf_vis : list filesyms; rf_pkg : name; rf_refs : list (list name * want * ref) }.

Fixpoint link_refs (vis : list filesyms) (pkg : name) (refs : list (list name * want * ref))
  : option (list (list name * want * ref)) :=
  match refs with
  | [] => Some []
  | (chain, w, r) :: rest =>
    match link_ref vis pkg chain w r, link_refs vis pkg rest with
    | LOk r', Some rest' => Some ((chain, w, r') :: rest')
    | _, _ => None
    end
  end.

(* linking rewrites the references and nothing else: the declarations (hence vis) stay *)
Definition link (f : rfile) : option rfile :=
  match link_refs (rf_vis f) (rf_pkg f) (rf_refs f) with
  | Some refs' => Some (mkrfile (rf_vis f) (rf_pkg f) refs')
  | None => None
  end.

(* ---- correspondence: the references of a real file before linking (as the parser wrote them) and after
   (as the linker left them), with the symbols visible from the file ---- *)
From PV Require Import Common.Corr.

Definition ref_eqb (a b : ref) : bool := Bool.eqb (r_abs a) (r_abs b) && name_eqb (r_parts a) (r_parts b).

Fixpoint refs_eqb (a b : list (list name * want * ref)) : bool :=
  match a, b with
  | [], [] => true
  | (_, _, x) :: r, (_, _, y) :: s => ref_eqb x y && refs_eqb r s
  | _, _ => false
  end.

Inductive relink_case :=
(* visible symbols, package, references as written, the same references as the real linker rewrote them *)
| RC (vis : list filesyms) (pkg : name) (before : list (list name * want * ref)) (after : list ref).

Fixpoint with_refs (a : list (list name * want * ref)) (b : list ref) : list (list name * want * ref) :=
  match a, b with
  | (c, w, _) :: r, y :: s => (c, w, y) :: with_refs r s
  | _, _ => []
  end.

Definition relink_chk (c : relink_case) : bool :=
  match c with
  | RC vis pkg before after =>
    let expected := with_refs before after in
    Nat.eqb (List.length before) (List.length after)
    && match link_refs vis pkg before with Some l => refs_eqb l expected | None => false end
    && match link_refs vis pkg expected with Some l => refs_eqb l expected | None => false end
  end.
