(* Model of experimental/report/report.go Report.Canonicalize, and of what incremental.Run does with the
   reports of the tasks it visited (append in visiting order, then Canonicalize).
   Definitions only; proofs are in Proofs/Canon.v.

   slices.SortFunc (pdqsort) is not stable, so the sort is modelled as a RELATION: any permutation of the
   input that is sorted with respect to the comparison ([is_sort]).  The duplicate marking and the deletion
   are functions, exactly as written.  [isort] is one particular sort (the stable insertion sort that
   slices.SortFunc runs for fewer than 13 elements), used to show the relation is inhabited and for
   examples. *)
From Coq Require Import List ZArith NArith Bool Sorting.Permutation Sorting.Sorted.
From PV Require Import Common.Corr.
Import ListNotations.
Open Scope Z_scope.

Definition str := list N.

(* a *source.File as far as Canonicalize looks at it: its identity and its path *)
Record fileref := mkfr { fr_id : N; fr_path : str }.
(* source.Span: File may be nil; Primary() of a diagnostic without primary snippet is (None, 0, 0) *)
Record cspan := mkspan { sp_file : option fileref; sp_start : Z; sp_end : Z }.
Definition zero_span : cspan := mkspan None 0 0.

(* a diagnostic as far as Canonicalize looks at it; c_rest stands for everything else (notes, help,
   debug, the other snippets, their messages, edits, inFile) *)
Record cdiag := mkcd {
  c_prim : cspan; c_sort : Z; c_tag : str; c_msg : str; c_level : Z; c_rest : N }.

Definition sp_path (s : cspan) : str := match sp_file s with Some f => fr_path f | None => [] end.

(* ---- the comparison: cmpx.Join of six cmpx.Key ---- *)
Fixpoint str_cmp (a b : str) : comparison :=          (* cmp.Compare on Go strings: bytewise *)
  match a, b with
  | [], [] => Eq
  | [], _ :: _ => Lt
  | _ :: _, [] => Gt
  | x :: a', y :: b' => match N.compare x y with Eq => str_cmp a' b' | c => c end
  end.

Definition lex (c1 c2 : comparison) : comparison := match c1 with Eq => c2 | c => c end.

Definition dcmp (a b : cdiag) : comparison :=
  lex (str_cmp (sp_path (c_prim a)) (sp_path (c_prim b)))
 (lex (Z.compare (c_sort a) (c_sort b))
 (lex (Z.compare (sp_start (c_prim a)) (sp_start (c_prim b)))
 (lex (Z.compare (sp_end (c_prim a)) (sp_end (c_prim b)))
 (lex (str_cmp (c_tag a) (c_tag b))
      (str_cmp (c_msg a) (c_msg b)))))).

(* ---- duplicate marking, backwards, and deletion ---- *)
Definition fileref_eqb (a b : fileref) : bool := N.eqb (fr_id a) (fr_id b) && list_N_eqb (fr_path a) (fr_path b).
Definition ofile_eqb (a b : option fileref) : bool :=
  match a, b with Some x, Some y => fileref_eqb x y | None, None => true | _, _ => false end.
Definition span_eqb (a b : cspan) : bool :=
  ofile_eqb (sp_file a) (sp_file b) && (sp_start a =? sp_start b) && (sp_end a =? sp_end b).

Definition dkey : Type := cspan * str.                (* struct{ span source.Span; tag string } *)
Definition zero_key : dkey := (zero_span, []).
Definition key_of (d : cdiag) : dkey := (c_prim d, c_tag d).
Definition key_eqb (a b : dkey) : bool := span_eqb (fst a) (fst b) && list_N_eqb (snd a) (snd b).
Definition is_nil (s : str) : bool := match s with [] => true | _ => false end.

Definition set_level (d : cdiag) (lv : Z) : cdiag :=
  mkcd (c_prim d) (c_sort d) (c_tag d) (c_msg d) lv (c_rest d).

(* slices.Backward(...)(func(i, d)): from the last element to the first; the result is the marked list
   and the value of cur after the element at the head was visited *)
Fixpoint mark (l : list cdiag) : list cdiag * dkey :=
  match l with
  | [] => ([], zero_key)
  | d :: r =>
    let '(r', cur) := mark r in
    if is_nil (c_tag d) then (d :: r', cur)
    else
      let k := key_of d in
      if negb (is_nil (snd cur)) && key_eqb cur k then (set_level d (-1) :: r', cur)
      else (d :: r', k)
  end.

(* slices.DeleteFunc(..., level == -1) *)
Definition dedup (l : list cdiag) : list cdiag :=
  filter (fun d => negb (c_level d =? -1)) (fst (mark l)).

(* ---- everything that depends on the comparison, for an arbitrary comparison ---- *)
Section Generic.
  Variable cmp : cdiag -> cdiag -> comparison.

  Definition dle_c (a b : cdiag) : Prop := cmp a b <> Gt.

  (* slices.SortFunc: some sorted permutation *)
  Definition is_sort_c (l s : list cdiag) : Prop := Permutation l s /\ StronglySorted dle_c s.

  (* Canonicalize: o is a possible value of r.Diagnostics afterwards *)
  Definition canon_rel_c (keep : bool) (l o : list cdiag) : Prop :=
    exists s, is_sort_c l s /\ o = if keep then s else dedup s.

  (* one concrete sort: stable insertion sort *)
  Fixpoint insert_c (x : cdiag) (s : list cdiag) : list cdiag :=
    match s with
    | [] => [x]
    | y :: r => match cmp x y with Gt => y :: insert_c x r | _ => x :: s end
    end.
  Definition isort_c (l : list cdiag) : list cdiag := fold_right insert_c [] l.
  Definition canonicalize_c (keep : bool) (l : list cdiag) : list cdiag :=
    if keep then isort_c l else dedup (isort_c l).

  (* no two different diagnostics compare equal *)
  Definition keys_injective_c (l : list cdiag) : Prop :=
    forall a b, In a l -> In b l -> cmp a b = Eq -> a = b.

  (* incremental.Run: the reports of the visited tasks are appended in visiting order (a stack fed by
     sync.Map.Range, each task once), then canonicalised *)
  Definition run_report_c (keep : bool) (visited : list (list cdiag)) (o : list cdiag) : Prop :=
    canon_rel_c keep (concat visited) o.
End Generic.

(* ---- the code as it is: the six keys ---- *)
Definition dle := dle_c dcmp.
Definition is_sort := is_sort_c dcmp.
Definition canon_rel := canon_rel_c dcmp.
Definition insert := insert_c dcmp.
Definition isort := isort_c dcmp.
Definition canonicalize := canonicalize_c dcmp.
(* no two different diagnostics agree on all six sort keys *)
Definition keys_injective := keys_injective_c dcmp.
Definition run_report := run_report_c dcmp.
(* no diagnostic already carries the deletion mark as its level *)
Definition no_sentinel (l : list cdiag) : Prop := forall d, In d l -> c_level d <> -1.

(* ---- the proposed repair: two more keys after the six, the level and a rendering of everything else
   (Diagnostic.tieBreak: inFile, snippets, notes, help, debug), for which c_rest stands ---- *)
Definition dcmp2 (a b : cdiag) : comparison :=
  lex (dcmp a b) (lex (Z.compare (c_level a) (c_level b)) (N.compare (c_rest a) (c_rest b))).
(* in one report there is one File object per path (the File query is memoised per path) *)
Definition one_file_per_path (l : list cdiag) : Prop :=
  forall a b, In a l -> In b l -> sp_path (c_prim a) = sp_path (c_prim b) ->
              sp_file (c_prim a) = sp_file (c_prim b).

(* ---- correspondence ---- *)
Definition cdiag_eqb (a b : cdiag) : bool :=
  span_eqb (c_prim a) (c_prim b) && (c_sort a =? c_sort b) && list_N_eqb (c_tag a) (c_tag b) &&
  list_N_eqb (c_msg a) (c_msg b) && (c_level a =? c_level b) && N.eqb (c_rest a) (c_rest b).

Fixpoint cdiags_eqb (a b : list cdiag) : bool :=
  match a, b with
  | [], [] => true
  | x :: a', y :: b' => cdiag_eqb x y && cdiags_eqb a' b'
  | _, _ => false
  end.

Section Chk.
Variable cmp : cdiag -> cdiag -> comparison.
Definition dleb (a b : cdiag) : bool := match cmp a b with Gt => false | _ => true end.
Fixpoint sortedb (l : list cdiag) : bool :=
  match l with
  | [] => true
  | x :: r => match r with [] => true | y :: _ => dleb x y && sortedb r end
  end.
Definition count (x : cdiag) (l : list cdiag) : nat := length (filter (cdiag_eqb x) l).
Definition permb (l s : list cdiag) : bool :=
  Nat.eqb (length l) (length s) && forallb (fun x => Nat.eqb (count x l) (count x s)) l.

Definition keys_injb (l : list cdiag) : bool :=
  forallb (fun a => forallb (fun b => match cmp a b with Eq => cdiag_eqb a b | _ => true end) l) l.

Inductive canon_case :=
(* input l; Diagnostics after Canonicalize with KeepDuplicates (sorted), without (out), and after
   canonicalising out once more (twice) *)
| CCanon (l sorted out twice : list cdiag)
(* cmp of two diagnostics as the real comparison function computes it: -1, 0, 1 *)
| CCmp (a b : cdiag) (c : Z).

Definition canon_chk_c (c : canon_case) : bool :=
  match c with
  | CCanon l sorted out twice =>
    permb l sorted && sortedb sorted && cdiags_eqb (dedup sorted) out &&
    (* the second pass: what it returned is again a sorted permutation of out, deduplicated *)
    sortedb twice && cdiags_eqb (dedup twice) twice &&
    (* the only possible second outcome, inside the hypotheses of C36_canon_idempotent_unique *)
    (if forallb (fun d => negb (c_level d =? -1)) l && keys_injb l then cdiags_eqb twice out else true)
  | CCmp a b c =>
    match cmp a b with Lt => c =? -1 | Eq => c =? 0 | Gt => c =? 1 end
  end.
End Chk.

Definition canon_chk := canon_chk_c dcmp.            (* the code as it is *)
Definition canon_chk_repaired := canon_chk_c dcmp2.  (* after the proposed tie-break repair *)

(* ================================================================================================
   incremental.Run with memory: the memoised tasks keep their diagnostics in slices, and Run builds its
   report with append and sorts it in place.  A slice is a backing array (index into the heap) and a
   length (every slice here starts at offset 0: they are all built by append from nil); its capacity is
   the length of the array.  Canonicalize is an arbitrary function from the visible content to a list
   that is not longer (sort, mark, delete), written back in place with zero values behind it, as
   slices.SortFunc and slices.DeleteFunc do.
   ================================================================================================ *)
Record slice := mkslice { sl_arr : option nat; sl_len : nat }.      (* None: the nil slice *)
Definition heap := list (list cdiag).
Definition zero_diag : cdiag := mkcd zero_span 0 [] [] 0 0.

Definition read (h : heap) (s : slice) : list cdiag :=
  match sl_arr s with None => [] | Some a => firstn (sl_len s) (nth a h []) end.

Definition set_arr (h : heap) (a : nat) (v : list cdiag) : heap := firstn a h ++ v :: skipn (S a) h.
Definition write_at (arr : list cdiag) (pos : nat) (xs : list cdiag) : list cdiag :=
  firstn pos arr ++ xs ++ skipn (pos + length xs) arr.

(* append(s, xs...): in place when the capacity suffices, otherwise a new array with some spare room
   (spare: any growth policy) *)
Definition go_append (spare : nat -> nat) (h : heap) (s : slice) (xs : list cdiag) : heap * slice :=
  match xs with
  | [] => (h, s)
  | _ :: _ =>
    match sl_arr s with
    | None => (h ++ [xs ++ repeat zero_diag (spare (length xs))], mkslice (Some (length h)) (length xs))
    | Some a =>
      let arr := nth a h [] in
      let n := (sl_len s + length xs)%nat in
      if Nat.leb n (length arr)
      then (set_arr h a (write_at arr (sl_len s) xs), mkslice (Some a) n)
      else (h ++ [firstn (sl_len s) arr ++ xs ++ repeat zero_diag (spare n)], mkslice (Some (length h)) n)
    end
  end.

(* the loop of Run as it is: report.Diagnostics = append(report.Diagnostics, node.report.Diagnostics...) *)
Fixpoint collect (spare : nat -> nat) (h : heap) (rep : slice) (tasks : list slice) : heap * slice :=
  match tasks with
  | [] => (h, rep)
  | t :: r => let '(h', rep') := go_append spare h rep (read h t) in collect spare h' rep' r
  end.

(* the seeded variant: the first non-nil task slice is taken over instead of copied *)
Fixpoint collect_alias (spare : nat -> nat) (h : heap) (rep : slice) (tasks : list slice) : heap * slice :=
  match tasks with
  | [] => (h, rep)
  | t :: r =>
    match sl_arr rep with
    | None => collect_alias spare h t r
    | Some _ => let '(h', rep') := go_append spare h rep (read h t) in collect_alias spare h' rep' r
    end
  end.

Definition canon_inplace (canon : list cdiag -> list cdiag) (h : heap) (rep : slice) : heap * slice :=
  match sl_arr rep with
  | None => (h, rep)
  | Some a =>
    let arr := nth a h [] in
    let out := canon (firstn (sl_len rep) arr) in
    (set_arr h a (out ++ repeat zero_diag (sl_len rep - length out) ++ skipn (sl_len rep) arr),
     mkslice (Some a) (length out))
  end.

Definition run_heap (spare : nat -> nat) (canon : list cdiag -> list cdiag) (h : heap) (tasks : list slice)
  : heap * slice :=
  let '(h1, rep) := collect spare h (mkslice None 0) tasks in canon_inplace canon h1 rep.

Definition run_heap_alias (spare : nat -> nat) (canon : list cdiag -> list cdiag) (h : heap) (tasks : list slice)
  : heap * slice :=
  let '(h1, rep) := collect_alias spare h (mkslice None 0) tasks in canon_inplace canon h1 rep.

(* a task slice lives in the heap *)
Definition slice_ok (h : heap) (s : slice) : Prop :=
  match sl_arr s with None => True | Some a => (a < length h)%nat /\ (sl_len s <= length (nth a h []))%nat end.

(* ---- which tasks a Run visits: the walk over the recorded forward edges ----
   incremental.Run collects the reports of the tasks reachable from its roots over task.deps, the
   forward edges that Resolve records.  Event model of one executor: a running (not yet completed)
   task c that calls Resolve on a declared dependency d records the edge c -> d (XEdge: on every
   call, whether d is already memoised or not); a task completes (XComplete) once every declared
   dependency is completed and its edge is recorded (Resolve stores the edge before it waits for
   the dependency).  deps_of is what the query's Execute asks for, a function of the query.
   Histories = any sequence of enabled events: any number of Runs with any roots, any schedule. *)
From Coq Require Import Relations.Relation_Operators.
Section RunWalk.
  Variable deps_of : nat -> list nat.

  Record xstate := mkx { x_done : list nat; x_edges : list (nat * nat) }.
  Definition x_init : xstate := mkx [] [].

  Inductive xevent := XEdge (caller dep : nat) | XComplete (t : nat).

  Definition x_enabled (st : xstate) (e : xevent) : Prop :=
    match e with
    | XEdge c d => In d (deps_of c) /\ ~ In c (x_done st)
    | XComplete t => ~ In t (x_done st) /\
                     forall d, In d (deps_of t) -> In d (x_done st) /\ In (t, d) (x_edges st)
    end.
  Definition x_apply (st : xstate) (e : xevent) : xstate :=
    match e with
    | XEdge c d => mkx (x_done st) ((c, d) :: x_edges st)
    | XComplete t => mkx (t :: x_done st) (x_edges st)
    end.
  Inductive x_reachable : xstate -> Prop :=
  | xr_init : x_reachable x_init
  | xr_step : forall st e, x_reachable st -> x_enabled st e -> x_reachable (x_apply st e).

  Definition x_edge (st : xstate) (a b : nat) : Prop := In (a, b) (x_edges st).
  Definition x_visited (st : xstate) (roots : list nat) (t : nat) : Prop :=
    exists r, In r roots /\ clos_refl_trans nat (x_edge st) r t.
  Definition d_edge (a b : nat) : Prop := In b (deps_of a).
  Definition d_reach (roots : list nat) (t : nat) : Prop :=
    exists r, In r roots /\ clos_refl_trans nat d_edge r t.
End RunWalk.

