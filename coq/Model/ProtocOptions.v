(* Specification: how protoc interprets option statements (descriptor.cc DescriptorBuilder::OptionInterpreter:
   InterpretOptions in two passes - first the options whose first name part is not an extension, then the
   others -, InterpretSingleOption, ExamineIfOptionIsSet, SetOptionValue, SetAggregateOption which hands the
   message literal to the text-format parser), transcribed from protoc's documented behaviour (the language
   specification at protobuf.com, the comments and the protoc comparisons in linker/linker_test.go and
   options/options_test.go) and validated against the protoc-produced descriptor sets in
   internal/testdata/options (checks/C20.py, spec_golden_agreement).

   The specification is declarative where protoc is: a statement denotes (1) a path of fields resolved
   against the schema alone, (2) a value computed from the leaf field and the literal alone, by range tables,
   (3) a conflict test on the current options message, (4) a merge of the value wrapped in its path into the
   options message (protoc appends the wrapped value to the unknown fields of the options message; parsing
   the concatenation is protobuf merge: sub-messages merge, repeated fields append).

   Intentional, documented divergences from protoc (the project treats these as protoc defects; the
   specification follows the project):
   - D1 a field of a oneof may not be set by an option statement when another field of that oneof is
        already set (protoc accepts and the last one wins; protobuf issue 9125).
   Text-format leniencies of protoc inside message literals:
   - L1 for float and double fields the words inf, infinity and nan are recognised in any letter case (the project's
        parser tests document this: success_inf_nan_in_message_literal).  The specification has it (ci = true);
        ci = false is the variant without it and only serves to attribute a disagreement to this rule
        (the code had ci = false before bb1a10d1).
   - L2 NOT transcribed: protoc's text format also takes the integers 0 and 1 for bool fields.  Nothing in the
        project documents it; here the specification follows the implementation (an integer is rejected).
   Everything else follows protoc.  Definitions only. *)
From Coq Require Import List ZArith NArith Bool String Ascii.
From PV Require Import Model.Options.
Import ListNotations.
Open Scope Z_scope.

(* ------------------------------------------------------------------ range tables *)
Definition int_range (k : kind) : option (Z * Z) :=
  match k with
  | KInt32 | KSint32 | KSfixed32 => Some (- 2 ^ 31, 2 ^ 31 - 1)
  | KInt64 | KSint64 | KSfixed64 => Some (- 2 ^ 63, 2 ^ 63 - 1)
  | KUint32 | KFixed32 => Some (0, 2 ^ 32 - 1)
  | KUint64 | KFixed64 => Some (0, 2 ^ 64 - 1)
  | _ => None
  end.
(* the mathematical value of an integer literal *)
Definition num_value (v : oval) : option Z :=
  match v with OInt z => Some z | OUint n => Some n | _ => None end.
(* what the lexer can produce: a negative literal fits int64, a non-negative one fits uint64 *)
Definition lexable (v : oval) : Prop :=
  match v with
  | OInt z => - 2 ^ 63 <= z <= 2 ^ 63 - 1
  | OUint n => 0 <= n <= 2 ^ 64 - 1
  | _ => True
  end.

Definition true_words (inlit : bool) : list string :=
  if inlit then ["t"; "true"; "True"]%string else ["true"]%string.
Definition false_words (inlit : bool) : list string :=
  if inlit then ["f"; "false"; "False"]%string else ["false"]%string.

(* the special float words: float_word of the model file with ci = true is protoc's reading (L1) *)
Definition spec_float (ci : bool) (single : bool) (v : oval) (inlit : bool) : res sval :=
  let rnd m e := if single then to_f32 m e else to_f64 m e in
  match v with
  | OIdent id => match float_word ci inlit id with Some f => Ok (SFloat f) | None => Err EType end
  | OFloat (FFin m e) => Ok (SFloat (if single then to_f32 m e else norm_fin m e))
  | OFloat d => Ok (SFloat d)
  | OInt z => Ok (SFloat (rnd z 0))
  | OUint z => Ok (SFloat (rnd z 0))
  | _ => Err EType
  end.

Definition spec_scalar (ci : bool) (k : kind) (v : oval) (inlit : bool) : res sval :=
  match int_range k with
  | Some (lo, hi) =>
    match num_value v with
    | Some z => if (lo <=? z) && (z <=? hi) then Ok (SInt z) else Err ERange
    | None => Err EType
    end
  | None =>
    match k with
    | KBool =>
      match v with
      | OIdent id =>
        if str_in id (true_words inlit) then Ok (SBool true)
        else if str_in id (false_words inlit) then Ok (SBool false) else Err EType
      | _ => Err EType
      end
    | KString | KBytes => match v with OStr s => Ok (SStr s) | _ => Err EType end
    | KFloat => spec_float ci true v inlit
    | KDouble => spec_float ci false v inlit
    | _ => Err EUnmodelled
    end
  end.

(* enums: by name; by number only inside a message literal (text format), where a closed enum
   accepts only its declared numbers *)
Definition spec_enum (ed : enumdesc) (v : oval) (inlit : bool) : res sval :=
  match v with
  | OIdent id =>
    match find (fun p => String.eqb (fst p) id) (evalues ed) with
    | Some p => Ok (SEnum (snd p))
    | None => Err EEnumName
    end
  | OInt z | OUint z =>
    if negb inlit then Err EEnumNumber
    else if negb ((- 2 ^ 31 <=? z) && (z <=? 2 ^ 31 - 1)) then Err EEnumRange
    else if eclosed ed && negb (existsb (fun p => snd p =? z) (evalues ed)) then Err EEnumClosed
    else Ok (SEnum z)
  | _ => Err EEnumType
  end.

Section Spec.
Variable sch : schema.
Variable tt : N.
Variable ci : bool.      (* true = protoc; see L1 *)

Definition target_ok (f : field) : bool :=
  match ftargets f with [] => true | ts => existsb (N.eqb tt) ts end.

Definition map_res {A B} (f : A -> res B) : list A -> res (list B) :=
  fix go (l : list A) : res (list B) :=
    match l with
    | [] => Ok []
    | a :: r =>
      match f a with
      | Err e => Err e
      | Ok b => match go r with Err e => Err e | Ok bs => Ok (b :: bs) end
      end
    end.

(* the element values one occurrence of a field contributes *)
Definition spec_values_with (svf : field -> oval -> res val) (fld : field) (v : oval) : res (list val) :=
  match v with
  | OList es => if frep fld then map_res (svf fld) es else Err EArrayNonRepeated
  | _ => match svf fld v with Ok x => Ok [x] | Err e => Err e end
  end.

(* storing them into a message: through reflection inside a literal (the text-format parser asks HasField),
   outside by what ExamineIfOptionIsSet finds on the wire *)
Definition spec_store (inlit : bool) (fields : list field) (fld : field) (vs : list val) (m : mval) : res mval :=
  if frep fld then Ok (fold_left (fun m x => mappend (fnum fld) x m) vs m)
  else
    match vs with
    | [x] =>
      if oneof_conflict fields fld m then Err EOneof
      else if (if inlit then has fld m else present (fnum fld) m) then Err EAlreadySet
      else Ok (mset (fnum fld) x m)
    | _ => Err EUnmodelled
    end.

Definition spec_lit_field (md : nat) (n : lname) : res field :=
  match n with
  | LField s => match field_by_name (msg_fields sch md) s with Some f => Ok f | None => Err ELitNoField end
  | LExt s =>
    match ext_by_name (sexts sch) s with
    | None => Err ELitNoField
    | Some x => if Nat.eqb (xextendee x) md then Ok (xfield x) else Err EWrongExtendee
    end
  end.

(* The parsed literal is handed on in serialised form (on_wire): a field without presence that holds its zero
   value is not on the wire, so a later option statement for it does not find it set. *)
(* a message literal is parsed like text format: field by field, in order, the first problem rejects it *)
Definition spec_lit_loop (sv : field -> oval -> res val) (md : nat) : list (lname * oval) -> mval -> res val :=
  fix lit (fs : list (lname * oval)) (m : mval) {struct fs} : res val :=
    match fs with
    | [] => Ok (VM (on_wire (msg_fields sch md) m))
    | (nm, fv) :: r =>
      match spec_lit_field md nm with
      | Err x => Err x
      | Ok f =>
        if negb (target_ok f) then Err ETargetType
        else
          match spec_values_with sv f fv with
          | Err x => Err x
          | Ok vs =>
            match spec_store true (msg_fields sch md) f vs m with
            | Err x => Err x
            | Ok m' => lit r m'
            end
          end
      end
    end.

(* the value of one literal for a field *)
Fixpoint spec_value (fld : field) (v : oval) (inlit : bool) {struct v} : res val :=
  match fkind fld with
  | KEnum e =>
    match nth_error (senums sch) e with
    | None => Err EUnmodelled
    | Some ed => match spec_enum ed v inlit with Ok s => Ok (VS s) | Err x => Err x end
    end
  | KMsg md =>
    match v with
    | OMsg fs => spec_lit_loop (fun g x => spec_value g x true) md fs []
    | _ => Err ETypeMessage
    end
  | k => match spec_scalar ci k v inlit with Ok s => Ok (VS s) | Err x => Err x end
  end.

(* (1) the path: every part but the last must be a singular message field *)
Fixpoint resolve_path (md : nat) (name : list npart) {struct name}
  : res (list (nat * field) * (nat * field)) :=
  match name with
  | [] => Err EUnmodelled
  | nm :: rest =>
    match lookup_part sch md nm with
    | Err x => Err x
    | Ok fld =>
      match rest with
      | [] => Ok ([], (md, fld))
      | _ :: _ =>
        match fkind fld with
        | KMsg sub =>
          if frep fld then Err EPathRepeated
          else
            match resolve_path sub rest with
            | Err x => Err x
            | Ok (inter, leaf) => Ok ((md, fld) :: inter, leaf)
            end
        | _ => Err EPathNotMessage
        end
      end
    end
  end.

(* (3) ExamineIfOptionIsSet, plus the oneof rule D1, on the current options message *)
Fixpoint path_conflict (inter : list (nat * field)) (lmd : nat) (leaf : field) (m : mval) {struct inter}
  : option err :=
  match inter with
  | [] =>
    if oneof_conflict (msg_fields sch lmd) leaf m then Some EOneof
    else if negb (frep leaf) && present (fnum leaf) m then Some EAlreadySet
    else None
  | (md, f) :: rest =>
    if negb (present (fnum f) m) && oneof_conflict (msg_fields sch md) f m then Some EOneof
    else path_conflict rest lmd leaf (sub_at (fnum f) m)
  end.

(* (4) merge of the wrapped value *)
Definition put (leaf : field) (vs : list val) (m : mval) : mval :=
  if frep leaf then fold_left (fun m x => mappend (fnum leaf) x m) vs m
  else match vs with [x] => mset (fnum leaf) x m | _ => m end.
Fixpoint merge_along (inter : list (nat * field)) (leaf : field) (vs : list val) (m : mval) {struct inter} : mval :=
  match inter with
  | [] => put leaf vs m
  | (_, f) :: rest => mset (fnum f) (VM (merge_along rest leaf vs (sub_at (fnum f) m))) m
  end.

Definition spec_stmt (T : nat) (m : mval) (st : stmt) : res mval :=
  match resolve_path T (sname st) with
  | Err x => Err x
  | Ok (inter, (lmd, leaf)) =>
    if negb (forallb (fun p => target_ok (snd p)) inter && target_ok leaf) then Err ETargetType
    else
      match path_conflict inter lmd leaf m with
      | Some x => Err x
      | None =>
        match spec_values_with (fun g x => spec_value g x false) leaf (svalue st) with
        | Err x => Err x
        | Ok vs => Ok (merge_along inter leaf vs m)
        end
      end
  end.

Fixpoint spec_fold (T : nat) (m : mval) (sts : list stmt) : res mval :=
  match sts with
  | [] => Ok m
  | st :: r => match spec_stmt T m st with Err x => Err x | Ok m' => spec_fold T m' r end
  end.

(* InterpretOptions: the non-extension options of the element first, then the extension options *)
Definition protoc_interpret (T : nat) (m0 : mval) (stmts : list stmt) : res mval :=
  spec_fold T m0 (filter (fun st => negb (is_custom st)) stmts ++ filter is_custom stmts).
End Spec.

(* well-formed schemas (what descriptors guarantee): a repeated field is in no oneof and has presence
   semantics of its own; a message-typed field always has presence *)
Definition field_wf (f : field) : bool :=
  (negb (frep f) || match foneof f with None => true | Some _ => false end)
  && (negb (fimplicit f) || (negb (frep f) && negb (is_kmsg (fkind f)) && match foneof f with None => true | Some _ => false end)).
Definition schema_wf (sch : schema) : bool :=
  forallb (fun d => forallb field_wf (mfields d)) (smsgs sch) && forallb (fun x => field_wf (xfield x)) (sexts sch).
Definition field_explicit (f : field) : bool := negb (fimplicit f).
Definition schema_explicit (sch : schema) : bool :=
  forallb (fun d => forallb field_explicit (mfields d)) (smsgs sch) && forallb (fun x => field_explicit (xfield x)) (sexts sch).

(* ------------------------------------------------------------------ the implementation against the specification *)
(* same value, or both reject (the error class is not part of the property) *)
Definition spec_chk_gen (ci : bool) (c : opt_case) : bool :=
  match c with
  | OC sch tg T stmts os _ _ =>
    schema_wf sch &&
    match protoc_interpret sch tg ci T [] stmts, os with
    | Ok m, ObsOk tree idx => mval_eqb (wire sch T m) tree && match idx with [] => true | _ => false end
    | Err _, (ObsErr _ | ObsPanic | ObsOther) => true
    | _, _ => false
    end
  end.
Definition spec_chk : opt_case -> bool := spec_chk_gen true.

(* guard on the values of statements, at every depth: the integer literals are what the lexer produces (a negative
   one fits int64, a non-negative one uint64) *)
Fixpoint lexable_b (v : oval) : bool :=
  match v with
  | OInt z => (- 2 ^ 63 <=? z) && (z <=? 2 ^ 63 - 1)
  | OUint n => (0 <=? n) && (n <=? 2 ^ 64 - 1)
  | OMsg fs => forallb (fun p => lexable_b (snd p)) fs
  | OList es => forallb lexable_b es
  | _ => true
  end.
Definition stmts_lexable (sts : list stmt) : bool := forallb (fun st => lexable_b (svalue st)) sts.

(* the outcome of the strict run and of the specification: the same message, or both reject *)
Definition same_outcome (a : res (mval * list stmt)) (b : res mval) : Prop :=
  match a, b with
  | Ok (m, _), Ok m' => m = m'
  | Err _, Err _ => True
  | _, _ => False
  end.
