(* Model of experimental/source/file.go: File.lines, location, inverseLocation and the exported
   wrappers File.Location / File.InverseLocation, for the units Bytes, UTF16 and Runes
   (TermWidth is not modelled: it is not invertible and InverseLocation panics on it).
   The model follows the Go code as it is at the pinned commit, including the arithmetic after
   the loops of inverseLocation.  The *_fixed definitions model the proposed repair.
   Definitions only; proofs are in Proofs/SourceFile.v. *)
From Coq Require Import List NArith ZArith Bool.
From PV Require Import Model.Utf8 Model.Lines.
Import ListNotations.
Open Scope nat_scope.

Inductive unit_ := UBytes | UUTF16 | URunes.

(* strings.IndexByte(text, '\n'); None stands for -1 *)
Fixpoint index_nl (s : list N) : option nat :=
  match s with
  | [] => None
  | c :: r => if is_nl c then Some 0 else option_map S (index_nl r)
  end.

(* the loop of File.lines(): one iteration per line; None = out of fuel *)
Fixpoint lines_loop (fuel : nat) (text : list N) (next : nat) : option (list nat) :=
  match fuel with
  | O => None
  | S f =>
    match index_nl text with
    | None => Some [next]                                   (* newline == 0: break, append next *)
    | Some i => let newline := i + 1 in
                option_map (cons next) (lines_loop f (skipn newline text) (next + newline))
    end
  end.
Definition lines (text : list N) : option (list nat) := lines_loop (S (length text)) text 0.

(* slices.BinarySearch(lines, offset) on a sorted slice: the smallest index whose entry is
   >= offset (len if none) and whether that entry equals offset (library contract) *)
Fixpoint bsearch_from (l : list nat) (x i : nat) : nat * bool :=
  match l with
  | [] => (i, false)
  | y :: r => if x <=? y then (i, x =? y) else bsearch_from r x (S i)
  end.
Definition bsearch (l : list nat) (x : nat) : nat * bool := bsearch_from l x 0.

(* line, exact := BinarySearch(lines, offset); if !exact { line-- }.  None: line = -1, the
   following index expression panics (cannot happen for offset >= 0) *)
Definition line_index (ls : list nat) (offset : nat) : option nat :=
  let '(line, exact) := bsearch ls offset in
  if exact then Some line else match line with O => None | S l => Some l end.

Definition sum_utf16 (rs : list (nat * N)) : Z :=
  fold_left (fun a p => (a + utf16_rune_len (snd p))%Z) rs 0%Z.

(* location(f, offset, units, _): Some (line, column), both 1-based; None = the Go code panics
   (slice bounds out of range for offset > len(text)) *)
Definition location (text : list N) (offset : nat) (u : unit_) : option (nat * Z) :=
  match lines text with
  | None => None
  | Some ls =>
    match line_index ls offset with
    | None => None
    | Some line =>
      match nth_error ls line with
      | None => None
      | Some start =>
        if (length text <? offset) || (offset <? start) then None
        else
          let chunk := slice text start offset in
          let column :=
            match u with
            | URunes => Z.of_nat (length (range chunk))      (* for range chunk { column++ } *)
            | UBytes => Z.of_nat (length chunk)
            | UUTF16 => sum_utf16 (range chunk)
            end in
          Some (line + 1, (column + 1)%Z)
      end
    end
  end.

(* File.Location *)
Definition file_location (text : list N) (offset : nat) (u : unit_) : option (nat * Z) :=
  if offset =? 0 then Some (1, 1%Z) else location text offset u.

(* File.LineOffsets(line): None = index out of range *)
Definition line_offsets (text : list N) (ls : list nat) (line : nat) : option (nat * nat) :=
  match line with
  | O => None                                               (* lines[-1] *)
  | S l0 =>
    match nth_error ls l0 with
    | None => None
    | Some start =>
      if length ls =? line then Some (start, length text)
      else match nth_error ls line with
           | None => None
           | Some e => Some (start, e)
           end
    end
  end.

(* for offset = range chunk { column--; if column <= 0 { break } }
   returns the values of offset and column after the loop *)
Fixpoint runes_loop (rs : list (nat * N)) (offset column : Z) : Z * Z :=
  match rs with
  | [] => (offset, column)
  | (i, _) :: rest =>
    let offset := Z.of_nat i in
    let column := (column - 1)%Z in
    if (column <=? 0)%Z then (offset, column) else runes_loop rest offset column
  end.

(* for offset, r = range chunk { column -= utf16.RuneLen(r); if column <= 0 { break } } *)
Fixpoint utf16_loop (rs : list (nat * N)) (offset column : Z) : Z * Z :=
  match rs with
  | [] => (offset, column)
  | (i, r) :: rest =>
    let offset := Z.of_nat i in
    let column := (column - utf16_rune_len r)%Z in
    if (column <=? 0)%Z then (offset, column) else utf16_loop rest offset column
  end.

(* inverseLocation(f, line, column, units): the byte offset; None = panic *)
Definition inverse_location (text : list N) (line : nat) (column : Z) (u : unit_) : option Z :=
  match lines text with
  | None => None
  | Some ls =>
    match line_offsets text ls line with
    | None => None
    | Some (start, e) =>
      if (e <? start) || (length text <? e) then None
      else
        let chunk := slice text start e in
        let offset :=
          match u with
          | URunes =>
            let '(offset, column) := runes_loop (range chunk) 0%Z column in
            (offset + column)%Z
          | UBytes => (column - 1)%Z
          | UUTF16 =>
            let '(offset, column) := utf16_loop (range chunk) 0%Z column in
            if (0 <? column)%Z then (offset + column)%Z else offset
          end in
        Some (Z.of_nat start + offset)%Z
    end
  end.

(* File.InverseLocation: the Offset field of the result *)
Definition file_inverse_location (text : list N) (line : nat) (column : Z) (u : unit_) : option Z :=
  if (line =? 1) && (column =? 1)%Z then Some 0%Z else inverse_location text line column u.

(* ---- the proposed repair of inverseLocation: offset starts at len(chunk)-1 and is only set
   to the rune index when the loop breaks ----
     offset = len(chunk) - 1
     for i := range chunk { column--; if column <= 0 { offset = i; break } }
     offset += column                                                                      *)
Fixpoint runes_loop_fixed (rs : list (nat * N)) (offset column : Z) : Z * Z :=
  match rs with
  | [] => (offset, column)
  | (i, _) :: rest =>
    let column := (column - 1)%Z in
    if (column <=? 0)%Z then (Z.of_nat i, column) else runes_loop_fixed rest offset column
  end.

Fixpoint utf16_loop_fixed (rs : list (nat * N)) (offset column : Z) : Z * Z :=
  match rs with
  | [] => (offset, column)
  | (i, r) :: rest =>
    let column := (column - utf16_rune_len r)%Z in
    if (column <=? 0)%Z then (Z.of_nat i, column) else utf16_loop_fixed rest offset column
  end.

Definition inverse_location_fixed (text : list N) (line : nat) (column : Z) (u : unit_) : option Z :=
  match lines text with
  | None => None
  | Some ls =>
    match line_offsets text ls line with
    | None => None
    | Some (start, e) =>
      if (e <? start) || (length text <? e) then None
      else
        let chunk := slice text start e in
        let offset :=
          match u with
          | URunes =>
            let '(offset, column) := runes_loop_fixed (range chunk) (Z.of_nat (length chunk) - 1)%Z column in
            (offset + column)%Z
          | UBytes => (column - 1)%Z
          | UUTF16 =>
            let '(offset, column) := utf16_loop_fixed (range chunk) (Z.of_nat (length chunk) - 1)%Z column in
            if (0 <? column)%Z then (offset + column)%Z else offset
          end in
        Some (Z.of_nat start + offset)%Z
    end
  end.

Definition file_inverse_location_fixed (text : list N) (line : nat) (column : Z) (u : unit_) : option Z :=
  if (line =? 1) && (column =? 1)%Z then Some 0%Z else inverse_location_fixed text line column u.

(* the guard of the partial round-trip theorem: where File.InverseLocation (as it is) inverts
   File.Location. Outside of it (rune or UTF-16 columns, offset = len(text) > 0, and the last
   line is empty or ends in a character of more than one byte) it does not. *)
Definition last_line (text : list N) : list N := skipn (line_start text (length text)) text.
Definition last_rune_width (chunk : list N) : nat :=
  match rev (range chunk) with
  | [] => 0
  | (i, _) :: _ => length chunk - i
  end.
Definition roundtrip_guard (text : list N) (off : nat) (u : unit_) : Prop :=
  u = UBytes \/ off < length text \/ off = 0 \/ last_rune_width (last_line text) = 1.

(* ---- correspondence: what the harness observed on the implementation, checked against the model ---- *)
Inductive sf_case :=
| SFLines (text : list N) (ls : list nat)                       (* File.lines() *)
(* for off = 0, 1, ...: Some (line, column, inverse) or None where the first call panicked;
   inverse = None where the second call panicked *)
| SFPub (text : list N) (u : unit_) (obs : list (option (nat * Z * option Z)))   (* File.Location / File.InverseLocation *)
| SFRaw (text : list N) (u : unit_) (obs : list (option (nat * Z * option Z)))   (* location / inverseLocation *)
| SFInv (text : list N) (u : unit_) (line : nat) (col : Z) (r p : option Z).    (* inverseLocation, File.InverseLocation *)

Definition opt_Z_eqb (a b : option Z) : bool :=
  match a, b with
  | Some x, Some y => (x =? y)%Z
  | None, None => true
  | _, _ => false
  end.

Definition obs_ok (loc : nat -> option (nat * Z)) (inv : nat -> Z -> option Z)
           (p : nat * option (nat * Z * option Z)) : bool :=
  let '(off, ob) := p in
  match loc off, ob with
  | None, None => true
  | Some (l, c), Some (l', c', i') => (l =? l') && (c =? c')%Z && opt_Z_eqb (inv l c) i'
  | _, _ => false
  end.

Definition sf_chk_gen (fixed : bool) (c : sf_case) : bool :=
  let inv_raw := if fixed then inverse_location_fixed else inverse_location in
  let inv_pub := if fixed then file_inverse_location_fixed else file_inverse_location in
  match c with
  | SFLines text ls =>
    match lines text with
    | Some l => if list_eq_dec Nat.eq_dec l ls then true else false
    | None => false
    end
  | SFPub text u obs =>
    forallb (obs_ok (fun off => file_location text off u) (fun l c => inv_pub text l c u))
            (combine (seq 0 (length obs)) obs)
  | SFRaw text u obs =>
    forallb (obs_ok (fun off => location text off u) (fun l c => inv_raw text l c u))
            (combine (seq 0 (length obs)) obs)
  | SFInv text u line col r p =>
    opt_Z_eqb (inv_raw text line col u) r && opt_Z_eqb (inv_pub text line col u) p
  end.
Definition sf_chk : sf_case -> bool := sf_chk_gen false.
Definition sf_chk_fixed : sf_case -> bool := sf_chk_gen true.
