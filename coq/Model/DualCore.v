(* The comparison that property C27 uses between the FileDescriptorProto of the stable compiler and
   the one of the experimental compiler, as a function on trees.  Definitions only.

   The harness (harness/cmd/dualcompile) decodes both descriptors against the same schema and
   hands over, for each message, its populated fields in field-number order (repeated elements in
   their order) followed by the fields that stay unknown, in wire order.  An entry carries the
   field number, a storage flag (true: the compiler that produced the descriptor held this field,
   or a field it lies in, as an unknown field -- the way the experimental compiler stores every
   extension option) and the value: a leaf or a sub-message.

   desc_eq is the comparison; proj is what it compares: the tree with
     - the top-level field 9 (source_code_info) removed,
     - every storage flag erased,
     - every floating-point NaN replaced by one NaN (proto.Equal: a NaN equals another NaN),
   and nothing else changed (Props/C27.v). *)
From Coq Require Import List NArith ZArith Bool.
Import ListNotations.
Open Scope Z_scope.

(* leaf kinds: 0 integer / bool / enum number (a = value); 1 floating point (a = IEEE-754 double
   bits); 2 bytes or string (a = the bytes as a little-endian number, b = length);
   3 + w: unknown field of wire type w (a, b as for bytes, over the raw value) *)
Inductive ptree :=
| PLeaf (kind : N) (a b : Z)
| PNode (fields : list (N * bool * ptree)).

Definition source_code_info_field : N := 9%N.

Definition is_nan_bits (bits : Z) : bool :=
  Z.eqb (Z.land (Z.shiftr bits 52) 2047) 2047 && negb (Z.eqb (Z.land bits 4503599627370495) 0).

Definition quiet_nan : Z := 9221120237041090560.            (* 0x7ff8000000000000 *)

Definition canon (kind : N) (a : Z) : Z :=
  if N.eqb kind 1 then (if is_nan_bits a then quiet_nan else a) else a.

(* erase what the comparison ignores below the top level *)
Fixpoint erase (t : ptree) : ptree :=
  match t with
  | PLeaf k a b => PLeaf k (canon k a) b
  | PNode fs => PNode (map (fun e => (fst (fst e), false, erase (snd e))) fs)
  end.

Definition drop_sci (fs : list (N * bool * ptree)) : list (N * bool * ptree) :=
  filter (fun e => negb (N.eqb (fst (fst e)) source_code_info_field)) fs.

Definition top (t : ptree) : ptree :=
  match t with
  | PNode fs => PNode (drop_sci fs)
  | leaf => leaf
  end.

Definition proj (t : ptree) : ptree := erase (top t).

(* the comparison itself, written as the recursive walk the harness performs *)
Fixpoint teq (x y : ptree) : bool :=
  match x, y with
  | PLeaf k a b, PLeaf k' a' b' => N.eqb k k' && Z.eqb (canon k a) (canon k' a') && Z.eqb b b'
  | PNode fx, PNode fy =>
    (fix go (l : list (N * bool * ptree)) (m : list (N * bool * ptree)) : bool :=
       match l, m with
       | [], [] => true
       | e :: l', d :: m' => N.eqb (fst (fst e)) (fst (fst d)) && teq (snd e) (snd d) && go l' m'
       | _, _ => false
       end) fx fy
  | _, _ => false
  end.

Definition desc_eq (x y : ptree) : bool := teq (top x) (top y).

(* a tree in which there is nothing to ignore *)
Fixpoint plain (t : ptree) : bool :=
  match t with
  | PLeaf k a b => Z.eqb (canon k a) a
  | PNode fs => forallb (fun e => negb (snd (fst e)) && plain (snd e)) fs
  end.

Definition plain_top (t : ptree) : bool :=
  plain t && match t with
             | PNode fs => forallb (fun e => negb (N.eqb (fst (fst e)) source_code_info_field)) fs
             | _ => true
             end.

(* ---- correspondence: the verdict of the harness's comparison on the same two trees ---- *)
From PV Require Import Common.Corr.
Inductive dc_case := DC (stable experimental : ptree) (equal_in_harness : bool).
Definition dc_chk (c : dc_case) : bool :=
  match c with DC x y eq => Bool.eqb (desc_eq x y) eq end.
