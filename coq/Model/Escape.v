(* Model of internal.EscapeBytes (internal/util.go), linker.unescape (linker/descriptors.go)
   and of the protobuf-go text-format string decoder that the Go runtime uses for bytes
   defaults (internal/encoding/text/decode_string.go parseString, reached through
   defval.unmarshalBytes).  Definitions only; proofs are in Proofs/Escape.v. *)
From Coq Require Import List NArith Bool.
From PV Require Import Common.Bytes.
Import ListNotations.
Open Scope N_scope.

(* ---- EscapeBytes ---- *)
Definition escape_byte (c : N) : list N :=
  if c =? 10 then [92; 110]
  else if c =? 13 then [92; 114]
  else if c =? 9 then [92; 116]
  else if c =? 34 then [92; 34]
  else if c =? 39 then [92; 39]
  else if c =? 92 then [92; 92]
  else if (32 <=? c) && (c <? 127) then [c]
  else [92; 48 + (c / 64) mod 8; 48 + (c / 8) mod 8; 48 + c mod 8].

Definition escape_bytes (b : list N) : list N := flat_map escape_byte b.

(* ---- unescape ---- *)
Definition is_octal (c : N) : bool := (48 <=? c) && (c <=? 55).
Definition is_hex (c : N) : bool :=
  ((48 <=? c) && (c <=? 57)) || ((97 <=? c) && (c <=? 102)) || ((65 <=? c) && (c <=? 70)).
Definition digit_val (c : N) : N :=
  if c <=? 57 then c - 48 else if c <=? 70 then c - 55 else c - 87.
Definition parse_digits (base : N) (ds : list N) : N :=
  fold_left (fun a c => a * base + digit_val c) ds 0.

Fixpoint match_prefix (s : list N) (limit : nat) (fn : N -> bool) {struct limit} : nat :=
  match limit, s with
  | S l, c :: r => if fn c then S (match_prefix r l fn) else O
  | _, _ => O
  end.

Definition simple_escape (e : N) : option N :=
  if e =? 97 then Some 7 else if e =? 98 then Some 8 else if e =? 102 then Some 12
  else if e =? 110 then Some 10 else if e =? 114 then Some 13 else if e =? 116 then Some 9
  else if e =? 118 then Some 11
  else if (e =? 92) || (e =? 39) || (e =? 34) || (e =? 63) then Some e
  else None.

(* one iteration of the loop on the non-empty input c :: rest: (bytes appended, remaining input) *)
Definition unescape_step (c : N) (rest : list N) : list N * list N :=
  match rest with
  | [] => ([c], [])
  | e :: r2 =>
    if negb (c =? 92) then ([c], rest)
    else if (e =? 120) || (e =? 88) then
      match match_prefix r2 2 is_hex with
      | O => ([c; e], r2)
      | n => ([parse_digits 16 (firstn n r2)], skipn n r2)
      end
    else if is_octal e then
      let n := S (match_prefix r2 2 is_octal) in
      let v := parse_digits 8 (firstn n rest) in
      ((if 255 <? v then c :: firstn n rest else [v]), skipn n rest)
    else if e =? 117 then
      if Nat.ltb (length rest) 5 then (c :: rest, [])
      else let ds := firstn 4 r2 in
           ((if forallb is_hex ds then encode_rune (parse_digits 16 ds) else c :: e :: ds),
            skipn 4 r2)
    else if e =? 85 then
      if Nat.ltb (length rest) 9 then (c :: rest, [])
      else let ds := firstn 8 r2 in
           ((if forallb is_hex ds && (parse_digits 16 ds <=? 1114111)
             then encode_rune (parse_digits 16 ds) else c :: e :: ds),
            skipn 8 r2)
    else match simple_escape e with
         | Some v => ([v], r2)
         | None => ([c; e], r2)
         end
  end.

Fixpoint unescape_fuel (fuel : nat) (s : list N) : option (list N) :=
  match s with
  | [] => Some []
  | c :: rest =>
    match fuel with
    | O => None
    | S f => let '(chunk, rem) := unescape_step c rest in
             option_map (app chunk) (unescape_fuel f rem)
    end
  end.

(* None = out of fuel; Proofs/Escape.v shows length s always suffices *)
Definition unescape (s : list N) : option (list N) := unescape_fuel (length s) s.

(* ---- Go runtime: text.UnmarshalString ("\"" + s + "\"") on ASCII input ---- *)
Inductive rt_res := RtOk (out : list N) | RtErr | RtUnmodelled.

Definition rt_map (f : list N -> list N) (r : rt_res) : rt_res :=
  match r with RtOk l => RtOk (f l) | x => x end.

Definition rt_simple (e : N) : option N :=
  if (e =? 34) || (e =? 39) || (e =? 92) || (e =? 63) then Some e
  else if e =? 97 then Some 7 else if e =? 98 then Some 8 else if e =? 110 then Some 10
  else if e =? 114 then Some 13 else if e =? 116 then Some 9 else if e =? 118 then Some 11
  else if e =? 102 then Some 12 else None.

Fixpoint rt_unescape_fuel (fuel : nat) (s : list N) : rt_res :=
  match s with
  | [] => RtOk []                                   (* the closing quote *)
  | c :: rest =>
    match fuel with
    | O => RtUnmodelled
    | S f =>
      if 128 <=? c then RtUnmodelled                (* non-ASCII: UTF-8 validation not modelled *)
      else if (c =? 0) || (c =? 10) then RtErr
      else if c =? 34 then RtOk []                  (* an unescaped quote ends the string *)
      else if negb (c =? 92) then rt_map (cons c) (rt_unescape_fuel f rest)
      else match rest with
           | [] => RtErr                            (* the closing quote is escaped: unexpected EOF *)
           | e :: r2 =>
             match rt_simple e with
             | Some v => rt_map (cons v) (rt_unescape_fuel f r2)
             | None =>
               if is_octal e then
                 let n := S (match_prefix r2 2 is_octal) in
                 let v := parse_digits 8 (firstn n rest) in
                 if 255 <? v then RtErr else rt_map (cons v) (rt_unescape_fuel f (skipn n rest))
               else if e =? 120 then
                 match match_prefix r2 2 is_hex with
                 | O => RtErr
                 | n => rt_map (cons (parse_digits 16 (firstn n r2))) (rt_unescape_fuel f (skipn n r2))
                 end
               else if (e =? 117) || (e =? 85) then RtUnmodelled
               else RtErr
             end
           end
    end
  end.

Definition rt_unescape (s : list N) : rt_res := rt_unescape_fuel (length s) s.


(* ---- correspondence: what the harness observed on the implementation, checked against the model ---- *)
From PV Require Import Common.Corr.
Inductive esc_case :=
| CB (b esc unesc : list N)                 (* EscapeBytes b = esc, unescape esc = unesc *)
| CR (s unesc : list N)                     (* unescape s = unesc, arbitrary s *)
| CT (s : list N) (ok : bool) (out : list N)  (* Go runtime reading of default_value s *).

Definition esc_chk (c : esc_case) : bool :=
  match c with
  | CB b esc un => list_N_eqb (escape_bytes b) esc && opt_list_N_eqb (unescape esc) (Some un)
  | CR s un => opt_list_N_eqb (unescape s) (Some un)
  | CT s ok out =>
    match rt_unescape s with
    | RtOk l => ok && list_N_eqb l out
    | RtErr => negb ok
    | RtUnmodelled => true
    end
  end.
