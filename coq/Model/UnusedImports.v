(* Model of the unused-import bookkeeping of linker/resolve.go: the marking of usedImports inside
   resolveInFile, and CheckForUnusedImports.  Definitions only.

   It is built on Model/Visibility.v (C18: the traversal resolveInFile performs, with the checked
   list and publicImportsOnly) and on Model/Resolve.v (C15: what one file answers to a name,
   resolve_element_in_file with the package-namespace sentinel, and the scoping algorithm).

   The rule mirrored here, as it is in the code:
     - resolveInFile(f, false, ...) first asks the file f itself; a hit there marks nothing;
     - otherwise it walks f.Imports() in declaration order and descends (publicImportsOnly = true)
       into each one; the first import whose subtree answers is the one through which the element
       is found; if that import is not public and f is the file being linked, its path is marked;
     - a public import of f is never marked, and never warned about;
     - every lookup the linker and the option interpreter make for the file goes through this
       function and marks: resolveElement (with the package-namespace sentinel as a possible
       answer) and the fileResolver lookups of the interpreter (no sentinel);
     - CheckForUnusedImports warns, in dependency order, about every dependency that is neither
       marked nor public.

   A reference of the file (a field type, an extendee, ...) is a small program that asks a
   sequence of such lookups, each depending on the earlier answers (prog below); the programs of
   result.resolve are written out at the end and Proofs/UnusedImports.v shows that, read as pure
   functions, they are go_resolve of Model/Resolve.v. *)
From Coq Require Import List NArith ZArith Bool Arith.
Import ListNotations.
From PV Require Import Model.Visibility Model.Resolve.

(* the import graph (Visibility) plus what every file holds (Resolve.file: package + symbols) *)
Record world := mkW { w_G : graph; w_tab : list (N * file) }.

Fixpoint tab_find (t : list (N * file)) (p : N) : option file :=
  match t with
  | [] => None
  | (q, rf) :: r => if N.eqb q p then Some rf else tab_find r p
  end.

(* the three kinds of lookup:
   QElem  result.resolveElement: one leading dot stripped, resolveElementInFile in every file
          (descriptor, or the sentinel when the name is a package prefix of that file);
   QSelf  the querySymbol of messageScope: resolveElementInFile on the file itself only;
   QDesc  fileResolver.FindDescriptorByName / FindExtensionByName / FindMessageByName used by the
          option interpreter: descriptor only, no sentinel *)
Inductive qmode := QElem | QSelf | QDesc.

Definition answer_in (m : qmode) (n : name) (rf : file) : gres :=
  match m with
  | QDesc => match find_desc rf n with Some k => GDesc (trim_dot n) k | None => GNil end
  | _ => resolve_element_in_file n rf
  end.

Definition enc (g : gres) : option N :=
  match g with GNil => None | GDesc _ _ => Some 0%N | GSentinel _ => Some 1%N end.

(* the fn handed to resolveInFile; it looks at a file only through its path *)
Definition lookup_fn (W : world) (m : qmode) (n : name) (vf : vfile) : option N :=
  match tab_find (w_tab W) (vf_path vf) with
  | Some rf => enc (answer_in m n rf)
  | None => None
  end.

(* ---- resolveInFile at the top level (f is the file being linked, publicImportsOnly = false,
   checked = []), together with the path it marks.  fuel is the fuel of the nested visits. ---- *)
Fixpoint top_loop (G : graph) (fn : vfile -> option N) (fuel : nat) (self : N)
         (imps : list (N * bool)) : vres * option N :=
  match imps with
  | [] => (VNotFound, None)
  | (p, isPublic) :: r =>
    match find_file G p with
    | None => (VPanic, None)
    | Some g =>
      match visit G fn fuel true [self] g with
      | VNotFound => top_loop G fn fuel self r                         (* continue *)
      | VFound a e => (VFound a e, if isPublic then None else Some p)  (* markUsed(imp.Path()) *)
      | other => (other, None)
      end
    end
  end.

Definition resolve_mark (G : graph) (fn : vfile -> option N) (f : vfile) : vres * option N :=
  match fn f with
  | Some e => (VFound (vf_path f) e, None)                             (* found it in f itself *)
  | None => top_loop G fn (length G) (vf_path f) (vf_imports f)
  end.

Definition qname (m : qmode) (n : name) : name := match m with QElem => trim_dot n | _ => n end.

Definition ask (W : world) (f : vfile) (m : qmode) (n : name) : vres * option N :=
  match m with
  | QSelf => (match lookup_fn W QSelf n f with Some e => VFound (vf_path f) e | None => VNotFound end, None)
  | _ => resolve_mark (w_G W) (lookup_fn W m (qname m n)) f
  end.

(* the descriptor (or sentinel) behind an answer *)
Definition gres_of (W : world) (m : qmode) (n : name) (v : vres) : gres :=
  match v with
  | VFound p _ => match tab_find (w_tab W) p with Some rf => answer_in m (qname m n) rf | None => GNil end
  | _ => GNil
  end.

(* ---- references as programs of lookups ---- *)
Inductive prog := Ret (r : gres) | Ask (m : qmode) (n : name) (k : gres -> prog).

Record event := mkEv { ev_mode : qmode; ev_name : name; ev_res : vres; ev_mark : option N }.

Fixpoint run (W : world) (f : vfile) (p : prog) : gres * list event :=
  match p with
  | Ret r => (r, [])
  | Ask m n k =>
    let a := ask W f m n in
    let rest := run W f (k (gres_of W m n (fst a))) in
    (fst rest, mkEv m n (fst a) (snd a) :: snd rest)
  end.

Definition marks_of (tr : list event) : list N :=
  flat_map (fun e => match ev_mark e with Some p => [p] | None => [] end) tr.

(* r.usedImports after all references of the file have been resolved *)
Definition used (W : world) (f : vfile) (refs : list prog) : list N :=
  flat_map (fun p => marks_of (snd (run W f p))) refs.

(* CheckForUnusedImports: in dependency order, every dependency that is not marked and not public *)
Definition warned_list (W : world) (f : vfile) (refs : list prog) : list N :=
  map fst (filter (fun pi => negb (memN (fst pi) (used W f refs)) && negb (snd pi)) (vf_imports f)).

Definition warned (W : world) (f : vfile) (refs : list prog) (i : N) : Prop :=
  In i (warned_list W f refs).

(* ---- removing an import statement from the file ---- *)
Definition remove_import (i : N) (f : vfile) : vfile :=
  mkV (vf_path f) (filter (fun pi => negb (N.eqb (fst pi) i)) (vf_imports f)) (vf_names f) (vf_exts f)
      (filter (fun p => negb (N.eqb p i)) (vf_weak f)).

(* what a reference resolves to: its result and, for every lookup it made, which file answered
   with which element (the marks are bookkeeping, not part of it) *)
Definition outcome (r : gres * list event) : gres * list (qmode * name * vres) :=
  (fst r, map (fun e => (ev_mode e, ev_name e, ev_res e)) (snd r)).

Definition removable (W : world) (f : vfile) (refs : list prog) (i : N) : Prop :=
  forall p, In p refs -> outcome (run W (remove_import i f) p) = outcome (run W f p).

(* the imports through which a lookup can be answered, and the guard of the partial theorem:
   no lookup made by a reference is answered through two different imports *)
Definition provides (G : graph) (fn : vfile -> option N) (fuel : nat) (self : N) (pi : N * bool) : bool :=
  match find_file G (fst pi) with
  | Some g => match visit G fn fuel true [self] g with VFound _ _ => true | _ => false end
  | None => false
  end.

Definition providers (W : world) (f : vfile) (m : qmode) (n : name) : list (N * bool) :=
  match m with
  | QSelf => []
  | _ => filter (provides (w_G W) (lookup_fn W m (qname m n)) (length (w_G W)) (vf_path f)) (vf_imports f)
  end.

Fixpoint unique_along (W : world) (f : vfile) (p : prog) : Prop :=
  match p with
  | Ret _ => True
  | Ask m n k =>
    (length (providers W f m n) <= 1)%nat /\ unique_along W f (k (gres_of W m n (fst (ask W f m n))))
  end.

Definition unique_providers (W : world) (f : vfile) (refs : list prog) : Prop :=
  forall p, In p refs -> unique_along W f p.

(* ---- the programs of result.resolve (linker/resolve.go), in the shape of Model/Resolve.v ---- *)
Fixpoint bind (p : prog) (k : gres -> prog) : prog :=
  match p with
  | Ret r => k r
  | Ask m n k' => Ask m n (fun g => bind (k' g) k)
  end.

(* resolveElementRelative *)
Definition rer_prog (m : qmode) (firstName fullName : name) : prog :=
  Ask m firstName (fun d =>
    match d with
    | GNil => Ret GNil
    | _ =>
      if name_eqb firstName fullName then Ret d
      else if negb (is_aggregate_g d) then Ret GNil
      else Ask m fullName (fun d' => match d' with GNil => Ret (GSentinel fullName) | _ => Ret d' end)
    end).

Definition file_scope_step_prog (prefix firstName fullName : name) : prog :=
  if is_nil prefix
  then rer_prog QElem fullName fullName
  else rer_prog QElem (prefix ++ dot :: firstName) (prefix ++ dot :: fullName).

Fixpoint file_scope_loop_skip_prog (prefixes : list name) (firstName fullName : name)
         (skipNonTypes : bool) (bestGuess : gres) : prog :=
  match prefixes with
  | [] => Ret bestGuess
  | p :: r =>
    bind (file_scope_step_prog p firstName fullName) (fun d =>
      match d with
      | GNil => file_scope_loop_skip_prog r firstName fullName skipNonTypes bestGuess
      | _ =>
        if negb skipNonTypes || is_type_g d then Ret d
        else file_scope_loop_skip_prog r firstName fullName skipNonTypes
                                       (match bestGuess with GNil => d | _ => bestGuess end)
      end)
  end.

Definition run_scope_skip_prog (pkg : name) (sc : scope) (firstName fullName : name) (skipNonTypes : bool) : prog :=
  match sc with
  | ScFile => file_scope_loop_skip_prog (create_prefix_list pkg) firstName fullName skipNonTypes GNil
  | ScMsg m => rer_prog QSelf (m ++ dot :: firstName) (m ++ dot :: fullName)
  | ScPrefix p => file_scope_step_prog p firstName fullName
  end.

Fixpoint resolve_loop_skip_prog (pkg : name) (firstName nm : name) (onlyTypes : bool)
         (scopes_inner_first : list scope) (best : gres) : prog :=
  match scopes_inner_first with
  | [] => Ret best
  | sc :: r =>
    bind (run_scope_skip_prog pkg sc firstName nm (onlyTypes && name_eqb firstName nm)) (fun d =>
      match d with
      | GNil => resolve_loop_skip_prog pkg firstName nm onlyTypes r best
      | _ =>
        if negb onlyTypes || is_type_g d || negb (name_eqb firstName nm) then Ret d
        else resolve_loop_skip_prog pkg firstName nm onlyTypes r (match best with GNil => d | _ => best end)
      end)
  end.

Definition go_resolve_prog (pkg : name) (path : list name) (nm : name) (onlyTypes : bool) : prog :=
  if starts_with_dot nm then Ask QElem (tl nm) Ret
  else resolve_loop_skip_prog pkg (first_name nm) nm onlyTypes
                              (rev (ScFile :: map ScMsg (msg_fqns pkg path))) GNil.

(* reading a program as a pure function of the three lookups *)
Fixpoint interp (qa qs qd : name -> gres) (p : prog) : gres :=
  match p with
  | Ret r => r
  | Ask m n k => interp qa qs qd (k (match m with QElem => qa n | QSelf => qs n | QDesc => qd n end))
  end.

(* ---- the references of a file, by channel ----
   RType   a field or extension type: resolve(name, onlyTypes = true) in the scopes of the
           enclosing messages [path];
   RName   an extendee, an rpc request or response type: resolve(name, false);
   RExt    an extension name in an option name (scopes of the element) or inside a message literal
           (path = [], file scope only): resolveExtensionName = resolve(name, false); when it is an
           extension, the interpreter later looks its full name up through the fileResolver;
   RDesc   a fileResolver lookup of the interpreter by full name: the options message type
           google.protobuf.XxxOptions of every element that carries an option, the message behind
           an Any type URL in a message literal, the enum of a field with a default *)
Inductive ref :=
| RType (path : list name) (nm : name)
| RName (path : list name) (nm : name)
| RExt (path : list name) (nm : name)
| RDesc (n : name).

Definition ref_prog (pkg : name) (r : ref) : prog :=
  match r with
  | RType path nm => go_resolve_prog pkg path nm true
  | RName path nm => go_resolve_prog pkg path nm false
  | RExt path nm =>
    bind (go_resolve_prog pkg path nm false) (fun g =>
      match g with
      | GDesc n KExtension => Ask QDesc n Ret
      | _ => Ret g
      end)
  | RDesc n => Ask QDesc n Ret
  end.

(* ---- correspondence ---- *)
From PV Require Import Common.Corr.

(* names are written by the plugin as one number, little-endian base 256 (no byte of a name is 0) *)
Fixpoint nm_fuel (fuel : nat) (x : N) : name :=
  match fuel with
  | O => []
  | S k => if N.eqb x 0 then [] else N.modulo x 256 :: nm_fuel k (N.div x 256)
  end.
Definition nm (x : N) : name := nm_fuel 80 x.

(* UC world root references observed-warnings: the paths CheckForUnusedImports reported for the
   explicitly requested file [root], in the order reported *)
Inductive ui_case := UC (W : world) (root : N) (refs : list ref) (observed : list N).

Definition root_pkg (W : world) (root : N) : name :=
  match tab_find (w_tab W) root with Some rf => f_pkg rf | None => [] end.

Definition model_warned (W : world) (root : N) (refs : list ref) : option (list N) :=
  match find_file (w_G W) root with
  | Some f => Some (warned_list W f (map (ref_prog (root_pkg W root)) refs))
  | None => None
  end.

Definition ui_chk (c : ui_case) : bool :=
  match c with
  | UC W root refs obs =>
    graph_ok (w_G W) &&
    match model_warned W root refs with
    | Some l => list_N_eqb l obs
    | None => false
    end
  end.

(* why a non-public import is not warned about, for labelling what the direct oracle finds:
   0  it is not marked at all (the model warns about it)
   1  marked only by fileResolver lookups of google.protobuf.*Options message types
   2  every lookup that marks it is also answered through another import (it is merely the first)
   3  some lookup is answered through this import alone *)
Definition is_options_type (n : name) : bool :=
  has_prefix (trim_dot n) [103;111;111;103;108;101;46;112;114;111;116;111;98;117;102;46]%N.

Definition ev_class (W : world) (f : vfile) (i : N) (e : event) : N :=
  match ev_mark e with
  | Some p =>
    if N.eqb p i then
      (match ev_mode e with
       | QDesc => if is_options_type (ev_name e) then 1 else
                  if (2 <=? length (providers W f (ev_mode e) (ev_name e)))%nat then 2 else 3
       | _ => if (2 <=? length (providers W f (ev_mode e) (ev_name e)))%nat then 2 else 3
       end)%N
    else 0%N
  | None => 0%N
  end.

Definition explain (W : world) (root : N) (refs : list ref) (i : N) : N :=
  match find_file (w_G W) root with
  | Some f =>
    fold_left N.max
      (flat_map (fun r => map (ev_class W f i) (snd (run W f (ref_prog (root_pkg W root) r)))) refs) 0%N
  | None => 0%N
  end.

Inductive ex_case := XC (W : world) (root : N) (refs : list ref) (i : N) (cls : N).
Definition ex_chk (c : ex_case) : bool :=
  match c with XC W root refs i cls => N.eqb (explain W root refs i) cls end.
