(* C39 - model of Decimal.Float64 AFTER the proposed repair of internal/decimal/float.go:
     - table entry pow5s[23] corrected (the tables are still read from Model/DecFloatTables.v),
     - the fast path is taken only in base 2 (one Ldexp) or in base 10 for -22 <= exp <= 22
       (Clinger: exact mantissa, exact power of five, one rounding), everything else goes through
       strconv.ParseFloat, base 2 as a hex float 0x<hex>p<exp>,
     - exact is computed: base 10 by exactPow10 (divisibility by 5^-exp, or the odd part of
       w * 5^exp fits 53 bits), base 2 by exp + TrailingZeros64(w) >= -1074; false on the strconv path.
   Definitions only; pow5, of_uint64, f_ldexp, the Decimal record and its value are those of Model/DecFloat.v. *)
From Coq Require Import ZArith NArith List Bool Reals.
From Flocq Require Import Core.Core IEEE754.BinarySingleNaN.
From PV Require Import Common.Corr Model.DecFloatTables Model.DecFloat.
Import ListNotations.
Open Scope Z_scope.

(* bits.TrailingZeros64(w) and w >> bits.TrailingZeros64(w), for w <> 0 *)
Fixpoint pos_ctz (p : positive) : Z := match p with xO q => 1 + pos_ctz q | _ => 0 end.
Fixpoint pos_odd (p : positive) : positive := match p with xO q => pos_odd q | _ => p end.
Definition ctz (w : N) : Z := match w with N0 => 64 | Npos p => pos_ctz p end.
Definition oddpart (w : N) : N := match w with N0 => 0%N | Npos p => Npos (pos_odd p) end.

(* uint64(f) for a non-negative float64 with an integer value below 2^64: truncation *)
Definition trunc_f64 (f : f64) : Z :=
  match f with
  | B754_finite false m e _ => if 0 <=? e then Zpos m * 2 ^ e else Zpos m / 2 ^ (- e)
  | _ => 0
  end.

Definition max_exact_pow5 : Z := 22.
Definition min_subnormal_exp64 : Z := -1074.

(* func exactPow10(w uint64, exp int) bool *)
Definition exact_pow10 (w : N) (e : Z) : bool :=
  let p := trunc_f64 (tab pow5s (Z.max e (- e))) in
  if e <? 0 then Z.of_N w mod p =? 0
  else Z.of_N (oddpart w) * p <=? Z.of_N max_mant64.    (* hi == 0 && lo <= maxMant64 *)

(* what is assumed of strconv.ParseFloat on <dec>e<n> (bin = false) and on 0x<hex>p<n> (bin = true) *)
Definition parse_float2_correct (pf : bool -> positive -> Z -> f64) : Prop :=
  forall (bin : bool) m e, correctly_rounded false (IZR (Zpos m) * bpow (if bin then radix2 else radix10) e)%R (pf bin m e).

Section WithParseFloat2.
Variable parse_float2 : bool -> positive -> Z -> f64.

Definition slow_fixed (d : decimal) : f64 :=
  parse_float2 (d_bin d) (pos_of (Z.of_N (d_mant d))) (d_e d).

Definition float64_abs_fixed (d : decimal) : f64 * bool :=
  let w := d_mant d in
  if (w =? 0)%N then (f_pzero, true)
  else if (w <? 2 ^ 64)%N then
    let v := of_uint64 w in
    let exact := (w <=? max_mant64)%N in
    let e := d_e d in
    if e =? 0 then (v, exact)
    else if exact && (d_bin d || ((- max_exact_pow5 <=? e) && (e <=? max_exact_pow5))) then
      if d_bin d then (f_ldexp v e, min_subnormal_exp64 <=? e + ctz w)
      else (f_ldexp (pow5 v e) e, exact_pow10 w e)
    else (slow_fixed d, false)
  else (slow_fixed d, false).

Definition float64_fixed (d : decimal) : f64 * bool :=
  let '(v, exact) := float64_abs_fixed d in
  ((if d_neg d then f_neg v else v), exact && is_finite v).

End WithParseFloat2.

(* a concrete correctly rounding reader for both spellings *)
Definition ref_parse_float2 (bin : bool) (m : positive) (e : Z) : f64 :=
  if bin then binary_normalize prec emax Hprec Hmax NE (Zpos m) e false else ref_parse_float m e.

(* correspondence: same observations as for the pinned model *)
Definition decfix_chk (c : dec_case) : bool :=
  match c with
  | CNum neg bin mant exp bits exact =>
    let '(v, ex) := float64_fixed ref_parse_float2 {| d_neg := neg; d_bin := bin; d_mant := mant; d_exp := exp |} in
    (bits_of v =? bits)%N && Bool.eqb ex exact
  | _ => dec_chk c
  end.
