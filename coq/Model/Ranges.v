(* C04 - the Has method of the range views.
   Linker side (linker/descriptors.go): fieldRanges.Has and enumRanges.Has scan the ranges in DECLARATION
   order (the order of the descriptor proto) and compare with the bounds as stored: field ranges are
   half-open (start inclusive, end exclusive), enum ranges are closed.
   Runtime side (protobuf-go internal/filedesc/desc_list.go): FieldRanges.Has and EnumRanges.Has copy the
   list, sort the copy by start (lazyInit) and run a binary search that halves the slice, comparing with
   Start() and End() (End() = end - 1 for field ranges).
   Definitions only; the agreement is proved in Proofs/Ranges.v. *)
From Coq Require Import List ZArith Bool.
Import ListNotations.
Open Scope Z_scope.

(* a range as stored in the descriptor proto: (start, end) *)
Definition range := (Z * Z)%type.

(* incl = true: enum ranges (end inclusive); incl = false: field ranges (end exclusive) *)
Definition r_start (r : range) : Z := fst r.
Definition r_last (incl : bool) (r : range) : Z := if incl then snd r else snd r - 1.

(* ---- linker: for _, r := range f.ranges { if r[0] <= n && r[1] > n { return true } }; return false
        (enum ranges: r[0] <= n && r[1] >= n) *)
Definition lk_in (incl : bool) (r : range) (n : Z) : bool :=
  if incl then (fst r <=? n) && (snd r >=? n) else (fst r <=? n) && (snd r >? n).

Fixpoint lk_has (incl : bool) (rs : list range) (n : Z) : bool :=
  match rs with
  | [] => false
  | r :: rest => if lk_in incl r n then true else lk_has incl rest n
  end.

(* ---- runtime: sorted copy (sort.Slice by start; the starts of a valid list are distinct, so the
        result does not depend on the sorting algorithm: insertion sort here) *)
Fixpoint insert_by_start (r : range) (l : list range) : list range :=
  match l with
  | [] => [r]
  | x :: rest => if r_start r <=? r_start x then r :: x :: rest else x :: insert_by_start r rest
  end.

Fixpoint sort_by_start (l : list range) : list range :=
  match l with
  | [] => []
  | x :: rest => insert_by_start x (sort_by_start rest)
  end.

(* for ls := sorted; len(ls) > 0; { i := len(ls)/2; switch r := ls[i]; { case n < r.Start(): ls = ls[:i]
   case n > r.End(): ls = ls[i+1:]  default: return true } }; return false.
   The loop is bounded by fuel; None = out of fuel (never with fuel = length, see Proofs/Ranges.v). *)
Fixpoint rt_search (incl : bool) (fuel : nat) (ls : list range) (n : Z) {struct fuel} : option bool :=
  match ls with
  | [] => Some false
  | _ :: _ =>
      match fuel with
      | O => None
      | S k =>
          let i := Nat.div2 (length ls) in
          match nth_error ls i with
          | None => None
          | Some r =>
              if n <? r_start r then rt_search incl k (firstn i ls) n
              else if n >? r_last incl r then rt_search incl k (skipn (S i) ls) n
              else Some true
          end
      end
  end.

Definition rt_has (incl : bool) (rs : list range) (n : Z) : option bool :=
  rt_search incl (length rs) (sort_by_start rs) n.

(* ---- the declarative meaning: n lies in one of the ranges *)
Definition in_range (incl : bool) (r : range) (n : Z) : Prop := r_start r <= n <= r_last incl r.
Definition has_spec (incl : bool) (rs : list range) (n : Z) : Prop := exists r, In r rs /\ in_range incl r n.

(* what both the compiler and the runtime enforce on an accepted message / enum: every range is non-empty
   and two ranges of the list are the same range or do not overlap (any declaration order) *)
Definition nonempty (incl : bool) (r : range) : Prop := r_start r <= r_last incl r.
Definition disjoint (incl : bool) (a b : range) : Prop := r_last incl a < r_start b \/ r_last incl b < r_start a.
Definition ranges_valid (incl : bool) (rs : list range) : Prop :=
  Forall (nonempty incl) rs /\ forall a b, In a rs -> In b rs -> a = b \/ disjoint incl a b.

(* boolean version of the guard, evaluated on every observed list by the correspondence *)
Definition nonempty_b (incl : bool) (r : range) : bool := r_start r <=? r_last incl r.
Definition disjoint_b (incl : bool) (a b : range) : bool := (r_last incl a <? r_start b) || (r_last incl b <? r_start a).
Definition range_eqb (a b : range) : bool := (fst a =? fst b) && (snd a =? snd b).
Definition ranges_valid_b (incl : bool) (rs : list range) : bool :=
  forallb (nonempty_b incl) rs
  && forallb (fun a => forallb (fun b => range_eqb a b || disjoint_b incl a b) rs) rs.
