(* Model of the comment handling behind source code info (property C03, reused by C23):
     - the gap abstraction: what lies between two consecutive non-comment tokens;
     - phase 1, parser/lexer.go: maybeNewLine (the maybeDonateComment counter), addComment,
       setPrevAndAddComments (donation of the first comment to the previous token, canDonate);
     - phase 2, sourceinfo/source_code_info.go: groupComments, attributeComments, maybeDonate,
       maybeAttach, combineComments (line comments: trailing-newline rule; block comments: split at
       newlines, strip blanks, tabs and one asterisk from every line but the first),
       newLocWithGivenComments with the commentsUsed map, makeSpan, the mode flags.
   The model follows the Go code as it is at the pinned commit.  Definitions only; proofs are in
   Proofs/Comments.v.

   Gap abstraction.  Between two consecutive tokens the source consists of whitespace and comments.
   Bytes 9, 11, 12, 13, 32 carry no information for either algorithm (the Go code only looks at line
   numbers, protoc skips them wherever it looks) and are dropped.  What remains is
       g_pre newlines, comment, newlines, comment, newlines, ..., comment, newlines
   and every comment is kept together with the number of newlines that follow it (u_nls).  Lines are
   counted relative to the line on which the previous token ends (line 0); tokens never span lines. *)
From Coq Require Import List NArith ZArith Bool Arith.
From PV Require Import Common.Bytes Common.Corr Model.Lexer.
Import ListNotations.
Open Scope N_scope.

(* ---- gaps ---- *)
Record cunit := mkunit {
  u_blk : bool;           (* true: a block comment, false: a line comment *)
  u_text : list N;        (* line comment: the bytes after the two slashes up to the newline (excluded);
                             block comment: the bytes between the opening and the closing delimiter *)
  u_nls : nat             (* newlines between this comment and the next comment or token *)
}.

Inductive nextk :=
| NEof                    (* the end of the file (RawText is empty) *)
| NCloser                 (* one of  } ] )  *)
| NSep                    (* one of  , ;  *)
| NOther.

Record gap := mkgap {
  g_prev : bool;          (* there is a previous token (false: the gap starts the file) *)
  g_pre : nat;            (* newlines before the first comment, or before the next token if there is none *)
  g_units : list cunit;
  g_next : nextk
}.

(* The model is the code as it is for cfg_repaired: the three flags stand for the three repairs that went
   into the repository (fix: commits e67d3d01, 574d1b31, 1915eb6c); cfg_pinned is the code before them,
   kept for the refutations in Props/C03.v:
     fix_ws:    combineComments also strips carriage return, vertical tab and form feed at the start of the
                lines of a block comment (protoc's WhitespaceNoNewline)
     fix_empty: newLocWithGivenComments does not set a leading / trailing comment whose text is empty
     fix_sep:   maybeDonate treats comma and semicolon as the end of a scope only with extraComments *)
Record cfg := mkcfg { fix_ws : bool; fix_empty : bool; fix_sep : bool }.
Definition cfg_pinned : cfg := mkcfg false false false.
Definition cfg_repaired : cfg := mkcfg true true true.

Fixpoint count_nl (s : list N) : nat :=
  match s with
  | [] => O
  | c :: r => if c =? 10 then S (count_nl r) else count_nl r
  end.

(* newlines inside the comment itself *)
Definition u_k (u : cunit) : nat := if u_blk u then count_nl (u_text u) else O.

(* what the lexer can produce: a line comment runs to the end of its line, so it is followed by a
   newline unless it is the last thing in the file *)
Fixpoint wf_units (us : list cunit) (next : nextk) : Prop :=
  match us with
  | [] => True
  | u :: r =>
    (u_blk u = false -> u_nls u = O -> r = [] /\ next = NEof) /\ wf_units r next
  end.
Definition wf_gap (g : gap) : Prop := wf_units (g_units g) (g_next g).

(* ---- phase 1: parser/lexer.go ---- *)
(* a comment as phase 2 sees it: style, first and last line, position in the gap, the unit itself *)
Record lcm := mklcm { c_blk : bool; c_s : nat; c_e : nat; c_idx : nat; c_u : cunit }.

(* l.curLine (relative to l.prevLine = 0), l.maybeDonateComment, l.comments *)
Record lexst := mklexst { l_cur : nat; l_md : nat; l_cms : list lcm }.

Definition first_is_block (cms : list lcm) : bool :=
  match cms with c :: _ => c_blk c | [] => false end.

(* maybeNewLine on a newline *)
Definition maybe_newline (st : lexst) : lexst :=
  {| l_cur := S (l_cur st);
     l_md := if first_is_block (l_cms st) && Nat.ltb 0 (l_md st) then S (l_md st) else l_md st;
     l_cms := l_cms st |}.

Fixpoint newlines (n : nat) (st : lexst) : lexst :=
  match n with O => st | S m => newlines m (maybe_newline st) end.

(* addComment(isBlock, startLine) *)
Definition add_comment (st : lexst) (start : nat) (u : cunit) : lexst :=
  {| l_cur := l_cur st;
     l_md := match l_cms st with
             | [] => if Nat.eqb start 0 then S (l_md st) else l_md st
             | _ => l_md st
             end;
     l_cms := l_cms st ++ [mklcm (u_blk u) start (l_cur st) (length (l_cms st)) u] |}.

(* one comment: startLine := l.curLine; skipToEnd...Comment (maybeNewLine on the newlines inside a block
   comment); addComment; then the whitespace newlines that follow *)
Definition lex_unit (st : lexst) (u : cunit) : lexst :=
  let start := l_cur st in
  newlines (u_nls u) (add_comment (newlines (u_k u) st) start u).

Definition lex_gap (g : gap) : lexst :=
  fold_left lex_unit (g_units g) (newlines (g_pre g) (mklexst 0 0 [])).

(* setPrevAndAddComments: (comments given to the previous token, comments given to the next token) *)
Definition set_prev (has_prev : bool) (next : nextk) (st : lexst) : list lcm * list lcm :=
  match l_cms st with
  | [] => ([], [])
  | c0 :: rest =>
    if negb has_prev then ([], l_cms st)
    else
      let cur := if Nat.eqb (l_cur st) 0 && (match next with NEof => true | _ => false end)
                 then S (l_cur st) else l_cur st in
      if Nat.ltb 0 cur && Nat.ltb 0 (l_md st) then
        let can_donate := negb (c_blk c0) || Nat.ltb 1 (length (l_cms st)) || Nat.ltb 1 (l_md st) in
        if can_donate then ([c0], rest) else ([], l_cms st)
      else ([], l_cms st)
  end.

(* ---- phase 2: sourceinfo/source_code_info.go ---- *)
(* groupComments: the loop over i = 1 .. with the running values singleLineStyle, line and the
   group cmts[start:i] collected so far *)
Fixpoint group_loop (single : bool) (line : nat) (grp : list lcm) (cs : list lcm) : list (list lcm) :=
  match cs with
  | [] => [grp]
  | c :: r =>
    let single' := negb (c_blk c) in
    if negb single' || negb (Bool.eqb single single') || Nat.ltb (line + 1) (c_s c)
    then grp :: group_loop single' (c_e c) [c] r
    else group_loop single' (c_e c) (grp ++ [c]) r
  end.

Definition group_comments (cs : list lcm) : list (list lcm) :=
  match cs with
  | [] => []
  | c :: r => group_loop (negb (c_blk c)) (c_e c) [c] r
  end.

Definition first_s (g : list lcm) : nat := match g with c :: _ => c_s c | [] => O end.
Definition last_e (g : list lcm) : nat := match rev g with c :: _ => c_e c | [] => O end.

(* txt == "" || (len(txt) == 1 && strings.ContainsAny(txt, closers)) *)
Definition is_closer_or_eof (cf : cfg) (extra : bool) (next : nextk) : bool :=
  match next with
  | NEof | NCloser => true
  | NSep => negb (fix_sep cf) || extra
  | NOther => false
  end.
Definition is_eof (next : nextk) : bool := match next with NEof => true | _ => false end.

(* maybeDonate(prevInfo, info, lead); pend = line on which the previous token ends (0), nstart = line of
   the next token *)
Definition maybe_donate (cf : cfg) (extra : bool) (nstart : nat) (next : nextk) (lead : list (list lcm))
  : list lcm * list (list lcm) :=
  match lead with
  | [] => ([], [])
  | g0 :: rest =>
    if Nat.ltb 1 (first_s g0) then ([], lead)                  (* Start().Line > prevInfo.End().Line+1 *)
    else match rest with
         | _ :: _ => (g0, rest)
         | [] =>
           if Nat.ltb (last_e g0 + 1) nstart then (g0, [])         (* End().Line < info.Start().Line-1 *)
           else if is_closer_or_eof cf extra next then
             if negb extra && negb (is_eof next) && Nat.eqb (first_s g0) 0 && Nat.eqb (last_e g0) nstart
             then ([], lead)
             else (g0, [])
           else ([], lead)
         end
  end.

(* maybeAttach(prevInfo, info, hasTrail, lead) *)
Definition maybe_attach (has_prev : bool) (nstart : nat) (has_trail : bool) (lead : list (list lcm))
  : list (list lcm) * list lcm :=
  match lead with
  | [] => ([], [])
  | _ =>
    let ambiguous :=
      match lead with
      | [g0] => negb has_trail && has_prev && Nat.eqb (first_s g0) 0 && Nat.eqb (last_e g0) nstart
      | _ => false
      end in
    if ambiguous then (lead, [])
    else
      let lastg := last lead [] in
      if Nat.leb nstart (last_e lastg + 1) then (removelast lead, lastg)   (* End().Line >= info.Start().Line-1 *)
      else (lead, [])
  end.

(* attributeComments(prevInfo, info) on the gap: (trailing of the previous token, detached, leading of the
   next token), each a group of comments *)
Definition go_roles (cf : cfg) (extra : bool) (g : gap) : list lcm * list (list lcm) * list lcm :=
  let st := lex_gap g in
  let nstart := l_cur st in
  let '(trail_lex, lead_lex) := set_prev (g_prev g) (g_next g) st in
  let detached := group_comments lead_lex in
  let '(trail, detached1) :=
    if g_prev g then
      match trail_lex with
      | [] => maybe_donate cf extra nstart (g_next g) detached
      | _ => (trail_lex, detached)
      end
    else ([], detached) in
  let '(detached2, lead) :=
    maybe_attach (g_prev g) nstart (match trail with [] => false | _ => true end) detached1 in
  (trail, detached2, lead).

(* ---- combineComments ---- *)
(* strings.Split(s, newline): never empty *)
Fixpoint split_nl (s : list N) : list (list N) :=
  match s with
  | [] => [[]]
  | c :: r =>
    if c =? 10 then [] :: split_nl r
    else match split_nl r with
         | l :: ls => (c :: l) :: ls
         | [] => [[c]]
         end
  end.

Definition is_blank_tab (cf : cfg) (c : N) : bool :=
  (c =? 32) || (c =? 9) || (fix_ws cf && ((c =? 13) || (c =? 11) || (c =? 12))).

(* the body of the loop over the lines after the first one: j counts blanks and tabs *)
Definition strip_line (cf : cfg) (l : list N) : list N :=
  let j := span (is_blank_tab cf) l in
  match skipn j l with
  | [] => []                                     (* j == len(l) *)
  | c :: r => if c =? 42 then r                  (* l[j] == '*' : l = l[j+1:] *)
              else skipn j l                      (* j > 0 : l = l[j:] ; j == 0 : unchanged *)
  end.

Definition go_block_text (cf : cfg) (t : list N) : list N :=
  match split_nl t with
  | first :: rest => first ++ flat_map (fun l => 10 :: strip_line cf l) rest
  | [] => []
  end.

(* one comment: txt[2:] plus a newline when the next item's leading whitespace starts with one, or the
   stripped lines of txt[2:len-2] *)
Definition go_ctext (cf : cfg) (u : cunit) : list N :=
  if u_blk u then go_block_text cf (u_text u)
  else u_text u ++ (if Nat.ltb 0 (u_nls u) then [10] else []).

Definition combine (cf : cfg) (grp : list lcm) : list N := flat_map (fun c => go_ctext cf (c_u c)) grp.

Definition nonempty {A} (l : list A) : bool := match l with [] => false | _ => true end.

(* what newLocWithGivenComments writes (before the commentsUsed filter): trailing, detached, leading *)
Definition comments_out := (option (list N) * list (list N) * option (list N))%type.

(* if comments.Len() > 0 { x = proto.String(combineComments(comments)) } *)
Definition set_field (cf : cfg) (grp : list lcm) : option (list N) :=
  if nonempty grp
  then (if fix_empty cf then (match combine cf grp with [] => None | s => Some s end) else Some (combine cf grp))
  else None.

Definition go_attribution_mode (cf : cfg) (extra : bool) (g : gap) : comments_out :=
  let '(t, d, l) := go_roles cf extra g in
  (set_field cf t, map (combine cf) d, set_field cf l).

(* standard source info: the code as it is, and the code before the three repairs *)
Definition go_attribution (g : gap) : comments_out := go_attribution_mode cfg_repaired false g.
Definition go_attribution_pinned (g : gap) : comments_out := go_attribution_mode cfg_pinned false g.

(* ---- locations: newLoc / newLocWithComments / newLocWithoutComments, commentsUsed, mode flags ---- *)
(* a comment is identified by the gap it is in and its position there (the Go code uses its SourcePos) *)
Definition cid := (nat * nat)%type.
Definition cid_eqb (a b : cid) : bool := Nat.eqb (fst a) (fst b) && Nat.eqb (snd a) (snd b).
Definition ids (gi : nat) (grp : list lcm) : list cid := map (fun c => (gi, c_idx c)) grp.

Inductive rkind :=
| KWithout        (* newLocWithoutComments *)
| KPlain          (* newLoc: comments only with extraComments *)
| KFull.          (* newLocWithComments, newBlockLocWithComments *)

Record req := mkreq {
  r_kind : rkind;
  r_opt : bool;           (* issued by generateSourceInfoForOptionChildren: only with extraOptionLocs *)
  r_path : list Z;
  r_span : list Z;
  r_lead : nat;           (* index of the gap before the first token of the node *)
  r_trail : nat           (* index of the gap after its last token (after the open brace for a block) *)
}.

Record loc := mkloc {
  o_opt : bool; o_path : list Z; o_span : list Z;
  o_trail : list cid; o_det : list (list cid); o_lead : list cid
}.

Definition gap_at (gaps : list gap) (i : nat) : gap := nth i gaps (mkgap false 0 [] NEof).

(* commentUsed: looks the first comment of the group up and marks it *)
Definition comment_used (used : list cid) (grp : list cid) : bool * list cid :=
  match grp with
  | [] => (false, used)
  | c :: _ => if existsb (cid_eqb c) used then (true, used) else (false, c :: used)
  end.

(* newLocWithGivenComments *)
Definition with_given (used : list cid) (opt : bool) (path span : list Z)
           (t : list cid) (d : list (list cid)) (l : list cid) : loc * list cid :=
  let '(u1, used1) := match d with
                      | d0 :: _ => comment_used used d0
                      | [] => comment_used used l
                      end in
  let '(d', l') := if u1 then ([], []) else (d, l) in
  let '(u2, used2) := comment_used used1 t in
  let t' := if u2 then [] else t in
  (mkloc opt path span t' d' l', used2).

Definition gen_req (cf : cfg) (extra : bool) (gaps : list gap) (used : list cid) (r : req) : loc * list cid :=
  let plain := (mkloc (r_opt r) (r_path r) (r_span r) [] [] [], used) in
  let full :=
    let '(_, d, l) := go_roles cf extra (gap_at gaps (r_lead r)) in
    let '(t, _, _) := go_roles cf extra (gap_at gaps (r_trail r)) in
    with_given used (r_opt r) (r_path r) (r_span r) (ids (r_trail r) t)
               (map (ids (r_lead r)) d) (ids (r_lead r) l) in
  match r_kind r with
  | KWithout => plain
  | KPlain => if extra then full else plain
  | KFull => full
  end.

Fixpoint gen_locs (cf : cfg) (extra optlocs : bool) (gaps : list gap) (used : list cid) (rs : list req) : list loc :=
  match rs with
  | [] => []
  | r :: rest =>
    if r_opt r && negb optlocs then gen_locs cf extra optlocs gaps used rest
    else let '(o, used') := gen_req cf extra gaps used r in
         o :: gen_locs cf extra optlocs gaps used' rest
  end.

(* makeSpan on two positions (line, column), both counted from 1 *)
Definition make_span (s e : nat * nat) : list Z :=
  if Nat.eqb (fst s) (fst e)
  then [Z.of_nat (fst s) - 1; Z.of_nat (snd s) - 1; Z.of_nat (snd e) - 1]%Z
  else [Z.of_nat (fst s) - 1; Z.of_nat (snd s) - 1; Z.of_nat (fst e) - 1; Z.of_nat (snd e) - 1]%Z.

(* ---- from bytes to gaps: the text between two tokens, scanned with the comment scanners of
   Model/Lexer.v ---- *)
Inductive gtok := TNl | TCm (blk : bool) (text : list N).

Fixpoint gap_tokens (fuel : nat) (bs : list N) : option (list gtok) :=
  match fuel with
  | O => match bs with [] => Some [] | _ => None end
  | S f =>
    match bs with
    | [] => Some []
    | c :: r =>
      if c =? 10 then option_map (cons TNl) (gap_tokens f r)
      else if is_ws c then gap_tokens f r
      else if c =? 47 then
        match r with
        | d :: r2 =>
          if d =? 47 then
            match scan_line_comment r2 with
            | COk n => option_map (cons (TCm false (firstn n r2))) (gap_tokens f (skipn n r2))
            | _ => None
            end
          else if d =? 42 then
            match scan_block_comment r2 with
            | COk n => option_map (cons (TCm true (firstn (n - 2) r2))) (gap_tokens f (skipn n r2))
            | _ => None
            end
          else None
        | [] => None
        end
      else None
    end
  end.

Fixpoint leading_nls (ts : list gtok) : nat * list gtok :=
  match ts with
  | TNl :: r => let '(n, r') := leading_nls r in (S n, r')
  | _ => (O, ts)
  end.

Fixpoint units_of (fuel : nat) (ts : list gtok) : list cunit :=
  match fuel with
  | O => []
  | S f =>
    match ts with
    | [] => []
    | TNl :: r => units_of f r                       (* not reached: newlines are taken with their comment *)
    | TCm blk text :: r => let '(n, r') := leading_nls r in mkunit blk text n :: units_of f r'
    end
  end.

(* None: the bytes are not just whitespace and complete comments *)
Definition gap_of_bytes (has_prev : bool) (bs : list N) (next : nextk) : option gap :=
  match gap_tokens (length bs) bs with
  | None => None
  | Some ts => let '(pre, r) := leading_nls ts in
               Some (mkgap has_prev pre (units_of (length ts) r) next)
  end.

(* wf_gap as a boolean: the correspondence also checks that every gap cut out of a real file has the
   shape the theorems assume *)
Fixpoint wf_unitsb (us : list cunit) (next : nextk) : bool :=
  match us with
  | [] => true
  | u :: r =>
    (u_blk u || negb (Nat.eqb (u_nls u) 0) ||
     ((match r with [] => true | _ => false end) && (match next with NEof => true | _ => false end))) &&
    wf_unitsb r next
  end.
Definition wf_gapb (g : gap) : bool := wf_unitsb (g_units g) (g_next g).

(* ---- correspondence: what the harness observed on the implementation ---- *)
Definition olist_eqb (a b : option (list N)) : bool := opt_list_N_eqb a b.
Fixpoint llist_eqb (a b : list (list N)) : bool :=
  match a, b with
  | [], [] => true
  | x :: a', y :: b' => list_N_eqb x y && llist_eqb a' b'
  | _, _ => false
  end.

(* what the locations of one compiled file say about one gap *)
Inductive texp := TSkip | TIs (t : option (list N)).
Inductive dexp := DSkip | DIs (d : list (list N)) (l : option (list N)).

Record gcase := mkgcase {
  gc_cfg : cfg; gc_prev : bool; gc_bytes : list N; gc_next : nextk; gc_extra : bool;
  gc_t : texp; gc_dl : dexp;
  gc_lex : option (nat * nat)       (* the lexer's own attribution: comments given to the previous / next token *)
}.

Definition out_matches (o : comments_out) (t : texp) (dl : dexp) : bool :=
  let '(ot, od, ol) := o in
  (match t with TSkip => true | TIs x => olist_eqb ot x end) &&
  (match dl with DSkip => true | DIs d l => llist_eqb od d && olist_eqb ol l end).

Definition go_chk (c : gcase) : bool :=
  match gap_of_bytes (gc_prev c) (gc_bytes c) (gc_next c) with
  | None => false
  | Some g =>
    wf_gapb g &&
    out_matches (go_attribution_mode (gc_cfg c) (gc_extra c) g) (gc_t c) (gc_dl c) &&
    match gc_lex c with
    | None => true
    | Some (np, nn) =>
      let '(a, b) := set_prev (g_prev g) (g_next g) (lex_gap g) in
      Nat.eqb (length a) np && Nat.eqb (length b) nn
    end
  end.

(* ---- correspondence for spans (C23): makeSpan on the positions of the first and the last token of a
   location, and the well-formedness of the span the implementation wrote ---- *)
Definition span_okb (nlines : nat) (sp : list Z) : bool :=
  match sp with
  | [l; c; ec] => ((0 <=? l) && (l <? Z.of_nat nlines) && (0 <=? c) && (c <=? ec))%Z
  | [l; c; el; ec] => ((0 <=? l) && (l <? el) && (el <? Z.of_nat nlines) && (0 <=? c) && (0 <=? ec))%Z
  | _ => false
  end.

Fixpoint list_Z_eqb (a b : list Z) : bool :=
  match a, b with
  | [], [] => true
  | x :: a', y :: b' => Z.eqb x y && list_Z_eqb a' b'
  | _, _ => false
  end.

Record span_case := mkspancase {
  sc_start : N * N; sc_end : N * N;     (* Start of the first token, End of the last token (line, column) *)
  sc_nlines : N; sc_span : list Z }.

Definition to_pos (p : N * N) : nat * nat := (N.to_nat (fst p), N.to_nat (snd p)).

Definition span_chk (c : span_case) : bool :=
  list_Z_eqb (make_span (to_pos (sc_start c)) (to_pos (sc_end c))) (sc_span c) &&
  span_okb (N.to_nat (sc_nlines c)) (sc_span c).

(* both kinds of C23 cases in one list, so that one evaluation serves them *)
Inductive c23_case := CSpan (c : span_case) | CGapX (c : gcase).
Definition c23_chk (c : c23_case) : bool :=
  match c with CSpan s => span_chk s | CGapX g => go_chk g end.
