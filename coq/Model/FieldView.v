(* C04 - the linker's descriptor views (linker/descriptors.go), as functions of the raw descriptor-proto
   facts they read. Mirrors fldDescriptor.Cardinality, Kind, IsMap, isMapEntry, parentIsMap, IsList,
   HasPresence, HasOptionalKeyword, IsPacked, internal.CanPack, enumDescriptor.IsClosed and
   msgDescriptor.RequiredNumbers as they are in the tree (with the three C04 repairs). Definitions only. *)
From Coq Require Import List NArith Bool.
From PV Require Import Model.FeaturesTables Model.Features.
Import ListNotations.
Open Scope N_scope.

(* descriptorpb.FieldDescriptorProto_Label and protoreflect.Cardinality share their numbers *)
Definition LABEL_OPTIONAL : N := 1.
Definition LABEL_REQUIRED : N := 2.
Definition LABEL_REPEATED : N := 3.
Definition CARD_OPTIONAL : N := 1.
Definition CARD_REQUIRED : N := 2.
Definition CARD_REPEATED : N := 3.
(* descriptorpb.FieldDescriptorProto_Type and protoreflect.Kind share their numbers *)
Definition TYPE_STRING : N := 9.
Definition TYPE_GROUP : N := 10.
Definition TYPE_MESSAGE : N := 11.
Definition TYPE_BYTES : N := 12.
Definition TYPE_ENUM : N := 14.

(* What the views of one field read. f_edition is editions.GetEdition of the file (ED_PROTO2, ED_PROTO3
   or the edition number of an editions file); f_label is proto.GetLabel() (1 when unset);
   f_msg_mapentry says that the field has a message type and that message has options.map_entry;
   f_parent_mapentry that the field's parent is a message with options.map_entry; f_chain is the
   features of the field, of its Parent() chain and of the file. *)
Record field := mkfield {
  f_edition : N;
  f_label : N;
  f_type : N;
  f_number : N;
  f_is_ext : bool;            (* proto.GetExtendee() is not empty *)
  f_has_oneof : bool;         (* proto.OneofIndex != nil *)
  f_p3opt : bool;             (* proto.GetProto3Optional() *)
  f_packed : option bool;     (* options.packed, None when not set *)
  f_msg_mapentry : bool;
  f_parent_mapentry : bool;
  f_chain : chain }.

Definition f_resolve (f : field) (ft : feature) : N := resolve_feature (f_edition f) (f_chain f) ft.

(* fldDescriptor.Cardinality *)
Definition cardinality (f : field) : N :=
  if f_label f =? LABEL_REPEATED then CARD_REPEATED
  else if f_label f =? LABEL_REQUIRED then CARD_REQUIRED
  else if f_label f =? LABEL_OPTIONAL then
    if is_editions (f_edition f) && (f_resolve f FieldPresence =? FP_LEGACY_REQUIRED) then CARD_REQUIRED
    else CARD_OPTIONAL
  else 0.

(* fldDescriptor.isMapEntry *)
Definition is_map_entry_typed (f : field) : bool :=
  if negb (f_type f =? TYPE_MESSAGE) then false else f_msg_mapentry f.

(* fldDescriptor.IsMap *)
Definition is_map (f : field) : bool :=
  if negb (f_label f =? LABEL_REPEATED) then false
  else if f_is_ext f then false
  else is_map_entry_typed f.

(* fldDescriptor.IsList *)
Definition is_list (f : field) : bool :=
  if negb (f_label f =? LABEL_REPEATED) then false else negb (is_map_entry_typed f).

(* fldDescriptor.Kind *)
Definition kind (f : field) : N :=
  if (f_type f =? TYPE_MESSAGE) && is_editions (f_edition f) && negb (is_map f) && negb (f_parent_mapentry f) then
    if f_resolve f MessageEncoding =? ME_DELIMITED then TYPE_GROUP else f_type f
  else f_type f.

(* fldDescriptor.HasPresence *)
Definition has_presence (f : field) : bool :=
  if f_label f =? LABEL_REPEATED then false
  else if f_is_ext f || (kind f =? TYPE_MESSAGE) || (kind f =? TYPE_GROUP) || f_has_oneof f then true
  else (f_resolve f FieldPresence =? FP_EXPLICIT) || (f_resolve f FieldPresence =? FP_LEGACY_REQUIRED).

(* fldDescriptor.HasOptionalKeyword *)
Definition has_optional_keyword (f : field) : bool :=
  if negb (f_label f =? LABEL_OPTIONAL) then false
  else if f_p3opt f then negb (f_is_ext f)
  else (f_edition f =? ED_PROTO2) && negb (f_has_oneof f).

(* internal.CanPack *)
Definition can_pack (k : N) : bool :=
  negb ((k =? TYPE_MESSAGE) || (k =? TYPE_GROUP) || (k =? TYPE_STRING) || (k =? TYPE_BYTES)).

(* fldDescriptor.IsPacked *)
Definition is_packed (f : field) : bool :=
  if negb (cardinality f =? CARD_REPEATED) || negb (can_pack (kind f)) then false
  else match f_packed f with
       | Some b => b
       | None => f_resolve f RepeatedFieldEncoding =? RFE_PACKED
       end.

(* enumDescriptor.IsClosed: everything that is not OPEN is closed (the repaired code; fix C04-is-closed-unknown) *)
Definition is_closed (edition : N) (c : chain) : bool :=
  negb (resolve_feature edition c EnumType =? ET_OPEN).

(* msgDescriptor.RequiredNumbers: the fields whose Cardinality() is Required (the repaired code; fix
   C04-required-numbers) *)
Definition required_numbers (fields : list field) : list N :=
  map f_number (filter (fun f => cardinality f =? CARD_REQUIRED) fields).

(* ---- the code before the repairs, kept for the historical refutations in Proofs/Features.v ---- *)
(* IsClosed compared with CLOSED *)
Definition is_closed_old (edition : N) (c : chain) : bool :=
  resolve_feature edition c EnumType =? ET_CLOSED.
(* RequiredNumbers selected on the label *)
Definition required_numbers_old (fields : list field) : list N :=
  map f_number (filter (fun f => f_label f =? LABEL_REQUIRED) fields).
