(* C04 - the linker's descriptor views (linker/descriptors.go), as functions of the raw descriptor-proto
   facts they read. Mirrors fldDescriptor.Cardinality, Kind, IsMap, isMapEntry, parentIsMap, IsList,
   HasPresence, HasOptionalKeyword, IsPacked, internal.CanPack, enumDescriptor.IsClosed and
   msgDescriptor.RequiredNumbers as they are in the tree (with the three C04 repairs). Definitions only. *)
From Coq Require Import List NArith ZArith Bool Ascii String DecimalString.
From PV Require Import Model.FeaturesTables Model.Features.
Import ListNotations.
Open Scope N_scope.

(* descriptorpb.FieldDescriptorProto_Label and protoreflect.Cardinality share their numbers *)
Definition LABEL_OPTIONAL : N := 1.
Definition LABEL_REQUIRED : N := 2.
Definition LABEL_REPEATED : N := 3.
Definition CARD_OPTIONAL : N := 1.
Definition CARD_REQUIRED : N := 2.
Definition CARD_REPEATED : N := 3.
(* descriptorpb.FieldDescriptorProto_Type and protoreflect.Kind share their numbers *)
Definition TYPE_STRING : N := 9.
Definition TYPE_GROUP : N := 10.
Definition TYPE_MESSAGE : N := 11.
Definition TYPE_BYTES : N := 12.
Definition TYPE_ENUM : N := 14.

(* What the views of one field read. f_edition is editions.GetEdition of the file (ED_PROTO2, ED_PROTO3
   or the edition number of an editions file); f_label is proto.GetLabel() (1 when unset);
   f_msg_mapentry says that the field has a message type and that message has options.map_entry;
   f_parent_mapentry that the field's parent is a message with options.map_entry; f_chain is the
   features of the field, of its Parent() chain and of the file. *)
Record field := mkfield {
  f_edition : N;
  f_label : N;
  f_type : N;
  f_number : N;
  f_is_ext : bool;            (* proto.GetExtendee() is not empty *)
  f_has_oneof : bool;         (* proto.OneofIndex != nil *)
  f_p3opt : bool;             (* proto.GetProto3Optional() *)
  f_packed : option bool;     (* options.packed, None when not set *)
  f_msg_mapentry : bool;
  f_parent_mapentry : bool;
  f_chain : chain }.

Definition f_resolve (f : field) (ft : feature) : N := resolve_feature (f_edition f) (f_chain f) ft.

(* fldDescriptor.Cardinality *)
Definition cardinality (f : field) : N :=
  if f_label f =? LABEL_REPEATED then CARD_REPEATED
  else if f_label f =? LABEL_REQUIRED then CARD_REQUIRED
  else if f_label f =? LABEL_OPTIONAL then
    if is_editions (f_edition f) && (f_resolve f FieldPresence =? FP_LEGACY_REQUIRED) then CARD_REQUIRED
    else CARD_OPTIONAL
  else 0.

(* fldDescriptor.isMapEntry *)
Definition is_map_entry_typed (f : field) : bool :=
  if negb (f_type f =? TYPE_MESSAGE) then false else f_msg_mapentry f.

(* fldDescriptor.IsMap *)
Definition is_map (f : field) : bool :=
  if negb (f_label f =? LABEL_REPEATED) then false
  else if f_is_ext f then false
  else is_map_entry_typed f.

(* fldDescriptor.IsList *)
Definition is_list (f : field) : bool :=
  if negb (f_label f =? LABEL_REPEATED) then false else negb (is_map_entry_typed f).

(* fldDescriptor.Kind *)
Definition kind (f : field) : N :=
  if (f_type f =? TYPE_MESSAGE) && is_editions (f_edition f) && negb (is_map f) && negb (f_parent_mapentry f) then
    if f_resolve f MessageEncoding =? ME_DELIMITED then TYPE_GROUP else f_type f
  else f_type f.

(* fldDescriptor.HasPresence *)
Definition has_presence (f : field) : bool :=
  if f_label f =? LABEL_REPEATED then false
  else if f_is_ext f || (kind f =? TYPE_MESSAGE) || (kind f =? TYPE_GROUP) || f_has_oneof f then true
  else (f_resolve f FieldPresence =? FP_EXPLICIT) || (f_resolve f FieldPresence =? FP_LEGACY_REQUIRED).

(* fldDescriptor.HasOptionalKeyword *)
Definition has_optional_keyword (f : field) : bool :=
  if negb (f_label f =? LABEL_OPTIONAL) then false
  else if f_p3opt f then negb (f_is_ext f)
  else (f_edition f =? ED_PROTO2) && negb (f_has_oneof f).

(* internal.CanPack *)
Definition can_pack (k : N) : bool :=
  negb ((k =? TYPE_MESSAGE) || (k =? TYPE_GROUP) || (k =? TYPE_STRING) || (k =? TYPE_BYTES)).

(* fldDescriptor.IsPacked *)
Definition is_packed (f : field) : bool :=
  if negb (cardinality f =? CARD_REPEATED) || negb (can_pack (kind f)) then false
  else match f_packed f with
       | Some b => b
       | None => f_resolve f RepeatedFieldEncoding =? RFE_PACKED
       end.

(* enumDescriptor.IsClosed: everything that is not OPEN is closed (the repaired code; fix C04-is-closed-unknown) *)
Definition is_closed (edition : N) (c : chain) : bool :=
  negb (resolve_feature edition c EnumType =? ET_OPEN).

(* msgDescriptor.RequiredNumbers: the fields whose Cardinality() is Required (the repaired code; fix
   C04-required-numbers) *)
Definition required_numbers (fields : list field) : list N :=
  map f_number (filter (fun f => cardinality f =? CARD_REQUIRED) fields).

(* ---- default values of the integer kinds: fldDescriptor.Default / parseDefaultValue ---- *)
(* strconv.ParseUint(val, 10, bits) before its range check: one or more decimal digits, nothing else *)
Definition parse_uint_text (s : string) : option Z :=
  match s with
  | EmptyString => None
  | _ => match NilEmpty.uint_of_string s with Some d => Some (Z.of_uint d) | None => None end
  end.

(* strconv.ParseInt(val, 10, bits) before its range check: an optional sign, then as above *)
Definition parse_int_text (s : string) : option Z :=
  match s with
  | String c r =>
    if Ascii.eqb c "-"%char then option_map Z.opp (parse_uint_text r)
    else if Ascii.eqb c "+"%char then parse_uint_text r
    else parse_uint_text s
  | EmptyString => None
  end.

(* protoreflect.Kind numbers *)
Definition KIND_INT64 : N := 3.    Definition KIND_UINT64 : N := 4.   Definition KIND_INT32 : N := 5.
Definition KIND_FIXED64 : N := 6.  Definition KIND_FIXED32 : N := 7.  Definition KIND_UINT32 : N := 13.
Definition KIND_SFIXED32 : N := 15. Definition KIND_SFIXED64 : N := 16.
Definition KIND_SINT32 : N := 17.  Definition KIND_SINT64 : N := 18.

(* (signed, bits) of an integer kind as the switch of parseDefaultValue groups them *)
Definition int_kind (k : N) : option (bool * Z) :=
  if (k =? KIND_INT32) || (k =? KIND_SINT32) || (k =? KIND_SFIXED32) then Some (true, 32%Z)
  else if (k =? KIND_UINT32) || (k =? KIND_FIXED32) then Some (false, 32%Z)
  else if (k =? KIND_INT64) || (k =? KIND_SINT64) || (k =? KIND_SFIXED64) then Some (true, 64%Z)
  else if (k =? KIND_UINT64) || (k =? KIND_FIXED64) then Some (false, 64%Z)
  else None.

Definition int_in_range (signed : bool) (bits v : Z) : bool :=
  if signed then ((- 2 ^ (bits - 1) <=? v) && (v <? 2 ^ (bits - 1)))%Z
  else ((0 <=? v) && (v <? 2 ^ bits))%Z.

(* parseDefaultValue on an integer kind: ParseInt for the signed kinds, ParseUint for the unsigned ones, with
   the bit size of the kind; None is the invalid Value *)
Definition parse_default_int (k : N) (text : string) : option Z :=
  match int_kind k with
  | Some (signed, bits) =>
    match (if signed then parse_int_text text else parse_uint_text text) with
    | Some v => if int_in_range signed bits v then Some v else None
    | None => None
    end
  | None => None
  end.

(* fldDescriptor.Default on a singular field of an integer kind: the parsed default_value, else the zero value
   (also when the text cannot be parsed) *)
Definition default_int (k : N) (default_value : option string) : Z :=
  match default_value with
  | Some text => match parse_default_int k text with Some v => v | None => 0%Z end
  | None => 0%Z
  end.

(* ---- text names: fldDescriptor.TextName / looksLikeGroup ---- *)
(* strings.ToLower on an identifier (ASCII letters, digits, underscore: what the lexer accepts): A-Z to a-z *)
Definition ascii_lower (c : ascii) : ascii :=
  let n := N_of_ascii c in if (65 <=? n) && (n <=? 90) then ascii_of_N (n + 32) else c.
Fixpoint to_lower (s : string) : string :=
  match s with
  | EmptyString => EmptyString
  | String c r => String (ascii_lower c) (to_lower r)
  end.

(* the names the text name of a field is computed from: proto.GetName(), FullName(), FullName().Parent(), and of the
   resolved type_name its last component and its Parent() (both empty strings when the field has no message type) *)
Record fnames := mknames {
  n_name : string; n_full : string; n_parent : string; n_msg_name : string; n_msg_parent : string }.

(* fldDescriptor.looksLikeGroup: group kind, the message type has the same parent NAME, and the field's name IS the
   lower-cased message name (a case-sensitive comparison with the lower-cased name: a field that equals the message
   name only when case is ignored is not group-like) *)
Definition looks_like_group (f : field) (nm : fnames) : bool :=
  (kind f =? TYPE_GROUP) && String.eqb (n_msg_parent nm) (n_parent nm)
  && String.eqb (n_name nm) (to_lower (n_msg_name nm)).

(* fldDescriptor.TextName *)
Definition text_name (f : field) (nm : fnames) : string :=
  if f_is_ext f then ("[" ++ n_full nm ++ "]")%string
  else if looks_like_group f nm then n_msg_name nm
  else n_name nm.

(* ---- the code before the repairs, kept for the historical refutations in Proofs/Features.v ---- *)
(* IsClosed compared with CLOSED *)
Definition is_closed_old (edition : N) (c : chain) : bool :=
  resolve_feature edition c EnumType =? ET_CLOSED.
(* RequiredNumbers selected on the label *)
Definition required_numbers_old (fields : list field) : list N :=
  map f_number (filter (fun f => f_label f =? LABEL_REQUIRED) fields).
