(* Model of the option interpreter, options/options.go (interpreter.interpretOptions, interpretField,
   setOptionField, fieldValue, scalarFieldValue, enumFieldValue, messageLiteralValue, checkFieldUsage,
   enableLenience and the remain list).  Definitions only; proofs are in Proofs/Options.v.

   Modelled fragment
   - schema: messages with fields of every scalar kind, enums (open or closed), message-typed fields,
     repeated fields, oneofs, extensions (also extensions of non-option messages), per-field target
     types, explicit or implicit (proto3) field presence.  Not modelled: maps, groups, Any expansion,
     required-field validation, feature validation, pseudo-options (default, json_name), the name
     uninterpreted_option, descriptor.proto overrides, failure of the final conversion (cloneInto).
   - option statement: name path (simple parts and extension parts) and a value: signed int (Go int64),
     unsigned int (Go uint64), float (a dyadic rational or a special), identifier, string, message
     literal (field or extension names, nested), list.
   - handlers: the strict run uses a handler that aborts on the first error (reporter.NewHandler(nil));
     the lenient run is interpretOptions with lenient=true (InterpretOptionsLenient and
     InterpretUnlinkedOptions; unlinked = no extension can be resolved).

   The same Go code serves both runs: an error site either returns at once or, when the handler
   swallowed the error (lenience), carries on.  The model follows the carry-on control flow and
   collects the errors in order; the strict run is the same computation cut at the first error.

   The model is that of the code after the repairs 307ffab4 (a lenient option that reports an error is
   undone: the options message is copied before each option), bb1a10d1 (special float words inside
   message literals in any letter case), 36246e7a (an extension of another message inside a message
   literal is an error, not a panic) and f7db43f0 (a field without presence set by an option statement
   counts as set even when it holds its zero value).  What the code did before is kept at the end of
   this file as the *_old definitions, for the historical lemmas.

   How f7db43f0 is mirrored: the Go code records the paths of the fields without presence that option
   statements (outside message literals) have set, because Has is false for a zero value.  In the model
   a message literal hands its message on without the zero-valued fields without presence (on_wire:
   in a dynamic message such an entry cannot be told from an absent one by Has, Get, Range or the
   wire form), so outside literals the recorded paths are exactly the entries that are present.  *)
From Coq Require Import List ZArith NArith Bool String Ascii.
Import ListNotations.
Open Scope Z_scope.

(* ------------------------------------------------------------------ schema *)
Inductive kind :=
| KInt32 | KSint32 | KSfixed32 | KInt64 | KSint64 | KSfixed64
| KUint32 | KFixed32 | KUint64 | KFixed64
| KBool | KFloat | KDouble | KString | KBytes
| KEnum (e : nat) | KMsg (m : nat).

Record field := mkField {
  fname : string; fnum : N; fkind : kind; frep : bool;
  foneof : option nat;         (* index of the containing oneof inside the containing message *)
  fimplicit : bool;            (* proto3 field without presence: Has is false for the zero value *)
  ftargets : list N }.         (* FieldOptions.targets of the field; empty = unrestricted *)
Record msgdesc := mkMsg { mfields : list field }.
Record enumdesc := mkEnum { evalues : list (string * Z); eclosed : bool }.
Record extdesc := mkExt { xname : string; xextendee : nat; xfield : field }.
Record schema := mkSchema { smsgs : list msgdesc; senums : list enumdesc; sexts : list extdesc }.

(* ------------------------------------------------------------------ values *)
Inductive fl := FFin (m e : Z) | FNegZero | FInf (neg : bool) | FNaN.   (* FFin m e = m * 2^e, m odd or 0 *)
Inductive sval := SInt (z : Z) | SBool (b : bool) | SFloat (f : fl) | SStr (s : list N) | SEnum (z : Z).
Inductive val := VS (s : sval) | VM (fs : list (N * val)) | VL (es : list val).
Definition mval := list (N * val).     (* a message: field number -> value *)

(* ------------------------------------------------------------------ option statements *)
Inductive lname := LField (s : string) | LExt (s : string).
Inductive oval :=
| OInt (z : Z) | OUint (n : Z) | OFloat (f : fl) | OIdent (s : string) | OStr (s : list N)
| OMsg (fs : list (lname * oval)) | OList (es : list oval).
Inductive npart := PField (s : string) | PExt (s : string).
Record stmt := mkStmt { sname : list npart; svalue : oval }.

Inductive err :=
| ENoField | ENoExt | EWrongExtendee | EPathNotMessage | EPathRepeated | EOneof | EAlreadySet
| ERange | EType | ETypeMessage | EEnumName | EEnumNumber | EEnumType | EEnumRange | EEnumClosed
| EArrayNonRepeated | ELitNoField | ETargetType | EPanic | EUnmodelled.

Inductive res (A : Type) := Ok (a : A) | Err (e : err).
Arguments Ok {A} a.
Arguments Err {A} e.

(* ------------------------------------------------------------------ floats (exact) *)
Fixpoint pos_ctz (p : positive) : positive * Z :=
  match p with
  | xO q => let '(r, k) := pos_ctz q in (r, k + 1)
  | _ => (p, 0)
  end.
Definition norm_fin (m e : Z) : fl :=
  match m with
  | Z0 => FFin 0 0
  | Zpos p => let '(r, k) := pos_ctz p in FFin (Zpos r) (e + k)
  | Zneg p => let '(r, k) := pos_ctz p in FFin (Zneg r) (e + k)
  end.
(* round m*2^e to nearest-even in a binary format with prec significant bits, least quantum 2^emin,
   overflow to infinity from 2^emax on *)
Definition round_fin (prec emin emax m e : Z) : fl :=
  match m with
  | Z0 => FFin 0 0
  | _ =>
    let a := Z.abs m in
    let neg := m <? 0 in
    let msb := Z.log2 a + e in
    let q := Z.max (msb - (prec - 1)) emin in
    if q <=? e then (if emax <=? msb then FInf neg else norm_fin m e)
    else
      let sh := q - e in
      let qd := Z.shiftr a sh in
      let r := a - Z.shiftl qd sh in
      let half := Z.shiftl 1 (sh - 1) in
      let up := (half <? r) || ((r =? half) && Z.odd qd) in
      let a' := if up then qd + 1 else qd in
      if a' =? 0 then (if neg then FNegZero else FFin 0 0)
      else if emax <=? Z.log2 a' + q then FInf neg
      else norm_fin (if neg then - a' else a') q
  end.
Definition to_f32 (m e : Z) : fl := round_fin 24 (-149) 128 m e.
Definition to_f64 (m e : Z) : fl := round_fin 53 (-1074) 1024 m e.
Definition fl_to_f32 (f : fl) : fl := match f with FFin m e => to_f32 m e | _ => f end.
Definition fl_norm (f : fl) : fl := match f with FFin m e => norm_fin m e | _ => f end.

(* ------------------------------------------------------------------ scalarFieldValue *)
Definition max_int32 := 2147483647.
Definition min_int32 := -2147483648.
Definition max_uint32 := 4294967295.
Definition max_int64 := 9223372036854775807.

Definition str_in (s : string) (l : list string) : bool := existsb (String.eqb s) l.

(* strings.ToLower on ASCII *)
Definition lower_ascii (a : ascii) : ascii :=
  let n := N_of_ascii a in
  if (N.leb 65 n && N.leb n 90)%bool then ascii_of_N (n + 32) else a.
Fixpoint lower (s : string) : string :=
  match s with
  | EmptyString => EmptyString
  | String a r => String (lower_ascii a) (lower r)
  end.
(* specialFloatWord: ci = the reading of text format (any letter case, and infinity) applies inside
   message literals; the code has ci = true *)
Definition float_word (ci inlit : bool) (id : string) : option fl :=
  if ci && inlit then
    (let w := lower id in
     if String.eqb w "inf" || String.eqb w "infinity" then Some (FInf false)
     else if String.eqb w "nan" then Some FNaN else None)
  else
    (if String.eqb id "inf" then Some (FInf false) else if String.eqb id "nan" then Some FNaN else None).

Definition scalar_field_value (k : kind) (v : oval) (inlit : bool) : res sval :=
  match k with
  | KBool =>
    match v with
    | OIdent id =>
      if inlit then
        (if str_in id ["t"; "true"; "True"]%string then Ok (SBool true)
         else if str_in id ["f"; "false"; "False"]%string then Ok (SBool false)
         else Err EType)
      else
        (if String.eqb id "true" then Ok (SBool true)
         else if String.eqb id "false" then Ok (SBool false)
         else Err EType)
    | _ => Err EType
    end
  | KBytes | KString => match v with OStr s => Ok (SStr s) | _ => Err EType end
  | KInt32 | KSint32 | KSfixed32 =>
    match v with
    | OInt i => if (i >? max_int32) || (i <? min_int32) then Err ERange else Ok (SInt i)
    | OUint u => if u >? max_int32 then Err ERange else Ok (SInt u)
    | _ => Err EType
    end
  | KUint32 | KFixed32 =>
    match v with
    | OInt i => if (i >? max_uint32) || (i <? 0) then Err ERange else Ok (SInt i)
    | OUint u => if u >? max_uint32 then Err ERange else Ok (SInt u)
    | _ => Err EType
    end
  | KInt64 | KSint64 | KSfixed64 =>
    match v with
    | OInt i => Ok (SInt i)
    | OUint u => if u >? max_int64 then Err ERange else Ok (SInt u)
    | _ => Err EType
    end
  | KUint64 | KFixed64 =>
    match v with
    | OInt i => if i <? 0 then Err ERange else Ok (SInt i)
    | OUint u => Ok (SInt u)
    | _ => Err EType
    end
  | KDouble =>
    match v with
    | OIdent id => match float_word true inlit id with Some f => Ok (SFloat f) | None => Err EType end
    | OFloat d => Ok (SFloat (fl_norm d))
    | OInt i => Ok (SFloat (to_f64 i 0))
    | OUint u => Ok (SFloat (to_f64 u 0))
    | _ => Err EType
    end
  | KFloat =>
    match v with
    | OIdent id => match float_word true inlit id with Some f => Ok (SFloat f) | None => Err EType end
    | OFloat d => Ok (SFloat (fl_to_f32 d))
    | OInt i => Ok (SFloat (to_f32 i 0))
    | OUint u => Ok (SFloat (to_f32 u 0))
    | _ => Err EType
    end
  | KEnum _ | KMsg _ => Err EUnmodelled
  end.

(* ------------------------------------------------------------------ enumFieldValue *)
Fixpoint enum_by_name (vs : list (string * Z)) (n : string) : option Z :=
  match vs with
  | [] => None
  | (s, z) :: r => if String.eqb s n then Some z else enum_by_name r n
  end.
Definition enum_has_number (vs : list (string * Z)) (z : Z) : bool := existsb (fun p => snd p =? z) vs.

Definition enum_field_value (ed : enumdesc) (v : oval) (allow_number : bool) : res sval :=
  let by_number (num : Z) :=
    if enum_has_number (evalues ed) num then Ok (SEnum num)
    else if eclosed ed then Err EEnumClosed else Ok (SEnum num) in
  match v with
  | OIdent id => match enum_by_name (evalues ed) id with Some z => Ok (SEnum z) | None => Err EEnumName end
  | OInt i =>
    if negb allow_number then Err EEnumNumber
    else if (i >? max_int32) || (i <? min_int32) then Err EEnumRange else by_number i
  | OUint u =>
    if negb allow_number then Err EEnumNumber
    else if u >? max_int32 then Err EEnumRange else by_number u
  | _ => Err EEnumType
  end.

(* ------------------------------------------------------------------ dynamic messages *)
Fixpoint mget (n : N) (m : mval) : option val :=
  match m with
  | [] => None
  | (k, v) :: r => if N.eqb k n then Some v else mget n r
  end.
(* Set: replace the entry if the field is there, else add it (a dynamic message is a map; the order of
   this list carries no meaning, canonical order is restored by [canon] when comparing) *)
Fixpoint mset (n : N) (v : val) (m : mval) : mval :=
  match m with
  | [] => [(n, v)]
  | (k, w) :: r => if N.eqb k n then (n, v) :: r else (k, w) :: mset n v r
  end.
Definition is_zero_val (v : val) : bool :=
  match v with
  | VS (SInt 0) | VS (SBool false) | VS (SFloat (FFin 0 _)) | VS (SStr []) | VS (SEnum 0) => true
  | _ => false
  end.
Definition present (n : N) (m : mval) : bool := match mget n m with Some _ => true | None => false end.
(* protoreflect.Message.Has on a dynamic message *)
Definition has (f : field) (m : mval) : bool :=
  match mget (fnum f) m with
  | None => false
  | Some v => if fimplicit f then negb (is_zero_val v) else true
  end.
(* what of a message is on the wire: not the fields without presence that hold the zero value *)
Definition implicit_zero (fields : list field) (n : N) (v : val) : bool :=
  match find (fun f => N.eqb (fnum f) n) fields with
  | Some f => fimplicit f && is_zero_val v
  | None => false
  end.
Definition on_wire (fields : list field) (m : mval) : mval :=
  filter (fun p => negb (implicit_zero fields (fst p) (snd p))) m.
(* the already-set test of setOptionField: inside a message literal Has; outside, Has or recorded as set *)
Definition is_set (inlit : bool) (f : field) (m : mval) : bool :=
  if inlit then has f m else present (fnum f) m.
Definition mappend (n : N) (v : val) (m : mval) : mval :=
  match mget n m with
  | Some (VL es) => mset n (VL (es ++ [v])) m
  | _ => mset n (VL [v]) m
  end.
Definition sub_at (n : N) (m : mval) : mval := match mget n m with Some (VM s) => s | _ => [] end.

Definition oneof_eqb (a b : option nat) : bool :=
  match a, b with Some x, Some y => Nat.eqb x y | _, _ => false end.
(* msg.WhichOneof(ood) returns a field other than fld *)
Definition oneof_conflict (fields : list field) (f : field) (m : mval) : bool :=
  match foneof f with
  | None => false
  | Some _ => existsb (fun g => oneof_eqb (foneof g) (foneof f) && negb (N.eqb (fnum g) (fnum f)) && has g m) fields
  end.

(* ------------------------------------------------------------------ schema lookups *)
Definition msg_fields (sch : schema) (md : nat) : list field :=
  match nth_error (smsgs sch) md with Some d => mfields d | None => [] end.
Fixpoint field_by_name (fs : list field) (n : string) : option field :=
  match fs with
  | [] => None
  | f :: r => if String.eqb (fname f) n then Some f else field_by_name r n
  end.
Fixpoint ext_by_name (xs : list extdesc) (n : string) : option extdesc :=
  match xs with
  | [] => None
  | x :: r => if String.eqb (xname x) n then Some x else ext_by_name r n
  end.

(* checkFieldUsage: the errors it reports *)
Definition check_field_usage (tt : N) (f : field) : list err :=
  match ftargets f with
  | [] => []
  | ts => if existsb (N.eqb tt) ts then [] else [ETargetType]
  end.

(* ------------------------------------------------------------------ values of fields *)
(* Errors are collected in the order in which they are reported to a handler that swallows them
   (lenience).  With the aborting handler the run stops at the first one, so the strict outcome is
   the head of the list. *)
Definition errs := list err.

Section Interp.
Variable sch : schema.
Variable tt : N.          (* target type of the element whose options are interpreted *)

Definition is_omsg (v : oval) : bool := match v with OMsg _ => true | _ => false end.
Definition is_kmsg (k : kind) : bool := match k with KMsg _ => true | _ => false end.

(* the loop of setOptionField over the elements of an array literal *)
Definition list_loop (fvf : field -> oval -> option val * errs) (fld : field)
  : list oval -> mval -> errs -> mval * errs :=
  fix loop (items : list oval) (msg : mval) (flag : errs) {struct items} : mval * errs :=
    match items with
    | [] => (msg, flag)
    | it :: r =>
      let '(ov, e) := fvf fld it in
      match ov with
      | None => (msg, flag ++ e)
      | Some x => loop r (mappend (fnum fld) x msg) (flag ++ e)
      end
    end.

(* setOptionField, parameterised by the evaluator of one value (fieldValue).
   fields = the fields of the message msg belongs to; inlit = insideMsgLiteral.
   Result: the message after the call and the errors reported during it. *)
Definition set_option_field_with (fvf : field -> oval -> option val * errs)
    (fields : list field) (inlit : bool) (msg : mval) (fld : field) (v : oval) : mval * errs :=
  match v with
  | OList sl =>
    if negb (frep fld) then (msg, [EArrayNonRepeated])
    else list_loop fvf fld sl msg []
  | _ =>
    let '(ov, e) := fvf fld v in
    match ov with
    | None => (msg, e)
    | Some x =>
      if oneof_conflict fields fld msg then (msg, e ++ [EOneof])
      else if frep fld then (mappend (fnum fld) x msg, e)
      else if is_set inlit fld msg then (msg, e ++ [EAlreadySet])
      else (mset (fnum fld) x msg, e)
    end
  end.

(* field lookup inside a message literal *)
Definition lit_field (md : nat) (n : lname) : res field :=
  match n with
  | LField s => match field_by_name (msg_fields sch md) s with Some f => Ok f | None => Err ELitNoField end
  | LExt s =>
    match ext_by_name (sexts sch) s with
    | None => Err ELitNoField
    | Some x => if Nat.eqb (xextendee x) md then Ok (xfield x) else Err EWrongExtendee
    end
  end.

(* the loop of messageLiteralValue over the fields of the literal; msg is the fresh message of type md,
   had = hadError *)
Definition lit_loop (fv : field -> oval -> option val * errs) (md : nat)
  : list (lname * oval) -> mval -> bool -> errs -> option val * errs :=
  fix lit (fs : list (lname * oval)) (msg : mval) (had : bool) (flag : errs) {struct fs} : option val * errs :=
    match fs with
    | [] => if had then (None, flag) else (Some (VM (on_wire (msg_fields sch md) msg)), flag)
    | (nm, fv1) :: r =>
      match lit_field md nm with
      | Err x => lit r msg true (flag ++ [x])
      | Ok ffld =>
        let usage := check_field_usage tt ffld in
        let '(msg', e) := set_option_field_with fv (msg_fields sch md) true msg ffld fv1 in
        lit r msg' had (flag ++ usage ++ e)
      end
    end.

(* fieldValue together with messageLiteralValue.  The result is the value (None = invalid) and the
   errors reported while computing it. *)
Fixpoint field_value (fld : field) (v : oval) (inlit : bool) {struct v} : option val * errs :=
  match fkind fld with
  | KEnum e =>
    match nth_error (senums sch) e with
    | None => (None, [EUnmodelled])
    | Some ed =>
      match enum_field_value ed v inlit with
      | Ok s => (Some (VS s), [])
      | Err x => (None, [x])
      end
    end
  | KMsg md =>
    match v with
    | OMsg fs => lit_loop (fun f x => field_value f x true) md fs [] false []
    | _ => (None, [ETypeMessage])
    end
  | k =>
    match scalar_field_value k v inlit with
    | Ok s => (Some (VS s), [])
    | Err x => (None, [x])
    end
  end.

Definition set_option_field (fields : list field) (msg : mval) (fld : field) (v : oval) (inlit : bool)
  : mval * errs :=
  set_option_field_with (fun f x => field_value f x inlit) fields inlit msg fld v.

(* one part of an option name, looked up in message md *)
Definition lookup_part (md : nat) (nm : npart) : res field :=
  match nm with
  | PExt s =>
    match ext_by_name (sexts sch) s with
    | None => Err ENoExt
    | Some x => if Nat.eqb (xextendee x) md then Ok (xfield x) else Err EWrongExtendee
    end
  | PField s =>
    match field_by_name (msg_fields sch md) s with Some f => Ok f | None => Err ENoField end
  end.

(* interpretField: msg is a message of type md; name is the rest of the option name *)
Fixpoint interpret_field (md : nat) (msg : mval) (name : list npart) (v : oval) {struct name}
  : mval * errs :=
  match name with
  | [] => (msg, [EUnmodelled])
  | nm :: rest =>
    match lookup_part md nm with
    | Err x => (msg, [x])
    | Ok fld =>
      let usage := check_field_usage tt fld in
      match rest with
      | [] =>
        let '(msg', e) := set_option_field (msg_fields sch md) msg fld v false in
        (msg', usage ++ e)
      | _ :: _ =>
        match fkind fld with
        | KMsg sub =>
          if frep fld then (msg, usage ++ [EPathRepeated])
          else if has fld msg then
            let '(s', e) := interpret_field sub (sub_at (fnum fld) msg) rest v in
            (mset (fnum fld) (VM s') msg, usage ++ e)
          else if oneof_conflict (msg_fields sch md) fld msg then (msg, usage ++ [EOneof])
          else
            let '(s', e) := interpret_field sub [] rest v in
            (mset (fnum fld) (VM s') msg, usage ++ e)
        | _ => (msg, usage ++ [EPathNotMessage])
        end
      end
    end
  end.

(* ------------------------------------------------------------------ interpreter.interpretOptions *)
Definition is_custom (st : stmt) : bool := match sname st with PExt _ :: _ => true | _ => false end.
(* one pass (customOpts = custom) with the aborting handler: the message and the remain list *)
Fixpoint pass_strict (custom : bool) (T : nat) (msg : mval) (uo : list stmt) : res (mval * list stmt) :=
  match uo with
  | [] => Ok (msg, [])
  | st :: r =>
    if negb (Bool.eqb (is_custom st) custom) then
      match pass_strict custom T msg r with
      | Ok (m', rem) => Ok (m', st :: rem)
      | Err x => Err x
      end
    else
      match interpret_field T msg (sname st) (svalue st) with
      | (_, x :: _) => Err x
      | (m1, []) => pass_strict custom T m1 r
      end
  end.

(* one pass in lenient mode: the message is copied before each option and the copy is taken back when the
   option reported an error.  Result: the message, the remain list and (a ghost) the options that were
   interpreted, in the order of the pass. *)
Definition lres := (mval * list stmt * list stmt)%type.
Fixpoint pass_lenient (custom : bool) (T : nat) (msg : mval) (uo : list stmt) : lres :=
  match uo with
  | [] => (msg, [], [])
  | st :: r =>
    if negb (Bool.eqb (is_custom st) custom) then
      let '(m', rem, done) := pass_lenient custom T msg r in (m', st :: rem, done)
    else
      match interpret_field T msg (sname st) (svalue st) with
      | (m1, []) => let '(m', rem, done) := pass_lenient custom T m1 r in (m', rem, st :: done)
      | (_, _ :: _) => let '(m', rem, done) := pass_lenient custom T msg r in (m', st :: rem, done)
      end
  end.

(* interpretOptions (the package-level function) on one element: first the non-custom options,
   then the custom ones, the second pass working on what the first left uninterpreted *)
Definition interpret_strict (T : nat) (m0 : mval) (stmts : list stmt) : res (mval * list stmt) :=
  match pass_strict false T m0 stmts with
  | Err x => Err x
  | Ok (m1, r1) => pass_strict true T m1 r1
  end.
Definition interpret_lenient (T : nat) (m0 : mval) (stmts : list stmt) : lres :=
  let '(m1, r1, d1) := pass_lenient false T m0 stmts in
  let '(m2, r2, d2) := pass_lenient true T m1 r1 in
  (m2, r2, d1 ++ d2).

(* applying statements one after the other, every one without error *)
Fixpoint apply_all (T : nat) (m : mval) (sts : list stmt) : option mval :=
  match sts with
  | [] => Some m
  | st :: r =>
    match interpret_field T m (sname st) (svalue st) with
    | (m1, []) => apply_all T m1 r
    | (_, _ :: _) => None
    end
  end.
End Interp.

(* Reference for the remainder of a lenient run: ONE walk over the statements in source order.  A statement
   is looked at with the message of its own pass (ma: the pass over non-custom options, mb: the pass over
   custom options); it is kept exactly when its own interpretation reported an error, and then the message
   stays as it was. *)
Fixpoint ref_walk (sch : schema) (tt : N) (T : nat) (ma mb : mval) (sts : list stmt) : mval * mval * list stmt :=
  match sts with
  | [] => (ma, mb, [])
  | st :: r =>
    if is_custom st then
      match interpret_field sch tt T mb (sname st) (svalue st) with
      | (mb', []) => ref_walk sch tt T ma mb' r
      | (_, _ :: _) => let '(ma2, mb2, rem) := ref_walk sch tt T ma mb r in (ma2, mb2, st :: rem)
      end
    else
      match interpret_field sch tt T ma (sname st) (svalue st) with
      | (ma', []) => ref_walk sch tt T ma' mb r
      | (_, _ :: _) => let '(ma2, mb2, rem) := ref_walk sch tt T ma mb r in (ma2, mb2, st :: rem)
      end
  end.

(* guards under which a failing statement leaves the message as it was *)
Definition scalar_shaped (v : oval) : bool := match v with OMsg _ | OList _ => false | _ => true end.
Fixpoint prefix_present (sch : schema) (md : nat) (m : mval) (name : list npart) {struct name} : bool :=
  match name with
  | [] => true
  | nm :: rest =>
    match rest with
    | [] => true
    | _ :: _ =>
      match lookup_part sch md nm with
      | Err _ => true
      | Ok fld =>
        match fkind fld with
        | KMsg sub =>
          match mget (fnum fld) m with
          | Some (VM s) => prefix_present sch sub s rest
          | _ => false
          end
        | _ => true
        end
      end
    end
  end.
Definition no_targets (f : field) : bool := match ftargets f with [] => true | _ => false end.
Definition targets_free (sch : schema) : bool :=
  forallb (fun d => forallb no_targets (mfields d)) (smsgs sch) && forallb (fun x => no_targets (xfield x)) (sexts sch).

(* InterpretUnlinkedOptions: lenient, and no extension can be resolved *)
Definition no_exts (sch : schema) : schema := mkSchema (smsgs sch) (senums sch) [].
Definition interpret_unlinked (sch : schema) (tt : N) (T : nat) (m0 : mval) (stmts : list stmt) : lres :=
  interpret_lenient (no_exts sch) tt T m0 stmts.

(* ------------------------------------------------------------------ decidable equalities for the correspondence *)
Definition fl_eqb (a b : fl) : bool :=
  match a, b with
  | FFin m e, FFin m' e' => (m =? m') && (e =? e')
  | FNegZero, FNegZero => true
  | FInf x, FInf y => Bool.eqb x y
  | FNaN, FNaN => true
  | _, _ => false
  end.
Fixpoint list_N_eqb' (a b : list N) : bool :=
  match a, b with
  | [], [] => true
  | x :: r, y :: s => N.eqb x y && list_N_eqb' r s
  | _, _ => false
  end.
Definition sval_eqb (a b : sval) : bool :=
  match a, b with
  | SInt x, SInt y => x =? y
  | SBool x, SBool y => Bool.eqb x y
  | SFloat x, SFloat y => fl_eqb x y
  | SStr x, SStr y => list_N_eqb' x y
  | SEnum x, SEnum y => x =? y
  | _, _ => false
  end.
Fixpoint val_eqb (a b : val) {struct a} : bool :=
  match a, b with
  | VS x, VS y => sval_eqb x y
  | VM fs, VM gs =>
    (fix go (fs gs : list (N * val)) {struct fs} : bool :=
       match fs, gs with
       | [], [] => true
       | (k, v) :: r, (k', v') :: s => N.eqb k k' && val_eqb v v' && go r s
       | _, _ => false
       end) fs gs
  | VL es, VL gs =>
    (fix go (es gs : list val) {struct es} : bool :=
       match es, gs with
       | [], [] => true
       | v :: r, v' :: s => val_eqb v v' && go r s
       | _, _ => false
       end) es gs
  | _, _ => false
  end.
(* canonical order: fields by number, at every level *)
Fixpoint insert_sorted (k : N) (v : val) (m : mval) : mval :=
  match m with
  | [] => [(k, v)]
  | (k', v') :: r => if N.leb k k' then (k, v) :: m else (k', v') :: insert_sorted k v r
  end.
Fixpoint canon_val (v : val) {struct v} : val :=
  match v with
  | VS _ => v
  | VL es => VL (map canon_val es)
  | VM fs => VM ((fix go (fs : list (N * val)) : mval :=
                    match fs with
                    | [] => []
                    | (k, x) :: r => insert_sorted k (canon_val x) (go r)
                    end) fs)
  end.
Definition canon (m : mval) : mval := match canon_val (VM m) with VM fs => fs | _ => m end.
Definition mval_eqb (a b : mval) : bool := val_eqb (VM (canon a)) (VM (canon b)).

(* what is serialised: fields without presence that hold the zero value are not on the wire *)
Definition find_field (sch : schema) (md : nat) (k : N) : option field :=
  match find (fun f => N.eqb (fnum f) k) (msg_fields sch md) with
  | Some f => Some f
  | None => option_map xfield (find (fun x => Nat.eqb (xextendee x) md && N.eqb (fnum (xfield x)) k) (sexts sch))
  end.
Fixpoint wire_val (sch : schema) (k : kind) (v : val) {struct v} : val :=
  match v with
  | VS _ => v
  | VL es => VL (map (wire_val sch k) es)
  | VM fs =>
    match k with
    | KMsg md =>
      VM ((fix go (fs : list (N * val)) : list (N * val) :=
             match fs with
             | [] => []
             | (n, x) :: r =>
               match find_field sch md n with
               | None => (n, x) :: go r
               | Some f => if fimplicit f && is_zero_val x then go r else (n, wire_val sch (fkind f) x) :: go r
               end
             end) fs)
    | _ => v
    end
  end.
Definition wire (sch : schema) (T : nat) (m : mval) : mval :=
  match wire_val sch (KMsg T) (VM m) with VM fs => fs | _ => m end.

Definition err_eqb (a b : err) : bool :=
  match a, b with
  | ENoField, ENoField | ENoExt, ENoExt | EWrongExtendee, EWrongExtendee | EPathNotMessage, EPathNotMessage
  | EPathRepeated, EPathRepeated | EOneof, EOneof | EAlreadySet, EAlreadySet | ERange, ERange | EType, EType
  | ETypeMessage, ETypeMessage | EEnumName, EEnumName | EEnumNumber, EEnumNumber | EEnumType, EEnumType
  | EEnumRange, EEnumRange | EEnumClosed, EEnumClosed | EArrayNonRepeated, EArrayNonRepeated
  | ELitNoField, ELitNoField | ETargetType, ETargetType | EPanic, EPanic | EUnmodelled, EUnmodelled => true
  | _, _ => false
  end.

(* ------------------------------------------------------------------ correspondence cases *)
Definition lname_eqb (a b : lname) : bool :=
  match a, b with
  | LField x, LField y | LExt x, LExt y => String.eqb x y
  | _, _ => false
  end.
Definition npart_eqb (a b : npart) : bool :=
  match a, b with
  | PField x, PField y | PExt x, PExt y => String.eqb x y
  | _, _ => false
  end.
Fixpoint oval_eqb (a b : oval) {struct a} : bool :=
  match a, b with
  | OInt x, OInt y | OUint x, OUint y => x =? y
  | OFloat x, OFloat y => fl_eqb x y
  | OIdent x, OIdent y => String.eqb x y
  | OStr x, OStr y => list_N_eqb' x y
  | OMsg fs, OMsg gs =>
    (fix go (fs gs : list (lname * oval)) {struct fs} : bool :=
       match fs, gs with
       | [], [] => true
       | (n, v) :: r, (n', v') :: s => lname_eqb n n' && oval_eqb v v' && go r s
       | _, _ => false
       end) fs gs
  | OList es, OList gs =>
    (fix go (es gs : list oval) {struct es} : bool :=
       match es, gs with
       | [], [] => true
       | v :: r, v' :: s => oval_eqb v v' && go r s
       | _, _ => false
       end) es gs
  | _, _ => false
  end.
Fixpoint list_eqb {A} (eqb : A -> A -> bool) (a b : list A) : bool :=
  match a, b with
  | [], [] => true
  | x :: r, y :: s => eqb x y && list_eqb eqb r s
  | _, _ => false
  end.
Definition stmt_eqb (a b : stmt) : bool :=
  list_eqb npart_eqb (sname a) (sname b) && oval_eqb (svalue a) (svalue b).

(* what the harness saw in one mode: the decoded options message and the indices (into the statement
   list) of the options left uninterpreted; an error class; a panic; an error the model has no class for *)
Inductive obs := ObsOk (tree : mval) (remain : list nat) | ObsErr (e : err) | ObsPanic | ObsOther.

Inductive opt_case :=
| OC (sch : schema) (tt : N) (T : nat) (stmts : list stmt) (strict lenient unlinked : obs).

Fixpoint remain_matches (stmts : list stmt) (idx : list nat) (rem : list stmt) : bool :=
  match idx, rem with
  | [], [] => true
  | i :: ir, st :: sr =>
    match nth_error stmts i with Some s => stmt_eqb s st | None => false end && remain_matches stmts ir sr
  | _, _ => false
  end.

Definition strict_matches (sch : schema) (T : nat) (stmts : list stmt) (r : res (mval * list stmt)) (o : obs) : bool :=
  match r, o with
  | Err EUnmodelled, _ => true
  | Err e, ObsErr e' => err_eqb e e'
  | Ok (m, rem), ObsOk tree idx => mval_eqb (wire sch T m) tree && remain_matches stmts idx rem
  | _, _ => false
  end.
Definition lenient_matches (sch : schema) (T : nat) (stmts : list stmt) (r : lres) (o : obs) : bool :=
  match r, o with
  | (m, rem, _), ObsOk tree idx => mval_eqb (wire sch T m) tree && remain_matches stmts idx rem
  | _, _ => false
  end.

Definition opt_chk (c : opt_case) : bool :=
  match c with
  | OC sch tg T stmts os ol ou =>
    strict_matches sch T stmts (interpret_strict sch tg T [] stmts) os
    && lenient_matches sch T stmts (interpret_lenient sch tg T [] stmts) ol
    && lenient_matches sch T stmts (interpret_unlinked sch tg T [] stmts) ou
  end.
(* the three modes one at a time, to name the function that disagrees *)
Definition opt_chk_strict (c : opt_case) : bool :=
  match c with OC sch tg T stmts os _ _ => strict_matches sch T stmts (interpret_strict sch tg T [] stmts) os end.
Definition opt_chk_lenient (c : opt_case) : bool :=
  match c with OC sch tg T stmts _ ol _ => lenient_matches sch T stmts (interpret_lenient sch tg T [] stmts) ol end.
Definition opt_chk_unlinked (c : opt_case) : bool :=
  match c with OC sch tg T stmts _ _ ou => lenient_matches sch T stmts (interpret_unlinked sch tg T [] stmts) ou end.

(* ------------------------------------------------------------------ statements that mention no extension *)
Definition lname_is_field (n : lname) : bool := match n with LField _ => true | LExt _ => false end.
Fixpoint value_ext_free (v : oval) : bool :=
  match v with
  | OMsg fs => forallb (fun p => lname_is_field (fst p) && value_ext_free (snd p)) fs
  | OList es => forallb value_ext_free es
  | _ => true
  end.
Definition npart_is_field (n : npart) : bool := match n with PField _ => true | PExt _ => false end.
Definition stmt_ext_free (st : stmt) : bool := forallb npart_is_field (sname st) && value_ext_free (svalue st).
(* every non-custom statement is free of extensions (custom ones start with one by definition) *)
Definition noncustom_ext_free (sts : list stmt) : bool := forallb (fun st => is_custom st || stmt_ext_free st) sts.

(* ------------------------------------------------------------------ the code before the repairs (historical) *)
(* before 307ffab4: a lenient option that reported an error was kept uninterpreted and whatever it had done to
   the options message stayed *)
Fixpoint pass_lenient_old (sch : schema) (tt : N) (custom : bool) (T : nat) (msg : mval) (uo : list stmt)
  : mval * list stmt :=
  match uo with
  | [] => (msg, [])
  | st :: r =>
    if negb (Bool.eqb (is_custom st) custom) then
      let '(m', rem) := pass_lenient_old sch tt custom T msg r in (m', st :: rem)
    else
      let '(m1, e) := interpret_field sch tt T msg (sname st) (svalue st) in
      let '(m', rem) := pass_lenient_old sch tt custom T m1 r in
      (m', match e with _ :: _ => st :: rem | [] => rem end)
  end.
Definition interpret_lenient_old (sch : schema) (tt : N) (T : nat) (m0 : mval) (stmts : list stmt) : mval * list stmt :=
  let '(m1, r1) := pass_lenient_old sch tt false T m0 stmts in pass_lenient_old sch tt true T m1 r1.
(* before bb1a10d1: scalarFieldValue compared the identifier with inf and nan as written *)
Definition float_ident_old (id : string) : option fl := float_word false true id.
(* before f7db43f0: the already-set test of setOptionField was Has alone, also outside message literals *)
Definition is_set_old (f : field) (m : mval) : bool := has f m.
