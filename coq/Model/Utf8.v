(* Model of the parts of Go's unicode/utf8 and unicode/utf16 that the position code relies on:
   utf8.DecodeRune (and therefore the runtime's string range loop, which decodes the same way),
   utf8.RuneStart, utf16.RuneLen.  Shared by Model/SourceFile.v (C32) and Model/FileInfo.v (C13).
   Definitions only; proofs are in Proofs/Utf8.v. *)
From Coq Require Import List NArith ZArith Bool.
Import ListNotations.
Open Scope N_scope.

Definition rune_error : N := 65533.   (* U+FFFD *)

(* utf8.first[] with acceptRanges[] folded in: what the first byte of a sequence announces *)
Inductive first_info :=
| FAscii                                (* as: 0x00..0x7F *)
| FInvalid                              (* xx: 0x80..0xC1, 0xF5..0xFF *)
| FLead (sz : nat) (lo hi : N).         (* size and the accepted range of the second byte *)

Definition first_byte (b : N) : first_info :=
  if b <? 128 then FAscii
  else if b <? 194 then FInvalid
  else if b <? 224 then FLead 2 128 191        (* s1: C2..DF *)
  else if b =? 224 then FLead 3 160 191        (* s2: E0 *)
  else if b <? 237 then FLead 3 128 191        (* s3: E1..EC *)
  else if b =? 237 then FLead 3 128 159        (* s4: ED *)
  else if b <? 240 then FLead 3 128 191        (* s3: EE..EF *)
  else if b =? 240 then FLead 4 144 191        (* s5: F0 *)
  else if b <? 244 then FLead 4 128 191        (* s6: F1..F3 *)
  else if b =? 244 then FLead 4 128 143        (* s7: F4 *)
  else FInvalid.

(* utf8.DecodeRune(p): (rune, size); same order of tests as the Go function.
   Empty input gives (RuneError, 0); every other failure gives (RuneError, 1). *)
Definition decode_rune (s : list N) : N * nat :=
  match s with
  | [] => (rune_error, 0%nat)
  | p0 :: _ =>
    match first_byte p0 with
    | FAscii => (p0, 1%nat)
    | FInvalid => (rune_error, 1%nat)
    | FLead sz lo hi =>
      if Nat.ltb (length s) sz then (rune_error, 1%nat)
      else
        let b1 := nth 1 s 0 in
        if (b1 <? lo) || (hi <? b1) then (rune_error, 1%nat)
        else if Nat.leb sz 2 then ((p0 mod 32) * 64 + b1 mod 64, 2%nat)
        else
          let b2 := nth 2 s 0 in
          if (b2 <? 128) || (191 <? b2) then (rune_error, 1%nat)
          else if Nat.leb sz 3 then ((p0 mod 16) * 4096 + (b1 mod 64) * 64 + b2 mod 64, 3%nat)
          else
            let b3 := nth 3 s 0 in
            if (b3 <? 128) || (191 <? b3) then (rune_error, 1%nat)
            else ((p0 mod 8) * 262144 + (b1 mod 64) * 4096 + (b2 mod 64) * 64 + b3 mod 64, 4%nat)
    end
  end.

Definition rune_size (s : list N) : nat := snd (decode_rune s).

(* for i, r := range s: the byte index and the rune of every iteration.  The loop decodes at
   index i and continues at i + size; here the size - 1 trailing bytes of a rune are skipped
   one by one so that the recursion is structural (no fuel).  [skip] = bytes still to skip,
   [pos] = index of the head of [s] in the original string. *)
Fixpoint range_from (s : list N) (skip pos : nat) : list (nat * N) :=
  match s with
  | [] => []
  | _ :: rest =>
    match skip with
    | S k => range_from rest k (S pos)
    | O => let '(r, sz) := decode_rune s in (pos, r) :: range_from rest (sz - 1) (S pos)
    end
  end.

Definition range (s : list N) : list (nat * N) := range_from s 0 0.

(* utf8.RuneStart(b) = b&0xC0 != 0x80 *)
Definition rune_start (b : N) : bool := negb ((128 <=? b) && (b <? 192)).

(* utf16.RuneLen(r) *)
Definition utf16_rune_len (r : N) : Z :=
  if (r <? 55296) || ((57344 <=? r) && (r <? 65536)) then 1%Z
  else if (65536 <=? r) && (r <=? 1114111) then 2%Z
  else (-1)%Z.

(* [k] is a character boundary of [s]: reachable from 0 by decoding rune after rune. For valid
   UTF-8 these are the usual character boundaries; for arbitrary bytes every undecodable byte
   is a character of width one, exactly as Go iterates over the string. *)
Inductive boundary : list N -> nat -> Prop :=
| boundary_0 s : boundary s 0
| boundary_step s k : s <> [] -> boundary (skipn (rune_size s) s) k -> boundary s (rune_size s + k).

(* the bytes are valid UTF-8: no iteration of the range loop yields a decoding error
   (a genuine U+FFFD, encoded EF BF BD, has size 3 and is fine) *)
Inductive valid_utf8 : list N -> Prop :=
| valid_nil : valid_utf8 []
| valid_step s : s <> [] -> ~ (fst (decode_rune s) = rune_error /\ rune_size s = 1%nat) ->
                 valid_utf8 (skipn (rune_size s) s) -> valid_utf8 s.
