(* Model of the experimental lexer (experimental/internal/lexer: loop.go, lexer.go, string.go,
   number.go as far as token boundaries go), of token.Stream.Push / token.Fuse as far as the
   stream layout goes (experimental/token/stream.go, raw.go, token.go), and of the verdict loop of
   parser.Parse (experimental/parser/parse.go) over the level order of experimental/report.

   The two repairs made to the lexer are switches of the [variant] record, so that the same
   definitions give the code of the working tree ([repaired]) and the code as it was in the pinned
   tree before the repairs ([as_is], about which the refutations are kept).

   Bytes are [N], runes are [Z] (the code uses -1 for: no rune here), offsets and lengths are [nat].
   Definitions only; proofs are in Proofs/XLexer.v. *)
From Coq Require Import List NArith ZArith Bool.
Import ListNotations.

(* ------------------------------------------------------------------------------------------ *)
(* UTF-8: utf8.DecodeRuneInString as wrapped by stringsx.Rune (failure = None), utf8.RuneLen   *)
(* ------------------------------------------------------------------------------------------ *)

Definition in_rng (lo hi b : N) : bool := (N.leb lo b) && (N.leb b hi).

(* the accepted range of the second byte, by first byte (utf8.first / acceptRanges) *)
Definition decode_rune (s : list N) : option (Z * nat) :=
  match s with
  | [] => None
  | b0 :: t =>
    if N.ltb b0 128 then Some (Z.of_N b0, 1)
    else if N.ltb b0 194 then None
    else if N.ltb b0 224 then
      match t with
      | b1 :: _ => if in_rng 128 191 b1 then Some (Z.of_N ((b0 - 192) * 64 + (b1 - 128)), 2) else None
      | _ => None
      end
    else if N.ltb b0 240 then
      match t with
      | b1 :: b2 :: _ =>
        let lo := if N.eqb b0 224 then 160%N else 128%N in
        let hi := if N.eqb b0 237 then 159%N else 191%N in
        if in_rng lo hi b1 && in_rng 128 191 b2
        then Some (Z.of_N ((b0 - 224) * 4096 + (b1 - 128) * 64 + (b2 - 128)), 3)
        else None
      | _ => None
      end
    else if N.ltb b0 245 then
      match t with
      | b1 :: b2 :: b3 :: _ =>
        let lo := if N.eqb b0 240 then 144%N else 128%N in
        let hi := if N.eqb b0 244 then 143%N else 191%N in
        if in_rng lo hi b1 && in_rng 128 191 b2 && in_rng 128 191 b3
        then Some (Z.of_N ((b0 - 240) * 262144 + (b1 - 128) * 4096 + (b2 - 128) * 64 + (b3 - 128)), 4)
        else None
      | _ => None
      end
    else None
  end.

(* utf8.RuneLen *)
Definition rune_len (r : Z) : Z :=
  if (r <? 0)%Z then (-1)%Z
  else if (r <=? 127)%Z then 1%Z
  else if (r <=? 2047)%Z then 2%Z
  else if ((55296 <=? r) && (r <=? 57343))%Z then (-1)%Z
  else if (r <=? 65535)%Z then 3%Z
  else if (r <=? 1114111)%Z then 4%Z
  else (-1)%Z.

(* utf8.ValidRune *)
Definition valid_rune (r : Z) : bool :=
  (((0 <=? r) && (r <? 55296)) || ((57343 <? r) && (r <=? 1114111)))%Z.

(* lexer.peek: -1 at the end of the text and where decoding fails *)
Definition peek (rest : list N) : Z :=
  match decode_rune rest with Some (r, _) => r | None => (-1)%Z end.

(* lexer.pop advances by utf8.RuneLen of the peeked rune unless it is -1 *)
Definition pop_len (rest : list N) : nat :=
  let r := peek rest in if (r =? -1)%Z then 0 else Z.to_nat (rune_len r).

(* stringsx.Rune(rest, n) as used with [next, _ :=]: 0 when out of bounds, -1 when undecodable *)
Definition rune_at (rest : list N) (n : nat) : Z :=
  match skipn n rest with [] => 0%Z | t => peek t end.

(* ------------------------------------------------------------------------------------------ *)
(* Configuration: keyword table with the OnKeyword action, rune classes, Lexer switches         *)
(* ------------------------------------------------------------------------------------------ *)

Record kwent := {
  k_id : N; k_str : list N; k_act : N; k_word : bool; k_brk : bool;
  k_left : N; k_right : N; k_fused : N }.

(* lexer.OnKeyword values *)
Definition A_Discard : N := 0.  Definition A_Hard : N := 1.  Definition A_Soft : N := 2.
Definition A_Bracket : N := 3.  Definition A_Line : N := 4.  Definition A_Block : N := 5.

(* token.Kind values *)
Definition K_Unrec : N := 0.   Definition K_Space : N := 1.  Definition K_Comment : N := 2.
Definition K_Ident : N := 3.   Definition K_String : N := 4. Definition K_Number : N := 5.
Definition K_Keyword : N := 6.

(* report.Level values *)
Definition L_ICE : Z := 1.  Definition L_Error : Z := 2.  Definition L_Warning : Z := 3.
Definition L_Remark : Z := 4.

Record cfg := {
  c_kws : list kwent;
  c_kw_dot : N; c_kw_newline : N; c_kw_parens : N;
  c_white : Z -> bool;      (* unicode.In(r, unicode.Pattern_White_Space) *)
  c_digit : Z -> bool;      (* unicode.IsDigit *)
  c_letter : Z -> bool;     (* unicode.IsLetter *)
  c_print : Z -> bool;      (* unicode.IsPrint *)
  c_xids : Z -> bool;       (* unicodex.IsXIDStart *)
  c_xidc : Z -> bool;       (* unicodex.IsXIDContinue *)
  c_dotnum : bool;          (* NumberCanStartWithDot *)
  c_asciiident : bool;      (* RequireASCIIIdent *)
  c_ext : bool; c_ask : bool; c_octal : bool; c_partialx : bool; c_upperx : bool; c_olduni : bool;
  c_emit_newline : bool;    (* EmitNewline != nil (the kind rewrite of newlines() is then not modelled) *)
  c_str_affix : list N -> bool;   (* IsAffix != nil && IsAffix(affix, token.String, false) *)
  c_maxsize : N }.          (* lexer.MaxFileSize *)

(* The two repairs of the lexer. *)
Record variant := {
  fix_flush : bool;    (* loop(): flush badBytes after the main loop *)
  fix_esc : bool }.    (* errtoken.InvalidEscape.Diagnose: return after the short-escape snippet *)
Definition as_is : variant := {| fix_flush := false; fix_esc := false |}.
Definition repaired : variant := {| fix_flush := true; fix_esc := true |}.

(* membership in a sorted list of inclusive ranges (unicode.RangeTable flattened) *)
Fixpoint in_ranges (tbl : list (Z * Z)) (r : Z) : bool :=
  match tbl with
  | [] => false
  | (lo, hi) :: t => if (r <? lo)%Z then false else if (r <=? hi)%Z then true else in_ranges t r
  end.

(* ------------------------------------------------------------------------------------------ *)
(* Small helpers on byte lists                                                                  *)
(* ------------------------------------------------------------------------------------------ *)

Fixpoint is_prefix (p s : list N) : bool :=
  match p with
  | [] => true
  | a :: p' => match s with b :: s' => N.eqb a b && is_prefix p' s' | [] => false end
  end.

(* strings.Index *)
Fixpoint index_of (needle hay : list N) : option nat :=
  if is_prefix needle hay then Some 0
  else match hay with
       | [] => None
       | _ :: t => match index_of needle t with Some i => Some (S i) | None => None end
       end.

Definition last_byte (s : list N) : option N :=
  match rev s with b :: _ => Some b | [] => None end.

Definition zb (b : N) : Z := Z.of_N b.

(* ------------------------------------------------------------------------------------------ *)
(* Diagnostics, tokens, lexer state                                                             *)
(* ------------------------------------------------------------------------------------------ *)

Inductive dclass :=
| DUnrecognized | DUntermString | DNulInString | DNewlineInString | DNonPrintInString
| DInvalidEscape | DUnmatched | DNonAsciiIdent | DIncompatPrefix
| DTooLarge | DUtf16 | DBadUtf8 | DBinary | DIcePanic.

Record diag := { d_level : Z; d_class : dclass; d_spans : list (nat * nat) }.
Definition mkd (l : Z) (c : dclass) (sp : list (nat * nat)) : diag :=
  {| d_level := l; d_class := c; d_spans := sp |}.

(* a natural token as token.Stream stores it: kind, END offset (the start is the end of the
   previous one), keyword, offset to the matching open/close (0 = leaf), and, for strings,
   whether metadata exists and the sigil length recorded in it *)
Record tok := { tk_kind : N; tk_end : nat; tk_kw : N; tk_off : Z; tk_meta : option nat }.

(* a bracket token remembered in l.braces: id, keyword, span at the time it was pushed *)
Record brace := { b_id : nat; b_kw : N; b_sp : nat * nat }.

Record lstate := {
  toks : list tok;         (* newest first *)
  diags : list diag;       (* newest first *)
  braces : list brace;     (* newest first *)
  bad : Z;                 (* l.badBytes *)
  ovf : bool }.            (* Stream.Push would have panicked: end > len(text) *)

Definition stream_end (st : lstate) : nat :=
  match toks st with [] => 0 | t :: _ => tk_end t end.

(* Stream.PushKeyword *)
Definition raw_push (tl len : nat) (kind kw : N) (meta : option nat) (st : lstate) : lstate :=
  let e := stream_end st + len in
  {| toks := {| tk_kind := kind; tk_end := e; tk_kw := kw; tk_off := 0; tk_meta := meta |} :: toks st;
     diags := diags st; braces := braces st; bad := bad st;
     ovf := ovf st || Nat.ltb tl e |}.

Definition add_diag (d : diag) (st : lstate) : lstate :=
  {| toks := toks st; diags := d :: diags st; braces := braces st; bad := bad st; ovf := ovf st |}.

(* the first half of lexer.keyword: a pending run of unrecognised bytes becomes a token + error *)
Definition flush (tl : nat) (st : lstate) : lstate :=
  if (0 <? bad st)%Z then
    let a := stream_end st in
    let st1 := raw_push tl (Z.to_nat (bad st)) K_Unrec 0 None st in
    let st2 := {| toks := toks st1; diags := diags st1; braces := braces st1; bad := 0%Z; ovf := ovf st1 |} in
    add_diag (mkd L_Error DUnrecognized [(a, stream_end st2)]) st2
  else st.

(* What one iteration of the main loop does, in order. *)
Inductive act :=
| APush (len : nat) (kind kw : N) (meta : option nat) (isbrace : bool)
        (tdiags : list (Z * dclass * nat))     (* diagnostics whose snippets are n copies of the span of this token *)
| ABad (n : Z)                                 (* l.badBytes += n *)
| ADiag (d : diag).

Definition apply_act (tl : nat) (a : act) (st : lstate) : lstate :=
  match a with
  | APush len kind kw meta isbrace tdiags =>
    let st1 := flush tl st in
    let a0 := stream_end st1 in
    let st2 := raw_push tl len kind kw meta st1 in
    let sp := (a0, stream_end st2) in
    let st3 := if isbrace
               then {| toks := toks st2; diags := diags st2;
                       braces := {| b_id := length (toks st2); b_kw := kw; b_sp := sp |} :: braces st2;
                       bad := bad st2; ovf := ovf st2 |}
               else st2 in
    fold_left (fun s '(lv, cl, n) => add_diag (mkd lv cl (repeat sp n)) s) tdiags st3
  | ABad n =>
    {| toks := toks st; diags := diags st; braces := braces st; bad := (bad st + n)%Z; ovf := ovf st |}
  | ADiag d => add_diag d st
  end.

Definition apply_acts (tl : nat) (acts : list act) (st : lstate) : lstate :=
  fold_left (fun s a => apply_act tl a s) acts st.

(* ------------------------------------------------------------------------------------------ *)
(* A rune-stepping loop: [for !l.done() { body }] where the body either advances or breaks      *)
(* ------------------------------------------------------------------------------------------ *)

Inductive lstep (S : Type) := Adv (st : S) (n : nat) | Brk (st : S) (n : nat).
Arguments Adv {S}. Arguments Brk {S}.

Fixpoint rloop {S : Type} (body : S -> list N -> lstep S) (fuel : nat) (st : S) (rest : list N)
  {struct fuel} : option (S * nat) :=
  match rest with
  | [] => Some (st, 0)
  | _ :: _ =>
    match fuel with
    | O => None
    | S k =>
      match body st rest with
      | Brk st' n => Some (st', n)
      | Adv st' n =>
        match rloop body k st' (skipn n rest) with
        | Some (st'', m) => Some (st'', n + m)
        | None => None
        end
      end
    end
  end.

(* lexer.takeWhile *)
Definition tw_body (f : Z -> bool) (_ : unit) (rest : list N) : lstep unit :=
  let r := peek rest in
  if (r =? -1)%Z || negb (f r) then Brk tt 0 else Adv tt (pop_len rest).

Definition take_while (f : Z -> bool) (rest : list N) : option nat :=
  match rloop (tw_body f) (length rest) tt rest with Some (_, n) => Some n | None => None end.

(* ------------------------------------------------------------------------------------------ *)
(* Section over a fixed configuration and variant                                               *)
(* ------------------------------------------------------------------------------------------ *)
Section Lexer.
Variable C : cfg.
Variable V : variant.

(* keyword.Brackets / Keyword.String through the table *)
Definition kw_find (id : N) : option kwent := find (fun k => N.eqb (k_id k) id) (c_kws C).
Definition kw_left (id : N) : N := match kw_find id with Some k => k_left k | None => 0%N end.
Definition kw_right (id : N) : N := match kw_find id with Some k => k_right k | None => 0%N end.
Definition kw_fused (id : N) : N := match kw_find id with Some k => k_fused k | None => 0%N end.
Definition kw_string (id : N) : list N := match kw_find id with Some k => k_str k | None => [] end.

(* [for k := range keyword.Prefixes(rest)]: the prefixes come in ascending length and the last one
   that OnKeyword does not discard wins; the paired-bracket keywords are not in the trie *)
Definition kw_select (rest : list N) : option kwent :=
  fold_left (fun best k =>
    if negb (k_brk k) && is_prefix (k_str k) rest && negb (N.eqb (k_act k) A_Discard)
    then match best with
         | Some b => if Nat.ltb (length (k_str b)) (length (k_str k)) then Some k else best
         | None => Some k
         end
    else best) (c_kws C) None.

Definition nl_push : act :=
  if c_emit_newline C then APush 1 K_Keyword (c_kw_newline C) None false []
  else APush 1 K_Space 0 None false [].

(* the strings.Cut loop over the consumed whitespace: runs between newlines and the newlines *)
Fixpoint chop (ws : list N) (run : nat) : list act :=
  match ws with
  | [] => if Nat.eqb run 0 then [] else [APush run K_Space 0 None false []]
  | b :: t =>
    if N.eqb b 10
    then (if Nat.eqb run 0 then [] else [APush run K_Space 0 None false []]) ++ nl_push :: chop t 0
    else chop t (S run)
  end.

(* --- numbers: lexRawNumber (token boundary only) --- *)
Definition num_body (_ : unit) (rest : list N) : lstep unit :=
  let r := peek rest in
  if (r =? 101)%Z || (r =? 69)%Z then
    let r2 := peek (skipn 1 rest) in
    if (r2 =? 43)%Z || (r2 =? 45)%Z then Adv tt 2 else Adv tt 1
  else if (r =? 46)%Z || c_digit C r || c_letter C r || (r =? 95)%Z then Adv tt (pop_len rest)
  else Brk tt 0.

Definition raw_number (rest : list N) : option nat :=
  match rloop num_body (length rest) tt rest with Some (_, n) => Some n | None => None end.

(* --- identifiers: takeWhile(IsXIDContinue) and TrimRightFunc(!IsPrint) in one pass:
       state = (bytes consumed so far, end of the last printable rune) --- *)
Definition id_body (st : nat * nat) (rest : list N) : lstep (nat * nat) :=
  let r := peek rest in
  if (r =? -1)%Z || negb (c_xidc C r) then Brk st 0
  else let w := pop_len rest in
       Adv (fst st + w, if c_print C r then fst st + w else snd st) w.

Definition raw_ident (rest : list N) : option (nat * nat) :=
  match rloop id_body (length rest) (0, 0) rest with Some (st, n) => Some (n, snd st) | None => None end.

(* unicodex.IsASCIIIdent *)
Fixpoint ascii_ident_from (first : bool) (s : list N) : bool :=
  match s with
  | [] => true
  | b :: t =>
    (in_rng 97 122 b || in_rng 65 90 b || (in_rng 48 57 b && negb first) || N.eqb b 95)
    && ascii_ident_from false t
  end.
Definition is_ascii_ident (s : list N) : bool :=
  match s with [] => false | _ => ascii_ident_from true s end.

(* --- strings: lexString / lexStringContent (boundary, diagnostics, has-escape flag) --- *)
Definition is_octal_b (b : N) : bool := in_rng 48 55 b.
Definition is_hex_b (b : N) : bool := in_rng 48 57 b || in_rng 97 102 b || in_rng 65 70 b.
Definition hex_val_b (b : N) : Z :=
  if in_rng 48 57 b then zb b - 48 else if in_rng 97 102 b then zb b - 87 else zb b - 55.

(* [for i := 0; i < k && !l.done(); i++ { if !digit(peek) break; pop }] : number of digits taken *)
Fixpoint take_digits (isd : N -> bool) (k : nat) (rest : list N) : nat :=
  match k with
  | O => O
  | S k' => match rest with b :: t => if isd b then S (take_digits isd k' t) else O | [] => O end
  end.

Definition hex_value (ds : list N) : Z := fold_left (fun a b => (a * 16 + hex_val_b b)%Z) ds 0%Z.

(* errtoken.InvalidEscape.Diagnose on an escape occupying [a, a+len) with bytes [text]:
   (snippets, panicked).  As written, a one-byte escape falls through to text[1]. *)
Definition invalid_escape_diag (a : nat) (text : list N) : diag * bool :=
  let sp := (a, a + length text) in
  if Nat.ltb (length text) 2 then (mkd L_Error DInvalidEscape [sp], negb (fix_esc V))
  else
    let c := nth 1 text 0%N in
    if N.eqb c 120 || N.eqb c 88 then
      (mkd L_Error DInvalidEscape (if Nat.ltb (length text) 3 then [sp] else []), false)
    else if N.eqb c 117 || N.eqb c 85 then
      let expected := if N.eqb c 85 then 8 else 4 in
      if negb (Nat.eqb (length text - 2) expected) then (mkd L_Error DInvalidEscape [sp], false)
      else if negb (valid_rune (hex_value (skipn 2 text))) then (mkd L_Error DInvalidEscape [sp], false)
      else (mkd L_Error DInvalidEscape [], false)
    else (mkd L_Error DInvalidEscape [sp], false).

(* unicodex.NonPrint *)
Definition non_print (r : Z) : bool :=
  negb ((r =? 32)%Z || (r =? 13)%Z || (r =? 9)%Z || (r =? 10)%Z) && negb (c_print C r).

(* the diagnostics lexStringContent issues about the rune [r] it popped (n0 bytes at offset p) *)
Definition content_pre (p n0 : nat) (r : Z) : list diag :=
  let sp0 := (p, p + n0) in
  if (r =? 0)%Z then [mkd L_Error DNulInString [sp0; sp0]]
  else if (r =? 10)%Z then [mkd L_Error DNewlineInString [sp0]]
  else if non_print r then [mkd L_Warning DNonPrintInString [sp0; sp0]]
  else [].

(* the escSwitch of lexStringContent on the text after the backslash: bytes consumed after the
   backslash, and whether the escape is accepted *)
Inductive esc_res := EOk (m : nat) | EInvalid (m : nat).

Definition escape_scan (rest1 : list N) : esc_res :=
  let r2 := peek rest1 in
  let n1 := pop_len rest1 in
  let rest2 := skipn n1 rest1 in
  if (r2 =? 110)%Z || (r2 =? 114)%Z || (r2 =? 116)%Z || (r2 =? 92)%Z || (r2 =? 39)%Z || (r2 =? 34)%Z
  then EOk n1
  else if (r2 =? 97)%Z || (r2 =? 98)%Z || (r2 =? 102)%Z || (r2 =? 118)%Z
  then (if c_ext C then EOk n1 else EInvalid n1)
  else if (r2 =? 63)%Z
  then (if c_ask C then EOk n1 else EInvalid n1)
  else if ((48 <=? r2) && (r2 <=? 55))%Z
  then (if negb (c_octal C)
        then (if (r2 =? 48)%Z then EOk n1 else EInvalid n1)
        else EOk (n1 + take_digits is_octal_b 2 rest2))
  else if (r2 =? 120)%Z || (r2 =? 88)%Z || (r2 =? 117)%Z || (r2 =? 85)%Z
  then
    if ((r2 =? 88)%Z && negb (c_upperx C)) || (((r2 =? 117)%Z || (r2 =? 85)%Z) && negb (c_olduni C))
    then EInvalid n1
    else
      let rawbyte := (r2 =? 120)%Z || (r2 =? 88)%Z in
      let digits := if rawbyte then 2 else if (r2 =? 117)%Z then 4 else 8 in
      let consumed := take_digits is_hex_b digits rest2 in
      let value := hex_value (firstn consumed rest2) in
      if Nat.eqb consumed 0 then EInvalid (n1 + consumed)
      else if negb (c_partialx C) || negb rawbyte
      then (if negb (Nat.eqb consumed digits) || negb (valid_rune value)
            then EInvalid (n1 + consumed) else EOk (n1 + consumed))
      else EOk (n1 + consumed)
  else EInvalid n1.

(* lexStringContent at absolute offset [p] on the non-empty [rest]:
   (bytes consumed, diagnostics in order, saw an escape, panicked) *)
Definition string_content (p : nat) (rest : list N) : nat * list diag * bool * bool :=
  let r := peek rest in
  let n0 := pop_len rest in
  let pre := content_pre p n0 r in
  if negb (r =? 92)%Z then (n0, pre, false, false)
  else
    match escape_scan (skipn n0 rest) with
    | EOk m => (n0 + m, pre, true, false)
    | EInvalid m =>
      let '(d, pn) := invalid_escape_diag p (firstn (n0 + m) rest) in (n0 + m, pre ++ [d], true, pn)
    end.

Record sstate := { sb_pos : nat; sb_diags : list diag; sb_esc : bool; sb_term : bool; sb_panic : bool }.

Definition str_body (quote : list N) (st : sstate) (rest : list N) : lstep sstate :=
  if is_prefix quote rest
  then Brk {| sb_pos := sb_pos st + length quote; sb_diags := sb_diags st; sb_esc := sb_esc st;
              sb_term := true; sb_panic := false |} (length quote)
  else
    let '(n, ds, esc, pn) := string_content (sb_pos st) rest in
    let st' := {| sb_pos := sb_pos st + n; sb_diags := sb_diags st ++ ds; sb_esc := sb_esc st || esc;
                  sb_term := false; sb_panic := pn |} in
    if pn then Brk st' n else Adv st' n.

(* what lexString does from the position [cur] on [rest] with a sigil of [sigil] bytes:
   (actions, bytes consumed, panicked) *)
Definition lex_string (cur : nat) (rest : list N) (sigil : nat) : option (list act * nat * bool) :=
  let r0 := skipn sigil rest in
  let q := nth 0 r0 0%N in
  let quote := if Nat.leb 3 (length r0) && N.eqb (nth 1 r0 0%N) q && N.eqb (nth 2 r0 0%N) q
               then [q; q; q] else [q] in
  let hd := sigil + length quote in
  let st0 := {| sb_pos := cur + hd; sb_diags := []; sb_esc := false; sb_term := false; sb_panic := false |} in
  match rloop (str_body quote) (length (skipn hd rest)) st0 (skipn hd rest) with
  | None => None
  | Some (st, n) =>
    let total := hd + n in
    let dacts := map ADiag (sb_diags st) in
    if sb_panic st then Some (dacts, total, true)
    else
      let text := firstn total rest in
      let meta := if sb_esc st || negb (Nat.eqb sigil 0) || Nat.ltb 1 (length quote)
                  then Some sigil else None in
      let td :=
        if sb_term st then []
        else
          let ends_q := match last_byte text with Some b => N.eqb b q | None => false end in
          [(L_Error, DUntermString,
            if negb (Nat.eqb total 1) && ends_q && Nat.eqb (length quote) 1 then 2 else 1)] in
      Some (dacts ++ [APush total K_String 0 meta false td], total, false)
  end.

(* errtoken.Unmatched.Diagnose: the snippets *)
Definition unmatched_spans (kw : N) (sp : nat * nat) (extra : list (nat * nat)) : list (nat * nat) :=
  if N.eqb kw (kw_left kw) then sp :: extra else [sp].

(* --- one iteration of the main loop, after mp.check(), at offset [cur] on the non-empty [rest]:
       (actions in order, bytes the cursor advanced, panicked) --- *)

(* the part after the keyword switch: r := l.pop() ... *)
Definition step_rune (cur : nat) (rest : list N) : option (list act * nat * bool) :=
  let r := peek rest in
  if (r =? 34)%Z || (r =? 39)%Z then lex_string cur rest 0
  else if (c_dotnum C && (r =? 46)%Z) || c_digit C r then
    match raw_number rest with
    | Some n => Some ([APush n K_Number 0 None false []], n, false)
    | None => None
    end
  else if c_xids C r then
    match raw_ident rest with
    | None => None
    | Some (raw, idl) =>
      if Nat.eqb idl 0
      then Some ([APush raw K_Unrec 0 None false [(L_Error, DUnrecognized, 1)]], raw, false)
      else
        let next := peek (skipn raw rest) in
        if (next =? 34)%Z || ((next =? 39)%Z && c_str_affix C (firstn raw rest))
        then lex_string cur rest raw
        else
          let td := if c_asciiident C && negb (is_ascii_ident (firstn idl rest))
                    then [(L_Error, DNonAsciiIdent, 1)] else [] in
          Some ([APush idl K_Ident 0 None false td], idl, false)
    end
  else Some ([ABad (rune_len r)], pop_len rest, false).

(* the keyword search and the switch on the action *)
Definition step_main (cur : nat) (rest : list N) : option (list act * nat * bool) :=
  match kw_select rest with
  | None => step_rune cur rest
  | Some k =>
    let what := k_act k in
    let word := k_str k in
    let wl := length word in
    if N.eqb what A_Soft || N.eqb what A_Hard || N.eqb what A_Bracket then
      if c_dotnum C && N.eqb (k_id k) (c_kw_dot C) && c_digit C (rune_at rest wl)
      then step_rune cur rest
      else if k_word k && c_xidc C (rune_at rest wl)
      then step_rune cur rest
      else
        let kind := if k_word k && N.eqb what A_Soft then K_Ident else K_Keyword in
        Some ([APush wl kind (k_id k) None (N.eqb what A_Bracket) []], wl, false)
    else if N.eqb what A_Line then
      let rest2 := skipn wl rest in
      let text := match index_of [10%N] rest2 with
                  | Some i => firstn (i + 1) rest2
                  | None => rest2
                  end in
      let newline := match last_byte text with Some b => N.eqb b 10 | None => false end in
      let tlen := if newline then length text - 1 else length text in
      Some (APush (wl + tlen) K_Comment (k_id k) None false [] :: (if newline then [nl_push] else []),
            wl + length text, false)
    else if N.eqb what A_Block then
      let endk := kw_right (k_id k) in
      let fused := kw_fused (k_id k) in
      if N.eqb (k_id k) endk then
        Some ([APush (length (kw_string endk)) K_Unrec 0 None false [(L_Error, DUnmatched, 1)]], wl, false)
      else
        let rest2 := skipn wl rest in
        let needle := kw_string endk in
        match index_of needle rest2 with
        | Some i =>
          let tl := i + length needle in
          Some ([APush (wl + tl) K_Comment fused None false []], wl + tl, false)
        | None =>
          Some ([ADiag (mkd L_Error DUnmatched (unmatched_spans (k_id k) (cur, cur + wl) []));
                 APush (wl + length rest2) K_Comment fused None false []], wl + length rest2, false)
        end
    else step_rune cur rest
  end.

Definition step (cur : nat) (rest : list N) : option (list act * nat * bool) :=
  if c_white C (peek rest) then
    match take_while (c_white C) rest with
    | None => None
    | Some ws =>
      match step_main (cur + ws) (skipn ws rest) with
      | None => None
      | Some (acts, n, pn) => Some (chop (firstn ws rest) 0 ++ acts, ws + n, pn)
      end
    end
  else step_main cur rest.

(* --- the main loop --- *)
Inductive lres :=
| LDone (st : lstate)
| LICE (cur : nat) (st : lstate)     (* a panic caught by CatchICE, cursor at that moment *)
| LFuel.

Fixpoint loop (tl : nat) (fuel : nat) (cur : nat) (rest : list N) (prev : option nat) (st : lstate)
  {struct fuel} : lres :=
  match rest with
  | [] => LDone st
  | _ :: _ =>
    match fuel with
    | O => LFuel
    | S f =>
      (* mp.check() *)
      if (match prev with Some p => Nat.eqb p cur | None => false end) || ovf st then LICE cur st
      else
        match step cur rest with
        | None => LFuel
        | Some (acts, n, pn) =>
          let st' := apply_acts tl acts st in
          if pn then LICE (cur + n) st'
          else loop tl f (cur + n) (skipn n rest) (Some cur) st'
        end
    end
  end.

(* --- fuseBraces --- *)
Definition unmatched (kw : N) (sp : nat * nat) (extra : list (nat * nat)) : diag :=
  mkd L_Error DUnmatched (unmatched_spans kw sp extra).

(* bs: remaining l.braces in order; opens: stack, top first; result: (opens, fuse pairs newest first,
   diagnostics newest first) *)
Fixpoint fuse_loop (bs : list brace) (opens : list brace) (fz : list (nat * nat)) (ds : list diag)
  : list brace * list (nat * nat) * list diag :=
  match bs with
  | [] => (opens, fz, ds)
  | t2 :: rest =>
    let open := kw_left (b_kw t2) in
    if N.eqb (b_kw t2) open then fuse_loop rest (t2 :: opens) fz ds
    else
      match opens with
      | [] => fuse_loop rest opens fz (unmatched (b_kw t2) (b_sp t2) [] :: ds)
      | t1 :: opens1 =>
        if N.eqb (b_kw t1) open then fuse_loop rest opens1 ((b_id t1, b_id t2) :: fz) ds
        else
          match opens1 with
          | t0 :: opens2 =>
            let leftMatch := N.eqb (b_kw t0) open in
            match rest with
            | t3 :: rest' =>
              let nextOpen := kw_left (b_kw t3) in
              let rightMatch := negb (N.eqb (b_kw t3) nextOpen) && N.eqb (b_kw t1) nextOpen in
              if leftMatch && rightMatch then
                fuse_loop rest' opens2 ((b_id t0, b_id t2) :: fz)
                          (unmatched (b_kw t1) (b_sp t1) [b_sp t2; b_sp t3] :: ds)
              else if leftMatch then
                fuse_loop rest opens2 ((b_id t0, b_id t2) :: fz) (unmatched (b_kw t1) (b_sp t1) [] :: ds)
              else if rightMatch then
                fuse_loop rest' opens1 ((b_id t1, b_id t3) :: fz)
                          (unmatched (b_kw t1) (b_sp t1) [b_sp t2; b_sp t3] :: ds)
              else fuse_loop rest opens fz (unmatched (b_kw t2) (b_sp t2) [] :: ds)
            | [] =>
              if leftMatch then
                fuse_loop rest opens2 ((b_id t0, b_id t2) :: fz) (unmatched (b_kw t1) (b_sp t1) [] :: ds)
              else fuse_loop rest opens fz (unmatched (b_kw t2) (b_sp t2) [] :: ds)
            end
          | [] =>
            (* t0 is the zero token: leftMatch is false (its keyword is Unknown) *)
            match rest with
            | t3 :: rest' =>
              let nextOpen := kw_left (b_kw t3) in
              let rightMatch := negb (N.eqb (b_kw t3) nextOpen) && N.eqb (b_kw t1) nextOpen in
              if rightMatch then
                fuse_loop rest' opens1 ((b_id t1, b_id t3) :: fz)
                          (unmatched (b_kw t1) (b_sp t1) [b_sp t2; b_sp t3] :: ds)
              else fuse_loop rest opens fz (unmatched (b_kw t2) (b_sp t2) [] :: ds)
            | [] => fuse_loop rest opens fz (unmatched (b_kw t2) (b_sp t2) [] :: ds)
            end
          end
      end
  end.

(* [for _, open := range slices.Backward(opens)]: an empty token to fuse with each unclosed open *)
Fixpoint close_opens (tl : nat) (opens : list brace) (st : lstate) (fz : list (nat * nat))
  : lstate * list (nat * nat) :=
  match opens with
  | [] => (st, fz)
  | o :: r =>
    let st1 := apply_act tl (APush 0 K_Unrec 0 None false []) st in
    close_opens tl r st1 ((b_id o, length (toks st1)) :: fz)
  end.

Definition fuse_braces (tl : nat) (st : lstate) : lstate * list (nat * nat) :=
  let '(opens, fz, ds) := fuse_loop (rev (braces st)) [] [] [] in
  let st1 := {| toks := toks st; diags := ds ++ diags st; braces := braces st; bad := bad st; ovf := ovf st |} in
  let st2 := fold_left (fun s o => add_diag (unmatched (b_kw o) (b_sp o) []) s) (rev opens) st1 in
  close_opens tl opens st2 fz.

(* --- fuseStrings: over the tokens in order with their ids and start offsets --- *)
Record itok := { it_id : nat; it_start : nat; it_tok : tok }.

Fixpoint index_toks (ts : list tok) (id start : nat) : list itok :=
  match ts with
  | [] => []
  | t :: r => {| it_id := id; it_start := start; it_tok := t |} :: index_toks r (S id) (tk_end t)
  end.

Definition sub (s : list N) (a b : nat) : list N := firstn (b - a) (skipn a s).

(* StringToken.Prefix: None = the zero span *)
Definition prefix_span (t : itok) : option (nat * nat) :=
  match tk_meta (it_tok t) with
  | None => None
  | Some sg => Some (it_start t, it_start t + sg)
  end.

Definition span_text (s : list N) (sp : option (nat * nat)) : list N :=
  match sp with Some (a, b) => sub s a b | None => [] end.

Definition concat_pair (se : option (itok * itok)) (fz : list (nat * nat)) : list (nat * nat) :=
  match se with
  | Some (a, b) => if Nat.eqb (it_id a) (it_id b) then fz else (it_id a, it_id b) :: fz
  | None => fz
  end.

Fixpoint fuse_strings_loop (s : list N) (ts : list itok) (se : option (itok * itok))
  (fz : list (nat * nat)) (ds : list diag) : list (nat * nat) * list diag :=
  match ts with
  | [] => (concat_pair se fz, ds)
  | t :: r =>
    let k := tk_kind (it_tok t) in
    if N.eqb k K_Space || N.eqb k K_Comment then fuse_strings_loop s r se fz ds
    else if N.eqb k K_String then
      match se with
      | None => fuse_strings_loop s r (Some (t, t)) fz ds
      | Some (st, _) =>
        let overall := prefix_span st in
        let prefix := prefix_span t in
        let ds' :=
          match prefix with
          | Some psp =>
            if list_eq_dec N.eq_dec (span_text s overall) (span_text s prefix) then ds
            else mkd L_Error DIncompatPrefix
                     (psp :: match overall with Some o => [o] | None => [] end) :: ds
          | None => ds
          end in
        fuse_strings_loop s r (Some (st, t)) fz ds'
      end
    else fuse_strings_loop s r None (concat_pair se fz) ds
  end.

(* token.Fuse on the stored tokens: offsets of the two ends *)
Definition apply_fuse (pairs : list (nat * nat)) (id : nat) (t : tok) : tok :=
  fold_left (fun t '(a, b) =>
    if Nat.eqb id a then {| tk_kind := tk_kind t; tk_end := tk_end t; tk_kw := tk_kw t;
                            tk_off := (Z.of_nat b - Z.of_nat a)%Z; tk_meta := tk_meta t |}
    else if Nat.eqb id b then {| tk_kind := tk_kind t; tk_end := tk_end t; tk_kw := tk_kw t;
                                 tk_off := (Z.of_nat a - Z.of_nat b)%Z; tk_meta := tk_meta t |}
    else t) pairs t.

(* nat.Keyword() as observed after fusion *)
Definition obs_kw (t : tok) : N :=
  let k := tk_kind t in
  if negb (N.eqb k K_Ident || N.eqb k K_Keyword || N.eqb k K_Comment) then 0%N
  else if (tk_off t =? 0)%Z then tk_kw t
  else if negb (N.eqb k K_Keyword) then 0%N
  else
    let v := (Z.of_N (kw_fused (tk_kw t)) - Z.of_N (c_kw_parens C))%Z in
    (c_kw_parens C + (if ((0 <=? v) && (v <? 4))%Z then Z.to_N v else 0))%N.

(* the stream as a client sees it *)
Record otok := { o_kind : N; o_start : nat; o_end : nat; o_kw : N; o_off : Z }.

Definition view (pairs : list (nat * nat)) (ts : list itok) : list otok :=
  map (fun it =>
    let t := apply_fuse pairs (it_id it) (it_tok it) in
    {| o_kind := tk_kind t; o_start := it_start it; o_end := tk_end t; o_kw := obs_kw t; o_off := tk_off t |}) ts.

(* --- lexPrelude --- *)
Definition inv_body (st : nat * nat * nat) (rest : list N) : lstep (nat * nat * nat) :=
  let '(pos, cnt, idx) := st in
  match decode_rune rest with
  | Some (_, w) => Adv (pos + w, cnt, idx) w
  | None => Adv (pos + 1, S cnt, if Nat.eqb cnt 0 then pos else idx) 1
  end.

(* (number of undecodable bytes, offset of the first) *)
Definition count_invalid (s : list N) : option (nat * nat) :=
  match rloop inv_body (length s) (0, 0, 0) s with
  | Some (_, cnt, idx, _) => Some (cnt, idx)
  | None => None
  end.

Inductive pre_res := PreOk (bom : bool) | PreReject (d : diag) | PreFuel.

Definition prelude (s : list N) : pre_res :=
  match s with
  | [] => PreOk false
  | _ =>
    if N.ltb (c_maxsize C) (N.of_nat (length s)) then PreReject (mkd L_Error DTooLarge [])
    else
      let bom16 := is_prefix [254%N; 255%N] s || is_prefix [255%N; 254%N] s in
      let ascii16 := Nat.leb 2 (length s) && (N.eqb (nth 0 s 1%N) 0 || N.eqb (nth 1 s 1%N) 0) in
      if bom16 || ascii16 then PreReject (mkd L_Error DUtf16 [])
      else
        match count_invalid s with
        | None => PreFuel
        | Some (cnt, idx) =>
          if Nat.eqb cnt 0 then PreOk (peek s =? 65279)%Z
          else if Nat.ltb (cnt * 5) (length s) then PreReject (mkd L_Error DBadUtf8 [(idx, idx + 1)])
          else PreReject (mkd L_Error DBinary [])
        end
  end.

(* --- the whole of lexer.Lex --- *)
Inductive xres :=
| XReject (d : diag)                          (* the prelude declined: one diagnostic, empty stream *)
| XDone (ts : list otok) (ds : list diag)
| XICE (ts : list otok) (ds : list diag)      (* a panic was turned into an ICE diagnostic; stream as it was *)
| XFuel.

Definition st0 : lstate := {| toks := []; diags := []; braces := []; bad := 0%Z; ovf := false |}.

Definition finish (s : list N) (st : lstate) : list otok * list diag :=
  let tl := length s in
  let st1 := if fix_flush V then flush tl st else st in
  let '(st2, fz) := fuse_braces tl st1 in
  let its := index_toks (rev (toks st2)) 1 0 in
  let '(fz2, ds) := fuse_strings_loop s its None fz [] in
  (view fz2 its, rev (ds ++ diags st2)).

Definition xlex (s : list N) : xres :=
  match prelude s with
  | PreFuel => XFuel
  | PreReject d => XReject d
  | PreOk bom =>
    let tl := length s in
    let st := if bom then raw_push tl 3 K_Unrec 0 None st0 else st0 in
    let cur := if bom then 3 else 0 in
    match loop tl (S tl) cur (skipn cur s) None st with
    | LFuel => XFuel
    | LICE c st' =>
      XICE (view [] (index_toks (rev (toks st')) 1 0))
           (rev (mkd L_ICE DIcePanic [(c, c)] :: diags st'))
    | LDone st' =>
      if ovf st' then
        XICE (view [] (index_toks (rev (toks st')) 1 0))
             (rev (mkd L_ICE DIcePanic [(tl, tl)] :: diags st'))
      else let '(ts, ds) := finish s st' in XDone ts ds
    end
  end.

(* observables used by the exact statements of where tiling fails *)
Definition final_state (s : list N) : option lstate :=
  match prelude s with
  | PreOk bom =>
    let tl := length s in
    let st := if bom then raw_push tl 3 K_Unrec 0 None st0 else st0 in
    let cur := if bom then 3 else 0 in
    match loop tl (S tl) cur (skipn cur s) None st with
    | LDone st' => Some st'
    | _ => None
    end
  | _ => None
  end.

Definition unclosed (st : lstate) : list brace :=
  let '(opens, _, _) := fuse_loop (rev (braces st)) [] [] [] in opens.

End Lexer.

(* ------------------------------------------------------------------------------------------ *)
(* parser.Parse: the verdict loop, as written and as repaired                                   *)
(* ------------------------------------------------------------------------------------------ *)

(* ok = true; for d in new diagnostics: if d.Level() >= report.Error { ok = false; break } *)
Definition verdict_as_is (levels : list Z) : bool :=
  negb (existsb (fun l => (L_Error <=? l)%Z) levels).

(* the repair: d.Level() <= report.Error *)
Definition verdict_repaired (levels : list Z) : bool :=
  negb (existsb (fun l => (l <=? L_Error)%Z) levels).

(* the property's reading: no diagnostic of level Error or worse (ICE < Error < Warning < Remark) *)
Definition error_or_worse (l : Z) : Prop := l = L_ICE \/ l = L_Error.

(* ------------------------------------------------------------------------------------------ *)
(* What the properties talk about                                                               *)
(* ------------------------------------------------------------------------------------------ *)

Definition text_of (s : list N) (t : otok) : list N := sub s (o_start t) (o_end t).

Fixpoint contiguous_from (p : nat) (ts : list otok) : Prop :=
  match ts with
  | [] => True
  | t :: r => o_start t = p /\ o_start t <= o_end t /\ contiguous_from (o_end t) r
  end.
Definition contiguous (ts : list otok) : Prop := contiguous_from 0 ts.

Definition span_in (n : nat) (sp : nat * nat) : Prop := fst sp <= snd sp /\ snd sp <= n.
Definition diag_in (n : nat) (d : diag) : Prop := Forall (span_in n) (d_spans d).
